import PolyVerif.Lemmas.GbLayoutJ
import PolyVerif.Lemmas.GbWrapRel
/-
C03: the known finding C03-blank-run-at-wrap as a SYNTACTIC class (`losesBlanks`: the wrapped text is
shorter than the value) and what it is equivalent to for the reader: a value is read back unchanged iff
no run of blanks falls on a wrap point.
-/
namespace PolyVerif.Lemmas.GbBlankRun
open PolyVerif PolyVerif.StrBuild PolyVerif.GenbankBuild PolyVerif.Spec.GbStrict
open PolyVerif.Lemmas.GbBuild PolyVerif.Lemmas.GbLayout PolyVerif.Lemmas.GbCompose PolyVerif.Lemmas.GbLayoutJ
open PolyVerif.Lemmas.GbWrapRel

theorem WrappedS.denl_of_length {p : Char} {o t : Str} (h : WrappedS p o t) :
    o.length = t.length → NoNl t → denl o = t := by
  induction h with
  | nil => intro _ _; rfl
  | keep p c hw ih =>
    intro hl hn
    have hc := hn c List.mem_cons_self
    simp only [denl, List.map_cons, if_neg hc, List.cons.injEq, true_and]
    exact ih (by simpa using hl) (fun d hd => hn d (List.mem_cons_of_mem _ hd))
  | brk p hp hf hw ih =>
    intro hl hn
    simp only [denl, List.map_cons, if_true, List.cons.injEq, true_and]
    exact ih (by simpa using hl) (fun d hd => hn d (List.mem_cons_of_mem _ hd))
  | loss p k hw _ =>
    intro hl _
    have := hw.length_le
    simp at hl
    omega
  | drop p k => intro hl _; simp at hl

theorem wrappedS_wrapString {t : Str} (hp : Plain t) : WrappedS 'x' (wrapString t 68) t := by
  have hw := wrapGo_wrappedS 68 t 0 [] [] 'x' hp (by simp) (by simp) (by simp) (by simp) (fun _ _ => by decide)
  simpa [wrapString] using hw

theorem textJ_facts {t : Str} (h : textJ t = true) :
    Plain t ∧ NoNl t ∧ (∀ c r, t = c :: r → c ≠ ' ') ∧ (∀ c, t.getLast? = some c → c ≠ ' ') := by
  have hp := plain_of_textJ h
  simp only [textJ, Bool.and_eq_true, List.all_eq_true, bne_iff_ne, ne_eq] at h
  refine ⟨hp, ?_, ?_, ?_⟩
  · intro c hc e
    have := h.1.1 c hc
    subst e; revert this; decide
  · intro c r e he
    apply h.1.2; rw [e, he]; rfl
  · intro c hc he
    apply h.2; rw [hc, he]

/-- a text is read back unchanged iff `WrapString` loses none of its blanks -/
theorem readBack_eq_iff {t : Str} (h : textJ t = true) : readBack t = t ↔ losesBlanks t = false := by
  obtain ⟨hp, hn, _, hlast⟩ := textJ_facts h
  have hw := wrappedS_wrapString hp
  unfold losesBlanks
  simp only [bne_eq_false_iff_eq]
  constructor
  · intro hr
    have h1 := hw.length_le
    have hpre := trimRight_prefix (denl (wrapString t 68))
    have hr' : trimRight (denl (wrapString t 68)) = t := by
      have := hr
      unfold readBack textOf at this
      rwa [joinSp_lines] at this
    rw [hr'] at hpre
    have := hpre.length_le
    have hd : (denl (wrapString t 68)).length = (wrapString t 68).length := by simp [denl]
    omega
  · intro hl
    unfold readBack textOf
    rw [joinSp_lines, WrappedS.denl_of_length hw hl hn]
    exact trimRight_of_getLast hlast

theorem wrappedS_head {p c : Char} {o r : Str} (h : WrappedS p o (c :: r)) (hc : c ≠ ' ') :
    ∃ o', o = c :: o' ∧ WrappedS c o' r := by
  generalize ht : c :: r = t at h
  cases h with
  | nil => cases ht
  | keep _ d hw =>
    simp only [List.cons.injEq] at ht
    obtain ⟨rfl, rfl⟩ := ht
    exact ⟨_, rfl, hw⟩
  | brk _ _ _ _ =>
    simp only [List.cons.injEq] at ht
    exact absurd ht.1 hc
  | loss _ k _ =>
    simp only [List.replicate_succ, List.cons_append, List.cons.injEq] at ht
    exact absurd ht.1 hc
  | drop _ k =>
    simp only [List.replicate_succ, List.cons.injEq] at ht
    exact absurd ht.1 hc

theorem readText_ne_nil {t : Str} (h : textJ t = true) (hne : t ≠ []) : readText t ≠ [] := by
  obtain ⟨hp, hn, hhead, _⟩ := textJ_facts h
  cases t with
  | nil => exact absurd rfl hne
  | cons c r =>
    have hc := hhead c r rfl
    obtain ⟨o', e, _⟩ := wrappedS_head (wrappedS_wrapString hp) hc
    unfold readText textOf
    rw [joinSp_lines, e]
    have hcn : c ≠ '\n' := hn c List.mem_cons_self
    simp only [denl, List.map_cons, if_neg hcn]
    rw [trimRight_cons_nonblank hc]
    simp

/-! ### the range of a REFERENCE line -/

theorem wrappedS_gap {p c : Char} {ro r : Str} (h : WrappedS p ro (' ' :: ' ' :: c :: r)) (hp : p ≠ ' ') (hc : c ≠ ' ') :
    ∃ o2, (ro = ' ' :: ' ' :: o2 ∨ ro = '\n' :: o2) ∧ WrappedS ' ' o2 (c :: r) := by
  generalize ht : ' ' :: ' ' :: c :: r = t at h
  cases h with
  | nil => cases ht
  | keep _ d hw =>
    simp only [List.cons.injEq] at ht
    obtain ⟨rfl, rfl⟩ := ht
    -- second blank
    generalize ht2 : ' ' :: c :: r = t2 at hw
    cases hw with
    | nil => cases ht2
    | keep _ d2 hw2 =>
      simp only [List.cons.injEq] at ht2
      obtain ⟨rfl, rfl⟩ := ht2
      exact ⟨_, Or.inl rfl, hw2⟩
    | brk _ hp2 _ _ => exact absurd rfl hp2
    | loss _ k _ =>
      simp only [List.replicate_succ, List.cons_append, List.cons.injEq] at ht2
      exact absurd ht2.2.1 hc
    | drop _ k =>
      simp only [List.replicate_succ, List.cons.injEq] at ht2
      cases k with
      | zero => simp at ht2
      | succ k => simp only [List.replicate_succ, List.cons.injEq] at ht2; exact absurd ht2.2.1 hc
  | brk _ _ hf _ =>
    simp only [List.cons.injEq] at ht
    obtain ⟨_, rfl⟩ := ht
    obtain ⟨c', r', e, hc'⟩ := hf
    simp only [List.cons.injEq] at e
    exact absurd e.1 (Ne.symm hc')
  | loss _ k hw =>
    simp only [List.replicate_succ, List.cons_append, List.cons.injEq, true_and] at ht
    cases k with
    | zero =>
      simp only [List.replicate_zero, List.nil_append] at ht
      subst ht
      exact ⟨_, Or.inr rfl, hw⟩
    | succ k =>
      simp only [List.replicate_succ, List.cons_append, List.cons.injEq] at ht
      exact absurd ht.1 hc
  | drop _ k =>
    simp only [List.replicate_succ, List.cons.injEq, true_and] at ht
    cases k with
    | zero => simp at ht
    | succ k =>
      simp only [List.replicate_succ, List.cons.injEq, true_and] at ht
      cases k with
      | zero => simp at ht
      | succ k => simp only [List.replicate_succ, List.cons.injEq] at ht; exact absurd ht.1 hc

theorem wrapString_header (num range : Str) (hnum : isWord num = true) :
    wrapString (num ++ "  ".toList ++ range) 68 = num ++ wrapGo 68 num.length [] [' ', ' '] range := by
  have hvis : ∀ c ∈ num, visible c = true := by
    simp only [isWord, Bool.and_eq_true, List.all_eq_true] at hnum
    exact hnum.2
  have hsp : ∀ c ∈ num, isSpace c = false := fun c hc => isSpace_of_visible (hvis c hc)
  have two : "  ".toList = [' ', ' '] := by decide
  rw [wrapString, List.append_assoc, wrapGo_word 68 _ [] _ hsp, two]
  simp only [List.append_nil, List.cons_append, List.nil_append]
  rw [wrapGo_blank_flush, wrapGo_blank_more]
  simp

theorem trimRight_cons_blank {s : Str} (h : trimRight s ≠ []) : trimRight (' ' :: s) = ' ' :: trimRight s := by
  unfold trimRight at h ⊢
  rw [List.reverse_cons, List.dropWhile_append]
  split
  · rename_i he
    exact absurd (by simp [List.isEmpty_iff.mp he]) h
  · simp

theorem readBackRange_nil (num : Str) (hnum : isWord num = true) : readBackRange num [] = [] := by
  have hvis : ∀ c ∈ num, visible c = true := by
    simp only [isWord, Bool.and_eq_true, List.all_eq_true] at hnum
    exact hnum.2
  have hnb : ∀ c ∈ num, c ≠ ' ' := fun c hc => visible_ne_blank (hvis c hc)
  have hnn : NoNl num := fun c hc => visible_ne_nl (hvis c hc)
  have hp : Plain [] := fun c hc => by cases hc
  unfold readBackRange mkBlock
  rw [if_pos rfl]
  have hrt : readBack (num ++ "  ".toList ++ []) = readText (num ++ "  ".toList ++ []) := rfl
  rw [hrt]
  have hw := wrapString_header num [] hnum
  unfold readText textOf
  rw [joinSp_lines, hw, denl_append, denl_noNl hnn, trimRight_word_append num hnb]
  rcases wrapGo_blank_head 68 [] num.length [' ', ' '] hp (by simp) (by simp) with e | ⟨c, o, e, hc⟩
  · rw [e]; simp [denl, trimRight, (takeWhile_nonblank_self hnb).2, trimLeft]
  · rw [e]
    have hd : denl (c :: o) = ' ' :: denl o := by rcases hc with rfl | rfl <;> simp [denl]
    rw [hd]
    have hall : trimRight (' ' :: denl o) = [] := by
      unfold wrapGo at e
      simp only [List.length_nil, if_true] at e
      split at e
      · simp at e
        obtain ⟨rfl, rfl⟩ := e
        decide
      · cases e
    rw [hall]
    simp [(takeWhile_nonblank_self hnb).2, trimLeft]

/-- a non-empty range: what `WrapString` writes for it is the range with some runs of blanks replaced by
a newline, and the reader gets exactly that text with the newlines read as blanks -/
theorem range_read (num range : Str) (hnum : isWord num = true) (hr : textJ range = true) (h0 : range ≠ []) :
    WrappedS ' ' (rangeWrapped num range) range
      ∧ readBackRange num range = trimRight (denl (rangeWrapped num range)) := by
  have hvis : ∀ c ∈ num, visible c = true := by
    simp only [isWord, Bool.and_eq_true, List.all_eq_true] at hnum
    exact hnum.2
  have hnb : ∀ c ∈ num, c ≠ ' ' := fun c hc => visible_ne_blank (hvis c hc)
  have hnn : NoNl num := fun c hc => visible_ne_nl (hvis c hc)
  obtain ⟨hp, hn, hhead, hlast⟩ := textJ_facts hr
  cases hrange : range with
  | nil => exact absurd hrange h0
  | cons c r =>
    have hc : c ≠ ' ' := hhead c r hrange
    have hcn : c ≠ '\n' := hn c (by rw [hrange]; exact List.mem_cons_self)
    have hws := wrapGo_wrappedS 68 range num.length [] [' ', ' '] 'x' hp (by simp) (by simp) (by simp)
      (fun _ => by decide) (by simp)
    simp only [List.reverse_cons, List.reverse_nil, List.nil_append, List.cons_append, List.append_nil] at hws
    rw [hrange] at hws
    obtain ⟨o2, hro, hw2⟩ := wrappedS_gap hws (by decide) hc
    obtain ⟨o3, e3, _⟩ := wrappedS_head hw2 hc
    have hrw : rangeWrapped num (c :: r) = o2 := by
      unfold rangeWrapped
      rcases hro with e | e
      · rw [e]; rfl
      · rw [e]; rfl
    rw [hrw]
    refine ⟨hw2, ?_⟩
    unfold readBackRange mkBlock
    rw [if_pos rfl]
    show trimLeft ((readText (num ++ "  ".toList ++ (c :: r))).dropWhile (· != ' ')) = _
    unfold readText textOf
    rw [joinSp_lines, wrapString_header num (c :: r) hnum, denl_append, denl_noNl hnn,
      trimRight_word_append num hnb]
    have htr : trimRight (denl o2) ≠ [] := by
      rw [e3]
      simp only [denl, List.map_cons, if_neg hcn]
      rw [trimRight_cons_nonblank hc]; simp
    have hhead2 : ∃ t', trimRight (denl o2) = c :: t' := by
      rw [e3]
      simp only [denl, List.map_cons, if_neg hcn]
      rw [trimRight_cons_nonblank hc]
      exact ⟨_, rfl⟩
    obtain ⟨t', ht'⟩ := hhead2
    rcases hro with e | e
    · rw [e]
      have : denl (' ' :: ' ' :: o2) = ' ' :: ' ' :: denl o2 := by simp [denl]
      rw [this, trimRight_cons_blank (by rw [trimRight_cons_blank htr]; simp), trimRight_cons_blank htr,
        (takeWhile_nonblank_append hnb _).2, ht']
      simp [trimLeft, hc]
    · rw [e]
      have : denl ('\n' :: o2) = ' ' :: denl o2 := by simp [denl]
      rw [this, trimRight_cons_blank htr, (takeWhile_nonblank_append hnb _).2, ht']
      simp [trimLeft, hc]

theorem length_trimRight_denl (o : Str) : (trimRight (denl o)).length ≤ o.length := by
  have := (trimRight_prefix (denl o)).length_le
  have hd : (denl o).length = o.length := by simp [denl]
  omega

/-- the range is read back unchanged iff no run of blanks of it falls on a wrap point of the REFERENCE line -/
theorem readBackRange_eq_iff (num range : Str) (hnum : isWord num = true) (hr : textJ range = true) :
    readBackRange num range = range ↔ rangeLosesBlanks num range = false := by
  by_cases h0 : range = []
  · subst h0
    simp [readBackRange_nil num hnum, rangeLosesBlanks]
  · obtain ⟨hw2, hread⟩ := range_read num range hnum hr h0
    obtain ⟨_, hn, _, hlast⟩ := textJ_facts hr
    rw [hread]
    unfold rangeLosesBlanks
    have hne : (range != []) = true := by simpa using h0
    rw [hne, Bool.true_and, bne_eq_false_iff_eq]
    constructor
    · intro he
      have h1 := hw2.length_le
      have h2 := length_trimRight_denl (rangeWrapped num range)
      rw [he] at h2
      omega
    · intro hl
      rw [WrappedS.denl_of_length hw2 hl hn]
      exact trimRight_of_getLast hlast

/-- what is read back is never longer, and shorter when a run of blanks falls on a wrap point -/
theorem readBackRange_length (num range : Str) (hnum : isWord num = true) (hr : textJ range = true) :
    (readBackRange num range).length ≤ range.length
      ∧ (rangeLosesBlanks num range = true → (readBackRange num range).length < range.length) := by
  by_cases h0 : range = []
  · subst h0
    simp [readBackRange_nil num hnum, rangeLosesBlanks]
  · obtain ⟨hw2, hread⟩ := range_read num range hnum hr h0
    have h1 := hw2.length_le
    have h2 := length_trimRight_denl (rangeWrapped num range)
    rw [hread]
    refine ⟨by omega, fun hl => ?_⟩
    simp only [rangeLosesBlanks, Bool.and_eq_true, bne_iff_ne, ne_eq] at hl
    have := hl.2
    omega

theorem readBack_length {t : Str} (h : textJ t = true) :
    (readBack t).length ≤ t.length ∧ (losesBlanks t = true → (readBack t).length < t.length) := by
  obtain ⟨hp, _, _, _⟩ := textJ_facts h
  have h1 := (wrappedS_wrapString hp).length_le
  have h2 := length_trimRight_denl (wrapString t 68)
  have e : readBack t = trimRight (denl (wrapString t 68)) := by
    unfold readBack textOf
    rw [joinSp_lines]
  rw [e]
  refine ⟨by omega, fun hl => ?_⟩
  simp only [losesBlanks, bne_iff_ne, ne_eq] at hl
  omega

/-! ### the facts the layout proofs use, from the decidable domains -/

theorem wfLocus_of_J {l : Locus} (h : wfLocusJ l = true) (hname : l.name ≠ []) : wfLocus l = true := by
  simp only [wfLocusJ, Bool.and_eq_true, Bool.or_eq_true, beq_iff_eq] at h
  simp only [wfLocus, Bool.and_eq_true, Bool.or_eq_true, beq_iff_eq]
  obtain ⟨⟨⟨⟨hn, h2⟩, h3⟩, h4⟩, h5⟩ := h
  exact ⟨⟨⟨⟨hn.resolve_left hname, h2⟩, h3⟩, h4⟩, h5⟩

theorem otherKeys_of_J {m : List (Str × Str)} (h : m.all (wfOtherJ 11) = true) :
    ∀ kv ∈ m, isWord kv.1 = true ∧ kv.1.length ≤ 12 ∧ reservedKeys.contains kv.1 = false := by
  intro kv hkv
  have := List.all_eq_true.mp h kv hkv
  simp only [wfOtherJ, Bool.and_eq_true, Bool.not_eq_true', decide_eq_true_eq] at this
  exact ⟨this.1.1.1.1, by have := this.1.1.2; omega, this.1.2⟩

/-- the whole judge's layout domain with a locus name: the domain of the EXACT theorem -/
theorem facts0_of_wfLayoutJ (x : Sequence) (h : wfLayoutJ x = true) (hname : x.metadata.locus.name ≠ []) : Facts0 x := by
  simp only [wfLayoutJ, Bool.and_eq_true, bne_iff_ne, ne_eq, decide_eq_true_eq] at h
  obtain ⟨⟨⟨⟨⟨⟨⟨⟨⟨⟨⟨⟨⟨⟨hlocus, _⟩, _⟩, _⟩, _⟩, _⟩, _⟩, hrefs⟩, _⟩, hother⟩, hfeat⟩, hne⟩, hlet⟩, hlen⟩, _⟩ := h
  refine
    { locus := wfLocus_of_J hlocus hname, refs := ?_, otherKeys := otherKeys_of_J hother, feats := hfeat,
      seqNe := hne, seqLetters := hlet, seqLen := by simpa using hlen }
  intro r hr
  have := List.all_eq_true.mp hrefs r hr
  simp only [wfRefJ, Bool.and_eq_true] at this
  obtain ⟨⟨⟨⟨⟨⟨h1, h2⟩, h3⟩, h4⟩, h5⟩, h6⟩, h7⟩ := this
  exact ⟨h7, plain_of_textJ h1, readText_ne_nil h2, readText_ne_nil h3, readText_ne_nil h4, readText_ne_nil h5,
    readText_ne_nil h6⟩

theorem refsFacts_of : ∀ (refs : List Reference) (i : Nat), refs.all wfRefJ = true →
    refsLoseBlanks i refs = false → RefsFacts i refs
  | [], _, _, _ => trivial
  | r :: rs, i, hw, hl => by
    simp only [List.all_cons, Bool.and_eq_true] at hw
    simp only [refsLoseBlanks, Bool.or_eq_false_iff] at hl
    obtain ⟨⟨⟨⟨⟨⟨l1, l2⟩, l3⟩, l4⟩, l5⟩, l6⟩, lrest⟩ := hl
    have hr := hw.1
    simp only [wfRefJ, Bool.and_eq_true] at hr
    obtain ⟨⟨⟨⟨⟨⟨h1, h2⟩, h3⟩, h4⟩, h5⟩, h6⟩, h7⟩ := hr
    exact ⟨⟨h7, plain_of_textJ h1, (readBackRange_eq_iff _ _ (isWord_refNum i r h7) h1).mpr l1,
      (readBack_eq_iff h2).mpr l2, (readBack_eq_iff h3).mpr l3, (readBack_eq_iff h4).mpr l4,
      (readBack_eq_iff h5).mpr l5, (readBack_eq_iff h6).mpr l6⟩, refsFacts_of rs (i + 1) hw.2 lrest⟩

/-- on the judge's layout domain, outside the two (syntactic) classes, every fact the layout proof uses holds -/
theorem facts_of_wfLayoutG (x : Sequence) (h : wfLayoutG x = true) : Facts x := by
  simp only [wfLayoutG, Bool.and_eq_true, bne_iff_ne, ne_eq, Bool.not_eq_true'] at h
  obtain ⟨⟨hj, hname⟩, hcls⟩ := h
  have f0 := facts0_of_wfLayoutJ x hj hname
  simp only [wfLayoutJ, Bool.and_eq_true, bne_iff_ne, ne_eq, decide_eq_true_eq] at hj
  obtain ⟨⟨⟨⟨⟨⟨⟨⟨⟨⟨⟨⟨⟨⟨_, jd⟩, ja⟩, jv⟩, jk⟩, js⟩, jo⟩, hrefs⟩, _⟩, hother⟩, _⟩, _⟩, _⟩, _⟩, _⟩ := hj
  have hnm : (x.metadata.locus.name != []) = true := by simpa using hname
  simp only [clsBlankRun, hnm, Bool.true_and, Bool.or_eq_false_iff] at hcls
  obtain ⟨⟨⟨⟨⟨⟨⟨hd, ha⟩, hv⟩, hk⟩, hs⟩, ho⟩, hoth⟩, hrf⟩ := hcls
  exact
    { locus := f0.locus, definition := (readBack_eq_iff jd).mpr hd, accession := (readBack_eq_iff ja).mpr ha,
      version := (readBack_eq_iff jv).mpr hv, keywords := (readBack_eq_iff jk).mpr hk,
      source := (readBack_eq_iff js).mpr hs, organism := (readBack_eq_iff jo).mpr ho,
      refs := refsFacts_of _ 0 hrefs hrf, otherKeys := f0.otherKeys,
      otherVals := fun kv hkv => by
        have hj := List.all_eq_true.mp hother kv hkv
        simp only [wfOtherJ, Bool.and_eq_true] at hj
        have hl : losesBlanks kv.2 = false := by
          cases hh : losesBlanks kv.2 with
          | false => rfl
          | true =>
            have : (x.metadata.other.any fun kv => losesBlanks kv.2) = true :=
              List.any_eq_true.mpr ⟨kv, hkv, hh⟩
            rw [this] at hoth; cases hoth
        exact (readBack_eq_iff hj.2).mpr hl,
      feats := f0.feats, seqNe := f0.seqNe, seqLetters := f0.seqLetters, seqLen := f0.seqLen }

/-! ### a record of the class is NOT read back: the text read is shorter than the text given -/

def blockSize (b : SBlock) : Nat := b.text.length + (b.subs.map fun kv => kv.2.length).sum
/-- the number of characters of metadata text a record holds -/
def recSize (r : Rec) : Nat := (r.blocks.map blockSize).sum

def refSize (r : Reference) : Nat :=
  r.range.length + r.authors.length + r.title.length + r.journal.length + r.pubMed.length + r.remark.length
def otherSize (m : List (Str × Str)) : Nat :=
  ((sortStrings (m.map Prod.fst)).map fun k => (lookupD m k).length).sum

theorem optSub_size (k : String) (v : Str) : ((optSub k v).map fun kv => kv.2.length).sum = v.length := by
  unfold optSub
  by_cases h : v = []
  · simp [h]
  · simp [h]

theorem absRefs_size : ∀ (refs : List Reference) (i : Nat),
    ((absRefs i refs).map blockSize).sum = (refs.map refSize).sum
  | [], _ => rfl
  | r :: rs, i => by
    simp only [absRefs, List.map_cons, List.sum_cons, absRefs_size rs (i + 1)]
    simp only [blockSize, List.map_append, List.sum_append, optSub_size, refSize]
    omega

theorem other_size (m : List (Str × Str)) :
    (((sortedEntries m).map fun kv => ({ key := kv.1, text := kv.2 } : SBlock)).map blockSize).sum = otherSize m := by
  unfold sortedEntries otherSize
  simp only [List.map_map]
  congr 1

theorem recSize_abs (x : Sequence) :
    recSize (abs x) = x.metadata.definition.length + x.metadata.accession.length + x.metadata.version.length
      + x.metadata.keywords.length + x.metadata.source.length + x.metadata.organism.length
      + (x.metadata.references.map refSize).sum + otherSize x.metadata.other := by
  unfold recSize abs
  simp only [List.map_append, List.sum_append, absRefs_size, other_size]
  simp [blockSize]
  omega

theorem sum_map_le {α : Type} (l : List α) (f g : α → Nat) (h : ∀ a ∈ l, f a ≤ g a) :
    (l.map f).sum ≤ (l.map g).sum := by
  induction l with
  | nil => simp
  | cons a l ih =>
    simp only [List.map_cons, List.sum_cons]
    have := h a List.mem_cons_self
    have := ih fun b hb => h b (List.mem_cons_of_mem _ hb)
    omega

theorem sum_map_lt {α : Type} (l : List α) (f g : α → Nat) (h : ∀ a ∈ l, f a ≤ g a) (a : α) (ha : a ∈ l)
    (hlt : f a < g a) : (l.map f).sum < (l.map g).sum := by
  induction l with
  | nil => cases ha
  | cons b l ih =>
    simp only [List.map_cons, List.sum_cons]
    have hb := h b List.mem_cons_self
    have hle := sum_map_le l f g fun c hc => h c (List.mem_cons_of_mem _ hc)
    rcases List.mem_cons.mp ha with rfl | ha'
    · omega
    · have := ih (fun c hc => h c (List.mem_cons_of_mem _ hc)) ha'
      omega

theorem refSize_lossy (i : Nat) (r : Reference) (h : wfRefJ r = true) :
    refSize (lossyRef i r) ≤ refSize r
      ∧ ((rangeLosesBlanks (refNum i r) r.range || losesBlanks r.authors || losesBlanks r.title || losesBlanks r.journal
          || losesBlanks r.pubMed || losesBlanks r.remark) = true → refSize (lossyRef i r) < refSize r) := by
  simp only [wfRefJ, Bool.and_eq_true] at h
  obtain ⟨⟨⟨⟨⟨⟨h1, h2⟩, h3⟩, h4⟩, h5⟩, h6⟩, h7⟩ := h
  obtain ⟨a1, b1⟩ := readBackRange_length _ _ (isWord_refNum i r h7) h1
  obtain ⟨a2, b2⟩ := readBack_length h2
  obtain ⟨a3, b3⟩ := readBack_length h3
  obtain ⟨a4, b4⟩ := readBack_length h4
  obtain ⟨a5, b5⟩ := readBack_length h5
  obtain ⟨a6, b6⟩ := readBack_length h6
  simp only [refSize, lossyRef]
  refine ⟨by omega, fun hl => ?_⟩
  simp only [Bool.or_eq_true] at hl
  rcases hl with ((((hl | hl) | hl) | hl) | hl) | hl
  · have := b1 hl; omega
  · have := b2 hl; omega
  · have := b3 hl; omega
  · have := b4 hl; omega
  · have := b5 hl; omega
  · have := b6 hl; omega

theorem refsSize_lossy : ∀ (refs : List Reference) (i : Nat), refs.all wfRefJ = true →
    ((lossyRefs i refs).map refSize).sum ≤ (refs.map refSize).sum
      ∧ (refsLoseBlanks i refs = true → ((lossyRefs i refs).map refSize).sum < (refs.map refSize).sum)
  | [], _, _ => by simp [lossyRefs, refsLoseBlanks]
  | r :: rs, i, hw => by
    simp only [List.all_cons, Bool.and_eq_true] at hw
    obtain ⟨a, b⟩ := refSize_lossy i r hw.1
    obtain ⟨a', b'⟩ := refsSize_lossy rs (i + 1) hw.2
    simp only [lossyRefs, List.map_cons, List.sum_cons]
    refine ⟨by omega, fun hl => ?_⟩
    have hl' : ((rangeLosesBlanks (refNum i r) r.range || losesBlanks r.authors || losesBlanks r.title
        || losesBlanks r.journal || losesBlanks r.pubMed || losesBlanks r.remark) || refsLoseBlanks (i + 1) rs) = true := by
      rw [← hl]; simp only [refsLoseBlanks]
    rcases Bool.or_eq_true _ _ |>.mp hl' with h | h
    · have := b h; omega
    · have := b' h; omega

theorem textJ_nil : textJ [] = true := by decide

theorem lookupD_self : ∀ (m : List (Str × Str)), nodupKeys m = true → ∀ kv ∈ m, lookupD m kv.1 = kv.2
  | [], _, kv, hkv => by cases hkv
  | (a, b) :: m, hn, kv, hkv => by
    simp only [nodupKeys, Bool.and_eq_true, Bool.not_eq_true'] at hn
    rcases List.mem_cons.mp hkv with rfl | hkv'
    · simp [lookupD, List.lookup]
    · have hne : (kv.1 == a) = false := by
        cases hh : kv.1 == a with
        | false => rfl
        | true =>
          have e : kv.1 = a := by simpa using hh
          have : (m.map Prod.fst).contains a = true := by
            rw [List.contains_iff_mem]
            exact e ▸ List.mem_map_of_mem hkv'
          rw [this] at hn; cases hn.1
      have ih := lookupD_self m hn.2 kv hkv'
      unfold lookupD at ih ⊢
      simp only [List.lookup, hne]
      exact ih

theorem otherSize_lossy (m : List (Str × Str)) (hw : m.all (wfOtherJ 11) = true) (hn : nodupKeys m = true) :
    otherSize (m.map fun kv => (kv.1, readBack kv.2)) ≤ otherSize m
      ∧ ((m.any fun kv => losesBlanks kv.2) = true → otherSize (m.map fun kv => (kv.1, readBack kv.2)) < otherSize m) := by
  have hj : ∀ k, textJ (lookupD m k) = true := fun k =>
    lookupD_prop (fun v => textJ v = true) textJ_nil m (fun kv hkv => by
      have := List.all_eq_true.mp hw kv hkv
      simp only [wfOtherJ, Bool.and_eq_true] at this
      exact this.2) k
  have hkeys : (m.map fun kv => (kv.1, readBack kv.2)).map Prod.fst = m.map Prod.fst := by
    simp [List.map_map, Function.comp_def]
  have hrb : readBack [] = [] := by decide
  unfold otherSize
  rw [hkeys]
  simp only [lookupD_map readBack hrb]
  refine ⟨sum_map_le _ _ _ fun k _ => (readBack_length (hj k)).1, fun hl => ?_⟩
  obtain ⟨kv, hkv, hlk⟩ := List.any_eq_true.mp hl
  have hmem : kv.1 ∈ sortStrings (m.map Prod.fst) :=
    (sortStrings_perm _).mem_iff.mpr (List.mem_map_of_mem hkv)
  refine sum_map_lt _ _ _ (fun k _ => (readBack_length (hj k)).1) kv.1 hmem ?_
  have := (readBack_length (hj kv.1)).2
  rw [lookupD_self m hn kv hkv] at this ⊢
  exact this hlk

/-- **the class fails the clause, universally**: for EVERY record of the judge's layout domain in the class
`C03-blank-run-at-wrap`, the record read back from `build x` holds fewer characters of metadata text than `x` -/
theorem recSize_expectedBack_lt (x : Sequence) (hj : wfLayoutJ x = true) (hc : clsBlankRun x = true) :
    recSize (abs (expectedBack x)) < recSize (abs x) := by
  simp only [clsBlankRun, Bool.and_eq_true, bne_iff_ne, ne_eq] at hc
  obtain ⟨hname, hc⟩ := hc
  simp only [wfLayoutJ, Bool.and_eq_true, bne_iff_ne, ne_eq, decide_eq_true_eq] at hj
  obtain ⟨⟨⟨⟨⟨⟨⟨⟨⟨⟨⟨⟨⟨⟨_, jd⟩, ja⟩, jv⟩, jk⟩, js⟩, jo⟩, hrefs⟩, hnd⟩, hother⟩, _⟩, _⟩, _⟩, _⟩, _⟩ := hj
  rw [recSize_abs, recSize_abs]
  show (readBack x.metadata.definition).length + (readBack x.metadata.accession).length
      + (readBack x.metadata.version).length + (readBack x.metadata.keywords).length
      + (readBack x.metadata.source).length + (readBack x.metadata.organism).length
      + ((lossyRefs 0 x.metadata.references).map refSize).sum
      + otherSize (x.metadata.other.map fun kv => (kv.1, readBack kv.2)) < _
  obtain ⟨a1, b1⟩ := readBack_length jd
  obtain ⟨a2, b2⟩ := readBack_length ja
  obtain ⟨a3, b3⟩ := readBack_length jv
  obtain ⟨a4, b4⟩ := readBack_length jk
  obtain ⟨a5, b5⟩ := readBack_length js
  obtain ⟨a6, b6⟩ := readBack_length jo
  obtain ⟨a7, b7⟩ := refsSize_lossy x.metadata.references 0 hrefs
  obtain ⟨a8, b8⟩ := otherSize_lossy x.metadata.other hother hnd
  simp only [Bool.or_eq_true] at hc
  rcases hc with ((((((hl | hl) | hl) | hl) | hl) | hl) | hl) | hl
  · have := b1 hl; omega
  · have := b2 hl; omega
  · have := b3 hl; omega
  · have := b4 hl; omega
  · have := b5 hl; omega
  · have := b6 hl; omega
  · have := b8 hl; omega
  · have := b7 hl; omega

/-! ### the class is syntactic: a field of a record of the class holds two adjacent blanks -/

theorem hasBlankRun_cons (a d : Char) (r : Str) (h : ¬(a = ' ' ∧ d = ' ')) :
    hasBlankRun (a :: d :: r) = hasBlankRun (d :: r) := by
  conv => lhs; unfold hasBlankRun
  split
  · rename_i heq
    simp only [List.cons.injEq] at heq
    exact absurd ⟨heq.1, heq.2.1⟩ h
  · rename_i heq
    simp only [List.cons.injEq] at heq
    rw [← heq.2]
  · rename_i heq; cases heq

theorem spacedFrom_of_noRun : ∀ (t : Str) (b : Bool), t ≠ [] → t.all printable = true → (b = false → t.head? ≠ some ' ') →
    t.getLast? ≠ some ' ' → hasBlankRun t = false → spacedFrom b t = true
  | [], _, h, _, _, _, _ => absurd rfl h
  | c :: r, b, _, hp, hh, hl, hr => by
    simp only [List.all_cons, Bool.and_eq_true] at hp
    by_cases hc : c = ' '
    · subst hc
      have hb : b = true := by
        cases b with
        | true => rfl
        | false => exact absurd rfl (hh rfl)
      cases r with
      | nil => exact absurd rfl hl
      | cons d r' =>
        have hd : d ≠ ' ' := by
          intro hd; subst hd
          simp [hasBlankRun] at hr
        have hr' : hasBlankRun (d :: r') = false := by
          rw [← hasBlankRun_cons ' ' d r' (fun h => hd h.2)]; exact hr
        have ih := spacedFrom_of_noRun (d :: r') false (by simp) hp.2 (fun _ => by simpa using hd)
          (by simpa [List.getLast?_cons_cons] using hl) hr'
        simp only [spacedFrom, if_true, hb, Bool.true_and]
        exact ih
    · have hv : visible c = true := by
        have := hp.1
        simp only [printable, Bool.and_eq_true, decide_eq_true_eq] at this
        simp only [visible, Bool.and_eq_true, decide_eq_true_eq]
        refine ⟨?_, this.2⟩
        rcases Nat.lt_or_ge 32 c.toNat with h | h
        · exact h
        · exfalso
          have h32 : c.toNat = 32 := by omega
          exact hc (Char.ext (by
            have : c.val.toNat = (' ' : Char).val.toNat := h32
            exact UInt32.toNat_inj.mp this))
      simp only [spacedFrom, if_neg hc, hv, Bool.true_and]
      cases r with
      | nil => rfl
      | cons d r' =>
        have hr' : hasBlankRun (d :: r') = false := by
          rw [← hasBlankRun_cons c d r' (fun h => hc h.1)]; exact hr
        exact spacedFrom_of_noRun (d :: r') true (by simp) hp.2 (fun h => by cases h)
          (by simpa [List.getLast?_cons_cons] using hl) hr'

theorem singleSpaced_of_noRun {t : Str} (h : textJ t = true) (hr : hasBlankRun t = false) : singleSpaced t = true := by
  by_cases h0 : t = []
  · simp [singleSpaced, h0]
  · simp only [textJ, Bool.and_eq_true, bne_iff_ne, ne_eq] at h
    simp only [singleSpaced, Bool.or_eq_true]
    exact Or.inr (spacedFrom_of_noRun t false h0 h.1.1 (fun _ => h.1.2) h.2 hr)

/-- a text that loses a blank at a wrap point holds two adjacent blanks -/
theorem hasBlankRun_of_loses {t : Str} (h : textJ t = true) (hl : losesBlanks t = true) : hasBlankRun t = true := by
  cases hr : hasBlankRun t with
  | true => rfl
  | false =>
    have := (readBack_eq_iff h).mp (readText_singleSpaced (singleSpaced_of_noRun h hr))
    rw [this] at hl; cases hl

theorem hasBlankRun_of_rangeLoses {num range : Str} (hnum : isWord num = true) (h : textJ range = true)
    (hl : rangeLosesBlanks num range = true) : hasBlankRun range = true := by
  cases hr : hasBlankRun range with
  | true => rfl
  | false =>
    have hb : readBackRange num range = range := by
      have := mkBlock_reference num hnum range (singleSpaced_of_noRun h hr) []
      unfold readBackRange
      rw [readBack_eq_readText, this]
    have := (readBackRange_eq_iff num range hnum h).mp hb
    rw [this] at hl; cases hl

theorem refs_hasBlankRun : ∀ (refs : List Reference) (i : Nat), refs.all wfRefJ = true → refsLoseBlanks i refs = true →
    ∃ r ∈ refs, ∃ t ∈ refTexts r, hasBlankRun t = true
  | [], _, _, h => by simp [refsLoseBlanks] at h
  | r :: rs, i, hw, hl => by
    simp only [List.all_cons, Bool.and_eq_true] at hw
    have hr := hw.1
    simp only [wfRefJ, Bool.and_eq_true] at hr
    obtain ⟨⟨⟨⟨⟨⟨h1, h2⟩, h3⟩, h4⟩, h5⟩, h6⟩, h7⟩ := hr
    simp only [refsLoseBlanks, Bool.or_eq_true] at hl
    rcases hl with (((((hl | hl) | hl) | hl) | hl) | hl) | hl
    · exact ⟨r, List.mem_cons_self, r.range, by simp [refTexts], hasBlankRun_of_rangeLoses (isWord_refNum i r h7) h1 hl⟩
    · exact ⟨r, List.mem_cons_self, r.authors, by simp [refTexts], hasBlankRun_of_loses h2 hl⟩
    · exact ⟨r, List.mem_cons_self, r.title, by simp [refTexts], hasBlankRun_of_loses h3 hl⟩
    · exact ⟨r, List.mem_cons_self, r.journal, by simp [refTexts], hasBlankRun_of_loses h4 hl⟩
    · exact ⟨r, List.mem_cons_self, r.pubMed, by simp [refTexts], hasBlankRun_of_loses h5 hl⟩
    · exact ⟨r, List.mem_cons_self, r.remark, by simp [refTexts], hasBlankRun_of_loses h6 hl⟩
    · obtain ⟨r', hr', t, ht, hb⟩ := refs_hasBlankRun rs (i + 1) hw.2 hl
      exact ⟨r', List.mem_cons_of_mem _ hr', t, ht, hb⟩

/-- **the class is syntactic**: some metadata text of a record of the class holds two adjacent blanks -/
theorem cls_hasBlankRun (x : Sequence) (hj : wfLayoutJ x = true) (hc : clsBlankRun x = true) :
    ∃ t ∈ metaTexts x, hasBlankRun t = true := by
  simp only [clsBlankRun, Bool.and_eq_true, bne_iff_ne, ne_eq] at hc
  obtain ⟨_, hc⟩ := hc
  simp only [wfLayoutJ, Bool.and_eq_true, bne_iff_ne, ne_eq, decide_eq_true_eq] at hj
  obtain ⟨⟨⟨⟨⟨⟨⟨⟨⟨⟨⟨⟨⟨⟨_, jd⟩, ja⟩, jv⟩, jk⟩, js⟩, jo⟩, hrefs⟩, _⟩, hother⟩, _⟩, _⟩, _⟩, _⟩, _⟩ := hj
  simp only [Bool.or_eq_true] at hc
  rcases hc with ((((((hl | hl) | hl) | hl) | hl) | hl) | hl) | hl
  · exact ⟨_, by simp [metaTexts], hasBlankRun_of_loses jd hl⟩
  · exact ⟨_, by simp [metaTexts], hasBlankRun_of_loses ja hl⟩
  · exact ⟨_, by simp [metaTexts], hasBlankRun_of_loses jv hl⟩
  · exact ⟨_, by simp [metaTexts], hasBlankRun_of_loses jk hl⟩
  · exact ⟨_, by simp [metaTexts], hasBlankRun_of_loses js hl⟩
  · exact ⟨_, by simp [metaTexts], hasBlankRun_of_loses jo hl⟩
  · obtain ⟨kv, hkv, hlk⟩ := List.any_eq_true.mp hl
    have hw := List.all_eq_true.mp hother kv hkv
    simp only [wfOtherJ, Bool.and_eq_true] at hw
    refine ⟨kv.2, ?_, hasBlankRun_of_loses hw.2 hlk⟩
    simp only [metaTexts, List.mem_append, List.mem_map]
    exact Or.inl (Or.inr ⟨kv, hkv, rfl⟩)
  · obtain ⟨r, hr, t, ht, hb⟩ := refs_hasBlankRun _ 0 hrefs hl
    refine ⟨t, ?_, hb⟩
    simp only [metaTexts, List.mem_append, List.mem_flatMap]
    exact Or.inr ⟨r, hr, ht⟩

/-! ### a name-less record is never read back -/

theorem tokFold_ne_nil : ∀ (s : Str), ∀ t ∈ (s.foldr tokStep ([], [])).2, t ≠ []
  | [], t, ht => by cases ht
  | c :: s, t, ht => by
    have ih := tokFold_ne_nil s
    simp only [List.foldr_cons, tokStep] at ht
    split at ht
    · split at ht
      · exact ih t ht
      · rcases List.mem_cons.mp ht with rfl | ht'
        · assumption
        · exact ih t ht'
    · exact ih t ht

theorem tokens_ne_nil (s : Str) : ∀ t ∈ tokens s, t ≠ [] := by
  intro t ht
  unfold tokens tokFinish at ht
  split at ht
  · exact tokFold_ne_nil s t ht
  · rcases List.mem_cons.mp ht with rfl | ht'
    · assumption
    · exact tokFold_ne_nil s t ht'

theorem readLocus_name {l : Str} {sl : SLocus} (h : readLocus l = some sl) : sl.name ≠ [] := by
  unfold readLocus at h
  split at h
  · split at h
    · rename_i name rest htok
      have hn : name ≠ [] := tokens_ne_nil _ name (by rw [htok]; exact List.mem_cons_self)
      unfold classifyLocus at h
      split at h
      · cases h
      · simp only [Option.some.injEq] at h
        rw [← h]; exact hn
    · cases h
  · cases h

/-- whatever text it is given, the strict reader never returns a record without a locus name -/
theorem strictRead_name {s : Str} {r : Rec} (h : strictRead s = some r) : r.locus.name ≠ [] := by
  unfold strictRead at h
  split at h
  · cases h
  · split at h
    · cases h
    · split at h
      · cases h
      · split at h
        · cases h
        · split at h
          · split at h
            · rename_i hl _ _ _
              simp only [Option.some.injEq] at h
              rw [← h]
              exact readLocus_name hl
            · cases h
          · cases h

end PolyVerif.Lemmas.GbBlankRun
