import PolyVerif.Base.JsonRead
/-
The JSON TEXT layer of the Lean side: the reader of Base/JsonRead.lean reads back what the printer of
Base/JVal.lean writes, for every `JVal` — strings over arbitrary code points with the escapes `\"`, `\\`,
`\u00XX`; integers of either sign; null / true / false; arrays; objects with their members in order.
Helper lemmas for `json_text_roundtrip` (Props/C15.lean); reusable by any property that prints `JVal`s.
-/
namespace PolyVerif.JsonText
open PolyVerif PolyVerif.JsonRead

/-! ### strings -/

theorem escJsonAux_eq : ∀ (s acc : S), escJsonAux s acc = acc.reverse ++ s.flatMap escOne
  | [], acc => by simp [escJsonAux]
  | c :: cs, acc => by
    rw [escJsonAux, escJsonAux_eq cs]
    simp [List.reverse_append]

theorem escJson_eq (s : S) : escJson s = s.flatMap escOne := by
  simp [escJson, escJsonAux_eq]

theorem hexVal_hexDigit (k : Nat) (h : k < 16) : hexVal (hexDigit k) = some k := by
  have : k = 0 ∨ k = 1 ∨ k = 2 ∨ k = 3 ∨ k = 4 ∨ k = 5 ∨ k = 6 ∨ k = 7 ∨ k = 8 ∨ k = 9 ∨ k = 10 ∨ k = 11
      ∨ k = 12 ∨ k = 13 ∨ k = 14 ∨ k = 15 := by omega
  rcases this with h | h | h | h | h | h | h | h | h | h | h | h | h | h | h | h <;> subst h <;> rfl

/-- reading one short escape `\e` -/
theorem readStr_short (e v : Nat) (r acc : S) (he : e ≠ 117)
    (hv : (if e == 34 then some 34 else if e == 92 then some 92 else if e == 47 then some 47 else if e == 98 then some 8
           else if e == 102 then some 12 else if e == 110 then some 10 else if e == 114 then some 13
           else if e == 116 then some 9 else none) = some v) :
    readStr (92 :: e :: r) acc none = readStr r (v :: acc) none := by
  rw [readStr.eq_def]
  have h117 : (e == 117) = false := by simp [he]
  simp only [show ((92 : Nat) == 34) = false from rfl, beq_self_eq_true, h117, Bool.false_eq_true, if_false, if_true, flushHi]
  split at hv
  · simp_all
  · split at hv
    · simp_all
    · split at hv
      · simp_all
      · split at hv
        · simp_all
        · split at hv
          · simp_all
          · split at hv
            · simp_all
            · split at hv
              · simp_all
              · split at hv
                · simp_all
                · cases hv

/-- reading `\uXXXX` written by `u4` for a code point below 0x10000 that is not a surrogate -/
theorem readStr_u4 (c : Nat) (r acc : S) (hc : c < 65536) (hns : ¬ (0xD800 ≤ c ∧ c ≤ 0xDFFF)) :
    readStr (u4 c ++ r) acc none = readStr r (c :: acc) none := by
  have h1 := hexVal_hexDigit (c / 4096 % 16) (by omega)
  have h2 := hexVal_hexDigit (c / 256 % 16) (by omega)
  have h3 := hexVal_hexDigit (c / 16 % 16) (by omega)
  have h4 := hexVal_hexDigit (c % 16) (by omega)
  have hu : ((c / 4096 % 16 * 16 + c / 256 % 16) * 16 + c / 16 % 16) * 16 + c % 16 = c := by omega
  have hs1 : ¬ (0xDC00 ≤ c ∧ c ≤ 0xDFFF) := by omega
  have hs2 : ¬ (0xD800 ≤ c ∧ c ≤ 0xDBFF) := by omega
  simp only [u4, List.cons_append, List.nil_append]
  rw [readStr.eq_def]
  simp only [show ((92 : Nat) == 34) = false from rfl, beq_self_eq_true, Bool.false_eq_true, if_false, if_true,
    h1, h2, h3, h4, hu, flushHi]
  simp [hs1, hs2]

/-- the string body written by the printer, followed by the closing quote, is read back exactly -/
theorem readStr_esc : ∀ (s acc rest : S),
    readStr (s.flatMap escOne ++ 34 :: rest) acc none = some (acc.reverse ++ s, rest)
  | [], acc, rest => by
    rw [readStr.eq_def]; simp [flushHi]
  | c :: cs, acc, rest => by
    have ih := readStr_esc cs (c :: acc) rest
    simp only [List.flatMap_cons, List.append_assoc]
    have fin : some ((c :: acc).reverse ++ cs, rest) = some (acc.reverse ++ c :: cs, rest) := by simp
    rw [← fin, ← ih]
    unfold escOne
    by_cases h1 : c = 34
    · subst h1; exact readStr_short 34 34 _ acc (by decide) rfl
    by_cases h2 : c = 92
    · subst h2; exact readStr_short 92 92 _ acc (by decide) rfl
    by_cases h3 : c = 8
    · subst h3; exact readStr_short 98 8 _ acc (by decide) rfl
    by_cases h4 : c = 12
    · subst h4; exact readStr_short 102 12 _ acc (by decide) rfl
    by_cases h5 : c = 10
    · subst h5; exact readStr_short 110 10 _ acc (by decide) rfl
    by_cases h6 : c = 13
    · subst h6; exact readStr_short 114 13 _ acc (by decide) rfl
    by_cases h7 : c = 9
    · subst h7; exact readStr_short 116 9 _ acc (by decide) rfl
    have e1 : (c == 34) = false := by simp [h1]
    have e2 : (c == 92) = false := by simp [h2]
    have e3 : (c == 8) = false := by simp [h3]
    have e4 : (c == 12) = false := by simp [h4]
    have e5 : (c == 10) = false := by simp [h5]
    have e6 : (c == 13) = false := by simp [h6]
    have e7 : (c == 9) = false := by simp [h7]
    simp only [e1, e2, e3, e4, e5, e6, e7, Bool.false_eq_true, if_false]
    by_cases hu : (c < 32 || c == 38 || c == 60 || c == 62 || c == 0x2028 || c == 0x2029) = true
    · rw [if_pos hu]
      simp only [Bool.or_eq_true, decide_eq_true_eq, beq_iff_eq] at hu
      exact readStr_u4 c _ acc (by omega) (by omega)
    · rw [if_neg hu]
      simp only [Bool.or_eq_true, decide_eq_true_eq, beq_iff_eq, not_or] at hu
      simp only [List.cons_append, List.nil_append]
      rw [readStr.eq_def]
      have hlt : ¬ c < 32 := hu.1.1.1.1.1
      simp [e1, e2, hlt, flushHi]

/-- `"` + body + `"` -/
theorem readStr_quote (s rest : S) :
    readStr (escJson s ++ 34 :: rest) [] none = some (s, rest) := by
  rw [escJson_eq, readStr_esc]; simp

/-! ### integers -/

/-- value of a digit list read from the left, starting from `a` -/
def digitsVal (a : Nat) (ds : List Nat) : Nat := ds.foldl (fun a d => a * 10 + d) a

/-- the text that follows does not start with a digit -/
def NoDigitHead (rest : S) : Prop := ∀ c r, rest = c :: r → isDigit c = false

theorem readDigits_digits : ∀ (ds : List Nat) (rest : S) (a k : Nat), (∀ d ∈ ds, d < 10) → NoDigitHead rest →
    readDigits (ds.map (48 + ·) ++ rest) a k = (digitsVal a ds, k + ds.length, rest)
  | [], rest, a, k, _, hr => by
    cases rest with
    | nil => simp [readDigits, digitsVal]
    | cons c r => simp [readDigits, digitsVal, hr c r rfl]
  | d :: ds, rest, a, k, hd, hr => by
    have hd0 : d < 10 := hd d (by simp)
    have hdig : isDigit (48 + d) = true := by simp [isDigit]; omega
    have ih := readDigits_digits ds rest (a * 10 + d) (k + 1) (fun x hx => hd x (by simp [hx])) hr
    simp only [List.map_cons, List.cons_append, readDigits, hdig, if_true, Nat.add_sub_cancel_left, ih]
    simp [digitsVal]; omega

theorem natDigitsAux_spec : ∀ (f n : Nat) (acc : S), n < f →
    ∃ ds : List Nat, natDigitsAux f n acc = ds.map (48 + ·) ++ acc ∧ (∀ d ∈ ds, d < 10) ∧ ds ≠ [] ∧
      ∀ a, digitsVal a ds = a * 10 ^ ds.length + n
  | 0, n, _, h => by omega
  | f + 1, n, acc, h => by
    by_cases hn : n < 10
    · refine ⟨[n], by simp [natDigitsAux, hn], by simpa using hn, by simp, fun a => by simp [digitsVal]⟩
    · obtain ⟨ds, h1, h2, _, h4⟩ := natDigitsAux_spec f (n / 10) ((48 + n % 10) :: acc) (by omega)
      refine ⟨ds ++ [n % 10], ?_, ?_, by simp, ?_⟩
      · simp [natDigitsAux, hn, h1]
      · intro d hd
        rcases List.mem_append.mp hd with hd | hd
        · exact h2 d hd
        · simp at hd; omega
      · intro a
        have := h4 a
        simp only [digitsVal] at this ⊢
        rw [List.foldl_append, this, List.length_append, List.length_singleton, Nat.pow_succ, ← Nat.mul_assoc]
        simp only [List.foldl_cons, List.foldl_nil]
        generalize a * 10 ^ ds.length = q
        omega

theorem natDigits_spec (n : Nat) :
    ∃ ds : List Nat, natDigits n = ds.map (48 + ·) ∧ (∀ d ∈ ds, d < 10) ∧ ds ≠ [] ∧ digitsVal 0 ds = n := by
  obtain ⟨ds, h1, h2, h3, h4⟩ := natDigitsAux_spec (n + 1) n [] (by omega)
  exact ⟨ds, by simpa [natDigits] using h1, h2, h3, by simpa using h4 0⟩

/-- the text after a number: not a digit, not `.`, `e`, `E` -/
def NumEnd (rest : S) : Prop := ∀ c r, rest = c :: r → isDigit c = false ∧ c ≠ 46 ∧ c ≠ 101 ∧ c ≠ 69

theorem fracOrExp_of_numEnd (rest : S) (hr : NumEnd rest) : fracOrExp rest = false := by
  cases rest with
  | nil => rfl
  | cons c r =>
    obtain ⟨_, h1, h2, h3⟩ := hr c r rfl
    simp [fracOrExp, h1, h2, h3]

theorem readNat_nat (n : Nat) (rest : S) (neg : Bool) (hr : NumEnd rest) :
    readNat (natDigits n ++ rest) neg = some (.num (if neg then -(n : Int) else n), rest) := by
  obtain ⟨ds, h1, h2, h3, h4⟩ := natDigits_spec n
  have hrd := readDigits_digits ds rest 0 0 h2 (fun c r e => (hr c r e).1)
  have hlen : ds.length ≠ 0 := by
    cases ds with
    | nil => exact absurd rfl h3
    | cons _ _ => simp
  rw [h1]
  simp only [readNat, hrd, h4, fracOrExp_of_numEnd rest hr]
  simp [hlen]

theorem natDigits_head (n : Nat) : ∃ d t, natDigits n = (48 + d) :: t ∧ d < 10 := by
  obtain ⟨ds, h1, h2, h3, _⟩ := natDigits_spec n
  cases ds with
  | nil => exact absurd rfl h3
  | cons d t => exact ⟨d, t.map (48 + ·), by simpa using h1, h2 d (by simp)⟩

/-- an integer as the printer writes it is read back -/
theorem readNum_int (n : Int) (rest : S) (hr : NumEnd rest) :
    readNum (intDigits n ++ rest) = some (.num n, rest) := by
  unfold intDigits
  by_cases hneg : n < 0
  · simp only [hneg, if_true, List.cons_append, readNum, beq_self_eq_true]
    rw [readNat_nat _ _ _ hr]
    simp only [if_true, Option.some.injEq, Prod.mk.injEq, JVal.num.injEq, and_true]
    omega
  · simp only [hneg, if_false]
    obtain ⟨d, t, hd, hlt⟩ := natDigits_head n.natAbs
    have h45 : ((48 + d) == 45) = false := by simp; omega
    have := readNat_nat n.natAbs rest false hr
    rw [hd] at this ⊢
    simp only [List.cons_append, readNum, h45] at this ⊢
    rw [this]
    simp only [Bool.false_eq_true, if_false, Option.some.injEq, Prod.mk.injEq, JVal.num.injEq, and_true]
    omega

/-! ### values -/

mutual
/-- fuel that certainly suffices to read the value back -/
def need : JVal → Nat
  | .arr xs => 1 + needList xs
  | .obj kvs => 1 + needMembers kvs
  | _ => 1
def needList : List JVal → Nat
  | [] => 0
  | x :: xs => 1 + need x + needList xs
def needMembers : List (S × JVal) → Nat
  | [] => 0
  | (_, v) :: ms => 1 + need v + needMembers ms
end

/-- what may follow a value inside a document: nothing, `,`, `]` or `}` -/
def Delim (rest : S) : Prop := ∀ c r, rest = c :: r → c = 44 ∨ c = 93 ∨ c = 125

theorem Delim.numEnd {rest : S} (h : Delim rest) : NumEnd rest := by
  intro c r e
  rcases h c r e with rfl | rfl | rfl <;> decide

theorem skipWs_cons (c : Nat) (r : S) (h : isWs c = false) : skipWs (c :: r) = c :: r := by
  simp [skipWs, h]

theorem delim_tail (xs : List JVal) (rest : S) : Delim (JVal.printTail xs ++ rest) := by
  intro c r e
  cases xs with
  | nil => simp [JVal.printTail] at e; omega
  | cons _ _ => simp [JVal.printTail] at e; omega

theorem delim_membersTail (ms : List (S × JVal)) (rest : S) : Delim (JVal.printMembersTail ms ++ rest) := by
  intro c r e
  cases ms with
  | nil => simp [JVal.printMembersTail] at e; omega
  | cons m _ => cases m; simp [JVal.printMembersTail] at e; omega

/-- the first character a printed value starts with is neither blank nor a closing bracket -/
theorem print_head (v : JVal) : ∃ c t, v.print = c :: t ∧ isWs c = false ∧ c ≠ 93 ∧ c ≠ 125 := by
  cases v with
  | null => exact ⟨110, [117, 108, 108], by rw [JVal.print], by decide, by decide, by decide⟩
  | bool b =>
    cases b
    · exact ⟨102, [97, 108, 115, 101], by rw [JVal.print], by decide, by decide, by decide⟩
    · exact ⟨116, [114, 117, 101], by rw [JVal.print], by decide, by decide, by decide⟩
  | num n =>
    obtain ⟨d, t, hd, hlt⟩ := natDigits_head n.natAbs
    by_cases hneg : n < 0
    · exact ⟨45, natDigits n.natAbs, by rw [JVal.print, intDigits, if_pos hneg], by decide, by decide, by decide⟩
    · refine ⟨48 + d, t, by rw [JVal.print, intDigits, if_neg hneg, hd], ?_, by omega, by omega⟩
      simp [isWs]; omega
  | str s => exact ⟨34, escJson s ++ [34], by rw [JVal.print, quoteJson], by decide, by decide, by decide⟩
  | arr xs =>
    cases xs with
    | nil => exact ⟨91, [93], by rw [JVal.print], by decide, by decide, by decide⟩
    | cons x xs => exact ⟨91, x.print ++ JVal.printTail xs, by rw [JVal.print], by decide, by decide, by decide⟩
  | obj kvs =>
    cases kvs with
    | nil => exact ⟨123, [125], by rw [JVal.print], by decide, by decide, by decide⟩
    | cons m ms =>
      cases m with
      | mk k v =>
        exact ⟨123, quoteJson k ++ 58 :: (v.print ++ JVal.printMembersTail ms), by rw [JVal.print], by decide, by decide, by decide⟩

/-- reading one more element / the closing bracket after a value has been read (the loop of `elems`) -/
theorem elems_step (f : Nat) (x : JVal) (inp r : S) (acc : List JVal)
    (hx : value f inp = some (x, r)) :
    elems (f + 1) inp acc =
      match skipWs r with
      | [] => none
      | c :: r' => if c == 44 then elems f r' (x :: acc) else if c == 93 then some (.arr (x :: acc).reverse, r') else none := by
  rw [elems, hx]
  rfl

theorem members_step (f : Nat) (k : S) (v : JVal) (r0 r1 r2 : S) (acc : List (S × JVal))
    (hk : readStr r0 [] none = some (k, 58 :: r1)) (hv : value f r1 = some (v, r2)) :
    members (f + 1) (34 :: r0) acc =
      match skipWs r2 with
      | [] => none
      | c :: r' => if c == 44 then members f r' ((k, v) :: acc)
                   else if c == 125 then some (.obj ((k, v) :: acc).reverse, r') else none := by
  rw [members]
  simp only [skipWs_cons 34 r0 (by decide), beq_self_eq_true, if_true, hk, skipWs_cons 58 r1 (by decide), hv]
  rfl

mutual
/-- every printed value is read back, whatever (delimiter-started) text follows, with any fuel from `need v` on -/
theorem value_print : ∀ (v : JVal) (f : Nat) (rest : S), need v ≤ f → Delim rest →
    value f (v.print ++ rest) = some (v, rest)
  | .null, f, rest, hf, _ => by
    obtain ⟨f, rfl⟩ : ∃ g, f = g + 1 := ⟨f - 1, by simp [need] at hf; omega⟩
    rw [JVal.print, value]; simp [skipWs_cons 110 _ (by decide)]
  | .bool true, f, rest, hf, _ => by
    obtain ⟨f, rfl⟩ : ∃ g, f = g + 1 := ⟨f - 1, by simp [need] at hf; omega⟩
    rw [JVal.print, value]; simp [skipWs_cons 116 _ (by decide)]
  | .bool false, f, rest, hf, _ => by
    obtain ⟨f, rfl⟩ : ∃ g, f = g + 1 := ⟨f - 1, by simp [need] at hf; omega⟩
    rw [JVal.print, value]; simp [skipWs_cons 102 _ (by decide)]
  | .str s, f, rest, hf, _ => by
    obtain ⟨f, rfl⟩ : ∃ g, f = g + 1 := ⟨f - 1, by simp [need] at hf; omega⟩
    rw [JVal.print, quoteJson, value]
    simp [skipWs_cons 34 _ (by decide), readStr_quote]
  | .num n, f, rest, hf, hd => by
    obtain ⟨f, rfl⟩ : ∃ g, f = g + 1 := ⟨f - 1, by simp [need] at hf; omega⟩
    have hnum := readNum_int n rest hd.numEnd
    obtain ⟨c, t, hc, hws, _, _⟩ := print_head (.num n)
    rw [JVal.print] at hc ⊢
    rw [hc] at hnum ⊢
    have hcases : c = 45 ∨ (48 ≤ c ∧ c ≤ 57) := by
      unfold intDigits at hc
      obtain ⟨d, t', hd', hlt⟩ := natDigits_head n.natAbs
      by_cases hneg : n < 0
      · rw [if_pos hneg] at hc; simp at hc; omega
      · rw [if_neg hneg, hd'] at hc; simp at hc; omega
    rw [value]
    simp only [List.cons_append, skipWs_cons c _ hws]
    have h1 : (c == 34) = false := by simp; omega
    have h2 : (c == 91) = false := by simp; omega
    have h3 : (c == 123) = false := by simp; omega
    have h4 : (c == 110) = false := by simp; omega
    have h5 : (c == 116) = false := by simp; omega
    have h6 : (c == 102) = false := by simp; omega
    simp only [h1, h2, h3, h4, h5, h6, Bool.false_eq_true, if_false]
    simpa using hnum
  | .arr [], f, rest, hf, _ => by
    obtain ⟨f, rfl⟩ : ∃ g, f = g + 1 := ⟨f - 1, by simp [need] at hf; omega⟩
    rw [JVal.print, value]
    simp [skipWs_cons 91 _ (by decide), skipWs_cons 93 _ (by decide)]
  | .arr (x :: xs), f, rest, hf, _ => by
    obtain ⟨f, rfl⟩ : ∃ g, f = g + 1 := ⟨f - 1, by simp [need] at hf; omega⟩
    have hE := elems_print xs x (value_print x) f [] rest (by simp [need, needList] at hf ⊢; omega)
    obtain ⟨c, t, hc, hws, h93, _⟩ := print_head x
    rw [JVal.print, value]
    simp only [List.cons_append, skipWs_cons 91 _ (by decide)]
    rw [hc] at hE ⊢
    simp only [List.cons_append, List.append_assoc] at hE ⊢
    have h93' : (c == 93) = false := by simp [h93]
    simp [skipWs_cons c _ hws, h93']
    simpa using hE
  | .obj [], f, rest, hf, _ => by
    obtain ⟨f, rfl⟩ : ∃ g, f = g + 1 := ⟨f - 1, by simp [need] at hf; omega⟩
    rw [JVal.print, value]
    simp [skipWs_cons 123 _ (by decide), skipWs_cons 125 _ (by decide)]
  | .obj ((k, v) :: ms), f, rest, hf, _ => by
    obtain ⟨f, rfl⟩ : ∃ g, f = g + 1 := ⟨f - 1, by simp [need] at hf; omega⟩
    have hM := members_print ms k v (value_print v) f [] rest (by simp [need, needMembers] at hf ⊢; omega)
    rw [JVal.print, value]
    simp only [List.cons_append, skipWs_cons 123 _ (by decide), quoteJson]
    simp [skipWs_cons 34 _ (by decide)]
    simpa using hM
/-- the element loop: `x` then the remaining elements `xs`, then `]` -/
theorem elems_print : ∀ (xs : List JVal) (x : JVal)
    (_ : ∀ (f : Nat) (rest : S), need x ≤ f → Delim rest → value f (x.print ++ rest) = some (x, rest))
    (f : Nat) (acc : List JVal) (rest : S), 1 + need x + needList xs ≤ f →
    elems f (x.print ++ (JVal.printTail xs ++ rest)) acc = some (.arr (acc.reverse ++ x :: xs), rest)
  | [], x, hx, f, acc, rest, hf => by
    obtain ⟨f, rfl⟩ : ∃ g, f = g + 1 := ⟨f - 1, by omega⟩
    have h1 := hx f (JVal.printTail [] ++ rest) (by simp [needList] at hf; omega) (delim_tail [] rest)
    rw [elems_step f x _ _ acc h1]
    simp [JVal.printTail, skipWs_cons 93 _ (by decide)]
  | y :: ys, x, hx, f, acc, rest, hf => by
    obtain ⟨f, rfl⟩ : ∃ g, f = g + 1 := ⟨f - 1, by omega⟩
    have h1 := hx f (JVal.printTail (y :: ys) ++ rest) (by simp [needList] at hf; omega) (delim_tail (y :: ys) rest)
    rw [elems_step f x _ _ acc h1]
    have ih := elems_print ys y (value_print y) f (x :: acc) rest (by simp [needList] at hf ⊢; omega)
    simp only [JVal.printTail, List.cons_append, List.append_assoc, skipWs_cons 44 _ (by decide)]
    simpa using ih
/-- the member loop: `"k":v` then the remaining members, then `}` -/
theorem members_print : ∀ (ms : List (S × JVal)) (k : S) (v : JVal)
    (_ : ∀ (f : Nat) (rest : S), need v ≤ f → Delim rest → value f (v.print ++ rest) = some (v, rest))
    (f : Nat) (acc : List (S × JVal)) (rest : S), 1 + need v + needMembers ms ≤ f →
    members f (34 :: (escJson k ++ 34 :: 58 :: (v.print ++ (JVal.printMembersTail ms ++ rest)))) acc
      = some (.obj (acc.reverse ++ (k, v) :: ms), rest)
  | [], k, v, hv, f, acc, rest, hf => by
    obtain ⟨f, rfl⟩ : ∃ g, f = g + 1 := ⟨f - 1, by omega⟩
    have h1 := hv f (JVal.printMembersTail [] ++ rest) (by simp [needMembers] at hf; omega) (delim_membersTail [] rest)
    rw [members_step f k v _ _ _ acc (readStr_quote k _) h1]
    simp [JVal.printMembersTail, skipWs_cons 125 _ (by decide)]
  | (k', v') :: ms, k, v, hv, f, acc, rest, hf => by
    obtain ⟨f, rfl⟩ : ∃ g, f = g + 1 := ⟨f - 1, by omega⟩
    have h1 := hv f (JVal.printMembersTail ((k', v') :: ms) ++ rest) (by simp [needMembers] at hf; omega)
      (delim_membersTail ((k', v') :: ms) rest)
    rw [members_step f k v _ _ _ acc (readStr_quote k _) h1]
    have ih := members_print ms k' v' (value_print v') f ((k, v) :: acc) rest (by simp [needMembers] at hf ⊢; omega)
    simp only [JVal.printMembersTail, quoteJson, List.cons_append, List.append_assoc, skipWs_cons 44 _ (by decide)]
    simpa using ih
end

/-! ### the fuel `parse` starts with is enough -/

theorem print_length_pos (v : JVal) : 1 ≤ v.print.length := by
  obtain ⟨c, t, hc, _⟩ := print_head v
  simp [hc]

mutual
theorem need_le : ∀ v : JVal, need v ≤ v.print.length
  | .null => by simp [need, JVal.print]
  | .bool b => by simp [need]; exact print_length_pos _
  | .num n => by simp [need]; exact print_length_pos _
  | .str s => by simp [need]; exact print_length_pos _
  | .arr [] => by simp [need, needList, JVal.print]
  | .arr (x :: xs) => by
    have h1 := need_le x
    have h2 := needList_le xs
    simp only [need, needList, JVal.print, List.length_cons, List.length_append]
    omega
  | .obj [] => by simp [need, needMembers, JVal.print]
  | .obj ((k, v) :: ms) => by
    have h1 := need_le v
    have h2 := needMembers_le ms
    simp only [need, needMembers, JVal.print, List.length_cons, List.length_append]
    omega
theorem needList_le : ∀ xs : List JVal, needList xs + 1 ≤ (JVal.printTail xs).length
  | [] => by simp [needList, JVal.printTail]
  | x :: xs => by
    have h1 := need_le x
    have h2 := needList_le xs
    simp only [needList, JVal.printTail, List.length_cons, List.length_append]
    omega
theorem needMembers_le : ∀ ms : List (S × JVal), needMembers ms + 1 ≤ (JVal.printMembersTail ms).length
  | [] => by simp [needMembers, JVal.printMembersTail]
  | (k, v) :: ms => by
    have h1 := need_le v
    have h2 := needMembers_le ms
    simp only [needMembers, JVal.printMembersTail, List.length_cons, List.length_append]
    omega
end

/-- THE TEXT ROUND TRIP: the reader reads back every value the printer writes -/
theorem parse_print (v : JVal) : parse v.print = some v := by
  have h := value_print v (v.print.length + 8) [] (by have := need_le v; omega) (by intro c r e; cases e)
  rw [List.append_nil] at h
  simp [parse, h, skipWs]

/-! ### any layout: blanks between the tokens do not change what is read -/

/-- a run of blanks (space, tab, LF, CR) -/
def Blank (b : S) : Prop := ∀ c ∈ b, isWs c = true

/-- a layout that puts only blanks between tokens -/
structure BlankLayout (L : Layout) : Prop where
  opn : ∀ d, Blank (L.opn d)
  cls : ∀ d, Blank (L.cls d)
  col : Blank L.col

theorem skipWs_blank : ∀ (b t : S), Blank b → skipWs (b ++ t) = skipWs t
  | [], _, _ => rfl
  | c :: b, t, h => by
    have hc : isWs c = true := h c (by simp)
    simp only [List.cons_append, skipWs, hc, if_true]
    exact skipWs_blank b t (fun x hx => h x (by simp [hx]))

theorem skipWs_blank_cons (b : S) (c : Nat) (t : S) (hb : Blank b) (hc : isWs c = false) :
    skipWs (b ++ c :: t) = c :: t := by
  rw [skipWs_blank b _ hb, skipWs_cons c t hc]

/-- what may follow a value under a layout: nothing, `,`, `]`, `}` or a blank -/
def DelimB (rest : S) : Prop := ∀ c r, rest = c :: r → c = 44 ∨ c = 93 ∨ c = 125 ∨ isWs c = true

theorem DelimB.numEnd {rest : S} (h : DelimB rest) : NumEnd rest := by
  intro c r e
  rcases h c r e with rfl | rfl | rfl | hw
  · decide
  · decide
  · decide
  · simp only [isWs, Bool.or_eq_true, beq_iff_eq] at hw
    rcases hw with ((rfl | rfl) | rfl) | rfl <;> decide

theorem delimB_of_blank_cons (b : S) (c : Nat) (t : S) (hb : Blank b) (hc : c = 44 ∨ c = 93 ∨ c = 125) :
    DelimB (b ++ c :: t) := by
  intro c' r e
  cases b with
  | nil => simp at e; rcases hc with h | h | h <;> simp [← e.1, h]
  | cons x b' => simp at e; exact Or.inr (Or.inr (Or.inr (by rw [← e.1]; exact hb x (by simp))))

theorem delimB_tailL (L : Layout) (hL : BlankLayout L) (d : Nat) (xs : List JVal) (rest : S) :
    DelimB (JVal.printTailL L d xs ++ rest) := by
  cases xs with
  | nil =>
    simp only [JVal.printTailL, List.append_assoc, List.cons_append, List.nil_append]
    exact delimB_of_blank_cons _ 93 _ (hL.cls d) (by simp)
  | cons x xs =>
    simp only [JVal.printTailL, List.cons_append]
    exact delimB_of_blank_cons [] 44 _ (by intro c hc; cases hc) (by simp)

theorem delimB_membersTailL (L : Layout) (hL : BlankLayout L) (d : Nat) (ms : List (S × JVal)) (rest : S) :
    DelimB (JVal.printMembersTailL L d ms ++ rest) := by
  cases ms with
  | nil =>
    simp only [JVal.printMembersTailL, List.append_assoc, List.cons_append, List.nil_append]
    exact delimB_of_blank_cons _ 125 _ (hL.cls d) (by simp)
  | cons m ms =>
    cases m
    simp only [JVal.printMembersTailL, List.cons_append]
    exact delimB_of_blank_cons [] 44 _ (by intro c hc; cases hc) (by simp)

/-- a value starts with the same character under every layout -/
theorem printL_head (L : Layout) (d : Nat) (v : JVal) :
    ∃ c t, JVal.printL L d v = c :: t ∧ isWs c = false ∧ c ≠ 93 ∧ c ≠ 125 := by
  cases v with
  | null => exact ⟨110, [117, 108, 108], by rw [JVal.printL], by decide, by decide, by decide⟩
  | bool b =>
    cases b
    · exact ⟨102, [97, 108, 115, 101], by rw [JVal.printL], by decide, by decide, by decide⟩
    · exact ⟨116, [114, 117, 101], by rw [JVal.printL], by decide, by decide, by decide⟩
  | num n =>
    obtain ⟨c, t, hc, h1, h2, h3⟩ := print_head (.num n)
    rw [JVal.print] at hc
    exact ⟨c, t, by rw [JVal.printL, hc], h1, h2, h3⟩
  | str s => exact ⟨34, escJson s ++ [34], by rw [JVal.printL, quoteJson], by decide, by decide, by decide⟩
  | arr xs =>
    cases xs with
    | nil => exact ⟨91, [93], by rw [JVal.printL], by decide, by decide, by decide⟩
    | cons x xs => exact ⟨91, _, by rw [JVal.printL], by decide, by decide, by decide⟩
  | obj kvs =>
    cases kvs with
    | nil => exact ⟨123, [125], by rw [JVal.printL], by decide, by decide, by decide⟩
    | cons m ms =>
      cases m with
      | mk k v => exact ⟨123, _, by rw [JVal.printL], by decide, by decide, by decide⟩

theorem value_skip (f : Nat) (b t : S) (hb : Blank b) : value f (b ++ t) = value f t := by
  cases f with
  | zero => rfl
  | succ f => rw [value, value, skipWs_blank b t hb]

theorem members_skip (f : Nat) (b t : S) (acc : List (S × JVal)) (hb : Blank b) :
    members f (b ++ t) acc = members f t acc := by
  cases f with
  | zero => rfl
  | succ f => rw [members, members, skipWs_blank b t hb]

mutual
/-- every value printed under a blank-only layout is read back -/
theorem value_printL (L : Layout) (hL : BlankLayout L) : ∀ (v : JVal) (d f : Nat) (rest : S), need v ≤ f → DelimB rest →
    value f (JVal.printL L d v ++ rest) = some (v, rest)
  | .null, d, f, rest, hf, _ => by
    obtain ⟨f, rfl⟩ : ∃ g, f = g + 1 := ⟨f - 1, by simp [need] at hf; omega⟩
    rw [JVal.printL, value]; simp [skipWs_cons 110 _ (by decide)]
  | .bool true, d, f, rest, hf, _ => by
    obtain ⟨f, rfl⟩ : ∃ g, f = g + 1 := ⟨f - 1, by simp [need] at hf; omega⟩
    rw [JVal.printL, value]; simp [skipWs_cons 116 _ (by decide)]
  | .bool false, d, f, rest, hf, _ => by
    obtain ⟨f, rfl⟩ : ∃ g, f = g + 1 := ⟨f - 1, by simp [need] at hf; omega⟩
    rw [JVal.printL, value]; simp [skipWs_cons 102 _ (by decide)]
  | .str s, d, f, rest, hf, _ => by
    obtain ⟨f, rfl⟩ : ∃ g, f = g + 1 := ⟨f - 1, by simp [need] at hf; omega⟩
    rw [JVal.printL, quoteJson, value]
    simp [skipWs_cons 34 _ (by decide), readStr_quote]
  | .num n, d, f, rest, hf, hd => by
    obtain ⟨f, rfl⟩ : ∃ g, f = g + 1 := ⟨f - 1, by simp [need] at hf; omega⟩
    have hnum := readNum_int n rest hd.numEnd
    obtain ⟨c, t, hc, hws, _, _⟩ := print_head (.num n)
    rw [JVal.print] at hc
    rw [JVal.printL]
    rw [hc] at hnum ⊢
    have hcases : c = 45 ∨ (48 ≤ c ∧ c ≤ 57) := by
      unfold intDigits at hc
      obtain ⟨d', t', hd', hlt⟩ := natDigits_head n.natAbs
      by_cases hneg : n < 0
      · rw [if_pos hneg] at hc; simp at hc; omega
      · rw [if_neg hneg, hd'] at hc; simp at hc; omega
    rw [value]
    simp only [List.cons_append, skipWs_cons c _ hws]
    have h1 : (c == 34) = false := by simp; omega
    have h2 : (c == 91) = false := by simp; omega
    have h3 : (c == 123) = false := by simp; omega
    have h4 : (c == 110) = false := by simp; omega
    have h5 : (c == 116) = false := by simp; omega
    have h6 : (c == 102) = false := by simp; omega
    simp only [h1, h2, h3, h4, h5, h6, Bool.false_eq_true, if_false]
    simpa using hnum
  | .arr [], d, f, rest, hf, _ => by
    obtain ⟨f, rfl⟩ : ∃ g, f = g + 1 := ⟨f - 1, by simp [need] at hf; omega⟩
    rw [JVal.printL, value]
    simp [skipWs_cons 91 _ (by decide), skipWs_cons 93 _ (by decide)]
  | .arr (x :: xs), d, f, rest, hf, _ => by
    obtain ⟨f, rfl⟩ : ∃ g, f = g + 1 := ⟨f - 1, by simp [need] at hf; omega⟩
    have hE := elems_printL L hL xs x d (value_printL L hL x (d + 1)) f [] rest (by simp [need, needList] at hf ⊢; omega)
    obtain ⟨c, t, hc, hws, h93, _⟩ := printL_head L (d + 1) x
    rw [JVal.printL, value]
    simp only [List.cons_append, skipWs_cons 91 _ (by decide)]
    rw [hc] at hE ⊢
    simp only [List.cons_append, List.append_assoc] at hE ⊢
    have h93' : (c == 93) = false := by simp [h93]
    have hsk := skipWs_blank_cons (L.opn d) c (t ++ (JVal.printTailL L d xs ++ rest)) (hL.opn d) hws
    simp [hsk, h93']
    simpa using hE
  | .obj [], d, f, rest, hf, _ => by
    obtain ⟨f, rfl⟩ : ∃ g, f = g + 1 := ⟨f - 1, by simp [need] at hf; omega⟩
    rw [JVal.printL, value]
    simp [skipWs_cons 123 _ (by decide), skipWs_cons 125 _ (by decide)]
  | .obj ((k, v) :: ms), d, f, rest, hf, _ => by
    obtain ⟨f, rfl⟩ : ∃ g, f = g + 1 := ⟨f - 1, by simp [need] at hf; omega⟩
    have hM := members_printL L hL ms k v d (value_printL L hL v (d + 1)) f [] rest (by simp [need, needMembers] at hf ⊢; omega)
    rw [JVal.printL, value]
    simp only [List.cons_append, skipWs_cons 123 _ (by decide), quoteJson, List.append_assoc]
    have hsk := skipWs_blank_cons (L.opn d) 34
      (escJson k ++ 34 :: 58 :: (L.col ++ (JVal.printL L (d + 1) v ++ (JVal.printMembersTailL L d ms ++ rest)))) (hL.opn d) (by decide)
    simp [hsk]
    simpa using hM
/-- the element loop under a layout -/
theorem elems_printL (L : Layout) (hL : BlankLayout L) : ∀ (xs : List JVal) (x : JVal) (d : Nat)
    (_ : ∀ (f : Nat) (rest : S), need x ≤ f → DelimB rest → value f (JVal.printL L (d + 1) x ++ rest) = some (x, rest))
    (f : Nat) (acc : List JVal) (rest : S), 1 + need x + needList xs ≤ f →
    elems f (JVal.printL L (d + 1) x ++ (JVal.printTailL L d xs ++ rest)) acc = some (.arr (acc.reverse ++ x :: xs), rest)
  | [], x, d, hx, f, acc, rest, hf => by
    obtain ⟨f, rfl⟩ : ∃ g, f = g + 1 := ⟨f - 1, by omega⟩
    have h1 := hx f (JVal.printTailL L d [] ++ rest) (by simp [needList] at hf; omega) (delimB_tailL L hL d [] rest)
    rw [elems_step f x _ _ acc h1]
    simp only [JVal.printTailL, List.append_assoc, List.cons_append, List.nil_append]
    rw [skipWs_blank_cons (L.cls d) 93 _ (hL.cls d) (by decide)]
    simp
  | y :: ys, x, d, hx, f, acc, rest, hf => by
    obtain ⟨f, rfl⟩ : ∃ g, f = g + 1 := ⟨f - 1, by omega⟩
    have h1 := hx f (JVal.printTailL L d (y :: ys) ++ rest) (by simp [needList] at hf; omega) (delimB_tailL L hL d (y :: ys) rest)
    rw [elems_step f x _ _ acc h1]
    have ih := elems_printL L hL ys y d (value_printL L hL y (d + 1)) f (x :: acc) rest (by simp [needList] at hf ⊢; omega)
    simp only [JVal.printTailL, List.cons_append, List.append_assoc, skipWs_cons 44 _ (by decide)]
    cases f with
    | zero => simp [needList] at hf; omega
    | succ f =>
      rw [elems, value_skip f (L.opn d) _ (hL.opn d)] at *
      simpa using ih
/-- the member loop under a layout -/
theorem members_printL (L : Layout) (hL : BlankLayout L) : ∀ (ms : List (S × JVal)) (k : S) (v : JVal) (d : Nat)
    (_ : ∀ (f : Nat) (rest : S), need v ≤ f → DelimB rest → value f (JVal.printL L (d + 1) v ++ rest) = some (v, rest))
    (f : Nat) (acc : List (S × JVal)) (rest : S), 1 + need v + needMembers ms ≤ f →
    members f (34 :: (escJson k ++ 34 :: 58 :: (L.col ++ (JVal.printL L (d + 1) v ++ (JVal.printMembersTailL L d ms ++ rest))))) acc
      = some (.obj (acc.reverse ++ (k, v) :: ms), rest)
  | [], k, v, d, hv, f, acc, rest, hf => by
    obtain ⟨f, rfl⟩ : ∃ g, f = g + 1 := ⟨f - 1, by omega⟩
    have h1 := hv f (JVal.printMembersTailL L d [] ++ rest) (by simp [needMembers] at hf; omega) (delimB_membersTailL L hL d [] rest)
    rw [← value_skip f L.col _ hL.col] at h1
    rw [members_step f k v _ _ _ acc (readStr_quote k _) h1]
    simp only [JVal.printMembersTailL, List.append_assoc, List.cons_append, List.nil_append]
    rw [skipWs_blank_cons (L.cls d) 125 _ (hL.cls d) (by decide)]
    simp
  | (k', v') :: ms, k, v, d, hv, f, acc, rest, hf => by
    obtain ⟨f, rfl⟩ : ∃ g, f = g + 1 := ⟨f - 1, by omega⟩
    have h1 := hv f (JVal.printMembersTailL L d ((k', v') :: ms) ++ rest) (by simp [needMembers] at hf; omega)
      (delimB_membersTailL L hL d ((k', v') :: ms) rest)
    rw [← value_skip f L.col _ hL.col] at h1
    rw [members_step f k v _ _ _ acc (readStr_quote k _) h1]
    have ih := members_printL L hL ms k' v' d (value_printL L hL v' (d + 1)) f ((k, v) :: acc) rest (by simp [needMembers] at hf ⊢; omega)
    simp only [JVal.printMembersTailL, quoteJson, List.cons_append, List.append_assoc, skipWs_cons 44 _ (by decide)]
    rw [members_skip f (L.opn d) _ _ (hL.opn d)]
    simpa using ih
end

mutual
theorem needL_le (L : Layout) : ∀ (v : JVal) (d : Nat), need v ≤ (JVal.printL L d v).length
  | .null, d => by simp [need, JVal.printL]
  | .bool b, d => by
    obtain ⟨c, t, hc, _⟩ := printL_head L d (.bool b); simp [need, hc]
  | .num n, d => by
    obtain ⟨c, t, hc, _⟩ := printL_head L d (.num n); simp [need, hc]
  | .str s, d => by
    obtain ⟨c, t, hc, _⟩ := printL_head L d (.str s); simp [need, hc]
  | .arr [], d => by simp [need, needList, JVal.printL]
  | .arr (x :: xs), d => by
    have h1 := needL_le L x (d + 1)
    have h2 := needListL_le L xs d
    simp only [need, needList, JVal.printL, List.length_cons, List.length_append]
    omega
  | .obj [], d => by simp [need, needMembers, JVal.printL]
  | .obj ((k, v) :: ms), d => by
    have h1 := needL_le L v (d + 1)
    have h2 := needMembersL_le L ms d
    simp only [need, needMembers, JVal.printL, List.length_cons, List.length_append]
    omega
theorem needListL_le (L : Layout) : ∀ (xs : List JVal) (d : Nat), needList xs + 1 ≤ (JVal.printTailL L d xs).length
  | [], d => by simp [needList, JVal.printTailL]
  | x :: xs, d => by
    have h1 := needL_le L x (d + 1)
    have h2 := needListL_le L xs d
    simp only [needList, JVal.printTailL, List.length_cons, List.length_append]
    omega
theorem needMembersL_le (L : Layout) : ∀ (ms : List (S × JVal)) (d : Nat),
    needMembers ms + 1 ≤ (JVal.printMembersTailL L d ms).length
  | [], d => by simp [needMembers, JVal.printMembersTailL]
  | (k, v) :: ms, d => by
    have h1 := needL_le L v (d + 1)
    have h2 := needMembersL_le L ms d
    simp only [needMembers, JVal.printMembersTailL, List.length_cons, List.length_append]
    omega
end

/-- THE TEXT ROUND TRIP UNDER ANY LAYOUT: blanks after `[` `{` `,` `:` and before `]` `}` do not change what is read -/
theorem parse_printL (L : Layout) (hL : BlankLayout L) (v : JVal) (d : Nat) : parse (JVal.printL L d v) = some v := by
  have h := value_printL L hL v d ((JVal.printL L d v).length + 8) [] (by have := needL_le L v d; omega)
    (by intro c r e; cases e)
  rw [List.append_nil] at h
  simp [parse, h, skipWs]

theorem blank_replicate (n : Nat) : Blank (10 :: List.replicate n 32) := by
  intro c hc
  simp only [List.mem_cons, List.mem_replicate] at hc
  rcases hc with rfl | ⟨_, rfl⟩ <;> decide

theorem indentLayout_blank : BlankLayout indentLayout where
  opn := fun d => blank_replicate (d + 1)
  cls := fun d => blank_replicate d
  col := by intro c hc; simp [indentLayout] at hc; subst hc; decide

/-- `json.MarshalIndent`'s layout (what `polyjson.Write` stores) is read back -/
theorem parse_printIndent (v : JVal) : parse v.printIndent = some v :=
  parse_printL indentLayout indentLayout_blank v 0

end PolyVerif.JsonText
