import PolyVerif.Lemmas.XmlScan
import PolyVerif.Spec.UniprotDoc
/-
The reader of Spec/XmlScan on the token sequence of a document of Spec/UniprotDoc: every entry is decoded to
exactly its accessions, names and sequence text (`run_entryToks`), whatever stands between the entries is
passed over, and the whole document yields `docTrace` (`scanToks_docToks`).
-/
namespace PolyVerif.Spec.UniprotSpec
open PolyVerif PolyVerif.Uniprot PolyVerif.Spec.XmlScan

/-- decoding an entry, directly inside `<entry>`, with the children `e` completed so far -/
def inEntry (saw : Bool) (stack : List Str) (evs : List Ev) (e : Entry) : St :=
  ⟨saw, stack, some ⟨e, [], []⟩, evs, false⟩

/-- between elements, outside any entry -/
def atTop (saw : Bool) (stack : List Str) (evs : List Ev) : St := ⟨saw, stack, none, evs, false⟩

theorem run_inEntry_nl (saw : Bool) (stack : List Str) (evs : List Ev) (e : Entry) (ts : List Tok) :
    run (inEntry saw stack evs e) (nl :: ts) = run (inEntry saw stack evs e) ts := by
  simp [run_cons, inEntry, step, stepEntry, nl]

theorem run_elemToks (saw : Bool) (stack : List Str) (evs : List Ev) (e : Entry) (tag : String) (text : Str)
    (ts : List Tok) :
    run (inEntry saw stack evs e) (elemToks tag text ++ ts) =
      run (inEntry saw stack evs (recordChild e (s tag) text)) ts := by
  by_cases h : text = []
  · subst h
    simp [elemToks, run_cons, inEntry, step, stepEntry, nl]
  · have hne : text.isEmpty = false := by cases text <;> simp_all
    simp [elemToks, hne, run_cons, inEntry, step, stepEntry, nl]

def recordAll (tag : String) (e : Entry) (texts : List Str) : Entry := texts.foldl (fun e t => recordChild e (s tag) t) e

theorem run_elems (saw : Bool) (stack : List Str) (evs : List Ev) (tag : String) :
    ∀ (texts : List Str) (e : Entry) (ts : List Tok),
    run (inEntry saw stack evs e) (texts.flatMap (elemToks tag) ++ ts) =
      run (inEntry saw stack evs (recordAll tag e texts)) ts
  | [], _, _ => rfl
  | t :: texts, e, ts => by
    simp only [List.flatMap_cons, List.append_assoc, run_elemToks, recordAll, List.foldl_cons]
    exact run_elems saw stack evs tag texts _ ts

theorem recordAll_accession (e : Entry) (xs : List Str) :
    recordAll "accession" e xs = { e with accessions := e.accessions ++ xs } := by
  induction xs generalizing e with
  | nil => simp [recordAll]
  | cons x xs ih =>
    have : recordChild e (s "accession") x = { e with accessions := e.accessions ++ [x] } := by
      simp [recordChild, strEq, s]
    simp only [recordAll, List.foldl_cons, this] at ih ⊢
    rw [ih]; simp

theorem recordAll_name (e : Entry) (xs : List Str) :
    recordAll "name" e xs = { e with names := e.names ++ xs } := by
  induction xs generalizing e with
  | nil => simp [recordAll]
  | cons x xs ih =>
    have : recordChild e (s "name") x = { e with names := e.names ++ [x] } := by
      simp [recordChild, strEq, s]
    simp only [recordAll, List.foldl_cons, this] at ih ⊢
    rw [ih]; simp

theorem run_extra (saw : Bool) (stack : List Str) (evs : List Ev) (e : Entry) (ts : List Tok) :
    run (inEntry saw stack evs e) (extraToks ++ ts) = run (inEntry saw stack evs e) ts := by
  have h1 : strEq (s "protein") "accession" = false ∧ strEq (s "protein") "name" = false ∧
      strEq (s "protein") "sequence" = false ∧ strEq (s "organism") "accession" = false ∧
      strEq (s "organism") "name" = false ∧ strEq (s "organism") "sequence" = false := by decide
  simp [extraToks, run_cons, inEntry, step, stepEntry, nl, recordChild, h1]

theorem run_sequence (saw : Bool) (stack : List Str) (evs : List Ev) (e : Entry) (d : DocEntry) (ts : List Tok) :
    run (inEntry saw stack evs e)
        (.start (s "sequence") (seqAttrs d) false :: (if d.seq.isEmpty then [] else [.chars d.seq]) ++
          [.close (s "sequence"), nl, .close (s "entry")] ++ ts) =
      run (atTop saw stack (.entry { e with seq := d.seq } :: evs)) ts := by
  have h1 : strEq (s "sequence") "accession" = false ∧ strEq (s "sequence") "name" = false ∧
      strEq (s "sequence") "sequence" = true ∧ strEq (s "entry") "entry" = true := by decide
  by_cases h : d.seq = []
  · simp [h, run_cons, inEntry, atTop, step, stepEntry, nl, recordChild, h1]
  · have hne : d.seq.isEmpty = false := by cases hd : d.seq <;> simp_all
    simp [hne, run_cons, inEntry, atTop, step, stepEntry, nl, recordChild, h1]

/-- DecodeElement on an entry of the document: exactly its accessions, names and sequence text -/
theorem run_entryToks (saw : Bool) (stack : List Str) (evs : List Ev) (d : DocEntry) (ts : List Tok) :
    run (atTop saw stack evs) (entryToks d ++ ts) = run (atTop true stack (.entry d.toEntry :: evs)) ts := by
  have h0 : strEq (s "entry") "entry" = true := by decide
  have hstart : run (atTop saw stack evs) (entryToks d ++ ts) =
      run (inEntry true stack evs ⟨[], [], []⟩) (entryBodyToks d ++ ts) := by
    simp [entryToks, run_cons, atTop, inEntry, step, stepEntry, nl, h0]
  rw [hstart]
  unfold entryBodyToks
  simp only [List.append_assoc]
  rw [run_elems, run_elems, recordAll_accession, recordAll_name]
  by_cases hx : d.extra = true
  · simp only [hx, if_true]
    rw [run_extra]
    have := run_sequence true stack evs { accessions := [] ++ d.accessions, names := [] ++ d.names, seq := [] } d ts
    simp only [List.append_assoc, List.cons_append, List.nil_append] at this ⊢
    rw [this]; rfl
  · simp only [hx, Bool.false_eq_true, if_false, List.nil_append]
    have := run_sequence true stack evs { accessions := [] ++ d.accessions, names := [] ++ d.names, seq := [] } d ts
    simp only [List.append_assoc, List.cons_append, List.nil_append] at this ⊢
    rw [this]; rfl

theorem run_fillerToks (stack : List Str) (evs : List Ev) (n : Nat) (ts : List Tok) :
    run (atTop true stack evs) (fillerToks n ++ ts) = run (atTop true stack ((fillerEvs n).reverse ++ evs)) ts := by
  have h0 : strEq (s "copyright") "entry" = false := by decide
  match n with
  | 0 => simp [fillerToks, fillerEvs, run_cons, atTop, step, nl]
  | 1 => simp [fillerToks, fillerEvs, run_cons, atTop, step, nl, h0]
  | 2 => simp [fillerToks, fillerEvs, run_cons, atTop, step, nl]
  | 3 => simp [fillerToks, fillerEvs]
  | 4 => simp [fillerToks, fillerEvs, run_cons, atTop, step, nl, h0]
  | _ + 5 => simp [fillerToks, fillerEvs]

def bodyEvs (ds : List DocEntry) : List Ev := ds.flatMap (fun e => Ev.entry e.toEntry :: fillerEvs e.filler)

theorem run_entriesToks (stack : List Str) : ∀ (ds : List DocEntry) (saw : Bool) (evs : List Ev) (ts : List Tok),
    (ds = [] → saw = true) →
    run (atTop saw stack evs) (entriesToks ds ++ ts) = run (atTop true stack ((bodyEvs ds).reverse ++ evs)) ts
  | [], saw, evs, ts, h => by simp [entriesToks, bodyEvs, h rfl]
  | d :: ds, saw, evs, ts, _ => by
    have ih := run_entriesToks stack ds true (((fillerEvs d.filler).reverse ++ (.entry d.toEntry :: evs))) ts (fun _ => rfl)
    simp only [entriesToks, List.flatMap_cons, List.append_assoc] at ih ⊢
    rw [run_entryToks, run_fillerToks, ih]
    simp [bodyEvs, List.flatMap_cons]

theorem run_prolog (n : Nat) (ts : List Tok) :
    run St.init (prologToks n ++ ts) = run (atTop false [] (prologEvs n).reverse) ts := by
  match n with
  | 0 => rfl
  | 1 => simp [prologToks, prologEvs, run_cons, St.init, atTop, step, nl]
  | _ + 2 => simp [prologToks, prologEvs, run_cons, St.init, atTop, step, nl]

theorem run_rootOpen (evs : List Ev) (ts : List Tok) :
    run (atTop false [] evs) (rootOpenToks ++ ts) = run (atTop true [s "uniprot"] (.other :: .start :: evs)) ts := by
  have h0 : strEq (s "uniprot") "entry" = false := by decide
  simp [rootOpenToks, run_cons, atTop, step, nl, h0]

/-- the events of the document through its `k` first entries (without what follows the last of them) -/
def evsThrough (prolog : Nat) (pre : List DocEntry) (e : DocEntry) : List Ev :=
  prologEvs prolog ++ [.start, .other] ++ bodyEvs pre ++ [.entry e.toEntry]

/-- the reader on the whole token sequence of a document -/
theorem scanToks_docToks (d : Doc) : scanToks (docToks d) false = docTrace d := by
  unfold scanToks docToks
  simp only [List.append_assoc]
  rw [run_prolog, run_rootOpen, run_entriesToks _ _ _ _ _ (fun _ => rfl)]
  cases htnl : d.trailingNl
  · simp [run_cons, run_nil, atTop, step, finish, docTrace, htnl, bodyEvs]
  · simp [run_cons, run_nil, atTop, step, finish, docTrace, htnl, bodyEvs, nl]

/-! ### the token sequence of a document is well formed (so the lexer reads its text back) -/

/-- texts of entries: any legal characters except `<`, `&`, `]` (entities occur between entries only) -/
def subsetText (t : Str) : Prop := ∀ c ∈ t, textChar c = true

instance (t : Str) : Decidable (subsetText t) := by unfold subsetText; infer_instance

def WFDocEntry (e : DocEntry) : Prop :=
  e.attrs ≤ 1 ∧ (∀ a ∈ e.accessions, subsetText a) ∧ (∀ n ∈ e.names, subsetText n) ∧ subsetText e.seq

/-- the documents the theorems speak about: valid against the schema (`attrs ≤ 1`: no entry carries the
non-numeric `version`), texts within the subset's character data (no `<`, `&`, `]`, no carriage return, no
U+FFFE / U+FFFF; otherwise any characters, ASCII or not) -/
def WFDoc (d : Doc) : Prop := ∀ e ∈ d.entries, WFDocEntry e

instance (d : Doc) : Decidable (WFDoc d) := by unfold WFDoc WFDocEntry; infer_instance

theorem wfName_lit : WFName (s "accession") ∧ WFName (s "name") ∧ WFName (s "sequence") ∧ WFName (s "entry") ∧
    WFName (s "uniprot") ∧ WFName (s "copyright") := by decide

theorem wfTok_nl : WFTok nl := by decide

theorem wfToks_elemToks (tag : String) (text : Str) (rest : List Tok) (hn : WFName (s tag)) (ht : subsetText text)
    (hr : WFToks rest) (hm : MarkupFirst rest) : WFToks (elemToks tag text ++ rest) := by
  have hnl : WFToks (nl :: rest) := ⟨wfTok_nl, fun _ => hm, hr⟩
  by_cases h : text = []
  · subst h
    exact ⟨⟨hn, by simp⟩, by simp [isChars], hn, by simp [isChars], hnl⟩
  · have hne : text.isEmpty = false := by cases text <;> simp_all
    simp only [elemToks, hne, Bool.false_eq_true, if_false, List.cons_append, List.nil_append]
    exact ⟨⟨hn, by simp⟩, by simp [isChars], ⟨h, validText_of_textChars _ ht⟩, by simp [isChars], hn, by simp [isChars], hnl⟩

theorem wfToks_elems (tag : String) (hn : WFName (s tag)) : ∀ (texts : List Str) (rest : List Tok),
    (∀ t ∈ texts, subsetText t) → WFToks rest → MarkupFirst rest →
    WFToks (texts.flatMap (elemToks tag) ++ rest) ∧ MarkupFirst (texts.flatMap (elemToks tag) ++ rest)
  | [], rest, _, hr, hm => ⟨hr, hm⟩
  | t :: texts, rest, ht, hr, hm => by
    have ih := wfToks_elems tag hn texts rest (fun x hx => ht x (by simp [hx])) hr hm
    simp only [List.flatMap_cons, List.append_assoc]
    exact ⟨wfToks_elemToks tag t _ hn (ht t (by simp)) ih.1 ih.2, by simp [elemToks, MarkupFirst, isChars]⟩

theorem digit_valueChar {c : Char} (h : c.isDigit = true) : valueChar '"' c = true := by
  have h1 : c ≠ '<' := by intro e; subst e; exact absurd h (by decide)
  have h2 : c ≠ '&' := by intro e; subst e; exact absurd h (by decide)
  have h3 : c ≠ '"' := by intro e; subst e; exact absurd h (by decide)
  simp only [Char.isDigit, Bool.and_eq_true, decide_eq_true_eq] at h
  have h4 : 32 ≤ c.toNat ∧ c.toNat ≤ 57 := by
    simp only [Char.toNat]
    exact ⟨Nat.le_trans (by decide) (UInt32.le_iff_toNat_le.mp h.1), UInt32.le_iff_toNat_le.mp h.2⟩
  have h5 : c.toNat ≠ 0xFFFE ∧ c.toNat ≠ 0xFFFF := by omega
  simp [valueChar, legalChar, h1, h2, h3, h4.1, h5.1, h5.2]

theorem wfAttrs_entry (n : Nat) (hv : n ≤ 1) : ∀ a ∈ entryAttrs n, WFAttr a := by
  match n with
  | 0 => simp [entryAttrs]
  | 1 => decide
  | _ + 2 => omega

theorem wfAttrs_seq (d : DocEntry) : ∀ a ∈ seqAttrs d, WFAttr a := by
  unfold seqAttrs
  split
  · simp
  · intro a ha
    simp only [List.mem_cons, List.not_mem_nil, or_false] at ha
    rcases ha with rfl | rfl | rfl | rfl | rfl
    · exact ⟨(show WFName (s "length") by decide), fun x hx => digit_valueChar (Nat.isDigit_of_mem_toDigits (by decide) (by decide) hx)⟩
    all_goals decide

/-- the children of an entry and its end tag, followed by well-formed tokens -/
theorem wfToks_entryBody (d : DocEntry) (h : WFDocEntry d) (rest : List Tok) (hr : WFToks rest) :
    WFToks (entryBodyToks d ++ rest) ∧ MarkupFirst (entryBodyToks d ++ rest) := by
  obtain ⟨_, hacc, hnames, hseq⟩ := h
  -- from the back: the sequence element and `</entry>`
  have hclose : WFToks (.close (s "entry") :: rest) := ⟨wfName_lit.2.2.2.1, by simp [isChars], hr⟩
  have hseqToks : WFToks (.start (s "sequence") (seqAttrs d) false :: (if d.seq.isEmpty then [] else [.chars d.seq]) ++
      [.close (s "sequence"), nl, .close (s "entry")] ++ rest) := by
    have htail : WFToks (.close (s "sequence") :: nl :: .close (s "entry") :: rest) :=
      ⟨wfName_lit.2.2.1, by simp [isChars], wfTok_nl, by simp [isChars], hclose⟩
    by_cases he : d.seq = []
    · simp only [he, List.isEmpty_nil, if_true, List.cons_append, List.nil_append]
      exact ⟨⟨wfName_lit.2.2.1, wfAttrs_seq d⟩, by simp [isChars], htail⟩
    · have hne : d.seq.isEmpty = false := by cases hd : d.seq <;> simp_all
      simp only [hne, Bool.false_eq_true, if_false, List.cons_append, List.nil_append]
      exact ⟨⟨wfName_lit.2.2.1, wfAttrs_seq d⟩, by simp [isChars], ⟨he, validText_of_textChars _ hseq⟩, by simp [isChars], htail⟩
  have hseqFirst : MarkupFirst (.start (s "sequence") (seqAttrs d) false :: (if d.seq.isEmpty then [] else [.chars d.seq]) ++
      [.close (s "sequence"), nl, .close (s "entry")] ++ rest) := by simp [MarkupFirst, isChars]
  -- the optional other children
  have hextra : WFToks ((if d.extra then extraToks else []) ++ (.start (s "sequence") (seqAttrs d) false ::
      (if d.seq.isEmpty then [] else [.chars d.seq]) ++ [.close (s "sequence"), nl, .close (s "entry")] ++ rest)) ∧
      MarkupFirst ((if d.extra then extraToks else []) ++ (.start (s "sequence") (seqAttrs d) false ::
      (if d.seq.isEmpty then [] else [.chars d.seq]) ++ [.close (s "sequence"), nl, .close (s "entry")] ++ rest)) := by
    by_cases hx : d.extra = true
    · simp only [hx, if_true]
      exact ⟨wfToks_append _ _ (by decide) hseqToks (.inr hseqFirst), by simp [extraToks, MarkupFirst, isChars]⟩
    · simp only [hx, Bool.false_eq_true, if_false, List.nil_append]
      exact ⟨hseqToks, hseqFirst⟩
  have hnamesT := wfToks_elems "name" wfName_lit.2.1 d.names _ hnames hextra.1 hextra.2
  have haccT := wfToks_elems "accession" wfName_lit.1 d.accessions _ hacc hnamesT.1 hnamesT.2
  unfold entryBodyToks
  simpa only [List.append_assoc] using haccT

theorem wfToks_entryToks (d : DocEntry) (h : WFDocEntry d) (rest : List Tok) (hr : WFToks rest) :
    WFToks (entryToks d ++ rest) := by
  have hb := wfToks_entryBody d h rest hr
  simp only [entryToks, List.cons_append]
  exact ⟨⟨wfName_lit.2.2.2.1, wfAttrs_entry d.attrs h.1⟩, by simp [isChars], wfTok_nl, fun _ => hb.2, hb.1⟩

theorem wfToks_filler (n : Nat) (rest : List Tok) (hr : WFToks rest) (hm : MarkupFirst rest) :
    WFToks (fillerToks n ++ rest) := by
  match n with
  | 0 => exact wfToks_append _ _ (by decide) hr (.inr hm)
  | 1 => exact wfToks_append _ _ (by decide) hr (.inr hm)
  | 2 => exact wfToks_append _ _ (by decide) hr (.inr hm)
  | 3 => simpa [fillerToks] using hr
  | 4 => exact wfToks_append _ _ (by decide) hr (.inr hm)
  | _ + 5 => simpa [fillerToks] using hr

theorem wfToks_entries : ∀ (ds : List DocEntry) (rest : List Tok), (∀ e ∈ ds, WFDocEntry e) → WFToks rest →
    MarkupFirst rest → WFToks (entriesToks ds ++ rest) ∧ MarkupFirst (entriesToks ds ++ rest)
  | [], rest, _, hr, hm => by simpa [entriesToks] using And.intro hr hm
  | d :: ds, rest, h, hr, hm => by
    have ih := wfToks_entries ds rest (fun e he => h e (by simp [he])) hr hm
    simp only [entriesToks, List.flatMap_cons, List.append_assoc] at ih ⊢
    exact ⟨wfToks_entryToks d (h d (by simp)) _ (wfToks_filler d.filler _ ih.1 ih.2),
      by simp [entryToks, MarkupFirst, isChars]⟩

theorem wfToks_head (prolog : Nat) (rest : List Tok) (hr : WFToks rest) (hm : MarkupFirst rest) :
    WFToks (prologToks prolog ++ (rootOpenToks ++ rest)) := by
  have hroot : WFToks (rootOpenToks ++ rest) := wfToks_append _ _ (by decide) hr (.inr hm)
  have hrm : MarkupFirst (rootOpenToks ++ rest) := by simp [rootOpenToks, MarkupFirst, isChars]
  match prolog with
  | 0 => simpa [prologToks] using hroot
  | 1 => exact wfToks_append _ _ (by decide) hroot (.inr hrm)
  | _ + 2 => exact wfToks_append _ _ (show WFToks (prologToks 2) by decide) hroot (.inr hrm)

theorem wfToks_docToks (d : Doc) (h : WFDoc d) : WFToks (docToks d) := by
  have htail : WFToks ([.close (s "uniprot")] ++ (if d.trailingNl then [nl] else [])) ∧
      MarkupFirst ([.close (s "uniprot")] ++ (if d.trailingNl then [nl] else [])) := by
    cases d.trailingNl <;> exact ⟨by decide, by decide⟩
  have hent := wfToks_entries d.entries _ h htail.1 htail.2
  unfold docToks
  simp only [List.append_assoc] at hent ⊢
  exact wfToks_head d.prolog _ hent.1 hent.2

/-! ### the document up to and including the `</entry>` of one of its entries -/

/-- the tokens of the document through the entry `e` that follows the entries `pre` -/
def toksThrough (prolog : Nat) (pre : List DocEntry) (e : DocEntry) : List Tok :=
  prologToks prolog ++ (rootOpenToks ++ (entriesToks pre ++ entryToks e))

theorem getLast?_append_ne {α : Type} (a : List α) {b : List α} (h : b ≠ []) : (a ++ b).getLast? = b.getLast? := by
  rw [List.getLast?_append]
  cases hb : b.getLast? with
  | none => exact absurd (List.getLast?_eq_none_iff.mp hb) h
  | some x => rfl

theorem entryToks_markupLast (e : DocEntry) : MarkupLast (entryToks e) := by
  have : entryToks e = (.start (s "entry") (entryAttrs e.attrs) false :: nl ::
      (e.accessions.flatMap (elemToks "accession") ++ e.names.flatMap (elemToks "name") ++
       (if e.extra then extraToks else []) ++
       .start (s "sequence") (seqAttrs e) false :: (if e.seq.isEmpty then [] else [.chars e.seq]) ++
       [.close (s "sequence"), nl])) ++ [.close (s "entry")] := by
    simp [entryToks, entryBodyToks]
  rw [this]
  intro t ht
  rw [getLast?_append_ne _ (by simp)] at ht
  simp at ht
  subst ht; rfl

theorem toksThrough_ok (prolog : Nat) (pre : List DocEntry) (e : DocEntry)
    (h : ∀ x ∈ pre ++ [e], WFDocEntry x) (X : Str) :
    WFToks (toksThrough prolog pre e) ∧ EndOk (toksThrough prolog pre e) X := by
  have he : WFToks (entryToks e) := by
    simpa using wfToks_entryToks e (h e (by simp)) [] trivial
  have hent := wfToks_entries pre (entryToks e) (fun x hx => h x (by simp [hx])) he
    (by simp [entryToks, MarkupFirst, isChars])
  refine ⟨wfToks_head prolog _ hent.1 hent.2, ?_⟩
  intro t ht hc
  have hl : MarkupLast (toksThrough prolog pre e) := by
    intro t ht
    unfold toksThrough at ht
    have hne : entryToks e ≠ [] := by simp [entryToks]
    rw [← List.append_assoc, ← List.append_assoc, getLast?_append_ne _ hne] at ht
    exact entryToks_markupLast e t ht
  rw [hl t ht] at hc; cases hc

/-- the reader after the tokens through entry `e`: its events so far are those of the prolog, the root start
tag, and the entries `pre ++ [e]` with what stands between them -/
theorem run_toksThrough (prolog : Nat) (pre : List DocEntry) (e : DocEntry) (tl : List Tok) :
    run St.init (toksThrough prolog pre e ++ tl) =
      run (atTop true [s "uniprot"] (evsThrough prolog pre e).reverse) tl := by
  unfold toksThrough
  simp only [List.append_assoc]
  rw [run_prolog, run_rootOpen, run_entriesToks _ _ _ _ _ (fun _ => rfl), run_entryToks]
  simp [evsThrough]

end PolyVerif.Spec.UniprotSpec
