import PolyVerif.Lemmas.RotationSpec
import PolyVerif.Model.Seqhash
import PolyVerif.Props.C11
import PolyVerif.Base.Blake3
/-
Helper lemmas for C04 / C05: the hash model `hashWith` / `hashSpec` in closed form
(`norm`, `Accepted`, `canonSpec`, `v1`), character facts (`Char.toUpper` on ASCII decided over
all 128 code points, the complement table decided over the regenerated rows), injectivity of
`hex` and of the byte encoding, and the behaviour of the canonical representative under
rotation and strand exchange.  Stated over the arg-min least rotation (modulo C12).
-/
namespace PolyVerif.Seqhash
open PolyVerif PolyVerif.Transform PolyVerif.Spec

/-! ### characters -/

/-- a character is ASCII, or `toUpper`/`toLower` leave it alone (they only touch `a-z` / `A-Z`) -/
theorem ascii_or_fixed (c : Char) : c.toNat < 128 ∨ (c.toUpper = c ∧ c.toLower = c) := by
  by_cases h : c.toNat < 128
  · exact Or.inl h
  · right
    have h1 : ¬ ('a'.val ≤ c.val ∧ c.val ≤ 'z'.val) := by
      rintro ⟨_, h2⟩
      have h3 : c.val.toNat ≤ 'z'.val.toNat := UInt32.le_iff_toNat_le.1 h2
      have h4 : 'z'.val.toNat = 122 := by decide
      exact h (show c.val.toNat < 128 by omega)
    have h2 : ¬ (c.val ≥ 'A'.val ∧ c.val ≤ 'Z'.val) := by
      rintro ⟨_, h2⟩
      have h3 : c.val.toNat ≤ 'Z'.val.toNat := UInt32.le_iff_toNat_le.1 h2
      have h4 : 'Z'.val.toNat = 90 := by decide
      exact h (show c.val.toNat < 128 by omega)
    constructor
    · unfold Char.toUpper; rw [dif_neg h1]
    · unfold Char.toLower; rw [dif_neg h2]

/-- lifting: a decidable predicate checked on all 128 ASCII code points holds of every ASCII character -/
theorem forall_ascii {P : Char → Prop} (h : ∀ n : Fin 128, P (Char.ofNat n.val)) (c : Char) (hc : c.toNat < 128) : P c := by
  have := h ⟨c.toNat, hc⟩
  simpa using this

theorem ascii_toUpper_toUpper : ∀ n : Fin 128, (Char.ofNat n.val).toUpper.toUpper = (Char.ofNat n.val).toUpper := by decide
theorem ascii_toUpper_toLower : ∀ n : Fin 128, (Char.ofNat n.val).toLower.toUpper = (Char.ofNat n.val).toUpper := by decide

theorem toUpper_toUpper (c : Char) : c.toUpper.toUpper = c.toUpper := by
  rcases ascii_or_fixed c with h | ⟨h, _⟩
  · exact forall_ascii (P := fun c => c.toUpper.toUpper = c.toUpper) ascii_toUpper_toUpper c h
  · rw [h, h]

theorem toUpper_toLower (c : Char) : c.toLower.toUpper = c.toUpper := by
  rcases ascii_or_fixed c with h | ⟨_, h⟩
  · exact forall_ascii (P := fun c => c.toLower.toUpper = c.toUpper) ascii_toUpper_toLower c h
  · rw [h]

/-- the letters whose upper-case form is one of the 15 codes, or `U` -/
def strandLetters : List Char := 'U' :: 'u' :: Props.C11.letters

theorem ascii_toUpper_mem_codes : ∀ n : Fin 128,
    (Char.ofNat n.val).toUpper ∈ 'U' :: upperCodes → Char.ofNat n.val ∈ strandLetters := by decide
theorem ascii_toUpper_mem_codes15 : ∀ n : Fin 128,
    (Char.ofNat n.val).toUpper ∈ upperCodes → Char.ofNat n.val ∈ Props.C11.letters := by decide

theorem mem_strandLetters_of_toUpper {c : Char} (h : c.toUpper ∈ 'U' :: upperCodes) : c ∈ strandLetters := by
  rcases ascii_or_fixed c with ha | ⟨hf, _⟩
  · exact forall_ascii (P := fun c => c.toUpper ∈ 'U' :: upperCodes → c ∈ strandLetters) ascii_toUpper_mem_codes c ha h
  · rw [hf] at h
    have : ∀ x ∈ 'U' :: upperCodes, x ∈ strandLetters := by decide
    exact this c h

theorem mem_letters_of_toUpper {c : Char} (h : c.toUpper ∈ upperCodes) : c ∈ Props.C11.letters := by
  rcases ascii_or_fixed c with ha | ⟨hf, _⟩
  · exact forall_ascii (P := fun c => c.toUpper ∈ upperCodes → c ∈ Props.C11.letters) ascii_toUpper_mem_codes15 c ha h
  · rw [hf] at h
    have : ∀ x ∈ upperCodes, x ∈ Props.C11.letters := by decide
    exact this c h

/-! ### normalisation (upper-casing, `U → T` under RNA) -/

theorem norm_eq_map (ty : String) (s : Str) : norm ty s = s.map (normC ty) := by
  unfold norm normC
  split <;> simp [uToT, upper, List.map_map, Function.comp_def]

theorem norm_rotl (ty : String) (k : Nat) (s : Str) : norm ty (rotl k s) = rotl k (norm ty s) := by
  rw [norm_eq_map, norm_eq_map, map_rotl]

theorem norm_length (ty : String) (s : Str) : (norm ty s).length = s.length := by
  rw [norm_eq_map, List.length_map]

theorem norm_congr_upper {ty : String} {s s' : Str} (h : upper s' = upper s) : norm ty s' = norm ty s := by
  unfold norm; rw [h]

/-! ### the hash in closed form -/

/-- the byte string that is digested -/
def bytes (s : Str) : List UInt8 := s.map fun c => c.toNat.toUInt8

/-- the input passes the three checks of `Hash` (known type, letters of the type's alphabet, no
double-stranded protein); stated on the normalised sequence -/
def Accepted (ty : String) (ds : Bool) (t : Str) : Prop :=
  ((ty = "DNA" ∨ ty = "RNA") ∧ ∀ c ∈ t, c ∈ nucleotideLetters) ∨
  (ty = "PROTEIN" ∧ (∀ c ∈ t, c ∈ proteinLetters) ∧ ds = false)

instance (ty : String) (ds : Bool) (t : Str) : Decidable (Accepted ty ds t) := by
  unfold Accepted; infer_instance

/-- the canonical representative: least rotation (arg-min spec) and/or lesser strand -/
def canonSpec (t : Str) (circ ds : Bool) : Str :=
  match circ, ds with
  | true, true => lexMin (leastRotation t) (leastRotation (revComp t))
  | true, false => leastRotation t
  | false, true => lexMin t (revComp t)
  | false, false => t

/-- the published v1 form -/
def v1 (blake : List UInt8 → List UInt8) (ty : String) (circ ds : Bool) (d : Str) : Str :=
  "v1_".toList ++ tag ty circ ds ++ ['_'] ++ hex (blake (bytes d))

theorem canon_spec (t : Str) (circ ds : Bool) :
    canon (fun s => some (leastRotation s)) t circ ds = some (canonSpec t circ ds) := by
  cases circ <;> cases ds <;> rfl

theorem all_contains_iff (l t : Str) : (t.all fun c => l.contains c) = true ↔ ∀ c ∈ t, c ∈ l := by
  simp [List.all_eq_true]

theorem str_ne : "DNA" ≠ "RNA" ∧ "DNA" ≠ "PROTEIN" ∧ "RNA" ≠ "PROTEIN" := by decide

theorem table_alphabet_ascii0 : ∀ c ∈ nucleotideLetters ++ proteinLetters, c.toNat < 128 := by decide

/-- the first statement of `Hash` (reject any rune above `unicode.MaxASCII`) rejects nothing that the
alphabet test would not reject anyway IN THE MODEL (whose `upper` moves ASCII letters only): accepted
input is ASCII.  (In Go the test matters: `strings.ToUpper` folds U+017F to S and U+0131 to I.) -/
theorem Accepted.input_ascii {ty : String} {ds : Bool} {s : Str} (h : Accepted ty ds (norm ty s)) :
    ∀ c ∈ s, c.toNat < 128 := by
  intro c hc
  have hm : normC ty c ∈ nucleotideLetters ++ proteinLetters := by
    have hn : normC ty c ∈ norm ty s := by rw [norm_eq_map]; exact List.mem_map_of_mem hc
    rcases h with ⟨_, hl⟩ | ⟨_, hl, _⟩
    · exact List.mem_append_left _ (hl _ hn)
    · exact List.mem_append_right _ (hl _ hn)
  have ha := table_alphabet_ascii0 _ hm
  rcases ascii_or_fixed c with h' | ⟨hf, _⟩
  · exact h'
  · unfold normC at ha
    rw [hf] at ha
    by_cases hu : c = 'U'
    · subst hu; decide
    · simp only [hu, ↓reduceIte, ite_self] at ha
      exact ha

theorem any_nonascii_false {s : Str} (h : ∀ c ∈ s, c.toNat < 128) : s.any (fun c => decide (c.toNat > 127)) = false := by
  rw [List.any_eq_false]
  intro c hc
  have := h c hc
  simp only [decide_eq_true_eq]; omega

theorem any_nonascii_true {s : Str} (h : ¬ ∀ c ∈ s, c.toNat < 128) : s.any (fun c => decide (c.toNat > 127)) = true := by
  rw [List.any_eq_true]
  simp only [not_forall] at h
  obtain ⟨c, hc, hn⟩ := h
  exact ⟨c, hc, by simp only [decide_eq_true_eq]; omega⟩

theorem tag_length (ty : String) (c d : Bool) : (tag ty c d).length = 3 := rfl

/-- the hash depends on the rotation function only through its values (the general bridge between the
Booth-loop model and the arg-min model; instantiated by `Props.C12Booth.hash_eq_hashSpec`) -/
theorem hashWith_congr {rot rot' : Str → Option Str} (h : ∀ s, rot s = rot' s)
    (blake : List UInt8 → List UInt8) (s : Str) (ty : String) (c d : Bool) :
    hashWith rot blake s ty c d = hashWith rot' blake s ty c d := by
  have : rot = rot' := funext h
  rw [this]

/-- rejection happens before the rotation is looked at: it holds for EVERY rotation function -/
theorem hashWith_err (rot : Str → Option Str) (blake : List UInt8 → List UInt8) (s : Str) (ty : String)
    (circ ds : Bool) (h : ¬ Accepted ty ds (norm ty s)) : hashWith rot blake s ty circ ds = .err := by
  obtain ⟨h1, h2, h3⟩ := str_ne
  unfold Accepted at h
  unfold hashWith
  change (if s.any (fun c => decide (c.toNat > 127)) = true then Outcome.err else
    if ty ≠ "DNA" ∧ ty ≠ "RNA" ∧ ty ≠ "PROTEIN" then Outcome.err else
    if (ty = "DNA" ∨ ty = "RNA") ∧ ¬ ((norm ty s).all fun c => nucleotideLetters.contains c) = true then Outcome.err else
    if ty = "PROTEIN" ∧ ¬ ((norm ty s).all fun c => proteinLetters.contains c) = true then Outcome.err else
    if ty = "PROTEIN" ∧ ds = true then Outcome.err else _) = _
  split
  · rfl
  simp only [all_contains_iff]
  by_cases hd : ty = "DNA"
  · subst hd
    have hn : ¬ ∀ c ∈ norm "DNA" s, c ∈ nucleotideLetters := fun hn => h (Or.inl ⟨Or.inl rfl, hn⟩)
    simp [hn]
  · by_cases hr : ty = "RNA"
    · subst hr
      have hn : ¬ ∀ c ∈ norm "RNA" s, c ∈ nucleotideLetters := fun hn => h (Or.inl ⟨Or.inr rfl, hn⟩)
      simp [hn]
    · by_cases hp : ty = "PROTEIN"
      · subst hp
        by_cases ha : ∀ c ∈ norm "PROTEIN" s, c ∈ proteinLetters
        · have hds : ds = true := by
            cases ds
            · exact absurd (Or.inr ⟨rfl, ha, rfl⟩) h
            · rfl
          subst hds
          simp [h2.symm, h3.symm]
        · simp [ha, h2.symm, h3.symm]
      · simp [hd, hr, hp]

/-- on accepted input the hash with the arg-min rotation is the v1 form of the canonical representative -/
theorem hashSpec_ok (blake : List UInt8 → List UInt8) (s : Str) (ty : String) (circ ds : Bool)
    (h : Accepted ty ds (norm ty s)) :
    hashSpec blake s ty circ ds = .ok (v1 blake ty circ ds (canonSpec (norm ty s) circ ds)) := by
  obtain ⟨h1, h2, h3⟩ := str_ne
  have hasc := any_nonascii_false h.input_ascii
  unfold Accepted at h
  unfold hashSpec hashWith
  change (if s.any (fun c => decide (c.toNat > 127)) = true then Outcome.err else
    if ty ≠ "DNA" ∧ ty ≠ "RNA" ∧ ty ≠ "PROTEIN" then Outcome.err else
    if (ty = "DNA" ∨ ty = "RNA") ∧ ¬ ((norm ty s).all fun c => nucleotideLetters.contains c) = true then Outcome.err else
    if ty = "PROTEIN" ∧ ¬ ((norm ty s).all fun c => proteinLetters.contains c) = true then Outcome.err else
    if ty = "PROTEIN" ∧ ds = true then Outcome.err else
    match canon (fun s => some (leastRotation s)) (norm ty s) circ ds with
    | none => Outcome.panic
    | some d => Outcome.ok (v1 blake ty circ ds d)) = _
  rw [canon_spec, hasc]
  simp only [all_contains_iff, Bool.false_eq_true, ↓reduceIte]
  rcases h with ⟨hty, hl⟩ | ⟨hty, hl, hds⟩
  · rcases hty with rfl | rfl
    · simp [h2]; exact hl
    · simp [h3]; exact hl
  · subst hty; subst hds
    simp; exact hl

theorem hashSpec_err (blake : List UInt8 → List UInt8) (s : Str) (ty : String) (circ ds : Bool)
    (h : ¬ Accepted ty ds (norm ty s)) : hashSpec blake s ty circ ds = .err :=
  hashWith_err _ blake s ty circ ds h

/-- `hashSpec` never panics, and returns a value exactly on accepted input -/
theorem hashSpec_ok_iff {blake : List UInt8 → List UInt8} {s : Str} {ty : String} {circ ds : Bool} {h : Str} :
    hashSpec blake s ty circ ds = .ok h ↔
      Accepted ty ds (norm ty s) ∧ h = v1 blake ty circ ds (canonSpec (norm ty s) circ ds) := by
  by_cases ha : Accepted ty ds (norm ty s)
  · rw [hashSpec_ok blake s ty circ ds ha]
    constructor
    · intro e; exact ⟨ha, (Outcome.ok.inj e).symm⟩
    · rintro ⟨_, rfl⟩; rfl
  · rw [hashSpec_err blake s ty circ ds ha]
    constructor
    · intro e; cases e
    · rintro ⟨h', _⟩; exact absurd h' ha

theorem Accepted.type {ty : String} {ds : Bool} {t : Str} (h : Accepted ty ds t) :
    ty = "DNA" ∨ ty = "RNA" ∨ ty = "PROTEIN" := by
  rcases h with ⟨h | h, _⟩ | ⟨h, _⟩
  · exact Or.inl h
  · exact Or.inr (Or.inl h)
  · exact Or.inr (Or.inr h)

/-- acceptance depends only on the set of letters -/
theorem Accepted.of_mem {ty : String} {ds : Bool} {t t' : Str} (h : Accepted ty ds t)
    (hm : ∀ c ∈ t', c ∈ t) : Accepted ty ds t' := by
  rcases h with ⟨h, hl⟩ | ⟨h, hl, hd⟩
  · exact Or.inl ⟨h, fun c hc => hl c (hm c hc)⟩
  · exact Or.inr ⟨h, fun c hc => hl c (hm c hc), hd⟩

theorem accepted_rotl (ty : String) (ds : Bool) (k : Nat) (t : Str) : Accepted ty ds (rotl k t) ↔ Accepted ty ds t :=
  ⟨fun h => h.of_mem fun _ hc => mem_rotl.2 hc, fun h => h.of_mem fun _ hc => mem_rotl.1 hc⟩

/-! ### the canonical representative under rotation and strand exchange -/

theorem revComp_rotl (k : Nat) (s : Str) : revComp (rotl k s) = rotl (s.length - k % s.length) (revComp s) := by
  unfold revComp complement
  rw [map_rotl, reverse_rotl, List.length_map]

theorem IsRotation.revComp {a b : Str} (h : IsRotation a b) : IsRotation (revComp a) (revComp b) := by
  obtain ⟨k, rfl⟩ := h
  exact ⟨_, revComp_rotl k b⟩

theorem canonSpec_rotl (k : Nat) (t : Str) (ds : Bool) : canonSpec (rotl k t) true ds = canonSpec t true ds := by
  cases ds
  · exact leastRotation_rotl k t
  · show lexMin (leastRotation (rotl k t)) (leastRotation (revComp (rotl k t))) = _
    rw [leastRotation_rotl, leastRotation_congr (IsRotation.revComp (isRotation_rotl k t))]
    rfl

theorem canonSpec_of_isRotation {a b : Str} (h : IsRotation a b) (ds : Bool) :
    canonSpec a true ds = canonSpec b true ds := by
  obtain ⟨k, rfl⟩ := h; exact canonSpec_rotl k b ds

/-- strand exchange: needs only that reverse-complementing twice gives the sequence back -/
theorem canonSpec_revComp {t : Str} (h : revComp (revComp t) = t) (circ : Bool) :
    canonSpec (revComp t) circ true = canonSpec t circ true := by
  cases circ
  · show lexMin (revComp t) (revComp (revComp t)) = lexMin t (revComp t)
    rw [h, lexMin_comm]
  · show lexMin (leastRotation (revComp t)) (leastRotation (revComp (revComp t))) = lexMin (leastRotation t) (leastRotation (revComp t))
    rw [h, lexMin_comm]

theorem mem_canonSpec {t : Str} {circ ds : Bool} {x : Char} (h : x ∈ canonSpec t circ ds) :
    x ∈ t ∨ x ∈ revComp t := by
  have hl : ∀ u : Str, x ∈ leastRotation u → x ∈ u := fun u hx => (leastRotation_isRotation u).mem_iff.1 hx
  cases circ <;> cases ds <;> simp only [canonSpec] at h
  · exact Or.inl h
  · rcases lexMin_eq_or t (revComp t) with e | e <;> rw [e] at h
    · exact Or.inl h
    · exact Or.inr h
  · exact Or.inl (hl _ h)
  · rcases lexMin_eq_or (leastRotation t) (leastRotation (revComp t)) with e | e <;> rw [e] at h
    · exact Or.inl (hl _ h)
    · exact Or.inr (hl _ h)

/-! ### strand-closed alphabet: the 15 IUPAC codes, upper case -/

/-- all letters among `ACGTRYSWKMBDHVN` (what a normalised nucleic-acid sequence must consist of
for the strand clause: no `U`, no `Z`) -/
def Iupac15 (t : Str) : Prop := ∀ c ∈ t, c ∈ upperCodes

instance (t : Str) : Decidable (Iupac15 t) := by unfold Iupac15; infer_instance

theorem Iupac15.iupac {t : Str} (h : Iupac15 t) : Props.C11.Iupac t := by
  have : ∀ x ∈ upperCodes, x ∈ Props.C11.letters := by decide
  exact fun c hc => this c (h c hc)

theorem Iupac15.rc_rc {t : Str} (h : Iupac15 t) : revComp (revComp t) = t := Props.C11.rc_rc h.iupac

theorem table_compl_upperCodes : ∀ c ∈ upperCodes, complementBase c ∈ upperCodes := by decide

theorem Iupac15.revComp {t : Str} (h : Iupac15 t) : Iupac15 (revComp t) := by
  intro c hc
  simp only [Transform.revComp, complement, List.mem_reverse, List.mem_map] at hc
  obtain ⟨a, ha, rfl⟩ := hc
  exact table_compl_upperCodes a (h a ha)

theorem upperCodes_sub_nucleotide : ∀ c ∈ upperCodes, c ∈ nucleotideLetters := by decide

/-- complementing commutes with the normalisation, letter by letter (regenerated table) -/
theorem table_normC_compl_rna : ∀ c ∈ strandLetters,
    normC "RNA" (complementBase c) = complementBase (normC "RNA" c) := by decide
theorem table_upper_compl : ∀ c ∈ Props.C11.letters,
    (complementBase c).toUpper = complementBase c.toUpper := by decide

theorem normC_complementBase {ty : String} {c : Char} (h : normC ty c ∈ upperCodes) :
    normC ty (complementBase c) = complementBase (normC ty c) := by
  by_cases hr : ty = "RNA"
  · subst hr
    apply table_normC_compl_rna
    apply mem_strandLetters_of_toUpper
    unfold normC at h
    simp only [↓reduceIte] at h
    split at h
    · rename_i hu; rw [hu]; simp
    · exact List.mem_cons_of_mem _ h
  · unfold normC at *
    simp only [hr, ↓reduceIte] at *
    exact table_upper_compl c (mem_letters_of_toUpper h)

/-- normalisation commutes with reverse complement on sequences whose normal form is over the 15 codes -/
theorem norm_revComp {ty : String} {s : Str} (h : Iupac15 (norm ty s)) :
    norm ty (revComp s) = revComp (norm ty s) := by
  simp only [norm_eq_map] at *
  unfold Transform.revComp complement
  simp only [List.map_reverse, List.map_map]
  congr 1
  apply List.map_congr_left
  intro c hc
  exact normC_complementBase (h _ (List.mem_map_of_mem hc))

/-! ### complementing is injective on the accepted nucleotide letters other than `U` -/

/-- the accepted nucleotide letters other than `U` (`U` shares its complement `A` with `T`) -/
def dsLetters : List Char := nucleotideLetters.filter (· ≠ 'U')

/-- a left inverse of `complementBase` on `dsLetters` (found by search in the regenerated table) -/
def decompl (c : Char) : Char := (dsLetters.find? fun a => complementBase a == c).getD c

theorem table_decompl : ∀ a ∈ dsLetters, decompl (complementBase a) = a := by decide

/-- …so on `U`-free nucleotide strings (`Z`, complemented to the zero rune, included) the reverse
complement can be undone -/
theorem revComp_cancel {t : Str} (hl : ∀ c ∈ t, c ∈ nucleotideLetters) (hu : 'U' ∉ t) :
    (revComp t).reverse.map decompl = t := by
  unfold Transform.revComp complement
  rw [List.reverse_reverse, List.map_map]
  conv => rhs; rw [← List.map_id t]
  apply List.map_congr_left
  intro c hc
  apply table_decompl
  unfold dsLetters
  rw [List.mem_filter]
  refine ⟨hl c hc, ?_⟩
  have : c ≠ 'U' := fun e => hu (e ▸ hc)
  simpa using this

theorem ascii_toUpper_ascii : ∀ n : Fin 128, (Char.ofNat n.val).toUpper.toNat < 128 := by decide

/-- upper-casing neither creates nor removes non-ASCII letters (in the model) -/
theorem toUpper_nonascii_iff (c : Char) : c.toUpper.toNat > 127 ↔ c.toNat > 127 := by
  rcases ascii_or_fixed c with h | ⟨h, _⟩
  · have := forall_ascii (P := fun c => c.toUpper.toNat < 128) ascii_toUpper_ascii c h
    omega
  · rw [h]

theorem any_nonascii_upper (s : Str) :
    (upper s).any (fun c => decide (c.toNat > 127)) = s.any (fun c => decide (c.toNat > 127)) := by
  unfold upper
  rw [List.any_map]
  congr 1
  funext c
  simp only [Function.comp]
  rw [decide_eq_decide]
  exact toUpper_nonascii_iff c

/-! ### injectivity of the pieces of the v1 form -/

theorem hexDigit_inj : ∀ i j : Fin 16, hexDigit i.val = hexDigit j.val → i = j := by decide

theorem hexDigit_mem : ∀ i : Fin 16, hexDigit i.val ∈ "0123456789abcdef".toList := by decide

theorem byte_eq_of_hex {a b : UInt8} (h1 : hexDigit (a.toNat / 16) = hexDigit (b.toNat / 16))
    (h2 : hexDigit (a.toNat % 16) = hexDigit (b.toNat % 16)) : a = b := by
  have ha : a.toNat < 256 := a.toNat_lt
  have hb : b.toNat < 256 := b.toNat_lt
  have e1 := hexDigit_inj ⟨a.toNat / 16, by omega⟩ ⟨b.toNat / 16, by omega⟩ h1
  have e2 := hexDigit_inj ⟨a.toNat % 16, by omega⟩ ⟨b.toNat % 16, by omega⟩ h2
  simp only [Fin.mk.injEq] at e1 e2
  apply UInt8.toNat_inj.1
  omega

theorem hex_injective : ∀ {x y : List UInt8}, hex x = hex y → x = y
  | [], [], _ => rfl
  | [], b :: bs, h => by simp [hex] at h
  | a :: as, [], h => by simp [hex] at h
  | a :: as, b :: bs, h => by
    simp only [hex, List.flatMap_cons, List.cons_append, List.nil_append, List.cons.injEq] at h
    obtain ⟨h1, h2, h3⟩ := h
    rw [byte_eq_of_hex h1 h2, hex_injective (x := as) (y := bs) h3]

theorem hex_length (bs : List UInt8) : (hex bs).length = 2 * bs.length := by
  induction bs with
  | nil => rfl
  | cons b bs ih => simp only [hex, List.flatMap_cons, List.length_append, List.length_cons, List.length_nil] at *; omega

theorem hex_digits (bs : List UInt8) : ∀ c ∈ hex bs, c ∈ "0123456789abcdef".toList := by
  intro c hc
  simp only [hex, List.mem_flatMap, List.mem_cons, List.not_mem_nil, or_false] at hc
  obtain ⟨b, _, rfl | rfl⟩ := hc
  · exact hexDigit_mem ⟨b.toNat / 16, by have := b.toNat_lt; omega⟩
  · exact hexDigit_mem ⟨b.toNat % 16, by omega⟩

/-- the byte encoding is injective on code points below 256 -/
theorem byte_inj {c d : Char} (hc : c.toNat < 256) (hd : d.toNat < 256)
    (h : c.toNat.toUInt8 = d.toNat.toUInt8) : c = d := by
  have := congrArg UInt8.toNat h
  simp only [Nat.toUInt8_eq, UInt8.toNat_ofNat'] at this
  apply char_eq_of_toNat_eq
  omega

theorem bytes_injective : ∀ {x y : Str}, (∀ c ∈ x, c.toNat < 256) → (∀ c ∈ y, c.toNat < 256) → bytes x = bytes y → x = y
  | [], [], _, _, _ => rfl
  | [], _ :: _, _, _, h => by simp [bytes] at h
  | _ :: _, [], _, _, h => by simp [bytes] at h
  | a :: as, b :: bs, hx, hy, h => by
    simp only [bytes, List.map_cons, List.cons.injEq] at h
    rw [byte_inj (hx a (by simp)) (hy b (by simp)) h.1,
      bytes_injective (x := as) (y := bs) (fun c hc => hx c (by simp [hc])) (fun c hc => hy c (by simp [hc])) h.2]

/-- everything that can occur in the digested string of an accepted input is ASCII -/
theorem table_alphabet_ascii : ∀ c ∈ nucleotideLetters ++ proteinLetters,
    c.toNat < 128 ∧ (complementBase c).toNat < 128 := by decide

theorem Accepted.ascii {ty : String} {ds : Bool} {t : Str} (h : Accepted ty ds t) :
    (∀ c ∈ t, c.toNat < 128) ∧ (∀ c ∈ revComp t, c.toNat < 128) := by
  have hm : ∀ c ∈ t, c ∈ nucleotideLetters ++ proteinLetters := by
    intro c hc
    rcases h with ⟨_, hl⟩ | ⟨_, hl, _⟩
    · exact List.mem_append_left _ (hl c hc)
    · exact List.mem_append_right _ (hl c hc)
  refine ⟨fun c hc => (table_alphabet_ascii c (hm c hc)).1, ?_⟩
  intro c hc
  simp only [Transform.revComp, complement, List.mem_reverse, List.mem_map] at hc
  obtain ⟨a, ha, rfl⟩ := hc
  exact (table_alphabet_ascii a (hm a ha)).2

theorem Accepted.canon_ascii {ty : String} {ds : Bool} {t : Str} (h : Accepted ty ds t) (circ : Bool) :
    ∀ c ∈ canonSpec t circ ds, c.toNat < 256 := by
  intro c hc
  rcases mem_canonSpec hc with h' | h'
  · have := h.ascii.1 c h'; omega
  · have := h.ascii.2 c h'; omega

theorem v1_prefix : "v1_".toList = ['v', '1', '_'] := by decide

/-- the three tag letters determine the three declared attributes (for accepted type strings) -/
theorem tag_injective {ta tb : String} {ca da cb db : Bool}
    (ha : ta = "DNA" ∨ ta = "RNA" ∨ ta = "PROTEIN") (hb : tb = "DNA" ∨ tb = "RNA" ∨ tb = "PROTEIN")
    (h : tag ta ca da = tag tb cb db) : ta = tb ∧ ca = cb ∧ da = db := by
  obtain ⟨h1, h2, h3⟩ := str_ne
  simp only [tag, List.cons.injEq, and_true] at h
  obtain ⟨e1, e2, e3⟩ := h
  refine ⟨?_, ?_, ?_⟩
  · rcases ha with rfl | rfl | rfl <;> rcases hb with rfl | rfl | rfl <;> first | rfl | (revert e1; decide)
  · revert e2; cases ca <;> cases cb <;> decide
  · revert e3; cases da <;> cases db <;> decide

theorem v1_injective {blake : List UInt8 → List UInt8} {ta tb : String} {ca da cb db : Bool} {x y : Str}
    (h : v1 blake ta ca da x = v1 blake tb cb db y) :
    tag ta ca da = tag tb cb db ∧ hex (blake (bytes x)) = hex (blake (bytes y)) := by
  unfold v1 at h
  rw [List.append_assoc, List.append_assoc, List.append_assoc, List.append_assoc] at h
  have h' := List.append_cancel_left h
  have hl : (tag ta ca da).length = (tag tb cb db).length := rfl
  have := List.append_inj h' hl
  exact ⟨this.1, List.append_cancel_left this.2⟩

theorem v1_length (blake : List UInt8 → List UInt8) (ty : String) (c d : Bool) (x : Str) :
    (v1 blake ty c d x).length = 7 + 2 * (blake (bytes x)).length := by
  simp only [v1, v1_prefix, tag, List.length_append, List.length_cons, List.length_nil, hex_length]

theorem v1_take (blake : List UInt8 → List UInt8) (ty : String) (c d : Bool) (x : Str) :
    (v1 blake ty c d x).take 7 = "v1_".toList ++ tag ty c d ++ ['_'] ∧
    (v1 blake ty c d x).drop 7 = hex (blake (bytes x)) := by
  simp [v1, v1_prefix, tag]

end PolyVerif.Seqhash

/-! ### the Lean BLAKE3 used by the correspondence check returns 32 bytes -/
namespace PolyVerif.Blake3

theorem compress_size (cv b : Array UInt32) (c : UInt64) (bl f : UInt32) : (compress cv b c bl f).size = 8 := by
  simp [compress]
theorem chunkCV_go_size (index : UInt64) (rootFlag : UInt32) (nb : Nat) :
    ∀ (l : List (List UInt8)) (i : Nat) (cv : Array UInt32), cv.size = 8 → (chunkCV.go index rootFlag nb i cv l).size = 8
  | [], _, _, h => by simpa [chunkCV.go] using h
  | b :: rest, i, cv, _ => by
    simp only [chunkCV.go]
    exact chunkCV_go_size index rootFlag nb rest _ _ (compress_size _ _ _ _ _)
theorem chunkCV_size (bs : List UInt8) (i : UInt64) (r : UInt32) : (chunkCV bs i r).size = 8 := by
  unfold chunkCV
  exact chunkCV_go_size _ _ _ _ _ _ (by decide)
theorem subtreeCV_size : ∀ (fuel : Nat) (chunks : List (List UInt8)) (first : Nat) (r : UInt32), (subtreeCV fuel chunks first r).size = 8
  | 0, _, _, _ => by simp [subtreeCV]; decide
  | fuel + 1, [], _, _ => by simp [subtreeCV, chunkCV_size]
  | fuel + 1, [c], _, _ => by simp [subtreeCV, chunkCV_size]
  | fuel + 1, a :: b :: cs, _, _ => by simp [subtreeCV, parentCV, compress_size]
theorem sum256_length (bs : List UInt8) : (sum256 bs).length = 32 := by
  unfold sum256
  simp only [List.length_flatMap, List.length_cons, List.length_nil]
  have := subtreeCV_size ((splitEvery 1024 bs).length + 1) (splitEvery 1024 bs) 0 ROOT
  generalize subtreeCV ((splitEvery 1024 bs).length + 1) (splitEvery 1024 bs) 0 ROOT = cv at *
  have h2 : cv.toList.length = 8 := by simpa using this
  generalize cv.toList = l at *
  match l, h2 with
  | [a,b,c,d,e,f,g,h], _ => simp

end PolyVerif.Blake3
