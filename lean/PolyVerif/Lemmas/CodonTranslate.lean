import PolyVerif.Model.CodonTranslate
/-
Helper lemmas for C06 / C07 about the translation loop, the write-list map, and codon chunks.
-/
namespace PolyVerif.CodonTranslate
open PolyVerif PolyVerif.Codon

/-! ### the write-list map -/

theorem mapGet_some_mem {β : Type} : ∀ (m : List (Str × β)) (k : Str) (v : β), mapGet m k = some v → (k, v) ∈ m
  | [], _, _, h => by simp [mapGet] at h
  | (k', v') :: rest, k, v, h => by
    simp only [mapGet] at h
    split at h
    · rename_i v'' hv
      cases h
      exact List.mem_cons_of_mem _ (mapGet_some_mem rest k v hv)
    · split at h
      · rename_i hk
        cases h; subst hk; exact List.mem_cons_self
      · cases h

theorem mapGet_none_iff {β : Type} : ∀ (m : List (Str × β)) (k : Str), mapGet m k = none ↔ ∀ e ∈ m, e.1 ≠ k
  | [], k => by simp [mapGet]
  | (k', v') :: rest, k => by
    simp only [mapGet, List.mem_cons, forall_eq_or_imp]
    constructor
    · intro h
      split at h
      · cases h
      · rename_i hn
        split at h
        · cases h
        · rename_i hk
          exact ⟨hk, (mapGet_none_iff rest k).1 hn⟩
    · rintro ⟨hk, hr⟩
      rw [(mapGet_none_iff rest k).2 hr]
      simp [hk]

/-- in a write list without repeated keys every write is what is read back (so the order of the writes,
i.e. Go's map iteration order when the table was built, is irrelevant) -/
theorem mapGet_of_nodup {β : Type} : ∀ (m : List (Str × β)) (k : Str) (v : β),
    (m.map (·.1)).Nodup → (k, v) ∈ m → mapGet m k = some v
  | [], _, _, _, h => by cases h
  | (k', v') :: rest, k, v, hnd, h => by
    simp only [List.map_cons, List.nodup_cons] at hnd
    simp only [mapGet]
    rcases List.mem_cons.1 h with h | h
    · cases h
      have : mapGet rest k' = none := by
        rw [mapGet_none_iff]
        intro e he hek
        exact hnd.1 (hek ▸ List.mem_map_of_mem he)
      simp [this]
    · rw [mapGet_of_nodup rest k v hnd.2 h]

theorem mapGet_isSome_iff {β : Type} (m : List (Str × β)) (k : Str) : (mapGet m k).isSome ↔ ∃ e ∈ m, e.1 = k := by
  cases h : mapGet m k with
  | none =>
    simp only [Option.isSome_none, Bool.false_eq_true, false_iff, not_exists, not_and]
    exact fun e he => (mapGet_none_iff m k).1 h e he
  | some v =>
    simp only [Option.isSome_some, true_iff]
    exact ⟨(k, v), mapGet_some_mem m k v h, rfl⟩

/-! ### the loop -/

theorem byteLen_ascii {s : Str} (h : Ascii s) : byteLen s = s.length := by
  induction s with
  | nil => rfl
  | cons c cs ih =>
    have hc : c.utf8Size = 1 := Char.utf8Size_eq_one_iff.2 (h c List.mem_cons_self)
    have := ih (fun x hx => h x (List.mem_cons_of_mem _ hx))
    simp only [byteLen, List.map_cons, List.sum_cons, List.length_cons] at *
    omega

theorem ascii_cons {c : Char} {s : Str} : Ascii (c :: s) ↔ c.val ≤ 127 ∧ Ascii s := by
  simp [Ascii]

theorem ascii_append {a b : Str} : Ascii (a ++ b) ↔ Ascii a ∧ Ascii b := by
  simp only [Ascii, List.mem_append]
  exact ⟨fun h => ⟨fun c hc => h c (Or.inl hc), fun c hc => h c (Or.inr hc)⟩,
         fun h c hc => hc.elim (h.1 c) (h.2 c)⟩

/-- three letters from an empty buffer: one lookup, buffer empty again -/
theorem loop_three (m : List (Str × Str)) (out : Str) (a b c : Char) (rest : Str) :
    translateLoop m ([], out) (a :: b :: c :: rest) =
      translateLoop m ([], (mapGetStr m (upper [a, b, c])).reverse ++ out) rest := by
  simp [translateLoop, step]

theorem loop_short (m : List (Str × Str)) (out : Str) (s : Str) (hl : s.length < 3) :
    (translateLoop m ([], out) s).2 = out := by
  match s, hl with
  | [], _ => rfl
  | [a], _ => simp [translateLoop, step]
  | [a, b], _ => simp [translateLoop, step]
  | _ :: _ :: _ :: _, h => simp at h; omega

theorem loop_chunks (m : List (Str × Str)) : ∀ (s : Str) (out : Str),
    (translateLoop m ([], out) s).2 = ((chunks3 s).flatMap fun c => mapGetStr m (upper c)).reverse ++ out
  | a :: b :: c :: rest, out => by
    rw [loop_three m out a b c rest, loop_chunks m rest _]
    simp [chunks3, List.append_assoc]
  | [], out => by simp [translateLoop, chunks3]
  | [a], out => by rw [loop_short m out [a] (by simp)]; simp [chunks3]
  | [a, b], out => by rw [loop_short m out [a, b] (by simp)]; simp [chunks3]

/-- the translation is the concatenation, in order, of the residues of the complete in-frame codons -/
theorem translateCore_eq_chunks (t : Table) (s : Str) :
    translateCore t s = (chunks3 s).flatMap (aaOf t) := by
  simp only [translateCore]
  rw [loop_chunks, List.append_nil, List.reverse_reverse]
  rfl

theorem byteLen_eq_zero (s : Str) : byteLen s = 0 ↔ s = [] := by
  cases s with
  | nil => simp [byteLen]
  | cons c cs =>
    have := Char.utf8Size_pos c
    simp only [byteLen, List.map_cons, List.sum_cons]
    constructor
    · intro h; omega
    · intro h; cases h

/-! ### chunks -/

theorem chunks3_append : ∀ (a b : Str), a.length % 3 = 0 → chunks3 (a ++ b) = chunks3 a ++ chunks3 b
  | [], b, _ => by simp [chunks3]
  | [x], _, h => by simp at h
  | [x, y], _, h => by simp at h
  | x :: y :: z :: rest, b, h => by
    have : rest.length % 3 = 0 := by simp only [List.length_cons] at h; omega
    simp [chunks3, chunks3_append rest b this]

theorem chunks3_short : ∀ (r : Str), r.length < 3 → chunks3 r = []
  | [], _ => rfl
  | [_], _ => rfl
  | [_, _], _ => rfl
  | _ :: _ :: _ :: _, h => by simp at h; omega

theorem chunks3_map (f : Char → Char) : ∀ (s : Str), chunks3 (s.map f) = (chunks3 s).map (List.map f)
  | a :: b :: c :: rest => by simp [chunks3, chunks3_map f rest]
  | [] => rfl
  | [_] => rfl
  | [_, _] => rfl

theorem chunks3_length : ∀ (s : Str), (chunks3 s).length = s.length / 3
  | a :: b :: c :: rest => by
    simp only [chunks3, List.length_cons, chunks3_length rest]; omega
  | [] => rfl
  | [_] => by simp [chunks3]
  | [_, _] => by simp [chunks3]

theorem chunks3_mem_length : ∀ (s : Str), ∀ c ∈ chunks3 s, c.length = 3
  | a :: b :: c :: rest, x, hx => by
    simp only [chunks3, List.mem_cons] at hx
    rcases hx with rfl | hx
    · rfl
    · exact chunks3_mem_length rest x hx
  | [], _, h => by cases h
  | [_], _, h => by cases h
  | [_, _], _, h => by cases h

theorem chunks3_mem_sub : ∀ (s : Str), ∀ c ∈ chunks3 s, ∀ x ∈ c, x ∈ s
  | a :: b :: c :: rest, ch, hch, x, hx => by
    simp only [chunks3, List.mem_cons] at hch
    rcases hch with rfl | hch
    · simp only [List.mem_cons, List.not_mem_nil, or_false] at hx
      rcases hx with rfl | rfl | rfl <;> simp
    · have := chunks3_mem_sub rest ch hch x hx
      simp [this]
  | [], _, h, _, _ => by cases h
  | [_], _, h, _, _ => by cases h
  | [_, _], _, h, _, _ => by cases h

/-- chunks of a concatenation of triplets are the triplets -/
theorem chunks3_flatten : ∀ (cs : List Str), (∀ c ∈ cs, c.length = 3) → chunks3 cs.flatten = cs
  | [], _ => rfl
  | c :: cs, h => by
    have hc : c.length = 3 := h c List.mem_cons_self
    have ih := chunks3_flatten cs (fun x hx => h x (List.mem_cons_of_mem _ hx))
    match c, hc with
    | [x, y, z], _ => simp [chunks3, ih]

end PolyVerif.CodonTranslate
