import PolyVerif.Model.CodonTables
import PolyVerif.Spec.ValueTables
/- Helper lemmas for C08 `frequency_exact` / `reweight_keeps_code`: the rune loop of getCodonFrequency counts in-frame chunks. -/
namespace PolyVerif.Lemmas.CodonFreq
open PolyVerif PolyVerif.Codon PolyVerif.CodonTables
open PolyVerif.Spec.ValueTables (chunks3 countCodons)

/-! map facts -/

theorem mapGet_of_not_has (m : FreqMap) (k : Str) (h : mapHas m k = false) : mapGet m k = 0 := by
  induction m with
  | nil => rfl
  | cons p rest ih =>
    obtain ⟨a, v⟩ := p
    simp only [mapHas] at h
    simp only [mapGet]
    split
    · next e => simp [e] at h
    · next e => simp only [e, if_false] at h; exact ih h

theorem mapGet_incr (m : FreqMap) (k c : Str) (h : mapHas m k = true) :
    mapGet (mapIncr m k) c = mapGet m c + (if k = c then 1 else 0) := by
  induction m with
  | nil => simp [mapHas] at h
  | cons p rest ih =>
    obtain ⟨a, v⟩ := p
    simp only [mapIncr]
    by_cases e : a = k
    · subst e
      simp only [if_true, mapGet]
      by_cases e2 : a = c
      · simp [e2]
      · simp [e2]
    · simp only [e, if_false, mapGet]
      simp only [mapHas, e, if_false] at h
      by_cases e2 : a = c
      · subst e2
        have : ¬ k = a := fun h => e h.symm
        simp [this]
      · simp only [e2, if_false]
        exact ih h

theorem mapGet_append_single (m : FreqMap) (k c : Str) (v : Int) :
    mapGet (m ++ [(k, v)]) c = if mapHas m c then mapGet m c else (if k = c then v else 0) := by
  induction m with
  | nil => simp [mapGet, mapHas]
  | cons p rest ih =>
    obtain ⟨a, w⟩ := p
    simp only [List.cons_append, mapGet, mapHas]
    by_cases e : a = c
    · simp [e]
    · simp only [e, if_false]; exact ih

theorem mapGet_init (m : FreqMap) (k c : Str) (h : mapHas m k = false) :
    mapGet (mapInit m k) c = mapGet m c + (if k = c then 1 else 0) := by
  rw [mapInit, mapGet_append_single]
  by_cases e : k = c
  · subst e
    simp [h, mapGet_of_not_has m k h]
  · simp only [e, if_false, Int.add_zero]
    cases hc : mapHas m c
    · simp [mapGet_of_not_has m c hc]
    · simp

/-- state after one complete chunk `cur` -/
theorem mapGet_bump (m : FreqMap) (cur c : Str) :
    mapGet (if mapHas m cur then mapIncr m cur else mapInit m cur) c = mapGet m c + (if cur = c then 1 else 0) := by
  cases h : mapHas m cur
  · simpa using mapGet_init m cur c h
  · simpa using mapGet_incr m cur c h

/-- loop invariant of getCodonFrequency: with `buf` pending (fewer than 3 letters, counted by the counter) -/
theorem loop_counts (s : Str) : ∀ (buf : Str) (m : FreqMap) (c : Str), buf.length < 3 →
    mapGet (s.foldl freqStep (buf, buf.length, m)).2.2 c = mapGet m c + ((chunks3 (buf ++ s)).count c : Nat) := by
  induction s with
  | nil =>
    intro buf m c hb
    match buf, hb with
    | [], _ => simp [chunks3]
    | [_], _ => simp [chunks3]
    | [_, _], _ => simp [chunks3]
  | cons x rest ih =>
    intro buf m c hb
    simp only [List.foldl_cons]
    match buf, hb with
    | [], _ =>
      have : freqStep ([], ([] : Str).length, m) x = ([x], [x].length, m) := by simp [freqStep]
      rw [this, ih [x] m c (by simp)]
      simp
    | [a], _ =>
      have : freqStep ([a], [a].length, m) x = ([a, x], [a, x].length, m) := by simp [freqStep]
      rw [this, ih [a, x] m c (by simp)]
      simp
    | [a, b], _ =>
      have e : freqStep ([a, b], [a, b].length, m) x =
          ([], ([] : Str).length, if mapHas m [a, b, x] then mapIncr m [a, b, x] else mapInit m [a, b, x]) := by
        have h3 : ([a, b] : Str).length + 1 = 3 := rfl
        simp only [freqStep, List.cons_append, List.nil_append, h3, if_true, List.length_nil]
        split <;> rfl
      rw [e, ih [] _ c (by simp), mapGet_bump]
      simp only [List.nil_append, List.cons_append, chunks3, List.count_cons, beq_iff_eq]
      split <;> simp <;> omega

/-- for EVERY sequence (any letters, any length): the map holds, under each key, the number of in-frame chunks equal to it -/
theorem freq_counts (s : Str) (c : Str) :
    mapGet (getCodonFrequency s) c = ((chunks3 s).count c : Nat) := by
  have := loop_counts s [] [] c (by simp)
  simpa [getCodonFrequency, mapGet] using this

/-! re-weighting keeps everything but the weights -/

theorem reweightCodons_eq_map (m : FreqMap) (cs : List Codon) :
    reweightCodons m cs = cs.map fun c => { triplet := c.triplet, weight := mapGet m c.triplet } := by
  induction cs with
  | nil => rfl
  | cons c rest ih => simp [reweightCodons, ih]

theorem reweightAAs_eq_map (m : FreqMap) (as : List AminoAcid) :
    reweightAAs m as = as.map fun a => { letter := a.letter, codons := reweightCodons m a.codons } := by
  induction as with
  | nil => rfl
  | cons a rest ih => simp [reweightAAs, ih]

end PolyVerif.Lemmas.CodonFreq
