import PolyVerif.Lemmas.GbCompose
import PolyVerif.Lemmas.GenbankParse
import PolyVerif.Spec.GbRoundTrip
import PolyVerif.Lemmas.GbLocStruct
/-
C03, write-then-read over the PARSER MODEL of property C01: the lines `build x` writes are one
particular layout (`GbLayout.layout r ℓ`) of the abstract record `r` that `x` states, so that the
C01 composition theorem `parseLoop_layout` applies.  This file holds the bridges between the two
developments (two line splitters, two `Itoa`s, two chunkings, `WrapString` as a choice of break
positions) and the composition.
-/
namespace PolyVerif.Lemmas.GbRoundTrip
open PolyVerif PolyVerif.StrBuild PolyVerif.GenbankBuild
open PolyVerif.Lemmas.GbBuild PolyVerif.Lemmas.GbLayout PolyVerif.Lemmas.GbOrigin PolyVerif.Lemmas.GbLocus
open PolyVerif.Lemmas.GbCompose
open PolyVerif.Spec.GbStrict (lines joinSp)
open PolyVerif.Spec.GbRoundTrip

/-! ### two line splitters -/

theorem splitC_eq_lines : ∀ s : Str, Str.splitC '\n' s = lines s
  | [] => rfl
  | c :: s => by
    by_cases hc : c = '\n'
    · subst hc
      rw [lines_cons_nl, Str.splitC, if_pos rfl, splitC_eq_lines s]
    · obtain ⟨hd, tl, e⟩ := lines_exists s
      rw [lines_cons_char hc e, Str.splitC, if_neg hc, splitC_eq_lines s, e]
      rfl

theorem split_nl_eq_lines (s : Str) : Str.split s ['\n'] = lines s := splitC_eq_lines s

theorem consHead_lines {c : Char} (hc : c ≠ '\n') (s : Str) : Str.consHead c (lines s) = lines (c :: s) := by
  obtain ⟨hd, tl, e⟩ := lines_exists s
  rw [lines_cons_char hc e, e]
  rfl

/-! ### two `strconv.Itoa`s -/

theorem itoaF_zero (g : Nat) : Location.itoaF g 0 = [] := by
  cases g <;> simp [Location.itoaF]

theorem digitsF_eq_itoaF : ∀ (n f g : Nat), 0 < n → n < f → n ≤ g → Str.digitsF f n = Location.itoaF g n := by
  intro n
  induction n using Nat.strongRecOn with
  | _ n ih =>
    intro f g hn hf hg
    cases f with
    | zero => omega
    | succ f =>
      cases g with
      | zero => omega
      | succ g =>
        have hn0 : ¬ n = 0 := by omega
        by_cases h10 : n < 10
        · rw [Str.digitsF, if_pos h10, Location.itoaF, if_neg hn0, Nat.div_eq_of_lt h10, itoaF_zero,
            Nat.mod_eq_of_lt h10]
          rfl
        · rw [Str.digitsF, if_neg h10, Location.itoaF, if_neg hn0,
            ih (n / 10) (by omega) f g (by omega) (by omega) (by omega)]
          rfl

theorem ofNat_eq_itoa (n : Nat) : Str.ofNat n = Location.itoa n := by
  unfold Str.ofNat Location.itoa
  split
  · rename_i h; subst h; rfl
  · exact digitsF_eq_itoaF n (n + 1) n (by omega) (by omega) (Nat.le_refl _)

/-! ### two chunkings -/

theorem chunk_nil (n f : Nat) : GbLayout.chunk n f [] = [] := by
  cases f <;> simp [GbLayout.chunk]

theorem chunk_eq_chunksF (n : Nat) : ∀ (f g : Nat) (l : Str), l ≠ [] → l.length ≤ f → l.length ≤ g →
    GbLayout.chunk n f l = chunksF (n + 1) g l
  | 0, _, l, h0, hf, _ => by
    have : l = [] := List.length_eq_zero_iff.mp (by omega)
    exact absurd this h0
  | _, 0, l, h0, _, hg => by
    have : l = [] := List.length_eq_zero_iff.mp (by omega)
    exact absurd this h0
  | f + 1, g + 1, l, h0, hf, hg => by
    rw [GbLayout.chunk, if_neg h0, chunksF]
    split
    · rename_i hle
      rw [List.take_of_length_le hle, List.drop_of_length_le hle, chunk_nil]
    · rename_i hgt
      have hd : l.drop (n + 1) ≠ [] := by
        intro e
        have := congrArg List.length e
        simp at this
        omega
      rw [chunk_eq_chunksF n f g (l.drop (n + 1)) hd (by simp; omega) (by simp; omega)]

theorem chunks_eq {n : Nat} {l : Str} (h : l ≠ []) : GbLayout.chunks n l = GbOrigin.chunks (n + 1) l :=
  chunk_eq_chunksF n _ _ l h (Nat.le_refl _) (Nat.le_refl _)

/-! ### `WrapString` as a choice of break positions -/

theorem mem_nlPositions : ∀ (o : Str) (i k : Nat), k ∈ nlPositions i o ↔ ∃ j, k = i + j ∧ o[j]? = some '\n'
  | [], i, k => by simp [nlPositions]
  | c :: o, i, k => by
    rw [nlPositions, List.mem_append, mem_nlPositions o (i + 1) k]
    constructor
    · rintro (h | ⟨j, rfl, hj⟩)
      · split at h
        · rename_i hc
          simp only [List.mem_singleton] at h
          exact ⟨0, by omega, by simp [hc]⟩
        · simp at h
      · exact ⟨j + 1, by omega, by simpa using hj⟩
    · rintro ⟨j, rfl, hj⟩
      cases j with
      | zero =>
        left
        simp only [List.getElem?_cons_zero, Option.some.injEq] at hj
        simp [hj]
      | succ j =>
        right
        exact ⟨j, by omega, by simpa using hj⟩

/-- `bs` holds exactly the positions (counted from `i`) at which `o` has a newline -/
def Marks (bs : List Nat) (i : Nat) (o : Str) : Prop := ∀ j, i + j ∈ bs ↔ o[j]? = some '\n'

theorem marks_nlPositions (o : Str) : Marks (nlPositions 0 o) 0 o := by
  intro j
  rw [mem_nlPositions]
  constructor
  · rintro ⟨j', e, h⟩
    have : j = j' := by omega
    rwa [this]
  · intro h
    exact ⟨j, rfl, h⟩

theorem Marks.tail {bs : List Nat} {i : Nat} {c : Char} {o : Str} (h : Marks bs i (c :: o)) : Marks bs (i + 1) o := by
  intro j
  have := h (j + 1)
  rw [show i + (j + 1) = i + 1 + j by omega] at this
  simpa using this

open PolyVerif.Spec.GbStrict (spacedFrom visible singleSpaced) in
theorem wrapAux_lines (bs : List Nat) : ∀ (t o : Str) (i : Nat) (p : Char) (b : Bool), denl o = t →
    spacedFrom b t = true → (b = true ↔ p ≠ ' ') → (t = [] → b = false → False) → Marks bs i o →
    GbLayout.wrapAux bs i p t = lines o
  | [], o, _, _, _, hd, _, _, _, _ => by
    have : o = [] := by simpa [denl] using hd
    subst this
    rfl
  | [c], o, i, p, b, hd, hs, hb, _, hm => by
    cases o with
    | nil => simp [denl] at hd
    | cons c' o' =>
      simp only [denl, List.map_cons, List.cons.injEq, List.map_eq_nil_iff] at hd
      obtain ⟨hc, ho⟩ := hd
      subst ho
      have hcb : c ≠ ' ' := by
        intro e; subst e
        simp [spacedFrom] at hs
      have hc' : c' = c := by
        split at hc
        · exact absurd hc.symm hcb
        · exact hc
      subst hc'
      have hnl : c' ≠ '\n' := by
        intro e; subst e; simp at hc
      rw [GbLayout.wrapAux, lines_noNl (by intro d hd; rw [List.mem_singleton.mp hd]; exact hnl)]
  | c :: n :: rest, o, i, p, b, hd, hs, hb, _, hm => by
    cases o with
    | nil => simp [denl] at hd
    | cons c' o' =>
      have hd' : denl o' = n :: rest := by
        simp only [denl, List.map_cons, List.cons.injEq] at hd ⊢
        exact hd.2
      have hc : (if c' = '\n' then ' ' else c') = c := by
        simp only [denl, List.map_cons, List.cons.injEq] at hd
        exact hd.1
      have hm0 := hm 0
      simp only [Nat.add_zero, List.getElem?_cons_zero, Option.some.injEq] at hm0
      by_cases hnl : c' = '\n'
      · subst hnl
        simp only [if_true] at hc
        subst hc
        simp only [spacedFrom, if_true, Bool.and_eq_true] at hs
        have hn : n ≠ ' ' := by
          intro e; subst e
          have := hs.2
          simp [spacedFrom] at this
        rw [GbLayout.wrapAux, if_pos ⟨rfl, hb.mp hs.1, hn, hm0.mpr rfl⟩, lines_cons_nl,
          wrapAux_lines bs (n :: rest) o' (i + 1) ' ' false hd' hs.2 (by simp) (by simp) hm.tail]
      · rw [if_neg hnl] at hc
        subst hc
        have hni : i ∉ bs := fun h => hnl (hm0.mp h)
        rw [GbLayout.wrapAux, if_neg (fun h => hni h.2.2.2), ← consHead_lines hnl]
        simp only [spacedFrom] at hs
        split at hs
        · rename_i hcb
          simp only [Bool.and_eq_true] at hs
          rw [wrapAux_lines bs (n :: rest) o' (i + 1) c' false hd' hs.2 (by simp [hcb]) (by simp) hm.tail]
        · rename_i hcb
          simp only [Bool.and_eq_true] at hs
          rw [wrapAux_lines bs (n :: rest) o' (i + 1) c' true hd' hs.2 (by simp [hcb]) (by simp) hm.tail]

open PolyVerif.Spec.GbStrict (spacedFrom visible singleSpaced) in
/-- the lines of a wrapped single-spaced text are the text broken at these positions -/
theorem wrapText_breaks {t : Str} (h : singleSpaced t = true) :
    GbLayout.wrapText (breaks t) t = lines (wrapString t 68) := by
  by_cases h0 : t = []
  · subst h0
    rfl
  · have hs : spacedFrom false t = true := by simpa [singleSpaced, h0] using h
    have hw := wrapString_wrapped t 68 (plain_of_spacedFrom t false hs)
    exact wrapAux_lines _ t _ 0 ' ' false (hw.denl_eq false hs) hs (by simp) (fun e _ => h0 e)
      (marks_nlPositions _)

open PolyVerif.Spec.GbStrict (singleSpaced) in
/-- a block as `Build` writes it is the C01 layout's block, broken where `WrapString` breaks -/
theorem blockLines_eq_block (kw : Str) {t : Str} (h : singleSpaced t = true) :
    blockLines kw t = GbLayout.block kw t (breaks t) := by
  unfold blockLines GbLayout.block
  rw [wrapText_breaks h]
  obtain ⟨d0, rest, e⟩ := lines_exists (wrapString t 68)
  rw [e]
  rfl

/-! ### a text that fits on one line is not wrapped -/

theorem wrapGo_short (lim : Nat) : ∀ (rest : Str) (current : Nat) (word space : Str), Plain rest →
    current + space.length + word.length + rest.length ≤ lim →
    wrapGo lim current word space rest = space.reverse ++ word.reverse ++ rest
  | [], current, word, space, _, h => by
    unfold wrapGo
    split
    · rename_i hw
      have : word = [] := List.length_eq_zero_iff.mp hw
      subst this
      rw [if_pos (by simp at h; omega)]
      simp
    · simp
  | c :: rest, current, word, space, hpl, h => by
    have hc : isSpace c = true → c = ' ' := hpl c List.mem_cons_self
    have hrest : Plain rest := fun d hd => hpl d (List.mem_cons_of_mem _ hd)
    have hnl : c ≠ '\n' := fun e => by
      have := hc (e ▸ isSpace_nl)
      rw [e] at this
      exact absurd this (by decide)
    simp only [List.length_cons] at h
    unfold wrapGo
    rw [if_neg hnl]
    by_cases hs : isSpace c = true
    · rw [if_pos hs]
      split
      · rw [wrapGo_short lim rest _ [] [c] hrest (by simp; omega)]
        simp
      · rename_i hcond
        have hw : word = [] := by
          have : ¬ word.length > 0 := fun h => hcond (Or.inr h)
          exact List.length_eq_zero_iff.mp (by omega)
        subst hw
        rw [wrapGo_short lim rest current [] (c :: space) hrest (by simp at h ⊢; omega)]
        simp
    · rw [if_neg hs, if_neg (by simp only [List.length_cons]; omega),
        wrapGo_short lim rest current (c :: word) space hrest (by simp only [List.length_cons]; omega)]
      simp

theorem wrapString_short {t : Str} {lim : Nat} (hp : Plain t) (h : t.length ≤ lim) : wrapString t lim = t := by
  have := wrapGo_short lim t 0 [] [] hp (by simpa using h)
  simpa [wrapString] using this

theorem wrapAux_no_breaks : ∀ (t : Str) (i : Nat) (p : Char), GbLayout.wrapAux [] i p t = [t]
  | [], _, _ => rfl
  | [_], _, _ => rfl
  | c :: n :: rest, i, p => by
    rw [GbLayout.wrapAux, if_neg (by simp), wrapAux_no_breaks (n :: rest) (i + 1) c]
    rfl

theorem blockLines_short (kw : Str) {t : Str} (hp : Plain t) (hn : NoNl t) (h : t.length ≤ 68) :
    blockLines kw t = GbLayout.block kw t [] := by
  unfold blockLines GbLayout.block GbLayout.wrapText
  rw [wrapString_short hp h, lines_noNl hn, wrapAux_no_breaks]
  rfl

/-! ### the header blocks -/

open PolyVerif.Spec.GbStrict (singleSpaced optSub wfRef) in
theorem subLines_optSub (k : String) {v : Str} (h : singleSpaced v = true) :
    subLines (optSub k v) = GbLayout.optBlock (' ' :: ' ' :: k.toList) v (breaks v) := by
  unfold optSub GbLayout.optBlock
  by_cases hv : v = []
  · simp [hv, subLines]
  · simp only [ne_eq, hv, not_false_eq_true, if_true, if_false, subLines, List.map_cons, List.map_nil,
      List.flatten_cons, List.flatten_nil, List.append_nil]
    exact blockLines_eq_block _ h

theorem noNl_of_plain_digits {n : Nat} : NoNl (Location.itoa n) := fun c hc e => by
  have := Lemmas.Location.itoa_digits n c hc
  subst e
  revert this
  decide

open PolyVerif.Spec.GbStrict (singleSpaced wfOther sortedEntries) in
theorem otherSpecs_lines (m : List (Str × Str)) : ∀ keys : List Str, (∀ k ∈ keys, singleSpaced (lookupD m k) = true) →
    specsLines (otherSpecs m keys)
      = GbLayout.extrasLines (keys.map fun k => (k, lookupD m k)) (keys.map fun k => breaks (lookupD m k))
  | [], _ => rfl
  | k :: keys, h => by
    rw [otherSpecs, List.map_cons, specsLines_cons, specLines_nosub]
    simp only [List.map_cons, GbLayout.extrasLines, List.headD_cons, List.tail_cons]
    rw [blockLines_eq_block _ (h k List.mem_cons_self)]
    congr 1
    exact otherSpecs_lines m keys (fun x hx => h x (List.mem_cons_of_mem _ hx))

/-! ### the feature table -/

theorem cutLocAux_no_breaks : ∀ (s : Str) (i : Nat), GbLayout.cutLocAux [] i s = [s]
  | [], _ => rfl
  | c :: rest, i => by
    rw [GbLayout.cutLocAux, if_neg (by simp), cutLocAux_no_breaks rest (i + 1)]
    rfl

theorem cutAux_no_breaks : ∀ (s : Str) (i : Nat) (p : Char), GbLayout.cutAux [] i p s = [s]
  | [], _, _ => rfl
  | c :: rest, i, p => by
    rw [GbLayout.cutAux, if_neg (by simp), cutAux_no_breaks rest (i + 1) c]
    rfl

-- (w-gbparse, C01 widening) the value wrappers with the quotation-mark guard, without breaks
theorem cutAuxV_no_breaks : ∀ (s : Str) (i : Nat) (p : Char), GbLayout.cutAuxV [] i p s = [s]
  | [], _, _ => rfl
  | c :: rest, i, p => by
    rw [GbLayout.cutAuxV, if_neg (by simp), cutAuxV_no_breaks rest (i + 1) c]
    rfl

theorem wrapAuxV_no_breaks : ∀ (t : Str) (i : Nat) (p : Char), GbLayout.wrapAuxV [] i p t = [t]
  | [], _, _ => rfl
  | [_], _, _ => rfl
  | c :: n :: rest, i, p => by
    rw [GbLayout.wrapAuxV, if_neg (by simp), wrapAuxV_no_breaks (n :: rest) (i + 1) c]
    rfl

theorem qualLines_one (k v : Str) : GbLayout.qualLines k v [] 0 = [spaces 21 ++ ['/'] ++ k ++ ['=', '"'] ++ v ++ ['"']] := by
  unfold GbLayout.qualLines GbLayout.valueChunks
  rw [if_neg (by simp), if_neg (by simp)]
  split
  · simp [GbLayout.cutTextV, cutAuxV_no_breaks, GbLayout.closeLast, GbLayout.hang, Str.spaces, spaces]
  · simp [GbLayout.wrapTextV, wrapAuxV_no_breaks, GbLayout.closeLast, GbLayout.hang, Str.spaces, spaces]

theorem qualsLines_keys (attrs : List (Str × Str)) : ∀ keys : List Str,
    GbLayout.qualsLines (keys.map fun k => (k, lookupD attrs k)) [] [] = keys.map (qualLine attrs)
  | [] => rfl
  | k :: keys => by
    simp only [List.map_cons, GbLayout.qualsLines, List.headD_nil, List.tail_nil, qualLines_one,
      qualsLines_keys attrs keys]
    rfl

open PolyVerif.Spec.GbStrict (sortedEntries absFeat) in
theorem featLines_eq (f : Feature) (h : f.type.length ≤ 15) :
    featLines f (fkOf f).2 = PolyVerif.GbLayout.featLines (toRFeature f) {} := by
  unfold featLines PolyVerif.GbLayout.featLines toRFeature
  simp only [GbLayout.cutLoc, cutLocAux_no_breaks, GbLayout.hang, List.map_nil]
  have hq := qualsLines_keys f.attributes (fkOf f).2
  simp only [fkOf, sortedEntries] at hq ⊢
  rw [hq]
  congr 1
  unfold featHead GbLayout.padRight locText absFeat
  simp only [List.length_append, Str.spaces, spaces, List.length_replicate]
  rw [show 21 - (5 + f.type.length) = 16 - f.type.length by omega]

open PolyVerif.Spec.GbStrict (wfFeature) in
theorem featsLines_eq : ∀ fs : List Feature, (∀ f ∈ fs, f.type.length ≤ 15) →
    featsLines (fs.map fkOf) = PolyVerif.GbLayout.featsLines (fs.map toRFeature) []
  | [], _ => rfl
  | f :: fs, h => by
    simp only [List.map_cons, featsLines, List.flatten_cons, PolyVerif.GbLayout.featsLines, List.headD_nil, List.tail_nil]
    have e : (fkOf f).1 = f := rfl
    rw [e, featLines_eq f (h f List.mem_cons_self)]
    congr 1
    exact featsLines_eq fs (fun x hx => h x (List.mem_cons_of_mem _ hx))

/-! ### ORIGIN -/

theorem lineText_eq_originLine (i : Nat) {c : Str} (hc : c ≠ []) :
    lineText i (chunks 10 c) = GbLayout.originLine 9 i c := by
  unfold lineText GbLayout.originLine counter GbLayout.padLeft
  have hne : chunks 10 c ≠ [] := by
    intro e
    have := chunksF_flatten (n := 10) (by decide) c.length c hc (Nat.le_refl _)
    unfold chunks at e
    rw [e] at this
    exact hc this.symm
  rw [chunks_eq hc, flatten_blank_cons _ hne, ofNat_eq_itoa]
  rfl

theorem oLines_eq : ∀ (cs : List Str) (k : Nat), (∀ c ∈ cs, c ≠ []) →
    oLines k cs = GbLayout.originLinesAux 9 60 (60 * k) cs
  | [], _, _ => rfl
  | c :: cs, k, h => by
    rw [oLines, GbLayout.originLinesAux, lineText_eq_originLine _ (h c List.mem_cons_self),
      oLines_eq cs (k + 1) (fun x hx => h x (List.mem_cons_of_mem _ hx))]
    rfl

theorem chunksF_ne_nil {n : Nat} (hn : 0 < n) : ∀ (f : Nat) (l : Str), l ≠ [] → ∀ c ∈ chunksF n f l, c ≠ []
  | 0, _, _, c, h => by simp [chunksF] at h
  | f + 1, l, hl, c, h => by
    unfold chunksF at h
    split at h
    · rw [List.mem_singleton.mp h]; exact hl
    · rename_i hlen
      rcases List.mem_cons.mp h with rfl | h
      · intro e
        have := congrArg List.length e
        simp only [List.length_take, List.length_nil] at this
        omega
      · exact chunksF_ne_nil hn f _ (by
          intro e
          have := congrArg List.length e
          simp at this
          omega) c h

theorem origin_eq {seq : Str} (h : seq ≠ []) : oLines 0 (chunks 60 seq) = GbLayout.originLines seq 9 5 := by
  show oLines 0 (chunks 60 seq) = GbLayout.originLinesAux 9 60 0 (GbLayout.chunks 59 seq)
  rw [chunks_eq h]
  exact oLines_eq _ 0 (chunksF_ne_nil (by decide) _ seq h)

/-! ### LOCUS -/

theorem gapped_append (a b : List (Nat × Str)) :
    PolyVerif.GbLayout.gapped (a ++ b) = PolyVerif.GbLayout.gapped a ++ PolyVerif.GbLayout.gapped b := by
  simp [PolyVerif.GbLayout.gapped]

theorem flatten_blank_map : ∀ ws : List Str, ((ws.map fun x => ((0 : Nat), x)).map fun p => Str.spaces (p.1 + 1) ++ p.2).flatten
    = (ws.map fun w => ' ' :: w).flatten
  | [] => rfl
  | w :: ws => by
    have ih := flatten_blank_map ws
    simp only [List.map_cons, List.flatten_cons] at ih ⊢
    rw [ih]
    rfl

theorem join_blank : ∀ (w : Str) (ws : List Str), Str.join [' '] (w :: ws) = w ++ (ws.map fun x => ' ' :: x).flatten
  | w, [] => by simp [Str.join]
  | w, v :: vs => by
    show w ++ [' '] ++ Str.join [' '] (v :: vs) = _
    rw [join_blank v vs]
    simp

/-- a molecule type of several words is written as it stands -/
theorem gapped_molToks (p : Nat) (mol : Str) :
    PolyVerif.GbLayout.gapped (PolyVerif.GbLayout.molToks p mol) = if mol = [] then [] else Str.spaces (p + 1) ++ mol := by
  unfold PolyVerif.GbLayout.molToks
  split
  · rfl
  · have hj := Str.join_splitC ' ' mol
    cases hs : Str.splitC ' ' mol with
    | nil => exact absurd hs (Str.splitC_ne_nil ' ' mol)
    | cons w ws =>
      rw [hs, join_blank] at hj
      simp only [PolyVerif.GbLayout.gapped, List.map_cons, List.flatten_cons, flatten_blank_map]
      rw [List.append_assoc, hj]

/-- the LOCUS line `Build` writes is the C01 LOCUS line with `Build`'s gaps, whichever fields are empty -/
theorem locusLine_eq (x : Sequence) :
    PolyVerif.GbLayout.locusLine (toRec x).locus (polyLayout x) = locusLine x.metadata.locus := by
  have e0 : "LOCUS       ".toList = ['L', 'O', 'C', 'U', 'S', ' ', ' ', ' ', ' ', ' ', ' ', ' '] := by decide
  have e1 : " bp".toList = [' ', 'b', 'p'] := by decide
  have e2 : "circular".toList = ['c', 'i', 'r', 'c', 'u', 'l', 'a', 'r'] := by decide
  have e3 : "linear".toList = ['l', 'i', 'n', 'e', 'a', 'r'] := by decide
  unfold PolyVerif.GbLayout.locusLine PolyVerif.GbLayout.locusToks locusLine shapeOf
  simp only [gapped_append, gapped_molToks]
  unfold toRec polyLayout padAfter
  simp only [e0, e1, e2, e3]
  by_cases hl : x.metadata.locus.sequenceLength = [] <;> by_cases hm : x.metadata.locus.moleculeType = []
    <;> by_cases hd : x.metadata.locus.genbankDivision = [] <;> by_cases ht : x.metadata.locus.modificationDate = []
    <;> cases hc : x.metadata.locus.circular <;> cases hlin : x.metadata.locus.linear
    <;> simp [hl, hm, hd, ht, PolyVerif.GbLayout.gapped, PolyVerif.GbLayout.optTok, PolyVerif.GbLayout.topoText,
          PolyVerif.GbLayout.Topology.text, Str.spaces, spaces, List.replicate_succ]

/-! ### the whole record -/

theorem off_nil : ∀ k, PolyVerif.GbLayout.off [] k = 0
  | 0 => rfl
  | k + 1 => by simp [PolyVerif.GbLayout.off, off_nil k]

/-- with no extra block moved up and no block left out, the C01 layout is the plain sequence of blocks -/
theorem layout_plain (r : PolyVerif.GbLayout.GbRec) (ℓ : PolyVerif.GbLayout.RecLayout) (hc : ℓ.extraCuts = [])
    (h1 : ℓ.omitDefinition = false) (h2 : ℓ.omitAccession = false) (h3 : ℓ.omitVersion = false)
    (h4 : ℓ.omitKeywords = false) (h5 : ℓ.omitSource = false) (h6 : ℓ.omitOrganism = false) :
    PolyVerif.GbLayout.layout r ℓ =
      [PolyVerif.GbLayout.locusLine r.locus ℓ]
      ++ PolyVerif.GbLayout.block ['D', 'E', 'F', 'I', 'N', 'I', 'T', 'I', 'O', 'N'] r.definition ℓ.definition
      ++ PolyVerif.GbLayout.block ['A', 'C', 'C', 'E', 'S', 'S', 'I', 'O', 'N'] r.accession ℓ.accession
      ++ PolyVerif.GbLayout.block ['V', 'E', 'R', 'S', 'I', 'O', 'N'] r.version ℓ.version
      ++ PolyVerif.GbLayout.block ['K', 'E', 'Y', 'W', 'O', 'R', 'D', 'S'] r.keywords ℓ.keywords
      ++ PolyVerif.GbLayout.block ['S', 'O', 'U', 'R', 'C', 'E'] r.source ℓ.source
      ++ PolyVerif.GbLayout.block [' ', ' ', 'O', 'R', 'G', 'A', 'N', 'I', 'S', 'M'] r.organism ℓ.organism
      ++ PolyVerif.GbLayout.refsLines 0 r.refs ℓ.refs
      ++ PolyVerif.GbLayout.extrasLines r.extras ℓ.extras
      ++ [PolyVerif.GbLayout.featuresHeader]
      ++ PolyVerif.GbLayout.featsLines r.features ℓ.feats
      ++ [if ℓ.originTrail = true then ['O', 'R', 'I', 'G', 'I', 'N', ' ', ' ', ' ', ' ', ' ', ' '] else ['O', 'R', 'I', 'G', 'I', 'N']]
      ++ PolyVerif.GbLayout.originLines r.seq ℓ.blockLen ℓ.perLine
      ++ [['/', '/']] := by
  have hs : ∀ k, PolyVerif.GbLayout.extraSlot r ℓ k = [] := by
    intro k
    simp [PolyVerif.GbLayout.extraSlot, hc, PolyVerif.GbLayout.extrasLines]
  -- (w-gbparse, C01 round 2) with `extraCuts = []` every extra block follows the references, none the feature table
  have hcnt : PolyVerif.GbLayout.afterRefsCount r ℓ = r.extras.length := by
    simp [PolyVerif.GbLayout.afterRefsCount, hc, off_nil]
  have hr : PolyVerif.GbLayout.extraRest r ℓ = PolyVerif.GbLayout.extrasLines r.extras ℓ.extras := by
    simp [PolyVerif.GbLayout.extraRest, hc, off_nil, hcnt]
  have haf : PolyVerif.GbLayout.extraAfterFeat r ℓ = [] := by
    simp [PolyVerif.GbLayout.extraAfterFeat, hc, off_nil, hcnt, PolyVerif.GbLayout.extrasLines]
  unfold PolyVerif.GbLayout.layout PolyVerif.GbLayout.mblock PolyVerif.GbLayout.sourceBlock
  simp only [hs, hr, haf, h1, h2, h3, h4, h5, h6, Bool.false_eq_true, false_and, if_false, List.append_nil, List.append_assoc,
    List.nil_append]


theorem list_glue (L : Str) (H FT O : List Str) (FH OR T : Str) :
    L :: (H ++ FH :: (FT ++ OR :: (O ++ [T]))) = [L] ++ H ++ [FH] ++ FT ++ [OR] ++ O ++ [T] := by
  simp

theorem header_glue (b1 b2 b3 b4 b5 b6 R E : List Str) :
    b1 ++ (b2 ++ (b3 ++ (b4 ++ (b5 ++ b6 ++ [])))) ++ R ++ E = b1 ++ b2 ++ b3 ++ b4 ++ b5 ++ b6 ++ R ++ E := by
  simp

open PolyVerif.Spec.GbStrict (refNum withDefaultIndex) in
/-- the references C01's record states are the writer's, an unset number defaulted to the position -/
theorem refs_approx : ∀ (refs : List Reference) (i : Nat),
    listApprox refApprox (withDefaultIndex.go i refs) (PolyVerif.GbLayout.toRefs i (refs.map toRRef)) = true
  | [], _ => rfl
  | r :: rs, i => by
    have hn : PolyVerif.GbLayout.refNumber i (toRRef r) = refNum i r := by
      unfold PolyVerif.GbLayout.refNumber refNum toRRef
      simp only []
      split
      · exact ofNat_eq_itoa _
      · rfl
    simp only [withDefaultIndex.go, List.map_cons, PolyVerif.GbLayout.toRefs, listApprox, refApprox, Bool.and_eq_true,
      beq_iff_eq, refs_approx rs (i + 1), and_true, hn]
    simp [toRRef]

open PolyVerif.Spec.GbStrict (wfFeatureRT wfFeatureLoc locProved cacheConsistent absFeat) in
theorem feats_approx : ∀ fs : List Feature, fs.all wfFeatureRT = true → fs.all wfFeatureLoc = true →
    listApprox featApprox fs ((fs.map toRFeature).map PolyVerif.GbLayout.toFeature) = true
  | [], _, _ => rfl
  | f :: fs, h, h' => by
    simp only [List.all_cons, Bool.and_eq_true] at h h'
    have hloc : locStructOk f (PolyVerif.GbLayout.toFeature (toRFeature f)) = true := by
      unfold locStructOk
      by_cases hc : f.gbkLocationString = []
      · -- assembled structurally: the text is what BuildLocationString writes
        have hp : locProved f.sequenceLocation = true := by
          have := h'.1
          simpa [wfFeatureLoc, hc] using this
        have htext : (PolyVerif.GbLayout.toFeature (toRFeature f)).gbkLoc = Location.buildLoc f.sequenceLocation := by
          simp [PolyVerif.GbLayout.toFeature, toRFeature, absFeat, hc]
        obtain ⟨q, hq, hb⟩ := PolyVerif.Lemmas.GbLocStruct.parse_buildLoc_struct _ hp
        rw [htext, hq]
        exact hb
      · have hw := h.1
        simp only [wfFeatureRT, Bool.and_eq_true, bne_iff_ne, ne_eq, hc, not_false_eq_true, if_true] at hw
        have hcc := hw.2
        unfold cacheConsistent at hcc
        have htext : (PolyVerif.GbLayout.toFeature (toRFeature f)).gbkLoc = f.gbkLocationString := by
          simp [PolyVerif.GbLayout.toFeature, toRFeature, absFeat, hc]
        rw [htext]
        exact hcc
    simp only [List.map_cons, listApprox, Bool.and_eq_true, feats_approx fs h.2 h'.2, and_true]
    simp only [featApprox, Bool.and_eq_true, hloc, and_true]
    simp [toRFeature, PolyVerif.GbLayout.toFeature]

end PolyVerif.Lemmas.GbRoundTrip
