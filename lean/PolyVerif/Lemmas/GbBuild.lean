import PolyVerif.Model.GenbankBuild
import PolyVerif.Spec.GbStrict
/-
Helper lemmas for property C03 (GenBank writer).
-/
namespace PolyVerif.Lemmas.GbBuild
open PolyVerif PolyVerif.StrBuild

/-! ### sort.Strings: the sorted arrangement of a list does not depend on the order it is given in -/

theorem strLe_total : ∀ a b : Str, strLe a b = false → strLe b a = true
  | [], _, h => by simp [strLe] at h
  | _ :: _, [], _ => by simp [strLe]
  | a :: as, b :: bs, h => by
    simp only [strLe, Bool.or_eq_false_iff, decide_eq_false_iff_not, Bool.and_eq_false_imp, beq_iff_eq] at h
    simp only [strLe, Bool.or_eq_true, decide_eq_true_eq, Bool.and_eq_true, beq_iff_eq]
    by_cases hlt : b.toNat < a.toNat
    · exact Or.inl hlt
    · have : a.toNat = b.toNat := by omega
      exact Or.inr ⟨this.symm, strLe_total as bs (h.2 this)⟩

theorem strLe_trans : ∀ a b c : Str, strLe a b = true → strLe b c = true → strLe a c = true
  | [], _, _, _, _ => by simp [strLe]
  | _ :: _, [], _, h, _ => by simp [strLe] at h
  | _ :: _, _ :: _, [], _, h => by simp [strLe] at h
  | a :: as, b :: bs, c :: cs, h₁, h₂ => by
    simp only [strLe, Bool.or_eq_true, decide_eq_true_eq, Bool.and_eq_true, beq_iff_eq] at h₁ h₂ ⊢
    rcases h₁ with h₁ | ⟨e₁, h₁⟩
    · rcases h₂ with h₂ | ⟨e₂, _⟩
      · exact Or.inl (by omega)
      · exact Or.inl (by omega)
    · rcases h₂ with h₂ | ⟨e₂, h₂⟩
      · exact Or.inl (by omega)
      · exact Or.inr ⟨by omega, strLe_trans as bs cs h₁ h₂⟩

theorem strLe_antisymm : ∀ a b : Str, strLe a b = true → strLe b a = true → a = b
  | [], [], _, _ => rfl
  | [], _ :: _, _, h => by simp [strLe] at h
  | _ :: _, [], h, _ => by simp [strLe] at h
  | a :: as, b :: bs, h₁, h₂ => by
    simp only [strLe, Bool.or_eq_true, decide_eq_true_eq, Bool.and_eq_true, beq_iff_eq] at h₁ h₂
    rcases h₁ with h₁ | ⟨e₁, h₁⟩
    · rcases h₂ with h₂ | ⟨e₂, _⟩ <;> omega
    · rcases h₂ with h₂ | ⟨_, h₂⟩
      · omega
      · rw [Char.toNat_inj.mp e₁, strLe_antisymm as bs h₁ h₂]

theorem orderedInsert_perm (a : Str) : ∀ l, (orderedInsert a l).Perm (a :: l)
  | [] => List.Perm.refl _
  | b :: l => by
    unfold orderedInsert
    split
    · exact List.Perm.refl _
    · exact ((orderedInsert_perm a l).cons b).trans (List.Perm.swap a b l)

theorem sortStrings_perm : ∀ l, (sortStrings l).Perm l
  | [] => List.Perm.refl _
  | a :: l => (orderedInsert_perm a _).trans ((sortStrings_perm l).cons a)

def Le (a b : Str) : Prop := strLe a b = true

theorem orderedInsert_sorted (a : Str) : ∀ l, l.Pairwise Le → (orderedInsert a l).Pairwise Le
  | [], _ => List.pairwise_singleton _ _
  | b :: l, h => by
    unfold orderedInsert
    split
    · rename_i hab
      refine List.Pairwise.cons ?_ h
      intro c hc
      rcases List.mem_cons.mp hc with rfl | hc
      · exact hab
      · exact strLe_trans a b c hab (List.rel_of_pairwise_cons h hc)
    · rename_i hab
      have hba : Le b a := strLe_total a b (by simpa using hab)
      refine List.Pairwise.cons ?_ (orderedInsert_sorted a l h.of_cons)
      intro c hc
      rcases List.mem_cons.mp ((orderedInsert_perm a l).subset hc) with rfl | hc
      · exact hba
      · exact List.rel_of_pairwise_cons h hc

theorem sortStrings_sorted : ∀ l, (sortStrings l).Pairwise Le
  | [] => List.Pairwise.nil
  | a :: l => orderedInsert_sorted a _ (sortStrings_sorted l)

/-- the result of `sort.Strings` depends only on WHICH strings are given, not on their order -/
theorem sortStrings_eq_of_perm {l₁ l₂ : List Str} (h : l₁.Perm l₂) : sortStrings l₁ = sortStrings l₂ :=
  List.Perm.eq_of_pairwise (le := Le) (fun a b _ _ => strLe_antisymm a b) (sortStrings_sorted l₁) (sortStrings_sorted l₂)
    ((sortStrings_perm l₁).trans (h.trans (sortStrings_perm l₂).symm))

/-! ### map iteration orders -/

theorem insertAt_perm {α : Type} (a : α) : ∀ (n : Nat) (l : List α), (insertAt n a l).Perm (a :: l)
  | 0, _ => List.Perm.refl _
  | _ + 1, [] => List.Perm.refl _
  | n + 1, b :: l => ((insertAt_perm a n l).cons b).trans (List.Perm.swap a b l)

theorem permute_perm {α : Type} : ∀ (seed : List Nat) (l : List α), (permute seed l).Perm l
  | _, [] => by simp [permute]
  | [], a :: l => by simpa [permute] using permute_perm [] l
  | s :: seed, a :: l => by
    simp only [permute]
    exact (insertAt_perm a _ _).trans ((permute_perm seed l).cons a)

theorem insertAt_length_append {α : Type} (a : α) : ∀ (p q : List α), insertAt p.length a (p ++ q) = p ++ a :: q
  | [], _ => rfl
  | b :: p, q => by simp [insertAt, insertAt_length_append a p q]

/-- every rearrangement of the entries is the visiting order of some seed -/
theorem permute_surjective {α : Type} : ∀ (l l' : List α), l'.Perm l → ∃ seed, permute seed l = l'
  | [], l', h => ⟨[], by simp [permute, h.eq_nil]⟩
  | a :: l, l', h => by
    obtain ⟨p, q, rfl⟩ := List.append_of_mem (h.symm.subset List.mem_cons_self)
    have h' : (p ++ q).Perm l := (List.perm_middle.symm.trans h).cons_inv
    obtain ⟨seed, hs⟩ := permute_surjective l (p ++ q) h'
    refine ⟨p.length :: seed, ?_⟩
    have hlen : p.length % (l.length + 1) = p.length := by
      have := h'.length_eq
      simp only [List.length_append] at this
      exact Nat.mod_eq_of_lt (by omega)
    simp only [permute, hs, hlen]
    exact insertAt_length_append a p q

/-- every iteration order yields the same sorted key slice -/
theorem sorted_rangeKeys (m : List (Str × Str)) (o₁ o₂ : List Nat) :
    sortStrings (rangeKeys o₁ m) = sortStrings (rangeKeys o₂ m) :=
  sortStrings_eq_of_perm (((permute_perm o₁ m).trans (permute_perm o₂ m).symm).map Prod.fst)

open PolyVerif.GenbankBuild in
theorem buildFeatureString_order (f : Feature) (o₁ o₂ : List Nat) :
    buildFeatureString f o₁ = buildFeatureString f o₂ := by
  unfold buildFeatureString
  rw [sorted_rangeKeys f.attributes o₁ o₂]

open PolyVerif.GenbankBuild in
theorem buildFeatures_order (q₁ q₂ : Nat → List Nat) : ∀ (fs : List Feature) (i : Nat),
    buildFeatures q₁ i fs = buildFeatures q₂ i fs
  | [], _ => rfl
  | f :: fs, i => by
    simp only [buildFeatures]
    rw [buildFeatureString_order f (q₁ i) (q₂ i), buildFeatures_order q₁ q₂ fs (i + 1)]

open PolyVerif.GenbankBuild in
/-- `build` does not depend on the map iteration orders -/
theorem build_order_irrelevant (x : Sequence) (o₁ o₂ : MapOrders) : build x o₁ = build x o₂ := by
  unfold build
  simp only []
  rw [sorted_rangeKeys x.metadata.other o₁.other o₂.other, buildFeatures_order o₁.quals o₂.quals]

/-! ### wordwrap.WrapString

`Wrapped out t`: `out` is `t` in which some runs of blanks have been replaced by ONE newline each,
and a final run of blanks may have been dropped.  This is all `WrapString` does to a text without
newlines whose only white space is the blank — for every limit. -/

inductive Wrapped : Str → Str → Prop
  | nil : Wrapped [] []
  | keep (c : Char) {o t : Str} : Wrapped o t → Wrapped (c :: o) (c :: t)
  | brk (k : Nat) {o t : Str} : Wrapped o t → Wrapped ('\n' :: o) (List.replicate (k + 1) ' ' ++ t)
  | drop (k : Nat) : Wrapped [] (List.replicate k ' ')

theorem Wrapped.refl : ∀ t, Wrapped t t
  | [] => .nil
  | c :: t => .keep c (Wrapped.refl t)

theorem Wrapped.append_keep (p : Str) {o t : Str} (h : Wrapped o t) : Wrapped (p ++ o) (p ++ t) := by
  induction p with
  | nil => exact h
  | cons c p ih => exact .keep c ih

theorem eq_replicate_of_all_blank {sp : Str} (h : ∀ c ∈ sp, c = ' ') : sp = List.replicate sp.length ' ' :=
  List.eq_replicate_iff.mpr ⟨rfl, h⟩

theorem Wrapped.brk' {sp o t : Str} (hsp : ∀ c ∈ sp, c = ' ') (hne : sp ≠ []) (h : Wrapped o t) :
    Wrapped ('\n' :: o) (sp ++ t) := by
  rw [eq_replicate_of_all_blank hsp]
  obtain ⟨k, hk⟩ : ∃ k, sp.length = k + 1 := ⟨sp.length - 1, by
    have : sp.length ≠ 0 := fun h0 => hne (List.length_eq_zero_iff.mp h0)
    omega⟩
  rw [hk]
  exact .brk k h

theorem Wrapped.drop' {sp : Str} (hsp : ∀ c ∈ sp, c = ' ') : Wrapped [] sp := by
  rw [eq_replicate_of_all_blank hsp]
  exact .drop _

/-- a text without newline whose only white space is the blank -/
def Plain (t : Str) : Prop := ∀ c ∈ t, isSpace c = true → c = ' '

theorem isSpace_nl : isSpace '\n' = true := by decide
theorem isSpace_blank : isSpace ' ' = true := by decide

theorem wrapGo_wrapped (lim : Nat) : ∀ (rest : Str) (current : Nat) (word space : Str),
    Plain rest → (∀ c ∈ space, c = ' ') → (space = [] → current = 0) →
    Wrapped (wrapGo lim current word space rest) (space.reverse ++ word.reverse ++ rest)
  | [], current, word, space, _, hsp, _ => by
    unfold wrapGo
    split
    · rename_i hw
      have : word = [] := List.length_eq_zero_iff.mp hw
      subst this
      split
      · simpa using Wrapped.refl _
      · simpa using Wrapped.drop' (sp := space.reverse) (by simpa using hsp)
    · simpa using Wrapped.refl _
  | c :: rest, current, word, space, hpl, hsp, hcur => by
    have hc : isSpace c = true → c = ' ' := hpl c List.mem_cons_self
    have hrest : Plain rest := fun d hd => hpl d (List.mem_cons_of_mem _ hd)
    have hnl : c ≠ '\n' := fun h => by
      have := hc (h ▸ isSpace_nl)
      rw [h] at this
      exact absurd this (by decide)
    unfold wrapGo
    rw [if_neg hnl]
    by_cases hs : isSpace c = true
    · rw [if_pos hs]
      split
      · have ih := wrapGo_wrapped lim rest (current + (space.length + word.length)) [] [c] hrest
          (by intro d hd; rw [List.mem_singleton.mp hd]; exact hc hs) (by simp)
        have := Wrapped.append_keep space.reverse (Wrapped.append_keep word.reverse ih)
        simpa using this
      · rename_i hcond
        have hw : word = [] := by
          have : ¬ word.length > 0 := fun h => hcond (Or.inr h)
          exact List.length_eq_zero_iff.mp (by omega)
        have ih := wrapGo_wrapped lim rest current word (c :: space) hrest
          (by
            intro d hd
            rcases List.mem_cons.mp hd with rfl | hd
            · exact hc hs
            · exact hsp d hd) (by simp)
        subst hw
        simpa using ih
    · rw [if_neg hs]
      split
      · rename_i hcond
        have hne : space ≠ [] := by
          intro h0
          have := hcur h0
          subst h0
          subst this
          simp only [List.length_nil, List.length_cons, Nat.zero_add] at hcond
          omega
        have ih := wrapGo_wrapped lim rest 0 (c :: word) [] hrest (by simp) (by simp)
        have := Wrapped.brk' (sp := space.reverse) (by simpa using hsp) (by simpa using hne) ih
        simpa using this
      · have ih := wrapGo_wrapped lim rest current (c :: word) space hrest hsp hcur
        simpa using ih

/-- `WrapString` only ever replaces blank runs by single newlines (or drops a final blank run) -/
theorem wrapString_wrapped (t : Str) (lim : Nat) (h : Plain t) : Wrapped (wrapString t lim) t := by
  have := wrapGo_wrapped lim t 0 [] [] h (by simp) (by simp)
  simpa [wrapString] using this

/-- newline ↦ blank: what joining the lines of a block with single blanks amounts to -/
def denl (s : Str) : Str := s.map fun c => if c = '\n' then ' ' else c

open PolyVerif.Spec.GbStrict in
theorem visible_ne_nl {c : Char} (h : visible c = true) : c ≠ '\n' := by
  intro e; subst e; revert h; decide

open PolyVerif.Spec.GbStrict in
theorem visible_ne_blank {c : Char} (h : visible c = true) : c ≠ ' ' := by
  intro e; subst e; revert h; decide

open PolyVerif.Spec.GbStrict in
/-- on single-spaced text every replaced run is ONE blank and nothing is dropped -/
theorem Wrapped.denl_eq {o t : Str} (h : Wrapped o t) : ∀ b, spacedFrom b t = true → denl o = t := by
  induction h with
  | nil => intro _ _; rfl
  | keep c _ ih =>
    intro b hb
    simp only [spacedFrom] at hb
    split at hb
    · rename_i hc
      simp only [Bool.and_eq_true] at hb
      subst hc
      have h2 := ih false hb.2
      simp only [denl] at h2 ⊢
      simp [h2]
    · simp only [Bool.and_eq_true] at hb
      have hne := visible_ne_nl hb.1
      simp only [denl, List.map_cons, if_neg hne, List.cons.injEq, true_and]
      exact ih true hb.2
  | brk k _ ih =>
    intro b hb
    cases k with
    | zero =>
      simp only [Nat.zero_add, List.replicate_one, List.singleton_append, spacedFrom, if_true,
        Bool.and_eq_true] at hb
      simp only [denl, List.map_cons, if_true, Nat.zero_add, List.replicate_one, List.singleton_append,
        List.cons.injEq, true_and]
      exact ih false hb.2
    | succ k =>
      simp [List.replicate_succ, spacedFrom] at hb
  | drop k =>
    intro b hb
    cases k with
    | zero => rfl
    | succ k =>
      cases k with
      | zero => simp [List.replicate_succ, spacedFrom] at hb
      | succ k => simp [List.replicate_succ, spacedFrom] at hb

open PolyVerif.Spec.GbStrict in
theorem plain_of_spacedFrom : ∀ (t : Str) (b : Bool), spacedFrom b t = true → Plain t
  | [], _, _ => fun _ h => by simp at h
  | c :: t, b, h => by
    intro d hd hsp
    simp only [spacedFrom] at h
    rcases List.mem_cons.mp hd with rfl | hd
    · split at h
      · assumption
      · simp only [Bool.and_eq_true] at h
        exfalso
        have hv := h.1
        revert hsp hv
        simp only [visible, isSpace, Bool.and_eq_true, decide_eq_true_eq, Bool.or_eq_true, beq_iff_eq]
        intro hsp hv
        rcases hsp with ((((((rfl | rfl) | rfl) | rfl) | rfl) | rfl) | rfl) | rfl <;> revert hv <;> decide
    · split at h
      · simp only [Bool.and_eq_true] at h
        exact plain_of_spacedFrom t false h.2 d hd hsp
      · simp only [Bool.and_eq_true] at h
        exact plain_of_spacedFrom t true h.2 d hd hsp

/-! ### lines -/

section Lines
open PolyVerif.Spec.GbStrict

theorem splitChar_nl_eq_lines (s : Str) : splitChar '\n' s = lines s := rfl

theorem lines_ne_nil : ∀ s : Str, lines s ≠ []
  | [] => by simp [lines]
  | c :: s => by
    have ih := lines_ne_nil s
    simp only [lines, List.foldr_cons] at ih ⊢
    unfold lineStep
    split
    · simp
    · split <;> simp

theorem lines_nil : lines [] = [[]] := rfl

theorem lines_cons_nl (s : Str) : lines ('\n' :: s) = [] :: lines s := by
  simp [lines, lineStep]

theorem lines_cons_char {c : Char} (hc : c ≠ '\n') {s hd : Str} {tl : List Str} (h : lines s = hd :: tl) :
    lines (c :: s) = (c :: hd) :: tl := by
  simp only [lines, List.foldr_cons] at h ⊢
  rw [h]
  simp [lineStep, hc]

theorem lines_exists (s : Str) : ∃ hd tl, lines s = hd :: tl := by
  have h := lines_ne_nil s
  cases hr : lines s with
  | nil => exact absurd hr h
  | cons l ls => exact ⟨l, ls, rfl⟩

def NoNl (s : Str) : Prop := ∀ c ∈ s, c ≠ '\n'

theorem NoNl.append {a b : Str} (ha : NoNl a) (hb : NoNl b) : NoNl (a ++ b) := by
  intro c hc
  rcases List.mem_append.mp hc with h | h
  · exact ha c h
  · exact hb c h

theorem noNl_replicate (n : Nat) : NoNl (List.replicate n ' ') := by
  intro c hc
  rw [(List.mem_replicate.mp hc).2]
  decide

theorem lines_noNl : ∀ {a : Str}, NoNl a → lines a = [a]
  | [], _ => rfl
  | c :: a, h => by
    have hc : c ≠ '\n' := h c List.mem_cons_self
    have ih := lines_noNl (a := a) (fun d hd => h d (List.mem_cons_of_mem _ hd))
    rw [lines_cons_char hc ih]

theorem lines_append_nl : ∀ {a : Str} (b : Str), NoNl a → lines (a ++ '\n' :: b) = a :: lines b
  | [], b, _ => by simpa using lines_cons_nl b
  | c :: a, b, h => by
    have hc : c ≠ '\n' := h c List.mem_cons_self
    have ih := lines_append_nl (a := a) b (fun d hd => h d (List.mem_cons_of_mem _ hd))
    rw [List.cons_append, lines_cons_char hc ih]

theorem noNl_of_mem_lines : ∀ (s : Str) (l : Str), l ∈ lines s → NoNl l
  | [], l, h => by
    simp only [lines_nil, List.mem_singleton] at h
    subst h
    intro c hc
    simp at hc
  | c :: s, l, h => by
    by_cases hc : c = '\n'
    · subst hc
      rw [lines_cons_nl] at h
      rcases List.mem_cons.mp h with rfl | h
      · intro c hc
        simp at hc
      · exact noNl_of_mem_lines s l h
    · obtain ⟨hd, tl, e⟩ := lines_exists s
      rw [lines_cons_char hc e] at h
      rcases List.mem_cons.mp h with rfl | h
      · intro d hd'
        rcases List.mem_cons.mp hd' with rfl | hd'
        · exact hc
        · exact noNl_of_mem_lines s hd (by rw [e]; exact List.mem_cons_self) d hd'
      · exact noNl_of_mem_lines s l (by rw [e]; exact List.mem_cons_of_mem _ h)

theorem joinSp_cons_cons (c : Char) (hd : Str) (tl : List Str) :
    joinSp ((c :: hd) :: tl) = c :: joinSp (hd :: tl) := by
  cases tl <;> rfl

/-- joining the lines of a text with single blanks = replacing its newlines by blanks -/
theorem joinSp_lines : ∀ o : Str, joinSp (lines o) = denl o
  | [] => rfl
  | c :: o => by
    by_cases hc : c = '\n'
    · subst hc
      rw [lines_cons_nl]
      have h := lines_ne_nil o
      have ih := joinSp_lines o
      generalize lines o = r at h ih
      cases r with
      | nil => exact absurd rfl h
      | cons l ls => simp [joinSp, denl] at ih ⊢; exact ih
    · obtain ⟨hd, tl, e⟩ := lines_exists o
      rw [lines_cons_char hc e, joinSp_cons_cons]
      have ih := joinSp_lines o
      rw [e] at ih
      simp only [denl, List.map_cons, if_neg hc] at ih ⊢
      rw [ih]

theorem trimRight_of_getLast {t : Str} (h : ∀ c, t.getLast? = some c → c ≠ ' ') : trimRight t = t := by
  unfold trimRight
  cases hr : t.reverse with
  | nil => simp [List.reverse_eq_nil_iff.mp hr]
  | cons c r =>
    have hl : t.getLast? = some c := by
      rw [List.getLast?_eq_head?_reverse, hr]; rfl
    have : (c == ' ') = false := by simpa using h c hl
    rw [List.dropWhile_cons_of_neg (by simp [this]), ← hr, List.reverse_reverse]

theorem trimRight_append_blanks (t : Str) (n : Nat) (h : ∀ c, t.getLast? = some c → c ≠ ' ') :
    trimRight (t ++ List.replicate n ' ') = t := by
  have : ∀ (n : Nat) (r : Str), List.dropWhile (· == ' ') (List.replicate n ' ' ++ r) = List.dropWhile (· == ' ') r := by
    intro n r
    induction n with
    | zero => rfl
    | succ n ih => simp [List.replicate_succ, ih]
  have h1 := trimRight_of_getLast h
  unfold trimRight at h1 ⊢
  rw [List.reverse_append, List.reverse_replicate, this, h1]

theorem spacedFrom_getLast : ∀ (t : Str) (b : Bool), spacedFrom b t = true →
    ∀ c, t.getLast? = some c → c ≠ ' '
  | [], _, _, c, h => by simp at h
  | [d], b, hb, c, h => by
    simp only [List.getLast?_singleton, Option.some.injEq] at h
    subst h
    simp only [spacedFrom] at hb
    split at hb
    · simp at hb
    · simp only [Bool.and_eq_true] at hb
      exact visible_ne_blank hb.1
  | d :: e :: t, b, hb, c, h => by
    rw [List.getLast?_cons_cons] at h
    simp only [spacedFrom] at hb
    split at hb
    · simp only [Bool.and_eq_true] at hb
      exact spacedFrom_getLast (e :: t) false (by simpa [spacedFrom] using hb.2) c h
    · simp only [Bool.and_eq_true] at hb
      exact spacedFrom_getLast (e :: t) true (by simpa [spacedFrom] using hb.2) c h

/-- what the column reader gets back from a wrapped block: the lines joined by single blanks -/
def readText (data : Str) : Str := textOf (lines (wrapString data 68))

/-- the wrap / unwrap inversion the round trip rests on: single-spaced text of ANY length -/
theorem readText_singleSpaced {t : Str} (h : singleSpaced t = true) : readText t = t := by
  unfold readText textOf
  rw [joinSp_lines]
  by_cases h0 : t = []
  · subst h0
    rfl
  · have hs : spacedFrom false t = true := by
      simpa [singleSpaced, h0] using h
    have hw := wrapString_wrapped t 68 (plain_of_spacedFrom t false hs)
    rw [hw.denl_eq false hs]
    exact trimRight_of_getLast (spacedFrom_getLast t false hs)

end Lines

end PolyVerif.Lemmas.GbBuild
