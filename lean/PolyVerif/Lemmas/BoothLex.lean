import PolyVerif.Lemmas.RotationSpec
import PolyVerif.Lemmas.BoothModel
/-
From the window order `LtSeg / LeSeg` on the letter function of the doubled array to the
spec's `lexLt / lexLe` on rotations `rotl p s`, and the exit theorem of the Booth loop.
-/
namespace PolyVerif.Booth
open PolyVerif PolyVerif.Spec PolyVerif.Seqhash

/-- letter code at position `t` of a string (`0` beyond the end) -/
def cd (l : Str) (t : Nat) : Nat := match l[t]? with | some c => c.toNat | none => 0

theorem cd_cons_succ (x : Char) (l : Str) (t : Nat) : cd (x :: l) (t + 1) = cd l t := by
  simp [cd]

theorem cd_cons_zero (x : Char) (l : Str) : cd (x :: l) 0 = x.toNat := by
  simp [cd]

/-- a first difference with a smaller letter on the left makes the left string `lexLt` -/
theorem lexLt_of_first_diff : ∀ (a b : Str) (m : Nat), a.length = b.length → m < a.length →
    (∀ t, t < m → cd a t = cd b t) → cd a m < cd b m → lexLt a b = true
  | [], _, _, _, hm, _, _ => by simp at hm
  | _ :: _, [], _, hl, _, _, _ => by simp at hl
  | x :: as, y :: bs, 0, _, _, _, hlt => by
    rw [cd_cons_zero, cd_cons_zero] at hlt
    simp [lexLt, hlt]
  | x :: as, y :: bs, m + 1, hl, hm, he, hlt => by
    have h0 := he 0 (by omega)
    rw [cd_cons_zero, cd_cons_zero] at h0
    have hxy : x = y := Char.toNat_inj.mp h0
    have ih := lexLt_of_first_diff as bs m (by simpa using hl) (by simpa using hm)
      (fun t ht => by have := he (t + 1) (by omega); rwa [cd_cons_succ, cd_cons_succ] at this)
      (by rwa [cd_cons_succ, cd_cons_succ] at hlt)
    simp [lexLt, hxy, ih]

/-- equal letter codes everywhere: equal strings -/
theorem eq_of_cd_eq : ∀ (a b : Str), a.length = b.length →
    (∀ t, t < a.length → cd a t = cd b t) → a = b
  | [], [], _, _ => rfl
  | [], _ :: _, hl, _ => by simp at hl
  | _ :: _, [], hl, _ => by simp at hl
  | x :: as, y :: bs, hl, he => by
    have h0 := he 0 (by simp)
    rw [cd_cons_zero, cd_cons_zero] at h0
    have hxy : x = y := Char.toNat_inj.mp h0
    have ih := eq_of_cd_eq as bs (by simpa using hl)
      (fun t ht => by
        have := he (t + 1) (by simp; omega)
        rwa [cd_cons_succ, cd_cons_succ] at this)
    rw [hxy, ih]

theorem rotl_get (s : Str) {p t : Nat} (hp : p < s.length) (ht : t < s.length) :
    (rotl p s)[t]? = (s ++ s)[p + t]? := by
  unfold rotl
  rw [Nat.mod_eq_of_lt hp]
  grind

/-- the slice `[k, k+n)` of the doubled string is the rotation by `k` -/
theorem slice_eq_rotl (s : Str) {k : Nat} (hk : k < s.length) :
    ((s ++ s).drop k).take s.length = rotl k s := by
  apply List.ext_getElem?
  intro t
  by_cases ht : t < s.length
  · rw [rotl_get s hk ht]; grind
  · have h1 : (rotl k s).length = s.length := rotl_length k s
    grind

theorem sig_dbl (s : Str) {p t : Nat} (hp : p < s.length) (ht : t < s.length) :
    sig (s ++ s).toArray (p + t) = cd (rotl p s) t := by
  unfold sig cd
  rw [rotl_get s hp ht, List.getElem?_toArray]
  rfl

theorem sig_periodic (s : Str) {t : Nat} (ht : t < s.length) :
    sig (s ++ s).toArray (t + s.length) = sig (s ++ s).toArray t := by
  have : (s ++ s)[t + s.length]? = (s ++ s)[t]? := by grind
  unfold sig
  rw [List.getElem?_toArray, List.getElem?_toArray, this]

theorem lexLt_of_ltSeg (s : Str) {k p : Nat} (hk : k < s.length) (hp : p < s.length)
    (h : LtSeg (sig (s ++ s).toArray) k p s.length) : lexLt (rotl k s) (rotl p s) = true := by
  obtain ⟨m, hm, he, hlt⟩ := h
  refine lexLt_of_first_diff _ _ m (by rw [rotl_length, rotl_length]) (by rwa [rotl_length]) ?_ ?_
  · intro t ht
    rw [← sig_dbl s hk (by omega), ← sig_dbl s hp (by omega)]
    exact he t ht
  · rw [← sig_dbl s hk hm, ← sig_dbl s hp hm]; exact hlt

theorem lexLe_of_leSeg (s : Str) {k p : Nat} (hk : k < s.length) (hp : p < s.length)
    (h : LeSeg (sig (s ++ s).toArray) k p s.length) : lexLe (rotl k s) (rotl p s) = true := by
  rcases h with h | h
  · apply lexLe_of_eq
    apply eq_of_cd_eq _ _ (by rw [rotl_length, rotl_length])
    intro t ht
    rw [rotl_length] at ht
    rw [← sig_dbl s hk ht, ← sig_dbl s hp ht]
    exact h t ht
  · exact lexLe_of_lexLt (lexLt_of_ltSeg s hk hp h)

/-- **Exit theorem of the Booth loop** on a non-empty string: it does not panic, and returns the
FIRST index `k < n` whose rotation is no greater than every rotation. -/
theorem booth_exit (s : Str) (hn : 0 < s.length) :
    ∃ k, booth s = some k ∧ k < s.length ∧
      (∀ p, p < k → lexLt (rotl k s) (rotl p s) = true) ∧
      (∀ p, lexLe (rotl k s) (rotl p s) = true) := by
  have hsz : (s ++ s).toArray.size = 2 * s.length := by simp; omega
  obtain ⟨st', hgo, hinv⟩ := go_ok (S := (s ++ s).toArray) (s ++ s).toArray.size 1
    { k := 0, g := Array.replicate (s ++ s).toArray.size 0 } (by omega) (by omega) (by simp)
    (by
      show Inv _ (gam (Array.replicate _ 0)) 1 0
      rw [gam_replicate]; exact Inv.init)
  rw [hsz] at hinv
  obtain ⟨hk, hlt, hle⟩ := hinv.final hn (fun t ht => sig_periodic s ht)
  refine ⟨st'.k, ?_, hk, ?_, ?_⟩
  · unfold booth
    simp only [hgo, Option.map_some]
  · intro p hp
    exact lexLt_of_ltSeg s hk (by omega) (hlt p hp)
  · intro p
    rw [← rotl_mod p s]
    have hp : p % s.length < s.length := Nat.mod_lt _ hn
    by_cases c1 : p % s.length < st'.k
    · exact lexLe_of_lexLt (lexLt_of_ltSeg s hk hp (hlt _ c1))
    · by_cases c2 : p % s.length = st'.k
      · rw [c2]; exact lexLe_refl _
      · exact lexLe_of_leSeg s hk hp (hle _ (by omega) hp)

end PolyVerif.Booth
