/-
Segment combinatorics for the Booth proof (C12): equality / strict / weak lexicographic order of
two equal-length windows of a letter function `σ : Nat → Nat`, borders and the failure function.
Pure mathematics, no reference to the model.  Core Lean only.
-/
namespace PolyVerif.Booth

/-- `σ[a .. a+L) = σ[b .. b+L)` -/
def EqSeg (σ : Nat → Nat) (a b L : Nat) : Prop := ∀ t, t < L → σ (a + t) = σ (b + t)

/-- `σ[a .. a+L) < σ[b .. b+L)` (strict lexicographic order on equal-length windows) -/
def LtSeg (σ : Nat → Nat) (a b L : Nat) : Prop :=
  ∃ m, m < L ∧ EqSeg σ a b m ∧ σ (a + m) < σ (b + m)

/-- `σ[a .. a+L) ≤ σ[b .. b+L)` -/
def LeSeg (σ : Nat → Nat) (a b L : Nat) : Prop := EqSeg σ a b L ∨ LtSeg σ a b L

variable {σ : Nat → Nat}

theorem EqSeg.get {a b L : Nat} (h : EqSeg σ a b L) {x y : Nat}
    (h1 : a ≤ x) (h2 : x < a + L) (h3 : y + a = x + b) : σ x = σ y := by
  have := h (x - a) (by omega)
  have e1 : a + (x - a) = x := by omega
  have e2 : b + (x - a) = y := by omega
  rw [e1, e2] at this; exact this

theorem EqSeg.refl (a L : Nat) : EqSeg σ a a L := fun _ _ => rfl

theorem EqSeg.symm {a b L : Nat} (h : EqSeg σ a b L) : EqSeg σ b a L :=
  fun t ht => (h t ht).symm

theorem EqSeg.trans {a b c L : Nat} (h1 : EqSeg σ a b L) (h2 : EqSeg σ b c L) : EqSeg σ a c L :=
  fun t ht => (h1 t ht).trans (h2 t ht)

theorem EqSeg.mono {a b L L' : Nat} (h : EqSeg σ a b L) (hl : L' ≤ L) : EqSeg σ a b L' :=
  fun t ht => h t (by omega)

theorem EqSeg.zero (a b : Nat) : EqSeg σ a b 0 := fun _ ht => absurd ht (by omega)

theorem EqSeg.snoc {a b L : Nat} (h : EqSeg σ a b L) (e : σ (a + L) = σ (b + L)) :
    EqSeg σ a b (L + 1) := by
  intro t ht
  by_cases h' : t < L
  · exact h t h'
  · have : t = L := by omega
    subst this; exact e

/-- a sub-window of an equal pair of windows: shift both by `d` -/
theorem EqSeg.shift {a b L : Nat} (h : EqSeg σ a b L) (d L' : Nat) (hl : d + L' ≤ L) :
    EqSeg σ (a + d) (b + d) L' := by
  intro t ht
  have := h (d + t) (by omega)
  rw [Nat.add_assoc, Nat.add_assoc]; exact this

theorem LtSeg.mono {a b L L' : Nat} (h : LtSeg σ a b L) (hl : L ≤ L') : LtSeg σ a b L' := by
  obtain ⟨m, hm, he, hlt⟩ := h
  exact ⟨m, by omega, he, hlt⟩

theorem LeSeg.pre {a b L L' : Nat} (h : LeSeg σ a b L) (hl : L' ≤ L) : LeSeg σ a b L' := by
  rcases h with h | ⟨m, hm, he, hlt⟩
  · exact Or.inl (h.mono hl)
  · by_cases h' : m < L'
    · exact Or.inr ⟨m, h', he, hlt⟩
    · exact Or.inl (he.mono (by omega))

theorem LtSeg.le {a b L : Nat} (h : LtSeg σ a b L) : LeSeg σ a b L := Or.inr h

theorem LtSeg.pre {a b L L' : Nat} (h : LtSeg σ a b L) (hl : L' ≤ L) : LeSeg σ a b L' :=
  h.le.pre hl

theorem LeSeg.lt_of_ne {a b L : Nat} (h : LeSeg σ a b L) (hne : ¬ EqSeg σ a b L) : LtSeg σ a b L := by
  rcases h with h | h
  · exact absurd h hne
  · exact h

theorem LtSeg.trans_le {a b c L : Nat} (h1 : LtSeg σ a b L) (h2 : LeSeg σ b c L) : LtSeg σ a c L := by
  obtain ⟨m, hm, he, hlt⟩ := h1
  rcases h2 with h2 | ⟨m', hm', he', hlt'⟩
  · refine ⟨m, hm, he.trans (h2.mono (by omega)), ?_⟩
    rw [← h2 m hm]; exact hlt
  · by_cases c1 : m < m'
    · refine ⟨m, hm, he.trans (he'.mono (by omega)), ?_⟩
      rw [← he' m c1]; exact hlt
    · by_cases c2 : m = m'
      · subst c2
        exact ⟨m, hm, he.trans he', Nat.lt_trans hlt hlt'⟩
      · have c3 : m' < m := by omega
        refine ⟨m', hm', (he.mono (by omega)).trans he', ?_⟩
        rw [he m' c3]; exact hlt'

theorem LeSeg.head {a b L : Nat} (h : LeSeg σ a b L) (hl : 0 < L) : σ a ≤ σ b := by
  rcases h with h | ⟨m, hm, he, hlt⟩
  · exact Nat.le_of_eq (h 0 hl)
  · cases m with
    | zero => exact Nat.le_of_lt hlt
    | succ m => exact Nat.le_of_eq (he 0 (by omega))

/-- equal on the first `L` letters and `≤` on `L+1` letters: the last letters are `≤` -/
theorem LeSeg.last {a b L : Nat} (h : LeSeg σ a b (L + 1)) (he : EqSeg σ a b L) :
    σ (a + L) ≤ σ (b + L) := by
  rcases h with h | ⟨m, hm, _, hlt⟩
  · exact Nat.le_of_eq (h L (by omega))
  · by_cases c : m < L
    · have := he m c; omega
    · have : m = L := by omega
      subst this; exact Nat.le_of_lt hlt

theorem LeSeg.snoc {a b L : Nat} (he : EqSeg σ a b L) (hle : σ (a + L) ≤ σ (b + L)) :
    LeSeg σ a b (L + 1) := by
  by_cases c : σ (a + L) = σ (b + L)
  · exact Or.inl (he.snoc c)
  · exact Or.inr ⟨L, by omega, he, by omega⟩

/-- replace both windows by equal ones -/
theorem LeSeg.transfer {a b a' b' L : Nat} (h : LeSeg σ a b L) (ha : EqSeg σ a a' L)
    (hb : EqSeg σ b b' L) : LeSeg σ a' b' L := by
  rcases h with h | ⟨m, hm, he, hlt⟩
  · exact Or.inl ((ha.symm.trans h).trans hb)
  · refine Or.inr ⟨m, hm, ((ha.symm.mono (by omega)).trans he).trans (hb.mono (by omega)), ?_⟩
    rw [← ha m hm, ← hb m hm]; exact hlt

/-! ### Borders and the failure function -/

/-- `b` is (the length of) a proper border of the word `σ[k .. k+L)` -/
def Bord (σ : Nat → Nat) (k L b : Nat) : Prop := b < L ∧ EqSeg σ k (k + L - b) b

/-- `v` is the length of the longest proper border of `σ[k .. k+L)` -/
def MaxBord (σ : Nat → Nat) (k L v : Nat) : Prop := Bord σ k L v ∧ ∀ b, Bord σ k L b → b ≤ v

/-- `γ[0 .. L)` is the (length-valued) failure function of `σ[k .. k+L)` -/
def FF (σ γ : Nat → Nat) (k L : Nat) : Prop := ∀ t, t < L → MaxBord σ k (t + 1) (γ t)

/-- a border of a border is a border -/
theorem Bord.trans {k L b b' : Nat} (h1 : Bord σ k L b) (h2 : Bord σ k b b') : Bord σ k L b' := by
  obtain ⟨hb, e1⟩ := h1
  obtain ⟨hb', e2⟩ := h2
  refine ⟨by omega, ?_⟩
  intro t ht
  have s1 : σ (k + t) = σ (k + b - b' + t) := e2 t ht
  have s2 : σ (k + b - b' + t) = σ (k + L - b' + t) :=
    e1.get (x := k + b - b' + t) (y := k + L - b' + t) (by omega) (by omega) (by omega)
  exact s1.trans s2

/-- a border shorter than another border is a border of that border -/
theorem Bord.of_lt {k L b b' : Nat} (h1 : Bord σ k L b) (h2 : Bord σ k L b') (hlt : b' < b) :
    Bord σ k b b' := by
  obtain ⟨hb, e1⟩ := h1
  obtain ⟨hb', e2⟩ := h2
  refine ⟨hlt, ?_⟩
  intro t ht
  have s1 : σ (k + t) = σ (k + L - b' + t) := e2 t ht
  have s2 : σ (k + b - b' + t) = σ (k + L - b' + t) :=
    e1.get (x := k + b - b' + t) (y := k + L - b' + t) (by omega) (by omega) (by omega)
  exact s1.trans s2.symm

/-- borders only depend on the letters of the word -/
theorem Bord.transfer {k k' L L' b : Nat} (h : Bord σ k L' b) (he : EqSeg σ k k' L) (hl : L' ≤ L) :
    Bord σ k' L' b := by
  obtain ⟨hb, e⟩ := h
  refine ⟨hb, ?_⟩
  intro t ht
  have s1 : σ (k' + t) = σ (k + t) := (he t (by omega)).symm
  have s2 : σ (k + t) = σ (k + L' - b + t) := e t ht
  have s3 : σ (k + L' - b + t) = σ (k' + L' - b + t) :=
    he.get (x := k + L' - b + t) (y := k' + L' - b + t) (by omega) (by omega) (by omega)
  exact (s1.trans s2).trans s3

theorem MaxBord.transfer {k k' L L' v : Nat} (h : MaxBord σ k L' v) (he : EqSeg σ k k' L)
    (hl : L' ≤ L) : MaxBord σ k' L' v :=
  ⟨h.1.transfer he hl, fun b hb => h.2 b (hb.transfer he.symm hl)⟩

theorem FF.transfer {γ : Nat → Nat} {k k' L L' : Nat} (h : FF σ γ k L') (he : EqSeg σ k k' L)
    (hl : L' ≤ L) : FF σ γ k' L' :=
  fun t ht => (h t ht).transfer he (by omega)

theorem FF.mono {γ : Nat → Nat} {k L L' : Nat} (h : FF σ γ k L) (hl : L' ≤ L) : FF σ γ k L' :=
  fun t ht => h t (by omega)

end PolyVerif.Booth
