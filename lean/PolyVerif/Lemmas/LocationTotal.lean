import PolyVerif.Lemmas.LocationParse
/-
Helper lemmas for C02 / C01, part 7: `parseLocation` never panics on a text of the general
INSDC location SHAPE — an atom (any text without parentheses and commas: `12`, `1..5`, `<1..>9`,
`3..7>`, `102.110`, `1^2`, `J00194.1:100..202`) or `operator(loc,loc,…)` for ANY operator word
(`join`, `order`, `bond`, `gap`, …), `complement` taking exactly one operand.
`GLoc` is that shape as a tree, `gprint` its text; the proof is the one of `parseLocF_print`
without the part that says WHAT is parsed: the operator frame (Index / LastIndex / slices) never
leaves the string, the depth-0 comma splitter returns exactly the operands, and the tail of
`parseLocation` (`finish`) has no failing branch since 1650bb9.
Also: which texts DO panic — a `(` that no `)` follows.
-/
namespace PolyVerif.Lemmas.Location
open PolyVerif PolyVerif.Location PolyVerif.Insdc

inductive GLoc
  | atom (w : Str)
  | op (w : Str) (args : List GLoc)

mutual
def gprint : GLoc → Str
  | .atom w => w
  | .op w [] => w ++ ['(', ')']
  | .op w (x :: xs) => w ++ '(' :: (gprint x ++ (gprintTail xs ++ [')']))
def gprintTail : List GLoc → Str
  | [] => []
  | x :: xs => ',' :: (gprint x ++ gprintTail xs)
end

def plainB (w : Str) : Bool := w.all fun c => c != '(' && c != ')' && c != ','

mutual
/-- atoms and operator words contain no parenthesis or comma; an operator has at least one operand,
`complement` exactly one -/
def gwf : GLoc → Bool
  | .atom w => plainB w
  | .op w args => plainB w && !args.isEmpty && (w != kwComplement || args.length == 1) && gwfList args
def gwfList : List GLoc → Bool
  | [] => true
  | x :: xs => gwf x && gwfList xs
end

theorem plain_of_plainB {w : Str} (h : plainB w = true) : Plain w := by
  intro c hc
  simp only [plainB, List.all_eq_true] at h
  have := h c hc
  simp only [Bool.and_eq_true, bne_iff_ne, ne_eq] at this
  exact ⟨this.1.1, this.1.2, this.2⟩

theorem not_mem_open {w : Str} (h : plainB w = true) : '(' ∉ w := fun hm => (plain_of_plainB h _ hm).1 rfl

/-! ### the splitter on the general shape -/

mutual
theorem splitTop_gprint : ∀ (t : GLoc) (d : Int) (rest : Str), gwf t = true → 0 ≤ d →
    splitTop d (gprint t ++ rest) = (gprint t ++ (splitTop d rest).1, (splitTop d rest).2)
  | .atom w, d, rest, h, _ => by
    simp only [gprint]
    exact splitTop_plain w rest d (plain_of_plainB (by simpa [gwf] using h))
  | .op w [], _, _, h, _ => by simp [gwf] at h
  | .op w (x :: xs), d, rest, h, hd => by
    simp only [gwf, gwfList, Bool.and_eq_true] at h
    have hw := plain_of_plainB h.1.1.1
    have h1 := splitTop_gprint x (d + 1) (gprintTail xs ++ ')' :: rest) h.2.1 (by omega)
    have h2 := splitTop_gprintTail xs (d + 1) (')' :: rest) h.2.2 (by omega)
    simp only [gprint, List.append_assoc, List.cons_append, List.nil_append]
    rw [splitTop_plain w _ d hw, splitTop_open, h1, h2, splitTop_close]
    simp
theorem splitTop_gprintTail : ∀ (xs : List GLoc) (d : Int) (rest : Str), gwfList xs = true → 1 ≤ d →
    splitTop d (gprintTail xs ++ rest) = (gprintTail xs ++ (splitTop d rest).1, (splitTop d rest).2)
  | [], d, rest, _, _ => by simp [gprintTail]
  | x :: xs, d, rest, h, hd => by
    simp only [gwfList, Bool.and_eq_true] at h
    have h1 := splitTop_gprint x d (gprintTail xs ++ rest) h.1 (by omega)
    have h2 := splitTop_gprintTail xs d rest h.2 hd
    simp only [gprintTail, List.append_assoc, List.cons_append]
    rw [splitTop_comma_pos _ _ (by omega), h1, h2]
end

theorem splitTop_goperands : ∀ (xs : List GLoc) (x : GLoc), gwf x = true → gwfList xs = true →
    splitTop 0 (gprint x ++ gprintTail xs) = (gprint x, xs.map gprint)
  | [], x, hx, _ => by
    have := splitTop_gprint x 0 [] hx (by omega)
    simpa [gprintTail, splitTop] using this
  | y :: ys, x, hx, h => by
    simp only [gwfList, Bool.and_eq_true] at h
    have h1 := splitTop_gprint x 0 (',' :: (gprint y ++ gprintTail ys)) hx (by omega)
    have h2 := splitTop_goperands ys y h.1 h.2
    simp only [gprintTail]
    rw [h1, splitTop_comma_zero, h2]
    simp

/-! ### no failing branch -/

theorem trim_ok (l : PLoc) : ∃ p,
    (if l.start = 0 ∧ l.stop = 0 ∧ l.join = false ∧ l.complement = false then
      match l.subs with
      | [] => Outcome.ok l
      | x :: _ => Outcome.ok x
    else Outcome.ok l) = .ok p := by
  split
  · split <;> exact ⟨_, rfl⟩
  · exact ⟨_, rfl⟩

theorem finish_ok (s : Str) (loc : PLoc) : ∃ p, finish s loc = .ok p :=
  trim_ok _

/-- a text without `(` is never a panic -/
theorem parseLocF_noParen (f : Nat) (s : Str) (h : hasChar '(' s = false) : ∃ p, parseLocF (f + 1) s = .ok p := by
  unfold parseLocF
  simp only [h, Bool.not_false, if_true]
  split
  · exact finish_ok _ _
  · split <;> exact finish_ok _ _

theorem length_gprintTail_cons (x : GLoc) (xs : List GLoc) :
    (gprintTail (x :: xs)).length = 1 + (gprint x).length + (gprintTail xs).length := by
  simp [gprintTail]; omega

mutual
theorem parseLocF_gprint : ∀ (t : GLoc) (f : Nat), gwf t = true → (gprint t).length < f →
    ∃ p, parseLocF f (gprint t) = .ok p
  | .atom w, f, h, hf => by
    cases f with
    | zero => omega
    | succ f =>
      exact parseLocF_noParen f w (hasChar_false (not_mem_open (by simpa [gwf] using h)))
  | .op w [], _, h, _ => by simp [gwf] at h
  | .op w (x :: xs), f, h, hf => by
    cases f with
    | zero => omega
    | succ f =>
      simp only [gwf, gwfList, Bool.and_eq_true] at h
      have hlen : (gprint (.op w (x :: xs))).length = w.length + 1 + ((gprint x).length + (gprintTail xs).length + 1) := by
        simp only [gprint, List.length_append, List.length_cons, List.length_nil]; omega
      have fr := operator_frame w (gprint x ++ gprintTail xs) (not_mem_open h.1.1.1)
      have e : gprint (.op w (x :: xs)) = w ++ '(' :: ((gprint x ++ gprintTail xs) ++ [')']) := by
        simp [gprint]
      rw [e]
      unfold parseLocF
      simp only [fr.1, fr.2.1, fr.2.2, Bool.not_true, Bool.false_eq_true, if_false, Outcome.bind]
      by_cases hj : w = kwJoin
      · obtain ⟨px, hx⟩ := parseLocF_gprint x f h.2.1 (by omega)
        obtain ⟨ps, hs⟩ := parseLocF_gprintList xs f h.2.2 (by omega)
        simp only [hj, if_true, splitTopList, splitTop_goperands xs x h.2.1 h.2.2, mapOutcome, hx, hs, Outcome.bind]
        exact finish_ok _ _
      · simp only [hj, if_false]
        by_cases hc : w = kwComplement
        · have hone : xs = [] := by
            have := h.1.2
            simp only [hc, bne_self_eq_false, Bool.false_or, List.length_cons, beq_iff_eq] at this
            cases xs with
            | nil => rfl
            | cons y ys => simp at this
          subst hone
          obtain ⟨px, hx⟩ := parseLocF_gprint x f h.2.1 (by omega)
          simp only [hc, if_true, gprintTail, List.append_nil, hx]
          split <;> exact finish_ok _ _
        · simp only [hc, if_false]
          exact finish_ok _ _
theorem parseLocF_gprintList : ∀ (xs : List GLoc) (f : Nat), gwfList xs = true → (gprintTail xs).length ≤ f →
    ∃ ps, mapOutcome (parseLocF f) (xs.map gprint) = .ok ps
  | [], _, _, _ => ⟨[], rfl⟩
  | x :: xs, f, h, hf => by
    simp only [gwfList, Bool.and_eq_true] at h
    rw [length_gprintTail_cons] at hf
    obtain ⟨px, hx⟩ := parseLocF_gprint x f h.1 (by omega)
    obtain ⟨ps, hs⟩ := parseLocF_gprintList xs f h.2 (by omega)
    exact ⟨px :: ps, by simp only [List.map_cons, mapOutcome, hx, hs, Outcome.bind]⟩
end

theorem parseLocation_gprint (t : GLoc) (h : gwf t = true) : ∃ p, parseLocation (gprint t) = .ok p :=
  parseLocF_gprint t _ h (Nat.lt_succ_self _)

/-! ### what does panic -/

/-- a `(` that no `)` follows: the slice `locationString[first+1 : LastIndex(")")]` is out of range -/
theorem parseLocation_unclosed (s : Str) (i : Nat) (hi : indexOf '(' s = some i)
    (hj : lastIndexOf ')' s = none ∨ ∃ j, lastIndexOf ')' s = some j ∧ j ≤ i) :
    parseLocation s = .panic := by
  have hopen : hasChar '(' s = true := by
    have : ∀ (s : Str) (i : Nat), indexOf '(' s = some i → '(' ∈ s := by
      intro s
      induction s with
      | nil => intro i h; simp [indexOf] at h
      | cons c cs ih =>
        intro i h
        by_cases hc : c = '('
        · simp [hc]
        · simp only [indexOf, hc, if_false, Option.map_eq_some_iff] at h
          obtain ⟨k, hk, _⟩ := h
          exact List.mem_cons_of_mem _ (ih k hk)
    exact hasChar_true (this s i hi)
  unfold parseLocation parseLocF
  simp only [hopen, Bool.not_true, Bool.false_eq_true, if_false, hi]
  have hs : slice s (optIdx (some i) + 1) (optIdx (lastIndexOf ')' s)) = .panic := by
    show slice s ((i : Int) + 1) (optIdx (lastIndexOf ')' s)) = .panic
    unfold slice
    rcases hj with h | ⟨j, h, hle⟩
    · rw [h]
      split
      · rfl
      · rename_i hn; exfalso; apply hn; simp only [optIdx]; omega
    · rw [h]
      split
      · rfl
      · rename_i hn; exfalso; apply hn; simp only [optIdx]; omega
  rw [hs]
  rfl

end PolyVerif.Lemmas.Location
