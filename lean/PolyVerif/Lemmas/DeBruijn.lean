import Mathlib.Data.List.Nodup
import Mathlib.Data.List.Perm.Subperm
import Mathlib.Tactic.Ring
import PolyVerif.Spec.DeBruijn
/-
Helper lemmas for C17, part 1: soundness of the de Bruijn checker `Spec.checkWith`.
-/
namespace PolyVerif.Spec
open PolyVerif

/-! ### small pieces -/

theorem hasLength_iff (s : Str) (k : Nat) : hasLength s k = true ↔ s.length = k := by
  induction s generalizing k with
  | nil => cases k <;> simp [hasLength]
  | cons c cs ih => cases k <;> simp [hasLength, ih]

theorem toNat_eq_iff (c : Char) (k : Nat) (hk : (Char.ofNat k).toNat = k) : c.toNat = k ↔ c = Char.ofNat k :=
  ⟨fun h => by rw [← Char.ofNat_toNat c, h], fun h => by rw [h, hk]⟩

theorem digitOf_lt_iff (c : Char) : (digitOf c).blt 4 = true ↔ c ∈ dbAlphabet := by
  have nb : ∀ k, c.toNat ≠ k → c.toNat.beq k = false := fun k hk => by
    rw [Bool.eq_false_iff]; intro hb; exact hk (Nat.eq_of_beq_eq_true hb)
  by_cases h1 : c.toNat = 65
  · have := (toNat_eq_iff c 65 rfl).mp h1; subst this; decide
  by_cases h2 : c.toNat = 84
  · have := (toNat_eq_iff c 84 rfl).mp h2; subst this; decide
  by_cases h3 : c.toNat = 71
  · have := (toNat_eq_iff c 71 rfl).mp h3; subst this; decide
  by_cases h4 : c.toNat = 67
  · have := (toNat_eq_iff c 67 rfl).mp h4; subst this; decide
  have n1 : c ≠ 'A' := fun e => h1 (by rw [e]; rfl)
  have n2 : c ≠ 'T' := fun e => h2 (by rw [e]; rfl)
  have n3 : c ≠ 'G' := fun e => h3 (by rw [e]; rfl)
  have n4 : c ≠ 'C' := fun e => h4 (by rw [e]; rfl)
  unfold digitOf dbAlphabet
  simp [nb 65 h1, nb 84 h2, nb 71 h3, nb 67 h4, n1, n2, n3, n4, Nat.blt]

/-! ### the bitmask -/

theorem distinctMask_sound (m : Nat) (cs : List Nat) (h : distinctMask m cs = true) :
    cs.Nodup ∧ ∀ c ∈ cs, m.testBit c = false := by
  induction cs generalizing m with
  | nil => simp
  | cons c cs ih =>
    unfold distinctMask at h
    cases hb : m.testBit c with
    | true => simp [hb] at h
    | false =>
      simp only [hb, cond_false] at h
      obtain ⟨hn, hall⟩ := ih _ h
      have key : ∀ x ∈ cs, x ≠ c ∧ m.testBit x = false := by
        intro x hx
        have := hall x hx
        rw [Nat.testBit_or, Nat.one_shiftLeft, Nat.testBit_two_pow] at this
        simp only [Bool.or_eq_false_iff, decide_eq_false_iff_not] at this
        exact ⟨fun e => this.2 e.symm, this.1⟩
      refine ⟨List.nodup_cons.mpr ⟨fun hc => (key c hc).1 rfl, hn⟩, ?_⟩
      intro x hx
      rcases List.mem_cons.mp hx with rfl | hx
      · exact hb
      · exact (key x hx).2

/-! ### the fused loop is "letters ∧ distinct codes of one bucket" -/

/-- the window codes of bucket `h`, reduced modulo the bucket width -/
def bucket (B h : Nat) (cs : List Nat) : List Nat :=
  (cs.filter (fun x => (x / B).beq h)).map (· % B)

theorem scan_eq (M B h : Nat) (c m : Nat) (s : Str) :
    scan M B h c m s =
      (s.all (fun ch => (digitOf ch).blt 4) && distinctMask m (bucket B h (roll M c (s.map digitOf)))) := by
  induction s generalizing c m with
  | nil => simp [scan, roll, bucket, distinctMask]
  | cons ch cs ih =>
    unfold scan
    cases h1 : (digitOf ch).blt 4 with
    | false => simp [h1]
    | true =>
      cases h2 : (((c * 4 + digitOf ch) % M) / B).beq h with
      | false => simp [h1, h2, ih, roll, bucket]
      | true =>
        cases h3 : m.testBit (((c * 4 + digitOf ch) % M) % B) with
        | true => simp [h1, h2, h3, roll, bucket, distinctMask]
        | false => simp [h1, h2, h3, ih, roll, bucket, distinctMask]

/-! ### buckets -/

theorem nodup_of_buckets (B H : Nat) (cs : List Nat)
    (hb : ∀ h < H, (bucket B h cs).Nodup) (hlt : ∀ c ∈ cs, c / B < H) : cs.Nodup := by
  rw [List.nodup_iff_count_le_one]
  intro a
  by_cases ha : a ∈ cs
  · have h1 := (hb (a / B) (hlt a ha))
    have h2 : (cs.filter (fun x => (x / B).beq (a / B))).Nodup := List.Nodup.of_map _ h1
    have h3 := List.nodup_iff_count_le_one.mp h2 a
    rwa [List.count_filter (by simp)] at h3
  · rw [List.count_eq_zero_of_not_mem ha]; omega

/-! ### rolling codes -/

/-- value of a digit string continuing from `c` -/
def valFrom (c : Nat) (ds : List Nat) : Nat := ds.foldl (fun a d => a * 4 + d) c

theorem val_eq_valFrom (ds : List Nat) : val ds = valFrom 0 ds := rfl

theorem valFrom_append (c : Nat) (a b : List Nat) : valFrom c (a ++ b) = valFrom (valFrom c a) b := by
  simp [valFrom, List.foldl_append]

theorem valFrom_mod (M c : Nat) (ds : List Nat) : valFrom (c % M) ds % M = valFrom c ds % M := by
  induction ds generalizing c with
  | nil => simp [valFrom]
  | cons d ds ih =>
    show valFrom ((c % M) * 4 + d) ds % M = valFrom (c * 4 + d) ds % M
    rw [← ih ((c % M) * 4 + d), ← ih (c * 4 + d)]
    congr 2
    rw [Nat.add_mod, Nat.mul_mod, Nat.mod_mod, ← Nat.mul_mod, ← Nat.add_mod]

theorem valFrom_eq (c : Nat) (ds : List Nat) : valFrom c ds = c * 4 ^ ds.length + valFrom 0 ds := by
  induction ds generalizing c with
  | nil => simp [valFrom]
  | cons d ds ih =>
    show valFrom (c * 4 + d) ds = c * 4 ^ (ds.length + 1) + valFrom (0 * 4 + d) ds
    rw [ih (c * 4 + d), ih (0 * 4 + d)]
    ring

theorem length_roll (M c : Nat) (ds : List Nat) : (roll M c ds).length = ds.length := by
  induction ds generalizing c with
  | nil => rfl
  | cons d ds ih => simp [roll, ih]

theorem getElem_roll (M c : Nat) (ds : List Nat) (i : Nat) (hi : i < (roll M c ds).length) :
    (roll M c ds)[i] = valFrom c (ds.take (i + 1)) % M := by
  induction ds generalizing c i with
  | nil => simp [roll] at hi
  | cons d ds ih =>
    cases i with
    | zero => simp [roll, valFrom]
    | succ i =>
      simp only [roll, List.getElem_cons_succ, List.take_succ_cons]
      rw [ih]
      show valFrom ((c * 4 + d) % M) _ % M = valFrom (c * 4 + d) _ % M
      exact valFrom_mod _ _ _

theorem roll_lt (M c : Nat) (ds : List Nat) (hM : 0 < M) : ∀ x ∈ roll M c ds, x < M := by
  induction ds generalizing c with
  | nil => simp [roll]
  | cons d ds ih =>
    intro x hx
    simp only [roll, List.mem_cons] at hx
    rcases hx with rfl | hx
    · exact Nat.mod_lt _ hM
    · exact ih _ x hx

/-! ### windows -/

theorem length_windows (n : Nat) (s : Str) : (windows n s).length = s.length + 1 - n := by
  simp [windows]

theorem getElem_windows (n : Nat) (s : Str) (i : Nat) (hi : i < (windows n s).length) :
    (windows n s)[i] = (s.drop i).take n := by
  simp [windows]

theorem mem_windows {n : Nat} {s w : Str} :
    w ∈ windows n s ↔ ∃ i, i + n ≤ s.length ∧ (s.drop i).take n = w := by
  simp only [windows, List.mem_map, List.mem_range]
  constructor
  · rintro ⟨i, hi, rfl⟩; exact ⟨i, by omega, rfl⟩
  · rintro ⟨i, hi, rfl⟩; exact ⟨i, by omega, rfl⟩

/-- the code the checker computes for a window: its base-4 value modulo 4ⁿ -/
def codeOf (n : Nat) (w : Str) : Nat := valFrom 0 (w.map digitOf) % 4 ^ n

theorem windowCodes_eq (n : Nat) (s : Str) (hn : 1 ≤ n) (hl : n - 1 ≤ s.length) :
    roll (4 ^ n) (val ((s.take (n - 1)).map digitOf)) ((s.drop (n - 1)).map digitOf)
      = (windows n s).map (codeOf n) := by
  apply List.ext_getElem
  · simp only [length_roll, List.length_map, List.length_drop, length_windows]; omega
  · intro i h1 h2
    rw [getElem_roll, List.getElem_map, getElem_windows]
    have hi : i + n ≤ s.length := by
      simp only [List.length_map, length_windows] at h2; omega
    unfold codeOf
    rw [val_eq_valFrom, ← valFrom_append, ← List.map_take, ← List.map_append]
    have e1 : s.take (n - 1) ++ (s.drop (n - 1)).take (i + 1) = s.take (i + n) := by
      rw [← List.take_add]; congr 1; omega
    have e2 : s.take (i + n) = s.take i ++ (s.drop i).take n := List.take_add
    rw [e1, e2, List.map_append, valFrom_append, valFrom_eq]
    have e3 : (List.map digitOf ((s.drop i).take n)).length = n := by
      simp only [List.length_map, List.length_take, List.length_drop]; omega
    rw [e3, Nat.mul_add_mod_self_right]

/-! ### words -/

/-- all words of length `n` over the alphabet -/
def words : Nat → List Str
  | 0 => [[]]
  | n + 1 => dbAlphabet.flatMap fun c => (words n).map (c :: ·)

theorem length_words (n : Nat) : (words n).length = 4 ^ n := by
  induction n with
  | zero => rfl
  | succ n ih => simp [words, dbAlphabet, ih, Nat.pow_succ]; omega

theorem mem_words {n : Nat} {w : Str} : w ∈ words n ↔ w.length = n ∧ ∀ c ∈ w, c ∈ dbAlphabet := by
  induction n generalizing w with
  | zero => simp [words]; intro h; subst h; simp
  | succ n ih =>
    simp only [words, List.mem_flatMap, List.mem_map]
    constructor
    · rintro ⟨c, hc, v, hv, rfl⟩
      obtain ⟨h1, h2⟩ := ih.mp hv
      refine ⟨by simp [h1], ?_⟩
      intro x hx
      rcases List.mem_cons.mp hx with rfl | hx
      · exact hc
      · exact h2 x hx
    · rintro ⟨h1, h2⟩
      cases w with
      | nil => simp at h1
      | cons c v =>
        refine ⟨c, h2 c (by simp), v, ih.mpr ⟨by simpa using h1, fun x hx => h2 x (by simp [hx])⟩, rfl⟩

/-! ### what a successful run of the checker establishes -/

theorem div_bucket_lt (k n c : Nat) (hc : c < 4 ^ n) : c / 4 ^ (n - k) < 4 ^ k := by
  by_cases hk : k ≤ n
  · apply Nat.div_lt_of_lt_mul
    rw [← Nat.pow_add]
    have : n - k + k = n := by omega
    rwa [this]
  · have : n - k = 0 := by omega
    rw [this, Nat.pow_zero, Nat.div_one]
    exact Nat.lt_of_lt_of_le hc (Nat.pow_le_pow_right (by omega) (by omega))

theorem checkWith_facts (k n : Nat) (s : Str) (h : checkWith k n s = true) :
    1 ≤ n ∧ s.length = 4 ^ n + n - 1 ∧ (∀ c ∈ s, c ∈ dbAlphabet) ∧ (windows n s).Nodup := by
  unfold checkWith at h
  simp only [Bool.and_eq_true, List.all_eq_true, List.mem_range] at h
  obtain ⟨⟨⟨h0, hlen⟩, htake⟩, hscan⟩ := h
  have hn : 1 ≤ n := by simpa [Nat.blt] using h0
  have hlen' := (hasLength_iff _ _).mp hlen
  have hpos : 0 < 4 ^ k := Nat.pow_pos (by omega)
  have hs := fun h hh => (by simpa only [scan_eq, Bool.and_eq_true, List.all_eq_true] using hscan h hh :
    (∀ ch ∈ s.drop (n - 1), (digitOf ch).blt 4 = true) ∧ _)
  refine ⟨hn, hlen', ?_, ?_⟩
  · intro c hc
    rw [← List.take_append_drop (n - 1) s, List.mem_append] at hc
    rcases hc with hc | hc
    · exact (digitOf_lt_iff c).mp (htake c hc)
    · exact (digitOf_lt_iff c).mp ((hs 0 hpos).1 c hc)
  · have hcodes : (roll (4 ^ n) (val ((s.take (n - 1)).map digitOf)) ((s.drop (n - 1)).map digitOf)).Nodup := by
      apply nodup_of_buckets (4 ^ (n - k)) (4 ^ k)
      · intro h hh
        exact (distinctMask_sound _ _ (hs h hh).2).1
      · intro c hc
        exact div_bucket_lt k n c (roll_lt _ _ _ (Nat.pow_pos (by omega)) c hc)
    have h4 : 0 < 4 ^ n := Nat.pow_pos (by omega)
    rw [windowCodes_eq n s hn (by omega)] at hcodes
    exact List.Nodup.of_map _ hcodes

theorem window_mem_words {n : Nat} {s : Str} (hs : ∀ c ∈ s, c ∈ dbAlphabet) :
    ∀ w ∈ windows n s, w ∈ words n := by
  intro w hw
  obtain ⟨i, hi, rfl⟩ := mem_windows.mp hw
  refine mem_words.mpr ⟨by simp only [List.length_take, List.length_drop]; omega, ?_⟩
  intro c hc
  exact hs c (List.mem_of_mem_drop (List.mem_of_mem_take hc))

/-- pigeonhole: 4ⁿ pairwise different windows, all of them among the 4ⁿ words ⇒ a permutation of the words -/
theorem windows_perm_words {n : Nat} {s : Str} (hlen : s.length = 4 ^ n + n - 1)
    (hs : ∀ c ∈ s, c ∈ dbAlphabet) (hnd : (windows n s).Nodup) : (windows n s).Perm (words n) := by
  have hsub : windows n s ⊆ words n := window_mem_words hs
  apply (List.subperm_of_subset hnd hsub).perm_of_length_le
  rw [length_words, length_windows, hlen]
  have : 0 < 4 ^ n := Nat.pow_pos (by omega)
  omega

end PolyVerif.Spec
