import PolyVerif.Lemmas.GbLayout
import PolyVerif.Lemmas.GbOrigin
import PolyVerif.Lemmas.GbLocus
/-
C03: composition — the whole text `build x` is read back by the strict column reader.
-/
namespace PolyVerif.Lemmas.GbCompose
open PolyVerif PolyVerif.StrBuild PolyVerif.GenbankBuild PolyVerif.Spec.GbStrict
open PolyVerif.Lemmas.GbBuild PolyVerif.Lemmas.GbLayout PolyVerif.Lemmas.GbOrigin PolyVerif.Lemmas.GbLocus

theorem cutAt_append (p : Str → Bool) : ∀ (a : List Str) (x : Str) (b : List Str),
    (∀ l ∈ a, p l = false) → p x = true → cutAt p (a ++ x :: b) = some (a, b)
  | [], x, b, _, hx => by simp [cutAt, hx]
  | l :: a, x, b, ha, hx => by
    have hl : p l = false := ha l List.mem_cons_self
    simp only [List.cons_append, cutAt, hl, Bool.false_eq_true, if_false]
    rw [cutAt_append p a x b (fun m hm => ha m (List.mem_cons_of_mem _ hm)) hx]

theorem trimRight_prefix (t : Str) : trimRight t <+: t := by
  unfold trimRight
  have h := List.dropWhile_suffix (l := t.reverse) (· == ' ')
  rw [← List.reverse_prefix] at h
  simpa using h

/-- a line that begins with a blank carries no top-level keyword -/
theorem keywordIs_blank (s : String) (r : Str) (hs : ∃ c t, s.toList = c :: t ∧ c ≠ ' ') :
    keywordIs s (' ' :: r) = false := by
  obtain ⟨c, t, e, hc⟩ := hs
  unfold keywordIs
  rw [e]
  have hp := trimRight_prefix ((' ' :: r).take 12)
  simp only [List.take_succ_cons] at hp ⊢
  cases htr : trimRight (' ' :: List.take 11 r) with
  | nil => simp
  | cons a u =>
    rw [htr] at hp
    have := (List.cons_prefix_cons.mp hp).1
    subst this
    simp
    intro h
    exact absurd h.symm hc

theorem keywordIs_key {k : Str} (hk : KeyOK k) (d : Str) (s : String) (hne : k ≠ s.toList) :
    keywordIs s (padKey k ++ d) = false := by
  unfold keywordIs
  rw [take12_pad hk.len, trimRight_pad hk]
  simpa using hne

theorem keywordIs_key_self {k : Str} (hk : KeyOK k) (d : Str) (s : String) (he : k = s.toList) :
    keywordIs s (padKey k ++ d) = true := by
  unfold keywordIs
  rw [take12_pad hk.len, trimRight_pad hk]
  simpa using he

theorem spaces_succ_append (n : Nat) (d : Str) : spaces (n + 1) ++ d = ' ' :: (spaces n ++ d) := by
  simp [spaces, List.replicate_succ]

/-- the lines of one written block -/
theorem blockLines_mem {k d l : Str} (h : l ∈ blockLines k d) :
    (∃ d0, l = padKey k ++ d0 ∧ NoNl d0) ∨ (∃ d', l = spaces 12 ++ d' ∧ NoNl d') := by
  unfold blockLines at h
  obtain ⟨d0, rest, e⟩ := lines_exists (wrapString d 68)
  rw [e] at h
  have hmem : ∀ x ∈ d0 :: rest, NoNl x := fun x hx => noNl_of_mem_lines _ x (by rw [e]; exact hx)
  rcases List.mem_cons.mp h with rfl | h
  · exact Or.inl ⟨d0, rfl, hmem d0 List.mem_cons_self⟩
  · obtain ⟨d', hd', rfl⟩ := List.mem_map.mp h
    exact Or.inr ⟨d', rfl, hmem d' (List.mem_cons_of_mem _ hd')⟩

theorem noNl_spaces (n : Nat) : NoNl (spaces n) := noNl_replicate n

theorem noNl_padKey {k : Str} (h : NoNl k) : NoNl (padKey k) := h.append (noNl_spaces _)

theorem specLines_props (b : BlockSpec) (hok : b.OK) (hk : NoNl b.key) (hs : ∀ kd ∈ b.subs, NoNl kd.1)
    (s : String) (hs1 : ∃ c t, s.toList = c :: t ∧ c ≠ ' ') (hne : b.key ≠ s.toList) :
    ∀ l ∈ specLines b, NoNl l ∧ keywordIs s l = false := by
  intro l hl
  unfold specLines at hl
  rcases List.mem_append.mp hl with hl | hl
  · rcases blockLines_mem hl with ⟨d0, rfl, hd⟩ | ⟨d', rfl, hd⟩
    · exact ⟨(noNl_padKey hk).append hd, keywordIs_key hok.1 d0 s hne⟩
    · refine ⟨(noNl_spaces 12).append hd, ?_⟩
      rw [show (12 : Nat) = 11 + 1 from rfl, spaces_succ_append]
      exact keywordIs_blank s _ hs1
  · unfold subLines at hl
    obtain ⟨ls, hls, hl'⟩ := List.mem_flatten.mp hl
    obtain ⟨kd, hkd, rfl⟩ := List.mem_map.mp hls
    have hsub := hok.2 kd hkd
    have hlen : (' ' :: ' ' :: kd.1).length ≤ 12 := by have := hsub.len; simp; omega
    rcases blockLines_mem hl' with ⟨d0, rfl, hd⟩ | ⟨d', rfl, hd⟩
    · refine ⟨(noNl_padKey (noNl_cons (by decide) (noNl_cons (by decide) (hs kd hkd)))).append hd, ?_⟩
      simp only [padKey, List.cons_append]
      exact keywordIs_blank s _ hs1
    · refine ⟨(noNl_spaces 12).append hd, ?_⟩
      rw [show (12 : Nat) = 11 + 1 from rfl, spaces_succ_append]
      exact keywordIs_blank s _ hs1

/-! ### the header blocks of a record in the layout domain -/

def SpecFine (b : BlockSpec) : Prop :=
  b.OK ∧ NoNl b.key ∧ (∀ kd ∈ b.subs, NoNl kd.1) ∧ b.key ≠ "FEATURES".toList

theorem noNl_of_word {k : Str} (h : isWord k = true) : NoNl k := by
  simp only [isWord, Bool.and_eq_true, List.all_eq_true] at h
  exact fun c hc => visible_ne_nl (h.2 c hc)

theorem refSubs_noNl (r : Reference) : ∀ kd ∈ refSubs r, NoNl kd.1 := by
  intro kd hkd
  simp only [refSubs, optSub, List.mem_append] at hkd
  have aux : ∀ (k : String) (v : Str), kd ∈ (if v ≠ [] then [(k.toList, v)] else []) → kd.1 = k.toList := by
    intro k v hm
    split at hm
    · simp only [List.mem_singleton] at hm; rw [hm]
    · simp at hm
  rcases hkd with (((hkd | hkd) | hkd) | hkd) | hkd
  · rw [aux _ _ hkd]; exact noNl_lit _ (by decide)
  · rw [aux _ _ hkd]; exact noNl_lit _ (by decide)
  · rw [aux _ _ hkd]; exact noNl_lit _ (by decide)
  · rw [aux _ _ hkd]; exact noNl_lit _ (by decide)
  · rw [aux _ _ hkd]; exact noNl_lit _ (by decide)

theorem plain_fine (k : Str) (hk : KeyOK k) (hn : k.all (· != '\n') = true) (hf : k ≠ "FEATURES".toList) (d : Str) :
    SpecFine ⟨k, d, []⟩ := by
  refine And.intro (And.intro hk ?_) (And.intro (noNl_lit _ hn) (And.intro ?_ hf))
  · intro kd hkd; cases hkd
  · intro kd hkd; cases hkd

theorem sub_fine (k : Str) (hk : KeyOK k) (hn : k.all (· != '\n') = true) (hf : k ≠ "FEATURES".toList) (d : Str)
    (subs : List (Str × Str)) (hs : ∀ kd ∈ subs, SubKeyOK kd.1 ∧ NoNl kd.1) : SpecFine ⟨k, d, subs⟩ :=
  And.intro (And.intro hk (fun kd hkd => (hs kd hkd).1))
    (And.intro (noNl_lit _ hn) (And.intro (fun kd hkd => (hs kd hkd).2) hf))

theorem refSpecs_fine : ∀ (refs : List Reference) (i : Nat), ∀ b ∈ refSpecs i refs, SpecFine b
  | [], _, b, h => by simp [refSpecs] at h
  | r :: rs, i, b, h => by
    simp only [refSpecs, List.mem_cons] at h
    rcases h with rfl | h
    · exact sub_fine "REFERENCE".toList kREF (by decide) (by decide) _ _
        (fun kd hkd => ⟨(refs_OK (r :: rs) i ⟨"REFERENCE".toList, refNum i r ++ "  ".toList ++ r.range, refSubs r⟩
          (by rw [refSpecs]; exact List.mem_cons_self)).2 kd hkd, refSubs_noNl r kd hkd⟩)
    · exact refSpecs_fine rs (i + 1) b h

theorem headerSpecs_fine (x : Sequence) (h : wfLayout x = true) :
    ∀ b ∈ headerSpecs x (sortStrings (x.metadata.other.map Prod.fst)), SpecFine b := by
  simp only [wfLayout, Bool.and_eq_true] at h
  obtain ⟨⟨⟨⟨⟨⟨⟨⟨⟨⟨⟨⟨⟨_, _⟩, _⟩, _⟩, _⟩, _⟩, _⟩, _⟩, _⟩, hother⟩, _⟩, _⟩, _⟩, _⟩ := h
  intro b hb
  simp only [headerSpecs, List.mem_append, List.mem_cons, List.not_mem_nil, or_false] at hb
  rcases hb with (hb | hb) | hb
  · rcases hb with rfl | rfl | rfl | rfl | rfl
    · exact plain_fine "DEFINITION".toList kDEF (by decide) (by decide) _
    · exact plain_fine "ACCESSION".toList kACC (by decide) (by decide) _
    · exact plain_fine "VERSION".toList kVER (by decide) (by decide) _
    · exact plain_fine "KEYWORDS".toList kKEY (by decide) (by decide) _
    · refine sub_fine "SOURCE".toList kSRC (by decide) (by decide) _ _ ?_
      intro kd hkd
      have : kd = ("ORGANISM".toList, x.metadata.organism) := List.mem_singleton.mp hkd
      rw [this]
      exact ⟨kORG, noNl_lit "ORGANISM".toList (by decide)⟩
  · exact refSpecs_fine _ 0 b hb
  · simp only [otherSpecs, List.mem_map] at hb
    obtain ⟨k, hk', rfl⟩ := hb
    have hmem : k ∈ x.metadata.other.map Prod.fst := (sortStrings_perm _).subset hk'
    obtain ⟨kv, hm, rfl⟩ := List.mem_map.mp hmem
    have hw := List.all_eq_true.mp hother kv hm
    simp only [wfOther, Bool.and_eq_true, Bool.not_eq_true', decide_eq_true_eq] at hw
    refine And.intro (And.intro (keyOK_of_word hw.1.1.1.1 hw.1.1.2) (by intro kd hkd; cases hkd))
      (And.intro (noNl_of_word hw.1.1.1.1) (And.intro (by intro kd hkd; cases hkd) ?_))
    intro e
    have hc := hw.1.2
    simp only at e
    rw [e] at hc
    revert hc
    decide

theorem header_lines_props (x : Sequence) (h : wfLayout x = true) :
    ∀ l ∈ specsLines (headerSpecs x (sortStrings (x.metadata.other.map Prod.fst))),
      NoNl l ∧ keywordIs "FEATURES" l = false := by
  intro l hl
  unfold specsLines at hl
  obtain ⟨ls, hls, hl'⟩ := List.mem_flatten.mp hl
  obtain ⟨b, hb, rfl⟩ := List.mem_map.mp hls
  obtain ⟨hok, hk, hs, hne⟩ := headerSpecs_fine x h b hb
  exact specLines_props b hok hk hs "FEATURES" ⟨'F', "EATURES".toList, by decide, by decide⟩ hne l hl'

/-! ### the feature table of a record in the layout domain -/

def fkOf (f : Feature) : Feature × List Str := (f, sortStrings (f.attributes.map Prod.fst))

theorem rangeKeys_nil (m : List (Str × Str)) : rangeKeys [] m = m.map Prod.fst := by
  simp [rangeKeys, permute_nil_seed]

theorem buildFeatures_eq : ∀ (fs : List Feature) (i : Nat),
    buildFeatures (fun _ => []) i fs = unl (featsLines (fs.map fkOf))
  | [], _ => rfl
  | f :: fs, i => by
    simp only [buildFeatures, List.map_cons, featsLines, List.flatten_cons, unl_append]
    rw [buildFeatureString_eq, rangeKeys_nil, buildFeatures_eq fs (i + 1)]
    rfl

theorem lookupD_prop (P : Str → Prop) (hnil : P []) (m : List (Str × Str)) (h : ∀ kv ∈ m, P kv.2) (k : Str) :
    P (lookupD m k) := by
  induction m with
  | nil => exact hnil
  | cons kv m ih =>
    obtain ⟨a, b⟩ := kv
    have ih' := ih (fun x hx => h x (List.mem_cons_of_mem _ hx))
    unfold lookupD at ih' ⊢
    by_cases hk : (k == a) = true
    · simp only [List.lookup, hk]
      exact h (a, b) List.mem_cons_self
    · have hk' : (k == a) = false := by simpa using hk
      simp only [List.lookup, hk']
      exact ih'

theorem printable_ne_nl {c : Char} (h : printable c = true) : c ≠ '\n' := by
  intro e; subst e; revert h; decide

theorem feature_facts (f : Feature) (h : wfFeature f = true) :
    (TypeOK f.type ∧ locText f ≠ [] ∧ ∀ q ∈ (fkOf f).2, ∀ c ∈ q, c ≠ '=')
    ∧ ∀ l ∈ featLines f (fkOf f).2, NoNl l ∧ keywordIs "ORIGIN" l = false := by
  simp only [wfFeature, Bool.and_eq_true, decide_eq_true_eq] at h
  obtain ⟨⟨⟨⟨htype, hlen⟩, hloc⟩, _⟩, hq⟩ := h
  have hw := htype
  simp only [isWord, Bool.and_eq_true, bne_iff_ne, ne_eq, List.all_eq_true] at hw
  have htypeOK : TypeOK f.type := by
    refine ⟨hlen, ?_, fun c hc => visible_ne_blank (hw.2 c (List.mem_of_getLast? hc))⟩
    cases ht : f.type with
    | nil => exact absurd ht hw.1
    | cons c r => exact ⟨c, r, rfl, visible_ne_blank (hw.2 c (by rw [ht]; exact List.mem_cons_self))⟩
  have hlocne : locText f ≠ [] := by
    unfold locText
    split
    · assumption
    · exact buildLoc_ne_nil _
  have hlocnl : NoNl (locText f) := by
    unfold locText
    split
    · intro c hc
      exact visible_ne_nl (List.all_eq_true.mp hloc c hc)
    · exact noNl_buildLoc _
  have hkeys : ∀ q ∈ (fkOf f).2, ∃ kv ∈ f.attributes, kv.1 = q := by
    intro q hq'
    have := (sortStrings_perm _).subset hq'
    simpa using this
  have hqual : ∀ kv ∈ f.attributes, wfQual kv = true := fun kv hkv => List.all_eq_true.mp hq kv hkv
  refine ⟨⟨htypeOK, hlocne, ?_⟩, ?_⟩
  · intro q hq' c hc e
    obtain ⟨kv, hkv, rfl⟩ := hkeys q hq'
    have := hqual kv hkv
    simp only [wfQual, Bool.and_eq_true, Bool.not_eq_true'] at this
    have hcont := this.1.2
    subst e
    have : kv.1.contains '=' = true := List.contains_iff_mem.mpr hc
    rw [this] at hcont
    exact absurd hcont (by simp)
  · intro l hl
    unfold featLines at hl
    rcases List.mem_cons.mp hl with rfl | hl
    · refine ⟨?_, ?_⟩
      · unfold featHead
        exact (((noNl_spaces 5).append (noNl_of_word htype)).append (noNl_spaces _)).append hlocnl
      · unfold featHead
        rw [show (5 : Nat) = 4 + 1 from rfl]
        simp only [List.append_assoc]
        rw [spaces_succ_append]
        exact keywordIs_blank "ORIGIN" _ ⟨'O', "RIGIN".toList, by decide, by decide⟩
    · obtain ⟨q, hq', rfl⟩ := List.mem_map.mp hl
      obtain ⟨kv, hkv, rfl⟩ := hkeys q hq'
      have hwq := hqual kv hkv
      simp only [wfQual, Bool.and_eq_true] at hwq
      have hval : NoNl (lookupD f.attributes kv.1) :=
        lookupD_prop NoNl (by intro c hc; cases hc) _ (fun kv' hkv' c hc => by
          have := hqual kv' hkv'
          simp only [wfQual, Bool.and_eq_true] at this
          exact printable_ne_nl (List.all_eq_true.mp this.2 c hc)) _
      refine ⟨?_, ?_⟩
      · unfold qualLine
        exact (((((noNl_spaces 21).append (noNl_lit ['/'] (by decide))).append (noNl_of_word hwq.1.1)).append
          (noNl_lit ['=', '"'] (by decide))).append hval).append (noNl_lit ['"'] (by decide))
      · unfold qualLine
        rw [show (21 : Nat) = 20 + 1 from rfl]
        simp only [List.append_assoc]
        rw [spaces_succ_append]
        exact keywordIs_blank "ORIGIN" _ ⟨'O', "RIGIN".toList, by decide, by decide⟩

theorem featRead_eq_absFeat (f : Feature) : featRead f (fkOf f).2 = absFeat f := rfl

theorem features_read (fs : List Feature) (h : fs.all wfFeature = true) :
    readFeats (featsLines (fs.map fkOf)) = some (fs.map absFeat)
    ∧ ∀ l ∈ featsLines (fs.map fkOf), NoNl l ∧ keywordIs "ORIGIN" l = false := by
  have hf : ∀ f ∈ fs, wfFeature f = true := fun f hf => List.all_eq_true.mp h f hf
  constructor
  · rw [readFeats_featsLines]
    · simp only [List.map_map, Function.comp_def]
      congr 1
    · intro fk hfk
      obtain ⟨f, hfm, rfl⟩ := List.mem_map.mp hfk
      exact (feature_facts f (hf f hfm)).1
  · intro l hl
    unfold featsLines at hl
    obtain ⟨ls, hls, hl'⟩ := List.mem_flatten.mp hl
    obtain ⟨fk, hfk, rfl⟩ := List.mem_map.mp hls
    obtain ⟨f, hfm, rfl⟩ := List.mem_map.mp hfk
    exact (feature_facts f (hf f hfm)).2 l hl'

/-! ### the whole record -/

def featHdr : Str := "FEATURES             Location/Qualifiers".toList

theorem date_noNl {s : Str} (h : isDate s = true) : NoNl s := by
  unfold isDate at h
  split at h
  · simp only [Bool.and_eq_true, beq_iff_eq] at h
    obtain ⟨⟨⟨⟨⟨⟨⟨⟨⟨⟨⟨h1, h2⟩, h3⟩, h4⟩, h5⟩, h6⟩, h7⟩, h8⟩, h9⟩, h10⟩, h11⟩, _⟩ := h
    intro c hc e
    subst e
    simp only [List.mem_cons, List.not_mem_nil, or_false] at hc
    rcases hc with rfl | rfl | rfl | rfl | rfl | rfl | rfl | rfl | rfl | rfl | rfl <;>
      first
        | (revert h1; decide) | (revert h2; decide) | (revert h3; decide) | (revert h4; decide)
        | (revert h5; decide) | (revert h6; decide) | (revert h7; decide) | (revert h8; decide)
        | (revert h9; decide) | (revert h10; decide) | (revert h11; decide)
  · exact absurd h (by simp)

theorem noNl_locusLine (l : Locus) (h : wfLocus l = true) : NoNl (locusLine l) := by
  simp only [wfLocus, Bool.and_eq_true, Bool.or_eq_true, beq_iff_eq] at h
  obtain ⟨⟨⟨⟨hname, hlen⟩, hmol⟩, hdiv⟩, hdate⟩ := h
  have hmolnl : NoNl l.moleculeType := by
    rcases hmol with h | h
    · rw [h]; intro c hc; cases hc
    · have : ∀ m ∈ molTypes, m.all (· != '\n') = true := by decide
      exact noNl_lit _ (this _ (by simpa using h))
  have hdivnl : NoNl l.genbankDivision := by
    rcases hdiv with h | h
    · rw [h]; intro c hc; cases hc
    · have : ∀ m ∈ divisions, m.all (· != '\n') = true := by decide
      exact noNl_lit _ (this _ (by simpa using h))
  have hdatenl : NoNl l.modificationDate := by
    rcases hdate with h | h
    · rw [h]; intro c hc; cases hc
    · exact date_noNl h
  have hshape : NoNl (shapeOf l) := by
    unfold shapeOf
    split
    · exact noNl_lit _ (by decide)
    · split
      · exact noNl_lit _ (by decide)
      · intro c hc; cases hc
  have hlennl : NoNl l.sequenceLength := by
    intro c hc e
    subst e
    have := List.all_eq_true.mp hlen _ hc
    revert this
    decide
  unfold locusLine
  exact (noNl_lit _ (by decide)).append
    ((((((((((noNl_of_word hname).append (noNl_spaces 5)).append hlennl).append (noNl_lit _ (by decide))).append
      (noNl_spaces 5)).append hmolnl).append (noNl_spaces 5)).append hshape).append (noNl_spaces 5)).append hdivnl
      |>.append (noNl_spaces 5) |>.append hdatenl)

theorem regroup (L M1 M2 M3 M4 M5 M6 R O F FT OR B T H : Str)
    (hh : M1 ++ M2 ++ M3 ++ M4 ++ M5 ++ M6 ++ R ++ O = H) :
    L ++ M1 ++ M2 ++ M3 ++ M4 ++ M5 ++ M6 ++ R ++ O ++ F ++ FT ++ OR ++ B ++ T
      = L ++ H ++ F ++ FT ++ OR ++ B ++ T := by
  rw [← hh]
  simp only [List.append_assoc]

theorem assemble (LL FH OR B T : Str) (HL FTS : List Str) :
    (LL ++ ['\n']) ++ unl HL ++ (FH ++ ['\n']) ++ unl FTS ++ (OR ++ ['\n']) ++ B ++ T
      = unl ([LL] ++ HL ++ [FH] ++ FTS ++ [OR]) ++ (B ++ T) := by
  simp only [unl_append, unl_cons, unl_nil, List.append_assoc, List.cons_append, List.nil_append, List.append_nil]

/-- `build x` as lines: LOCUS, header blocks, FEATURES, feature table, ORIGIN, sequence lines, `//` -/
theorem build_as_lines (x : Sequence) :
    build x MapOrders.id =
      unl ([locusLine x.metadata.locus]
        ++ specsLines (headerSpecs x (sortStrings (x.metadata.other.map Prod.fst)))
        ++ [featHdr] ++ featsLines (x.features.map fkOf) ++ ["ORIGIN".toList])
      ++ (buildOrigin x.sequence ++ "\n//".toList) := by
  have e1 : "FEATURES             Location/Qualifiers\n".toList = featHdr ++ ['\n'] := by decide
  have e2 : "ORIGIN\n".toList = "ORIGIN".toList ++ ['\n'] := by decide
  have body : build x MapOrders.id =
      ("LOCUS       ".toList ++ (x.metadata.locus.name ++ spaces 5 ++ x.metadata.locus.sequenceLength ++ " bp".toList
          ++ spaces 5 ++ x.metadata.locus.moleculeType ++ spaces 5 ++ shapeOf x.metadata.locus ++ spaces 5
          ++ x.metadata.locus.genbankDivision ++ spaces 5 ++ x.metadata.locus.modificationDate) ++ ['\n'])
      ++ buildMetaString "DEFINITION".toList x.metadata.definition
      ++ buildMetaString "ACCESSION".toList x.metadata.accession
      ++ buildMetaString "VERSION".toList x.metadata.version
      ++ buildMetaString "KEYWORDS".toList x.metadata.keywords
      ++ buildMetaString "SOURCE".toList x.metadata.source
      ++ buildMetaString "  ORGANISM".toList x.metadata.organism
      ++ buildReferences 0 x.metadata.references
      ++ ((sortStrings (rangeKeys [] x.metadata.other)).map fun otherKey =>
            buildMetaString otherKey (lookupD x.metadata.other otherKey)).flatten
      ++ "FEATURES             Location/Qualifiers\n".toList
      ++ buildFeatures (fun _ => []) 0 x.features
      ++ "ORIGIN\n".toList
      ++ buildOrigin x.sequence
      ++ "\n//".toList := rfl
  rw [body, rangeKeys_nil, e1, e2, buildFeatures_eq,
    regroup _ _ _ _ _ _ _ _ _ _ _ _ _ _ _ (buildHeader_eq x (sortStrings (x.metadata.other.map Prod.fst)))]
  exact assemble _ _ _ _ _ _ _

theorem keywordIs_featHdr : keywordIs "FEATURES" featHdr = true := by decide
theorem keywordIs_origin : keywordIs "ORIGIN" "ORIGIN".toList = true := by decide
theorem noNl_featHdr : NoNl featHdr := noNl_lit _ (by decide)
theorem noNl_originKw : NoNl "ORIGIN".toList := noNl_lit _ (by decide)

/-- the lines of `build x`, concretely -/
theorem build_lines (x : Sequence) (h : wfLayout x = true) :
    lines (build x MapOrders.id) =
      locusLine x.metadata.locus :: (specsLines (headerSpecs x (sortStrings (x.metadata.other.map Prod.fst)))
        ++ featHdr :: (featsLines (x.features.map fkOf) ++ "ORIGIN".toList
            :: (oLines 0 (chunks 60 x.sequence) ++ ["//".toList]))) := by
  have hw := h
  simp only [wfLayout, Bool.and_eq_true, bne_iff_ne, ne_eq, decide_eq_true_eq] at hw
  obtain ⟨⟨⟨⟨⟨⟨⟨⟨⟨⟨⟨⟨⟨hlocus, _⟩, _⟩, _⟩, _⟩, _⟩, _⟩, _⟩, _⟩, _⟩, hfeat⟩, hne⟩, hlet⟩, _⟩ := hw
  obtain ⟨_, hfp⟩ := features_read x.features hfeat
  have hhp := header_lines_props x h
  rw [build_as_lines, lines_unl_append, origin_lines x.sequence hne hlet]
  · simp only [List.append_assoc, List.cons_append, List.nil_append]
  · intro l hl
    simp only [List.mem_append, List.mem_cons, List.not_mem_nil, or_false] at hl
    rcases hl with (((hl | hl) | hl) | hl) | hl
    · rw [hl]; exact noNl_locusLine _ hlocus
    · exact (hhp l hl).1
    · rw [hl]; exact noNl_featHdr
    · exact (hfp l hl).1
    · rw [hl]; exact noNl_originKw

/-- the strict column reader recovers `abs x` from what `build` writes for a record of the layout domain -/
theorem strict_layout_id (x : Sequence) (h : wfLayout x = true) :
    strictRead (build x MapOrders.id) = some (abs x) := by
  have hw := h
  simp only [wfLayout, Bool.and_eq_true, bne_iff_ne, ne_eq, decide_eq_true_eq] at hw
  obtain ⟨⟨⟨⟨⟨⟨⟨⟨⟨⟨⟨⟨⟨hlocus, _⟩, _⟩, _⟩, _⟩, _⟩, _⟩, _⟩, _⟩, _⟩, hfeat⟩, hne⟩, hlet⟩, hlen⟩ := hw
  obtain ⟨ols, hol, hread, hnt⟩ := origin_section x.sequence hne hlet (by simpa using hlen)
  have hol' := origin_lines x.sequence hne hlet
  have hols : ols = oLines 0 (chunks 60 x.sequence) := by
    rw [hol] at hol'
    exact List.append_cancel_right hol'
  subst hols
  obtain ⟨hfr, hfp⟩ := features_read x.features hfeat
  have hhp := header_lines_props x h
  unfold strictRead
  rw [build_lines x h]
  simp only []
  rw [cutAt_append (keywordIs "FEATURES") _ featHdr _ (fun l hl => (hhp l hl).2) keywordIs_featHdr]
  simp only []
  rw [cutAt_append (keywordIs "ORIGIN") _ "ORIGIN".toList _ (fun l hl => (hfp l hl).2) keywordIs_origin]
  simp only []
  rw [cutAt_append (fun l => l == "//".toList) _ "//".toList [] (fun l hl => by simpa using hnt l hl) (by simp)]
  simp only [true_or, if_true]
  rw [locus_read _ hlocus, header_read x h, hfr, hread]
  rfl

end PolyVerif.Lemmas.GbCompose
