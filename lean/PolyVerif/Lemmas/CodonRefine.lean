import PolyVerif.Lemmas.CodonFreq
/- Refinement invariant for C08 `history_refines_partial`: heap semantics vs value semantics on Linear histories. -/
namespace PolyVerif.Lemmas.CodonRefine
open PolyVerif PolyVerif.Codon PolyVerif.CodonTables PolyVerif.Lemmas.CodonFreq
open PolyVerif.Spec.ValueTables

/-- everything of an AminoAcids array but the weights -/
def eraseW (as : List AminoAcid) : List (Str × List Str) := as.map fun a => (a.letter, a.codons.map (·.triplet))

/-- an AminoAcids array rebuilt from its code and a weight function -/
def rebuild (f : Str → Int) (e : List (Str × List Str)) : List AminoAcid :=
  e.map fun p => { letter := p.1, codons := p.2.map fun x => { triplet := x, weight := f x } }

theorem optimizeCell_eq_rebuild (s : Str) (cell : List AminoAcid) :
    optimizeCell s cell = rebuild (mapGet (getCodonFrequency (CodonTables.upper s))) (eraseW cell) := by
  simp only [optimizeCell, reweightAAs_eq_map, reweightCodons_eq_map, rebuild, eraseW, List.map_map]
  apply List.map_congr_left
  intro a _
  simp [Function.comp]

theorem reweight_eq_rebuild (t : Table) (s : Str) :
    (reweight t s).aminoAcids = rebuild (fun x => (countCodons s x : Int)) (eraseW t.aminoAcids) := by
  simp only [reweight, mapWeights, rebuild, eraseW, List.map_map]
  apply List.map_congr_left
  intro a _
  simp [Function.comp]

theorem eraseW_rebuild (f : Str → Int) (e : List (Str × List Str)) : eraseW (rebuild f e) = e := by
  induction e with
  | nil => rfl
  | cons p rest ih =>
    simp only [eraseW, rebuild, List.map_cons, List.map_map] at ih ⊢
    rw [ih]
    congr 1
    have : ((fun x : Codon => x.triplet) ∘ fun x => { triplet := x, weight := f x }) = id := by funext x; rfl
    rw [this, List.map_id]

theorem freq_fun_eq (s : Str) :
    mapGet (getCodonFrequency (CodonTables.upper s)) = fun x => (countCodons s x : Int) := by
  funext x
  have := freq_counts (CodonTables.upper s) x
  simpa [countCodons, CodonTables.upper, Spec.ValueTables.upper] using this

/-- key step: in-place re-weighting of a cell with the same code as `t` produces `reweight t s` -/
theorem optimizeCell_eq_reweight (s : Str) (cell : List AminoAcid) (t : Table)
    (h : eraseW cell = eraseW t.aminoAcids) : optimizeCell s cell = (reweight t s).aminoAcids := by
  rw [optimizeCell_eq_rebuild, reweight_eq_rebuild, freq_fun_eq s, h]

theorem eraseW_optimizeCell (s : Str) (cell : List AminoAcid) : eraseW (optimizeCell s cell) = eraseW cell := by
  rw [optimizeCell_eq_rebuild, eraseW_rebuild]

theorem getElem?_snoc {α : Type} (l : List α) (x y : α) (k : Nat) (h : (l ++ [x])[k]? = some y) :
    (k < l.length ∧ l[k]? = some y) ∨ (k = l.length ∧ y = x) := by
  rw [List.getElem?_append] at h
  split at h
  · next hk => exact Or.inl ⟨hk, h⟩
  · next hk =>
    right
    have : k - l.length = 0 := by
      cases hh : k - l.length with
      | zero => rfl
      | succ n => rw [hh] at h; simp at h
    rw [this] at h
    simp at h
    exact ⟨by omega, h.symm⟩

theorem getElem?_snoc_lt {α : Type} (l : List α) (x : α) (k : Nat) (h : k < l.length) : (l ++ [x])[k]? = l[k]? := by
  rw [List.getElem?_append_left h]

theorem getElem?_lt_of_some {α : Type} {l : List α} {k : Nat} {y : α} (h : l[k]? = some y) : k < l.length := by
  cases Nat.lt_or_ge k l.length with
  | inl h' => exact h'
  | inr h' => rw [List.getElem?_eq_none h'] at h; cases h

theorem readable_snoc_lt (ls : LState) (r : Nat) (nx : Nat) (k : Nat) (h : k < ls.regions.length) :
    LState.readable { regions := ls.regions ++ [r], next := nx, owners := ls.owners } k = ls.readable k := by
  simp only [LState.readable, getElem?_snoc_lt _ _ _ h]

/-- the invariant linking the three runs -/
structure Inv (defs : List (Nat × Table)) (hs : HState) (vs : VState) (ls : LState) : Prop where
  tr : hs.trace = vs.trace
  dflt : hs.defaults = initDefaults 0 defs
  next : ls.next = hs.heap.length
  len1 : hs.handles.length = vs.handles.length
  len2 : ls.regions.length = vs.handles.length
  ownlt : ∀ r j, ls.owners.lookup r = some j → r < ls.next
  hnd : ∀ k ht v, hs.handles[k]? = some ht → vs.handles[k]? = some v →
      ls.regions[k]? = some ht.aas ∧ ht.startCodons = v.startCodons ∧ ht.stopCodons = v.stopCodons ∧
      ∃ cell, hs.heap[ht.aas]? = some cell ∧ eraseW cell = eraseW v.aminoAcids ∧
        (ls.readable k = true → cell = v.aminoAcids)
  dclean : ∀ r p, defs[r]? = some p → ls.owners.lookup r = none → hs.heap[r]? = some p.2.aminoAcids

variable {defs : List (Nat × Table)} {hs : HState} {vs : VState} {ls : LState}

/-- a fresh region has no owner -/
theorem fresh_unowned (I : Inv defs hs vs ls) : ls.owners.lookup ls.next = none := by
  cases h : ls.owners.lookup ls.next with
  | none => rfl
  | some j => exact absurd (I.ownlt _ _ h) (Nat.lt_irrefl _)

/-- storing a value in fresh memory on the heap side = pushing the value on the value side -/
theorem inv_push (I : Inv defs hs vs ls) (v : Table) (o : Obs) :
    Inv defs (hs.pushFresh v o) (vs.push v o) ls.fresh := by
  have hl1 := I.len1
  have hl2 := I.len2
  refine ⟨?_, I.dflt, ?_, ?_, ?_, ?_, ?_, ?_⟩
  · simp [HState.pushFresh, VState.push, I.tr]
  · simp [HState.pushFresh, store, Heap.alloc, LState.fresh, I.next]
  · simp [HState.pushFresh, VState.push, I.len1]
  · simp [LState.fresh, VState.push, I.len2]
  · intro r j h
    have := I.ownlt r j (by simpa [LState.fresh] using h)
    simp only [LState.fresh]; omega
  · intro k ht w h1 h2
    simp only [HState.pushFresh, store, Heap.alloc] at h1 ⊢
    simp only [VState.push] at h2
    rcases getElem?_snoc _ _ _ _ h1 with ⟨hk, h1'⟩ | ⟨hk, rfl⟩
    · have h2' : vs.handles[k]? = some w := by rwa [getElem?_snoc_lt _ _ _ (by omega)] at h2
      obtain ⟨a, b, c, cell, d, e, f⟩ := I.hnd k ht w h1' h2'
      refine ⟨?_, b, c, cell, ?_, e, ?_⟩
      · simp only [LState.fresh]; rw [getElem?_snoc_lt _ _ _ (by omega)]; exact a
      · rw [List.getElem?_append_left (getElem?_lt_of_some d)]; exact d
      · intro hr; apply f
        rw [← hr]; symm
        exact readable_snoc_lt ls _ _ k (by omega)
    · have hw : w = v := by
        rw [show k = vs.handles.length by omega] at h2
        simpa using h2.symm
      subst hw
      refine ⟨?_, rfl, rfl, w.aminoAcids, ?_, rfl, fun _ => rfl⟩
      · simp only [LState.fresh]
        rw [show k = ls.regions.length by omega, I.next]
        simp
      · simp
  · intro r p hp ho
    simp only [HState.pushFresh, store, Heap.alloc]
    have := I.dclean r p hp (by simpa [LState.fresh] using ho)
    rw [List.getElem?_append_left (getElem?_lt_of_some this)]; exact this

/-- reading a readable handle gives the same table in both semantics -/
theorem read_eq (I : Inv defs hs vs ls) (k : Nat) (hr : ls.readable k = true) :
    hs.handles[k]?.bind (deref hs.heap) = vs.handles[k]? := by
  cases h1 : hs.handles[k]? with
  | none =>
    have : vs.handles.length ≤ k := by
      rw [← I.len1]; exact List.getElem?_eq_none_iff.1 h1
    simp [List.getElem?_eq_none this]
  | some ht =>
    have hk := getElem?_lt_of_some h1
    have hk2 : k < vs.handles.length := by rw [← I.len1]; exact hk
    have h2 : vs.handles[k]? = some vs.handles[k] := List.getElem?_eq_getElem hk2
    obtain ⟨_, b, c, cell, d, _, f⟩ := I.hnd k ht _ h1 h2
    rw [h2]
    simp only [Option.bind_some, deref, d]
    rw [f hr, b, c]


theorem lookup_defs (defs : List (Nat × Table)) : ∀ (a : Nat) (id : Nat),
    match indexOfId defs id with
    | none => defs.lookup id = none ∧ (initDefaults a defs).lookup id = none
    | some r => ∃ t, defs[r]? = some (id, t) ∧ defs.lookup id = some t ∧
        (initDefaults a defs).lookup id = some { startCodons := t.startCodons, stopCodons := t.stopCodons, aas := a + r } := by
  induction defs with
  | nil => intro a id; simp [indexOfId, initDefaults]
  | cons p rest ih =>
    intro a id
    obtain ⟨i, t⟩ := p
    simp only [indexOfId, initDefaults]
    by_cases e : i = id
    · subst e
      simp [List.lookup]
    · have e' : (id == i) = false := by simp; exact fun h => e h.symm
      simp only [e, if_false, List.lookup, e']
      have := ih (a + 1) id
      cases h : indexOfId rest id with
      | none => rw [h] at this; simpa using this
      | some r =>
        rw [h] at this
        obtain ⟨t', h1, h2, h3⟩ := this
        refine ⟨t', ?_, h2, ?_⟩
        · simpa using h1
        · rw [h3]; show some _ = some (HTable.mk _ _ (a + (r + 1))); rw [show a + 1 + r = a + (r + 1) by omega]

theorem initHeap_get (defs : List (Nat × Table)) : ∀ (r : Nat) (p : Nat × Table), defs[r]? = some p → (initHeap defs)[r]? = some p.2.aminoAcids := by
  induction defs with
  | nil => intro r p h; simp at h
  | cons q rest ih =>
    intro r p h
    obtain ⟨i, t⟩ := q
    cases r with
    | zero => simp at h; subst h; simp [initHeap]
    | succ n => simp at h; simpa [initHeap] using ih n p h

theorem initHeap_length (defs : List (Nat × Table)) : (initHeap defs).length = defs.length := by
  induction defs with
  | nil => rfl
  | cons q rest ih => obtain ⟨i, t⟩ := q; simp [initHeap, ih]

theorem inv_init (defs : List (Nat × Table)) : Inv defs (HState.init defs) { handles := [], trace := [] } (LState.init defs) := by
  refine ⟨rfl, rfl, ?_, rfl, rfl, ?_, ?_, ?_⟩
  · simp [LState.init, HState.init, initHeap_length]
  · intro r j h; simp [LState.init] at h
  · intro k ht v h; simp [HState.init] at h
  · intro r p hp _; exact initHeap_get defs r p hp

/-- on both sides a missing handle is answered by `fault` and a zero table -/
theorem handles_none_iff (I : Inv defs hs vs ls) (k : Nat) : hs.handles[k]? = none ↔ vs.handles[k]? = none := by
  simp only [List.getElem?_eq_none_iff, I.len1]

section step
variable {κ : Type} (cmp : Table → Table → κ → Outcome Table)

theorem inv_get (I : Inv defs hs vs ls) (id : Nat) (ls' : LState) (hl : lstep defs ls (Op.get id : Op κ) = some ls') :
    Inv defs (hstep cmp hs (.get id)) (vstep addTable cmp defs vs (.get id)) ls' := by
  have L := lookup_defs defs 0 id
  cases hi : indexOfId defs id with
  | none =>
    rw [hi] at L
    simp only [lstep, hi, Option.some.injEq] at hl
    subst hl
    simp only [hstep, vstep, I.dflt, L.1, L.2]
    exact inv_push I zeroTable _
  | some r =>
    rw [hi] at L
    simp only [lstep, hi] at hl
    obtain ⟨t, h1, h2, h3⟩ := L
    simp only [Nat.zero_add] at h3
    split at hl
    · next ho =>
      simp only [Option.some.injEq] at hl
      subst hl
      have ho' : ls.owners.lookup r = none := by simpa using ho
      have hc := I.dclean r _ h1 ho'
      simp only [hstep, vstep, I.dflt, h2, h3, VState.push]
      have hd : deref hs.heap { startCodons := t.startCodons, stopCodons := t.stopCodons, aas := r } = some t := by
        simp [deref, hc]
      refine ⟨?_, rfl, I.next, ?_, ?_, I.ownlt, ?_, I.dclean⟩
      · simp [hd, obsOf, I.tr]
      · simp [I.len1]
      · simp [I.len2]
      · intro k ht w e1 e2
        have hl1 := I.len1
        have hl2 := I.len2
        rcases getElem?_snoc _ _ _ _ e1 with ⟨hk, e1'⟩ | ⟨hk, rfl⟩
        · have e2' : vs.handles[k]? = some w := by rwa [getElem?_snoc_lt _ _ _ (by omega)] at e2
          obtain ⟨a, b, c, cell, d, e, f⟩ := I.hnd k ht w e1' e2'
          refine ⟨?_, b, c, cell, d, e, ?_⟩
          · rw [getElem?_snoc_lt _ _ _ (by omega)]; exact a
          · intro hr; apply f; rw [← hr]; symm
            exact readable_snoc_lt ls _ _ k (by omega)
        · have hw : w = t := by
            rw [show k = vs.handles.length by omega] at e2
            simpa using e2.symm
          subst hw
          refine ⟨?_, rfl, rfl, w.aminoAcids, hc, rfl, fun _ => rfl⟩
          rw [show k = ls.regions.length by omega]; simp
    · cases hl

theorem inv_reweight (I : Inv defs hs vs ls) (h : Nat) (s : Str) (ls' : LState)
    (hl : lstep defs ls (Op.reweight h s : Op κ) = some ls') :
    Inv defs (hstep cmp hs (.reweight h s)) (vstep addTable cmp defs vs (.reweight h s)) ls' := by
  have hl1 := I.len1
  have hl2 := I.len2
  simp only [lstep] at hl
  cases e1 : hs.handles[h]? with
  | none =>
    have e2 := (handles_none_iff I h).1 e1
    have e3 : ls.regions[h]? = none := by
      rw [List.getElem?_eq_none_iff] at e2 ⊢; omega
    rw [e3] at hl
    simp only [Option.some.injEq] at hl
    subst hl
    simp only [hstep, vstep, e1, e2, HState.pushFault]
    exact inv_push I zeroTable _
  | some ht =>
    have hk := getElem?_lt_of_some e1
    have e2 : vs.handles[h]? = some vs.handles[h] := List.getElem?_eq_getElem (by omega)
    generalize vs.handles[h] = v at e2
    obtain ⟨a, b, c, cell, d, e, _⟩ := I.hnd h ht v e1 e2
    rw [a] at hl
    simp only [Option.some.injEq] at hl
    subst hl
    have hr : ht.aas < hs.heap.length := getElem?_lt_of_some d
    have hcell : optimizeCell s cell = (reweight v s).aminoAcids := optimizeCell_eq_reweight s cell v e
    have hnew : (hs.heap.set ht.aas (optimizeCell s cell))[ht.aas]? = some (optimizeCell s cell) := by
      simp [List.getElem?_set_self hr]
    have hd : deref (hs.heap.set ht.aas (optimizeCell s cell)) ht = some (reweight v s) := by
      simp only [deref, hnew]
      rw [hcell, b, c]; rfl
    simp only [hstep, vstep, e1, e2, d, VState.push]
    refine ⟨?_, I.dflt, ?_, ?_, ?_, ?_, ?_, ?_⟩
    · simp only [hd, obsOf, I.tr]
    · simp [I.next]
    · simp [I.len1]
    · simp [I.len2]
    · intro r j hh
      simp only [List.lookup] at hh
      split at hh
      · next hb => have : r = ht.aas := by simpa using hb
                   rw [this, I.next]; exact hr
      · exact I.ownlt r j hh
    · intro k ht' w f1 f2
      rcases getElem?_snoc _ _ _ _ f1 with ⟨hk', f1'⟩ | ⟨hk', rfl⟩
      · have f2' : vs.handles[k]? = some w := by rwa [getElem?_snoc_lt _ _ _ (by omega)] at f2
        obtain ⟨a', b', c', cell', d', e', g'⟩ := I.hnd k ht' w f1' f2'
        refine ⟨?_, b', c', ?_⟩
        · rw [getElem?_snoc_lt _ _ _ (by omega)]; exact a'
        · by_cases hsame : ht'.aas = ht.aas
          · refine ⟨optimizeCell s cell, ?_, ?_, ?_⟩
            · rw [hsame]; exact hnew
            · rw [eraseW_optimizeCell, ← e']
              rw [hsame, d] at d'
              simp only [Option.some.injEq] at d'
              rw [d']
            · intro hread
              exfalso
              simp only [LState.readable, getElem?_snoc_lt _ _ _ (show k < ls.regions.length by omega), a', hsame,
                List.lookup, beq_self_eq_true] at hread
              have : ls.regions.length = k := by simpa using hread
              omega
          · refine ⟨cell', ?_, e', ?_⟩
            · rw [List.getElem?_set_ne (fun hh => hsame hh.symm)]; exact d'
            · intro hread
              apply g'
              simp only [LState.readable, getElem?_snoc_lt _ _ _ (show k < ls.regions.length by omega), a',
                List.lookup] at hread ⊢
              have hb : (ht'.aas == ht.aas) = false := by simpa using hsame
              simpa [hb] using hread
      · have hw : w = reweight v s := by
          rw [show k = vs.handles.length by omega] at f2
          simpa using f2.symm
        subst hw
        refine ⟨?_, ?_, ?_, optimizeCell s cell, hnew, ?_, fun _ => hcell⟩
        · rw [show k = ls.regions.length by omega]; simp
        · simp [reweight, mapWeights, b]
        · simp [reweight, mapWeights, c]
        · rw [eraseW_optimizeCell, e, ← hcell, eraseW_optimizeCell, e]
    · intro r p hp ho
      simp only [List.lookup] at ho
      split at ho
      · cases ho
      · next hb =>
        have hne : ¬ r = ht.aas := by simpa using hb
        rw [List.getElem?_set_ne (fun hh => hne hh.symm)]
        exact I.dclean r p hp ho


theorem inv_step (I : Inv defs hs vs ls) (op : Op κ) (ls' : LState) (hl : lstep defs ls op = some ls') :
    Inv defs (hstep cmp hs op) (vstep addTable cmp defs vs op) ls' := by
  cases op with
  | get id => exact inv_get cmp I id ls' hl
  | reweight h s => exact inv_reweight cmp I h s ls' hl
  | add h1 h2 =>
    simp only [lstep] at hl
    split at hl
    · next hr =>
      simp only [Bool.and_eq_true] at hr
      simp only [Option.some.injEq] at hl
      subst hl
      simp only [hstep, vstep, read_eq I h1 hr.1, read_eq I h2 hr.2, HState.pushFault]
      cases vs.handles[h1]? <;> cases vs.handles[h2]? <;> exact inv_push I _ _
    · cases hl
  | compromise h1 h2 cut =>
    simp only [lstep] at hl
    split at hl
    · next hr =>
      simp only [Bool.and_eq_true] at hr
      simp only [Option.some.injEq] at hl
      subst hl
      simp only [hstep, vstep, read_eq I h1 hr.1, read_eq I h2 hr.2, HState.pushFault]
      cases vs.handles[h1]? <;> cases vs.handles[h2]? <;> try exact inv_push I _ _
      next t1 t2 => dsimp only; cases cmp t1 t2 cut <;> exact inv_push I _ _
    · cases hl
  | json h =>
    simp only [lstep] at hl
    split at hl
    · next hr =>
      simp only [Option.some.injEq] at hl
      subst hl
      simp only [hstep, vstep, read_eq I h hr, HState.pushFault]
      cases vs.handles[h]? <;> exact inv_push I _ _
    · cases hl
  | observe h =>
    simp only [lstep] at hl
    split at hl
    · next hr =>
      simp only [Option.some.injEq] at hl
      subst hl
      simp only [hstep, vstep, read_eq I h hr, HState.pushFault]
      cases vs.handles[h]? <;> exact inv_push I _ _
    · cases hl

/-- the refinement along a whole history -/
theorem inv_run (hist : List (Op κ)) : ∀ (hs : HState) (vs : VState) (ls : LState), Inv defs hs vs ls →
    linearFrom defs ls hist = true →
    (runHeapFrom cmp hs hist).trace = (hist.foldl (vstep addTable cmp defs) vs).trace := by
  induction hist with
  | nil => intro hs vs ls I _; exact I.tr
  | cons op rest ih =>
    intro hs vs ls I hl
    simp only [linearFrom] at hl
    cases h : lstep defs ls op with
    | none => rw [h] at hl; cases hl
    | some ls' =>
      rw [h] at hl
      simp only [runHeapFrom, List.foldl_cons]
      exact ih _ _ ls' (inv_step cmp I op ls' h) hl

end step

/-! heap writes of concurrent re-weighting -/

theorem writeAt_length (h : Heap) (a : Addr) (s : Str) : (writeAt h a s).length = h.length := by
  unfold writeAt; split <;> simp

theorem writeAt_get_ne (h : Heap) (a b : Addr) (s : Str) (hab : a ≠ b) : (writeAt h a s)[b]? = h[b]? := by
  unfold writeAt; split
  · rfl
  · exact List.getElem?_set_ne hab

theorem writeAt_of_none {h : Heap} {a : Addr} (s : Str) (ha : h[a]? = none) : writeAt h a s = h := by
  simp only [writeAt, ha]

theorem writeAt_of_some {h : Heap} {a : Addr} {c : List AminoAcid} (s : Str) (ha : h[a]? = some c) :
    writeAt h a s = h.set a (optimizeCell s c) := by
  simp only [writeAt, ha]

end PolyVerif.Lemmas.CodonRefine
