import Mathlib.Data.List.Nodup
import Mathlib.Data.List.Infix
import Mathlib.Tactic.Ring
import PolyVerif.Model.Barcodes
import PolyVerif.Spec.DeBruijn
import PolyVerif.Lemmas.DeBruijn
/-
Helper lemmas for C17, part 2: invariants of the two loops of CreateBarcodesWithBannedSequences.
-/
namespace PolyVerif.DeBruijn
open PolyVerif PolyVerif.Spec

/-! ### strings.Contains -/

theorem contains_iff_infix (s sub : Str) : contains s sub = true ↔ sub <:+: s := by
  induction s with
  | nil => simp [contains, List.isEmpty_iff]
  | cons c cs ih =>
    simp only [contains, Bool.or_eq_true, ih, List.infix_cons_iff, List.isPrefixOf_iff_prefix]

/-! ### the inner loop -/

theorem slice_eq_ok {db : Str} {s e : Nat} (h1 : s ≤ e) (h2 : e ≤ db.length) :
    slice db db.length s e = .ok ((db.drop s).take (e - s)) := by
  simp [slice, h1, h2]

theorem slice_ok_iff {db : Str} {s e : Nat} {w : Str} :
    slice db db.length s e = .ok w ↔ (s ≤ e ∧ e ≤ db.length) ∧ w = (db.drop s).take (e - s) := by
  unfold slice
  split
  · rename_i h; simp [h, eq_comm]
  · rename_i h; simp [h]

/-- what `break` means: the window was moved `k` places, stays inside `db`, and passes every check -/
theorem shiftLoop_found {db : Str} {bans : List Str} {filters : List (Str → Bool)}
    {fuel s e bn s' e' bn' : Nat} {rest : Str} (hrest : rest = db.drop s)
    (h : shiftLoop db.length bans filters fuel rest s e bn = .found s' e' bn') :
    ∃ k, s' = s + k ∧ e' = e + k ∧ bn' = bn + k ∧ s' ≤ e' ∧ e' ≤ db.length ∧
      rejected bans filters ((db.drop s').take (e' - s')) = false := by
  induction fuel generalizing s e bn rest with
  | zero => simp [shiftLoop] at h
  | succ fuel ih =>
    unfold shiftLoop at h
    split at h
    · rename_i hb
      split at h
      · rename_i hr
        simp only [Shift.found.injEq] at h
        obtain ⟨rfl, rfl, rfl⟩ := h
        subst hrest
        exact ⟨0, rfl, rfl, rfl, hb.1, hb.2, by simpa using hr⟩
      · split at h
        · simp at h
        · obtain ⟨k, a, b, c, d⟩ := ih (by rw [hrest, List.tail_drop]) h
          exact ⟨k + 1, by omega, by omega, by omega, d⟩
    · simp at h

/-- the inner loop neither panics nor runs out of fuel when it starts inside `db` with enough fuel -/
theorem shiftLoop_total {db : Str} {bans : List Str} {filters : List (Str → Bool)}
    {fuel s e bn : Nat} {rest : Str} (h1 : s ≤ e) (h2 : e ≤ db.length) (hf : db.length - e < fuel) :
    shiftLoop db.length bans filters fuel rest s e bn ≠ .panic ∧ shiftLoop db.length bans filters fuel rest s e bn ≠ .fuel := by
  induction fuel generalizing s e bn rest with
  | zero => omega
  | succ fuel ih =>
    unfold shiftLoop
    rw [if_pos ⟨h1, h2⟩]
    split
    · simp
    · split
      · simp
      · exact ih (by omega) (by omega) (by omega)

/-! ### the outer loop, for a positive stride -/

/-- one iteration of the outer loop when `stride` is a natural number -/
theorem outerLoop_succ (db : Str) (len st : Nat) (bans : List Str) (filters : List (Str → Bool)) (fuel bn : Nat) :
    outerLoop db db.length len (st : Int) bans filters (fuel + 1) bn =
      if bn * st + len < db.length then
        match shiftLoop db.length bans filters (db.length + 1) (db.drop (bn * st)) (bn * st) (bn * st + len) (bn + 1) with
        | .found s e bn' =>
          (slice db db.length s e).bind fun w =>
          (outerLoop db db.length len (st : Int) bans filters fuel bn').bind fun rest => .ok (w :: rest)
        | .atEnd => .ok []
        | .panic => .panic
        | .fuel => .fuel
      else .ok [] := by
  have e1 : ((bn : Int) * (st : Int) + (len : Int) < (db.length : Int)) ↔ bn * st + len < db.length := by
    norm_cast
  have e2 : ¬ ((bn : Int) * (st : Int) < 0) := by
    have : (0 : Int) ≤ (bn : Int) * (st : Int) := Int.mul_nonneg (Int.natCast_nonneg _) (Int.natCast_nonneg _)
    exact Int.not_lt.mpr this
  have e3 : ((bn : Int) * (st : Int)).toNat = bn * st := by
    rw [← Int.natCast_mul, Int.toNat_natCast]
  rw [outerLoop]
  simp only [e1, e2, e3, if_false]
  rfl

/-- the barcodes are the pieces of `db` at strictly increasing start positions, at least `stride` apart,
each inside `db` and passing every check -/
theorem outerLoop_spec {db : Str} {len st : Nat} {bans : List Str} {filters : List (Str → Bool)} (hst : 1 ≤ st)
    {fuel bn : Nat} {bs : List Str} (h : outerLoop db db.length len (st : Int) bans filters fuel bn = .ok bs) :
    ∃ starts : List Nat, bs = starts.map (fun p => (db.drop p).take len) ∧
      (∀ p ∈ starts, bn * st ≤ p ∧ p + len ≤ db.length ∧ rejected bans filters ((db.drop p).take len) = false) ∧
      starts.Pairwise (fun p q => p + st ≤ q) := by
  induction fuel generalizing bn bs with
  | zero => simp [outerLoop] at h
  | succ fuel ih =>
    rw [outerLoop_succ] at h
    split at h
    · split at h
      · rename_i s e bn' hsh
        obtain ⟨k, rfl, rfl, rfl, hse, hed, hrej⟩ := shiftLoop_found rfl hsh
        rw [slice_eq_ok hse hed] at h
        simp only [Res.bind] at h
        split at h
        · rename_i rest hrest
          simp only [Res.ok.injEq] at h
          subst h
          obtain ⟨starts, rfl, hall, hpw⟩ := ih hrest
          have hlen : bn * st + len + k - (bn * st + k) = len := by omega
          rw [hlen] at hrej ⊢
          refine ⟨(bn * st + k) :: starts, by simp, ?_, ?_⟩
          · intro p hp
            rcases List.mem_cons.mp hp with rfl | hp
            · exact ⟨by omega, by omega, hrej⟩
            · obtain ⟨a, b, c⟩ := hall p hp
              refine ⟨?_, b, c⟩
              have : bn * st ≤ (bn + 1 + k) * st := Nat.mul_le_mul_right _ (by omega)
              omega
          · refine List.pairwise_cons.mpr ⟨?_, hpw⟩
            intro q hq
            obtain ⟨a, _, _⟩ := hall q hq
            have e : (bn + 1 + k) * st = bn * st + st + k * st := by ring
            have : k ≤ k * st := Nat.le_mul_of_pos_right _ (by omega)
            omega
        · simp at h
        · simp at h
      · simp only [Res.ok.injEq] at h; subst h
        exact ⟨[], rfl, by simp, List.Pairwise.nil⟩
      · simp at h
      · simp at h
    · simp only [Res.ok.injEq] at h; subst h
      exact ⟨[], rfl, by simp, List.Pairwise.nil⟩

/-- termination and absence of panics: with a positive stride the outer loop returns a list -/
theorem outerLoop_total {db : Str} {len st : Nat} {bans : List Str} {filters : List (Str → Bool)} (hst : 1 ≤ st)
    {fuel bn : Nat} (hf1 : 1 ≤ fuel) (hf : db.length + 1 ≤ fuel + bn) :
    ∃ bs, outerLoop db db.length len (st : Int) bans filters fuel bn = .ok bs := by
  induction fuel generalizing bn with
  | zero => omega
  | succ fuel ih =>
    rw [outerLoop_succ]
    split
    · rename_i hc
      have hbn : bn ≤ bn * st := Nat.le_mul_of_pos_right _ (by omega)
      have ht := @shiftLoop_total db bans filters (db.length + 1) (bn * st) (bn * st + len) (bn + 1)
        (db.drop (bn * st)) (by omega) (by omega) (by omega)
      split
      · rename_i s e bn' hsh
        obtain ⟨k, rfl, rfl, rfl, hse, hed, _⟩ := shiftLoop_found rfl hsh
        rw [slice_eq_ok hse hed]
        obtain ⟨rest, hrest⟩ := @ih (bn + 1 + k) (by omega) (by omega)
        simp [Res.bind, hrest]
      · exact ⟨[], rfl⟩
      · rename_i hp; exact absurd hp ht.1
      · rename_i hp; exact absurd hp ht.2
    · exact ⟨[], rfl⟩

/-! ### the executable twin equals the model's loop -/

theorem suffixAt_eq {db cur : Str} {curPos : Nat} (h : cur = db.drop curPos) (start : Nat) :
    suffixAt db cur curPos start = db.drop start := by
  unfold suffixAt
  split
  · rename_i hle
    rw [h, List.drop_drop]; congr 1; omega
  · rfl

theorem outerLoopFast_eq (db : Str) (len : Nat) (stride : Int) (bans : List Str) (filters : List (Str → Bool))
    (fuel bn : Nat) (cur : Str) (curPos : Nat) (h : cur = db.drop curPos) :
    outerLoopFast db db.length len stride bans filters fuel bn cur curPos =
      outerLoop db db.length len stride bans filters fuel bn := by
  induction fuel generalizing bn cur curPos with
  | zero => rfl
  | succ fuel ih =>
    unfold outerLoopFast outerLoop
    simp only [suffixAt_eq h]
    split
    · split
      · rfl
      · split
        · rename_i s e bn' hsh
          obtain ⟨k, hs, _, _, _, _, _⟩ := shiftLoop_found rfl hsh
          have hd : (db.drop ((bn : Int) * stride).toNat).drop (s - ((bn : Int) * stride).toNat) = db.drop s := by
            rw [List.drop_drop]; congr 1; omega
          simp only [hd]
          rw [ih bn' (db.drop s) s rfl]
          rfl
        · rfl
        · rfl
        · rfl
    · rfl

/-! ### n-letter words inside a piece of `db` -/

/-- an `n`-letter word inside `db[p : p+len]` is the window of `db` at some position `q` with
`p ≤ q` and `q + n ≤ p + len` -/
theorem infix_piece {db w : Str} {p len n : Nat} (hp : p + len ≤ db.length) (hw : w.length = n)
    (h : w <:+: (db.drop p).take len) :
    ∃ q, p ≤ q ∧ q + n ≤ p + len ∧ w = (db.drop q).take n := by
  obtain ⟨a, b, hab⟩ := h
  have hlen : ((db.drop p).take len).length = len := by
    simp only [List.length_take, List.length_drop]; omega
  have hl : a.length + n + b.length = len := by
    rw [← hlen, ← hab]; simp [hw]; omega
  refine ⟨p + a.length, by omega, by omega, ?_⟩
  have h1 : ((db.drop p).take len).drop a.length = w ++ b := by
    rw [← hab]; simp
  have h2 : (((db.drop p).take len).drop a.length).take n = w := by
    rw [h1, ← hw]; simp
  rw [← h2, List.drop_take, List.drop_drop, List.take_take]
  congr 1
  omega

end PolyVerif.DeBruijn
