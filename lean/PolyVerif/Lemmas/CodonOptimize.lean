import Mathlib.Data.List.Nodup
import PolyVerif.Lemmas.NcbiTables
import PolyVerif.Model.CodonOptimize
/-
Helper lemmas for C07: binary search, running totals, the weighted pick, the chooser map, the Optimize loop.
-/
namespace PolyVerif.CodonOptimize
open PolyVerif PolyVerif.Codon PolyVerif.CodonTranslate

/-! ### sort.Search -/

/-- `sort.Search` on a predicate that is monotone on `[0,n)` returns the least index where it holds (`n` if none) -/
theorem searchLoop_spec (f : Nat → Bool) (n : Nat)
    (mono : ∀ a b, a ≤ b → b < n → f a = true → f b = true) :
    ∀ (fuel i j : Nat), i ≤ j → j ≤ n → j - i < fuel →
      (∀ k, k < i → f k = false) → (∀ k, j ≤ k → k < n → f k = true) →
      let r := searchLoop f fuel i j
      i ≤ r ∧ r ≤ j ∧ (∀ k, k < r → f k = false) ∧ (∀ k, r ≤ k → k < n → f k = true) := by
  intro fuel
  induction fuel with
  | zero => intro i j _ _ h; omega
  | succ fuel ih =>
    intro i j hij hjn hfuel hlo hhi
    simp only [searchLoop]
    by_cases hlt : i < j
    · simp only [hlt, if_true]
      have hh1 : i ≤ (i + j) / 2 := by omega
      have hh2 : (i + j) / 2 < j := by omega
      cases hf : f ((i + j) / 2) with
      | false =>
        simp only [Bool.not_false, if_true]
        have := ih ((i + j) / 2 + 1) j (by omega) hjn (by omega)
          (by
            intro k hk
            cases hfk : f k with
            | false => rfl
            | true =>
              have := mono k ((i + j) / 2) (by omega) (by omega) hfk
              rw [hf] at this; cases this)
          hhi
        obtain ⟨a, b, c, d⟩ := this
        exact ⟨by omega, b, c, d⟩
      | true =>
        simp only [Bool.not_true, Bool.false_eq_true, if_false]
        have := ih i ((i + j) / 2) hh1 (by omega) (by omega) hlo
          (by intro k hk hkn; exact mono _ k hk hkn hf)
        obtain ⟨a, b, c, d⟩ := this
        exact ⟨a, by omega, c, d⟩
    · simp only [hlt, if_false]
      have : i = j := by omega
      subst this
      exact ⟨Nat.le_refl _, Nat.le_refl _, hlo, hhi⟩

/-! ### running totals -/

theorem runningTotals_length : ∀ (acc : Int) (d : List Choice), (runningTotals acc d).length = d.length
  | _, [] => rfl
  | acc, c :: cs => by simp [runningTotals, runningTotals_length (acc + c.weight) cs]

/-- every later total is at least an earlier one when the weights are non-negative -/
theorem runningTotals_ge : ∀ (acc : Int) (d : List Choice), (∀ c ∈ d, 0 ≤ c.weight) →
    ∀ v ∈ runningTotals acc d, acc ≤ v
  | _, [], _, v, hv => by cases hv
  | acc, c :: cs, h, v, hv => by
    simp only [runningTotals, List.mem_cons] at hv
    have hc := h c List.mem_cons_self
    rcases hv with rfl | hv
    · omega
    · have := runningTotals_ge (acc + c.weight) cs (fun x hx => h x (List.mem_cons_of_mem _ hx)) v hv
      omega

theorem runningTotals_mono : ∀ (acc : Int) (d : List Choice), (∀ c ∈ d, 0 ≤ c.weight) →
    ∀ (a b : Nat) (hab : a ≤ b) (hb : b < (runningTotals acc d).length),
      (runningTotals acc d)[a]'(by omega) ≤ (runningTotals acc d)[b]
  | _, [], _, _, b, _, hb => by simp [runningTotals] at hb
  | acc, c :: cs, h, a, b, hab, hb => by
    have hcs : ∀ x ∈ cs, 0 ≤ x.weight := fun x hx => h x (List.mem_cons_of_mem _ hx)
    match a, b with
    | 0, 0 => exact Int.le_refl _
    | 0, b + 1 =>
      simp only [runningTotals, List.getElem_cons_zero, List.getElem_cons_succ]
      exact runningTotals_ge _ cs hcs _ (List.getElem_mem _)
    | a + 1, 0 => omega
    | a + 1, b + 1 =>
      simp only [runningTotals, List.getElem_cons_succ]
      exact runningTotals_mono _ cs hcs a b (by omega) (by simpa [runningTotals] using hb)

/-! ### the weighted pick as a linear scan -/

/-- first choice whose running total reaches `r` -/
def linPick : List Choice → Int → Option Choice
  | [], _ => none
  | c :: cs, r => if r ≤ c.weight then some c else linPick cs (r - c.weight)

/-- the element at the least index whose running total is `≥ x` is what the linear scan finds -/
theorem linPick_index : ∀ (d : List Choice) (acc x : Int) (r : Nat), r ≤ d.length →
    (∀ k (hk : k < (runningTotals acc d).length), k < r → (runningTotals acc d)[k] < x) →
    (∀ (hr : r < (runningTotals acc d).length), x ≤ (runningTotals acc d)[r]) →
    d[r]? = linPick d (x - acc)
  | [], _, _, r, hr, _, _ => by
    have : r = 0 := by simpa using hr
    subst this; rfl
  | c :: cs, acc, x, 0, _, _, hhi => by
    have := hhi (by simp [runningTotals])
    simp only [runningTotals, List.getElem_cons_zero] at this
    have h : x - acc ≤ c.weight := by omega
    simp [linPick, h]
  | c :: cs, acc, x, r + 1, hr, hlo, hhi => by
    have h0 := hlo 0 (by simp [runningTotals]) (by omega)
    simp only [runningTotals, List.getElem_cons_zero] at h0
    have h : ¬ (x - acc ≤ c.weight) := by omega
    simp only [linPick, h, if_false, List.getElem?_cons_succ]
    have e : x - acc - c.weight = x - (acc + c.weight) := by omega
    rw [e]
    apply linPick_index cs (acc + c.weight) x r (by simpa using hr)
    · intro k hk hkr
      have := hlo (k + 1) (by simp [runningTotals]; exact hk) (by omega)
      simpa [runningTotals] using this
    · intro hr'
      have := hhi (by simp [runningTotals]; exact hr')
      simpa [runningTotals] using this

theorem geAt_mono (a : List Int) (x : Int)
    (mono : ∀ (i j : Nat) (hij : i ≤ j) (hj : j < a.length), a[i]'(by omega) ≤ a[j]) :
    ∀ i j, i ≤ j → j < a.length → geAt a x i = true → geAt a x j = true := by
  intro i j hij hj h
  have hi : i < a.length := by omega
  simp only [geAt, List.getElem?_eq_getElem hi, List.getElem?_eq_getElem hj, decide_eq_true_eq] at h ⊢
  have := mono i j hij hj
  omega

/-- `data[SearchInts(totals, x)]` is the linear scan, for non-negative weights -/
theorem search_eq_linPick (d : List Choice) (hd : ∀ c ∈ d, 0 ≤ c.weight) (x : Int) :
    d[searchInts (runningTotals 0 d) x]? = linPick d x := by
  have hlen := runningTotals_length 0 d
  have mono := runningTotals_mono 0 d hd
  have spec := searchLoop_spec (geAt (runningTotals 0 d) x) (runningTotals 0 d).length
    (geAt_mono _ x mono) ((runningTotals 0 d).length + 1) 0 (runningTotals 0 d).length
    (Nat.zero_le _) (Nat.le_refl _) (by omega) (by intro k hk; omega) (by intro k hk hk'; omega)
  simp only at spec
  obtain ⟨_, hr, hlo, hhi⟩ := spec
  have hsi : searchInts (runningTotals 0 d) x = searchLoop (geAt (runningTotals 0 d) x)
      ((runningTotals 0 d).length + 1) 0 (runningTotals 0 d).length := rfl
  rw [← hsi] at hr hlo hhi
  have := linPick_index d 0 x (searchInts (runningTotals 0 d) x) (by rw [← hlen]; exact hr)
    (by
      intro k hk hkr
      have := hlo k hkr
      simp only [geAt, List.getElem?_eq_getElem hk, decide_eq_false_iff_not] at this
      omega)
    (by
      intro hr'
      have := hhi _ (Nat.le_refl _) hr'
      simp only [geAt, List.getElem?_eq_getElem hr', decide_eq_true_eq] at this
      omega)
  simpa using this

theorem linPick_mem : ∀ (d : List Choice) (r : Int) (c : Choice), linPick d r = some c → c ∈ d
  | [], _, _, h => by cases h
  | c0 :: cs, r, c, h => by
    simp only [linPick] at h
    split at h
    · cases h; exact List.mem_cons_self
    · exact List.mem_cons_of_mem _ (linPick_mem cs _ c h)

def sumW (d : List Choice) : Int := (d.map (·.weight)).sum

theorem linPick_some : ∀ (d : List Choice) (r : Int), 1 ≤ r → r ≤ sumW d → ∃ c, linPick d r = some c
  | [], r, h1, h2 => by simp [sumW] at h2; omega
  | c0 :: cs, r, h1, h2 => by
    simp only [linPick]
    split
    · exact ⟨c0, rfl⟩
    · rename_i h
      apply linPick_some cs (r - c0.weight) (by omega)
      simp only [sumW, List.map_cons, List.sum_cons] at h2 ⊢
      omega

theorem sumW_nonneg : ∀ (d : List Choice), (∀ c ∈ d, 0 ≤ c.weight) → 0 ≤ sumW d
  | [], _ => by simp [sumW]
  | c :: cs, h => by
    have := sumW_nonneg cs (fun x hx => h x (List.mem_cons_of_mem _ hx))
    have := h c List.mem_cons_self
    simp only [sumW, List.map_cons, List.sum_cons] at *
    omega

/-- the exact count behind "in proportion to its weight": of the draws `1 … S` (S = total weight),
exactly `w(c)` select `c` -/
theorem linPick_count : ∀ (d : List Choice), (∀ c ∈ d, 0 ≤ c.weight) → d.Nodup → ∀ c : Choice,
    ((List.range' 1 (sumW d).toNat).countP fun (r : Nat) => decide (linPick d (r : Int) = some c)) =
      if c ∈ d then c.weight.toNat else 0
  | [], _, _, c => by simp [sumW]
  | c0 :: cs, hw, hnd, c => by
    have hw0 := hw c0 List.mem_cons_self
    have hws : ∀ x ∈ cs, 0 ≤ x.weight := fun x hx => hw x (List.mem_cons_of_mem _ hx)
    have hS := sumW_nonneg cs hws
    have ih := linPick_count cs hws (List.nodup_cons.1 hnd).2 c
    have hsplit : (sumW (c0 :: cs)).toNat = c0.weight.toNat + (sumW cs).toNat := by
      simp only [sumW, List.map_cons, List.sum_cons] at hS ⊢
      omega
    rw [hsplit, ← List.range'_append_1, List.countP_append]
    -- first block: draws 1 … w0 select c0
    have h1 : ((List.range' 1 c0.weight.toNat).countP fun (r : Nat) => decide (linPick (c0 :: cs) (r : Int) = some c)) =
        if c = c0 then c0.weight.toNat else 0 := by
      have : ∀ r ∈ List.range' 1 c0.weight.toNat, linPick (c0 :: cs) (r : Int) = some c0 := by
        intro r hr
        have := List.mem_range'_1.1 hr
        have : (r : Int) ≤ c0.weight := by omega
        simp [linPick, this]
      by_cases hc : c = c0
      · subst hc
        simp only [if_true]
        rw [List.countP_eq_length.2]
        · simp
        · intro r hr; simp [this r hr]
      · simp only [hc, if_false]
        rw [List.countP_eq_zero]
        intro r hr
        simp only [this r hr, decide_eq_true_eq, Option.some.injEq]
        exact fun h => hc h.symm
    -- second block: draws w0+1 … w0+S' are the draws 1 … S' of the tail
    have h2 : ((List.range' (1 + c0.weight.toNat) (sumW cs).toNat).countP
        fun (r : Nat) => decide (linPick (c0 :: cs) (r : Int) = some c)) =
        ((List.range' 1 (sumW cs).toNat).countP fun (r : Nat) => decide (linPick cs (r : Int) = some c)) := by
      have hmap : List.range' (1 + c0.weight.toNat) (sumW cs).toNat =
          (List.range' 1 (sumW cs).toNat).map (c0.weight.toNat + ·) := by
        rw [List.map_add_range', Nat.add_comm]
      rw [hmap, List.countP_map]
      apply List.countP_congr
      intro r hr
      have hr1 := (List.mem_range'_1.1 hr).1
      have hn : ¬ (((c0.weight.toNat + r : Nat) : Int) ≤ c0.weight) := by omega
      have he : ((c0.weight.toNat + r : Nat) : Int) - c0.weight = (r : Int) := by omega
      simp only [Function.comp, linPick, hn, if_false, he]
    rw [h1, h2, ih]
    have hnin : c0 ∉ cs := (List.nodup_cons.1 hnd).1
    by_cases hc : c = c0
    · subst hc; simp [hnin]
    · simp [hc]

/-! ### the share test -/

theorem shareTest_pos {w s : Int} (hs : 0 ≤ s) (h : shareTest w s = true) : 10 * w > s ∧ w > 0 := by
  simp only [shareTest] at h
  split at h
  · have := of_decide_eq_true h; omega
  · split at h
    · omega
    · have := of_decide_eq_true h; omega

theorem sumWeights_nonneg (a : AminoAcid) (h : ∀ c ∈ a.codons, 0 ≤ c.weight) : 0 ≤ sumWeights a := by
  unfold sumWeights
  generalize a.codons = l at h
  induction l with
  | nil => simp
  | cons c cs ih =>
    have := ih (fun x hx => h x (List.mem_cons_of_mem _ hx))
    have := h c List.mem_cons_self
    simp only [List.map_cons, List.sum_cons]
    omega

/-- a choice of an amino acid is one of its codons, above the 10 % share and of positive weight -/
theorem mem_choices {a : AminoAcid} (hn : ∀ c ∈ a.codons, 0 ≤ c.weight) {ch : Choice} (h : ch ∈ choices a) :
    ∃ c ∈ a.codons, ch = { item := c.triplet, weight := c.weight } ∧ 10 * c.weight > sumWeights a ∧ c.weight > 0 := by
  simp only [choices, List.mem_map, List.mem_filter] at h
  obtain ⟨c, ⟨hc, ht⟩, rfl⟩ := h
  exact ⟨c, hc, rfl, shareTest_pos (sumWeights_nonneg a hn) ht⟩

/-! ### the chooser map -/

theorem mem_chooserMap {sorter : List Choice → List Choice} {t : Table} {l : Str} {ch : Chooser}
    (h : (l, ch) ∈ chooserMap sorter t) :
    ∃ a ∈ t.aminoAcids, a.letter = l ∧ choices a ≠ [] ∧ ch = newChooser sorter (choices a) := by
  simp only [chooserMap, List.mem_filterMap] at h
  obtain ⟨a, ha, hs⟩ := h
  split at hs
  · rename_i hpos
    simp only [Option.some.injEq, Prod.mk.injEq] at hs
    exact ⟨a, ha, hs.1, by intro h0; simp [h0] at hpos, hs.2.symm⟩
  · cases hs

theorem chooserMap_none_iff (sorter : List Choice → List Choice) (t : Table) (l : Str) :
    mapGet (chooserMap sorter t) l = none ↔ hasChooser t l = false := by
  rw [mapGet_none_iff]
  constructor
  · intro h
    rw [Bool.eq_false_iff]
    intro hc
    simp only [hasChooser, List.any_eq_true, Bool.and_eq_true, beq_iff_eq, decide_eq_true_eq] at hc
    obtain ⟨a, ha, hl, hpos⟩ := hc
    apply h (a.letter, newChooser sorter (choices a))
    · simp only [chooserMap, List.mem_filterMap]
      exact ⟨a, ha, by simp [hpos]⟩
    · exact hl
  · intro h e he hel
    obtain ⟨a, ha, hl, hne, _⟩ := mem_chooserMap (l := e.1) (ch := e.2) he
    have : hasChooser t l = true := by
      simp only [hasChooser, List.any_eq_true, Bool.and_eq_true, beq_iff_eq, decide_eq_true_eq]
      exact ⟨a, ha, hl.trans hel, List.length_pos_iff.2 hne⟩
    rw [h] at this; cases this

/-- what a pick can return, for a chooser built from an amino acid with non-negative weights by any sorter
that permutes its input, on an in-range draw -/
theorem pick_spec {sorter : List Choice → List Choice} (hperm : ∀ l, (sorter l).Perm l)
    {a : AminoAcid} (hn : ∀ c ∈ a.codons, 0 ≤ c.weight) {r : Nat}
    (h1 : 1 ≤ r) (h2 : (r : Int) ≤ (newChooser sorter (choices a)).max) :
    ∃ c ∈ a.codons, pick (newChooser sorter (choices a)) r = .ok c.triplet ∧
      10 * c.weight > sumWeights a ∧ c.weight > 0 := by
  have hdata : ∀ ch ∈ sorter (choices a), 0 ≤ ch.weight := by
    intro ch hch
    obtain ⟨c, _, rfl, _, hpos⟩ := mem_choices hn ((hperm _).mem_iff.1 hch)
    exact Int.le_of_lt hpos
  have hmax : (newChooser sorter (choices a)).max = sumW (sorter (choices a)) := rfl
  obtain ⟨ch, hch⟩ := linPick_some (sorter (choices a)) r (by omega) (by rw [← hmax]; exact h2)
  have hmem := linPick_mem _ _ _ hch
  obtain ⟨c, hc, rfl, hshare, hpos⟩ := mem_choices hn ((hperm _).mem_iff.1 hmem)
  refine ⟨c, hc, ?_, hshare, hpos⟩
  have hpos' : ¬ (newChooser sorter (choices a)).max ≤ 0 := by omega
  simp only [pick, hpos', if_false]
  have : (newChooser sorter (choices a)).data[searchInts (newChooser sorter (choices a)).totals (r : Int)]? =
      linPick (sorter (choices a)) r := search_eq_linPick (sorter (choices a)) hdata r
  rw [this, hch]

end PolyVerif.CodonOptimize

namespace PolyVerif.CodonOptimize
open PolyVerif PolyVerif.Codon PolyVerif.CodonTranslate

/-! ### the Optimize loop -/

/-- `cs` is a possible codon list for the protein `p`: position by position, a codon of a table entry
named by the residue, with a share above 10 % among the entry's codons and a positive weight -/
def Emits (t : Table) : Str → List Str → Prop
  | [], [] => True
  | aa :: p, c :: cs =>
    (∃ a ∈ t.aminoAcids, a.letter = [aa] ∧ ∃ cd ∈ a.codons, cd.triplet = c ∧
        10 * cd.weight > sumWeights a ∧ cd.weight > 0) ∧ Emits t p cs
  | _, _ => False

theorem chooser_of_get {sorter : List Choice → List Choice} {t : Table} {l : Str} {ch : Chooser}
    (h : mapGet (chooserMap sorter t) l = some ch) :
    ∃ a ∈ t.aminoAcids, a.letter = l ∧ ch = newChooser sorter (choices a) := by
  obtain ⟨a, ha, hl, _, hc⟩ := mem_chooserMap (mapGet_some_mem _ _ _ h)
  exact ⟨a, ha, hl, hc⟩

theorem optimizeLoop_ok {sorter : List Choice → List Choice} (hperm : ∀ l, (sorter l).Perm l)
    {t : Table} (hn : NonNeg t) : ∀ (p : Str) (rs : List Nat) (acc : Str),
    DrawsOK (chooserMap sorter t) p rs → (∀ aa ∈ p, hasChooser t [aa] = true) →
    ∃ cs, Emits t p cs ∧ optimizeLoop (chooserMap sorter t) p rs acc = some (.ok (acc ++ cs.flatten))
  | [], rs, acc, _, _ => ⟨[], trivial, by simp [optimizeLoop]⟩
  | aa :: rest, rs, acc, hd, henc => by
    cases hget : mapGet (chooserMap sorter t) [aa] with
    | none =>
      have := (chooserMap_none_iff sorter t [aa]).1 hget
      rw [henc aa List.mem_cons_self] at this; cases this
    | some ch =>
      obtain ⟨a, ha, hl, rfl⟩ := chooser_of_get hget
      simp only [DrawsOK, hget] at hd
      match rs, hd with
      | r :: rs', ⟨⟨h1, h2⟩, hd'⟩ =>
        obtain ⟨c, hc, hpick, hshare, hpos⟩ := pick_spec hperm (hn a ha) h1 h2
        obtain ⟨cs, hem, hloop⟩ := optimizeLoop_ok hperm hn rest rs' (acc ++ c.triplet) hd'
          (fun x hx => henc x (List.mem_cons_of_mem _ hx))
        refine ⟨c.triplet :: cs, ⟨⟨a, ha, hl, c, hc, rfl, hshare, hpos⟩, hem⟩, ?_⟩
        have hmax : ¬ (newChooser sorter (choices a)).max ≤ 0 := by omega
        simp only [optimizeLoop, hget, hmax, if_false, hpick, hloop, List.flatten_cons, List.append_assoc]

theorem optimizeLoop_err {sorter : List Choice → List Choice} (hperm : ∀ l, (sorter l).Perm l)
    {t : Table} (hn : NonNeg t) : ∀ (p : Str) (rs : List Nat) (acc : Str),
    DrawsOK (chooserMap sorter t) p rs → (∃ aa ∈ p, hasChooser t [aa] = false) →
    optimizeLoop (chooserMap sorter t) p rs acc = some .err
  | [], _, _, _, h => by obtain ⟨_, h, _⟩ := h; cases h
  | aa :: rest, rs, acc, hd, hbad => by
    cases hget : mapGet (chooserMap sorter t) [aa] with
    | none => simp [optimizeLoop, hget]
    | some ch =>
      obtain ⟨a, ha, hl, rfl⟩ := chooser_of_get hget
      simp only [DrawsOK, hget] at hd
      have hbad' : ∃ x ∈ rest, hasChooser t [x] = false := by
        obtain ⟨x, hx, hxb⟩ := hbad
        rcases List.mem_cons.1 hx with rfl | hx
        · have := (chooserMap_none_iff sorter t [x]).2 hxb
          rw [hget] at this; cases this
        · exact ⟨x, hx, hxb⟩
      match rs, hd with
      | r :: rs', ⟨⟨h1, h2⟩, hd'⟩ =>
        obtain ⟨c, _, hpick, _, _⟩ := pick_spec hperm (hn a ha) h1 h2
        have hmax : ¬ (newChooser sorter (choices a)).max ≤ 0 := by omega
        simp only [optimizeLoop, hget, hmax, if_false, hpick]
        exact optimizeLoop_err hperm hn rest rs' _ hd' hbad'

theorem emits_length (t : Table) : ∀ (p : Str) (cs : List Str), Emits t p cs → cs.length = p.length
  | [], [], _ => rfl
  | [], _ :: _, h => by cases h
  | _ :: _, [], h => by cases h
  | _ :: p, _ :: cs, h => by simp [emits_length t p cs h.2]

/-- every emitted codon is one of the table's triplets, and the table reads it back as the residue -/
theorem emits_codons {t : Table} (hp : Partition t) : ∀ (p : Str) (cs : List Str), Emits t p cs →
    (∀ c ∈ cs, c ∈ all64) ∧ cs.flatMap (aaOf t) = p
  | [], [], _ => by simp
  | [], _ :: _, h => by cases h
  | _ :: _, [], h => by cases h
  | aa :: p, c :: cs, h => by
    obtain ⟨⟨a, ha, hl, cd, hcd, rfl, _, _⟩, hrest⟩ := h
    obtain ⟨ih1, ih2⟩ := emits_codons hp p cs hrest
    have hmem : (cd.triplet, a.letter) ∈ translationMap t := by
      simp only [translationMap, List.mem_flatMap, List.mem_map]
      exact ⟨a, ha, cd, hcd, rfl⟩
    have hin : cd.triplet ∈ all64 := by
      apply hp.2.1
      rw [triplets_eq_keys]
      exact List.mem_map_of_mem (f := (·.1)) hmem
    have hnd : ((translationMap t).map (·.1)).Nodup := by rw [← triplets_eq_keys]; exact hp.1
    have hg := mapGet_of_nodup (translationMap t) _ _ hnd hmem
    refine ⟨?_, ?_⟩
    · intro x hx
      rcases List.mem_cons.1 hx with rfl | hx
      · exact hin
      · exact ih1 x hx
    · simp only [List.flatMap_cons, ih2, aaOf, mapGetStr, all64_upper _ hin, hg, hl]
      rfl

theorem partition_nonempty {t : Table} (hp : Partition t) : emptyTable t = false := by
  have h : "TTT".toList ∈ triplets t := hp.2.2 _ (by decide)
  cases ha : t.aminoAcids with
  | nil => simp [triplets, ha] at h
  | cons a as => simp [emptyTable, ha]

end PolyVerif.CodonOptimize

namespace PolyVerif.CodonOptimize
open PolyVerif PolyVerif.Codon PolyVerif.CodonTranslate

/-! ### the set of possible outputs -/

theorem mapGet_map {β γ : Type} (f : β → γ) : ∀ (m : List (Str × β)) (k : Str),
    mapGet (m.map fun e => (e.1, f e.2)) k = (mapGet m k).map f
  | [], _ => rfl
  | (k', v) :: rest, k => by
    simp only [List.map_cons, mapGet, mapGet_map f rest k]
    cases mapGet rest k with
    | some x => rfl
    | none =>
      simp only [Option.map_none]
      split <;> rfl

theorem chooserMap_eq_map (sorter : List Choice → List Choice) (t : Table) :
    chooserMap sorter t = (choiceMap t).map fun e => (e.1, newChooser sorter e.2) := by
  simp only [chooserMap, choiceMap, List.map_filterMap]
  congr 1
  funext a
  split <;> rfl

theorem chooserMap_get (sorter : List Choice → List Choice) (t : Table) (k : Str) :
    mapGet (chooserMap sorter t) k = (mapGet (choiceMap t) k).map (newChooser sorter) := by
  rw [chooserMap_eq_map, mapGet_map]

theorem choiceMap_get {t : Table} {k : Str} {l : List Choice} (h : mapGet (choiceMap t) k = some l) :
    ∃ a ∈ t.aminoAcids, a.letter = k ∧ l = choices a := by
  have := mapGet_some_mem _ _ _ h
  simp only [choiceMap, List.mem_filterMap] at this
  obtain ⟨a, ha, hs⟩ := this
  split at hs
  · simp only [Option.some.injEq, Prod.mk.injEq] at hs
    exact ⟨a, ha, hs.1, hs.2.symm⟩
  · cases hs

theorem choices_triplet_nodup {t : Table} (hp : Partition t) {a : AminoAcid} (ha : a ∈ t.aminoAcids) :
    (a.codons.map (·.triplet)).Nodup := by
  have h := hp.1
  simp only [triplets] at h
  exact (List.nodup_flatMap.1 h).1 a ha

theorem choices_nodup {t : Table} (hp : Partition t) {a : AminoAcid} (ha : a ∈ t.aminoAcids) : (choices a).Nodup := by
  have : ((choices a).map (·.item)).Nodup := by
    simp only [choices, List.map_map]
    exact (List.Sublist.map _ List.filter_sublist).nodup (choices_triplet_nodup hp ha)
  exact List.Nodup.of_map _ this

theorem choices_item_mem {t : Table} (hp : Partition t) {a : AminoAcid} (ha : a ∈ t.aminoAcids) {ch : Choice}
    (h : ch ∈ choices a) : ch.item ∈ all64 := by
  simp only [choices, List.mem_map, List.mem_filter] at h
  obtain ⟨c, ⟨hc, _⟩, rfl⟩ := h
  apply hp.2.1
  simp only [triplets, List.mem_flatMap, List.mem_map]
  exact ⟨a, ha, c, hc, rfl⟩

/-- every choice of positive weight is selected by some in-range draw -/
theorem exists_draw (d : List Choice) (hw : ∀ c ∈ d, 0 ≤ c.weight) (hnd : d.Nodup) {c : Choice} (hc : c ∈ d)
    (hpos : 0 < c.weight) : ∃ r : Nat, 1 ≤ r ∧ (r : Int) ≤ sumW d ∧ linPick d (r : Int) = some c := by
  have hcount := linPick_count d hw hnd c
  simp only [hc, if_true] at hcount
  have : 0 < (List.range' 1 (sumW d).toNat).countP fun (r : Nat) => decide (linPick d (r : Int) = some c) := by
    rw [hcount]; omega
  obtain ⟨r, hr, hp⟩ := List.countP_pos_iff.1 this
  have := List.mem_range'_1.1 hr
  have hS := sumW_nonneg d hw
  exact ⟨r, this.1, by omega, of_decide_eq_true hp⟩

/-- a pick on an in-range draw is the linear scan -/
theorem pick_eq_linPick (sorter : List Choice → List Choice) (cs : List Choice) (hw : ∀ c ∈ sorter cs, 0 ≤ c.weight)
    {r : Nat} (h1 : 1 ≤ r) (h2 : (r : Int) ≤ (newChooser sorter cs).max) :
    pick (newChooser sorter cs) r =
      match linPick (sorter cs) (r : Int) with
      | some c => .ok c.item
      | none => .panic := by
  have hpos : ¬ (newChooser sorter cs).max ≤ 0 := by omega
  have hs : (newChooser sorter cs).data[searchInts (newChooser sorter cs).totals (r : Int)]? = linPick (sorter cs) r :=
    search_eq_linPick (sorter cs) hw r
  simp only [pick, hpos, if_false, hs]
  cases linPick (sorter cs) (r : Int) <;> rfl

/-- position by position, the codon is an item of positive weight of the choices stored under the residue -/
def PosOK (M : List (Str × List Choice)) : Str → List Str → Prop
  | [], [] => True
  | aa :: p, c :: cs => (∃ l, mapGet M [aa] = some l ∧ ∃ ch ∈ l, ch.item = c ∧ 0 < ch.weight) ∧ PosOK M p cs
  | _, _ => False

theorem memberLoop_iff (M : List (Str × List Choice)) : ∀ (p : Str) (cs : List Str),
    memberLoop M p cs = true ↔ PosOK M p cs
  | [], [] => by simp [memberLoop, PosOK]
  | [], _ :: _ => by simp [memberLoop, PosOK]
  | _ :: _, [] => by simp [memberLoop, PosOK]
  | aa :: p, c :: cs => by
    simp only [memberLoop, PosOK, Bool.and_eq_true, memberLoop_iff M p cs]
    apply and_congr_left'
    cases mapGet M [aa] with
    | none => simp
    | some l => simp [List.any_eq_true]

theorem posOK_length (M : List (Str × List Choice)) : ∀ (p : Str) (cs : List Str), PosOK M p cs → cs.length = p.length
  | [], [], _ => rfl
  | [], _ :: _, h => by cases h
  | _ :: _, [], h => by cases h
  | _ :: p, _ :: cs, h => by simp [posOK_length M p cs h.2]

section
variable {sorter : List Choice → List Choice} (hperm : ∀ l, (sorter l).Perm l) {t : Table} (hwf : WF t)
include hperm hwf

theorem sorted_choices_facts {a : AminoAcid} (ha : a ∈ t.aminoAcids) :
    (∀ c ∈ sorter (choices a), 0 < c.weight) ∧ (sorter (choices a)).Nodup := by
  refine ⟨?_, ((hperm _).nodup_iff).2 (choices_nodup hwf.1 ha)⟩
  intro ch hch
  obtain ⟨c, _, rfl, _, hpos⟩ := mem_choices (hwf.2.1 a ha) ((hperm _).mem_iff.1 hch)
  exact hpos

/-- every codon list that passes the membership test is produced by some in-range draws -/
theorem loop_of_posOK : ∀ (p : Str) (cs : List Str) (acc : Str), PosOK (choiceMap t) p cs →
    ∃ rs, DrawsOK (chooserMap sorter t) p rs ∧
      optimizeLoop (chooserMap sorter t) p rs acc = some (.ok (acc ++ cs.flatten))
  | [], [], acc, _ => ⟨[], trivial, by simp [optimizeLoop]⟩
  | [], _ :: _, _, h => by cases h
  | _ :: _, [], _, h => by cases h
  | aa :: p, c :: cs, acc, h => by
    obtain ⟨⟨l, hl, ch, hch, rfl, hpos⟩, hrest⟩ := h
    obtain ⟨a, ha, _, rfl⟩ := choiceMap_get hl
    obtain ⟨hw, hnd⟩ := sorted_choices_facts hperm hwf ha
    have hw' : ∀ c ∈ sorter (choices a), 0 ≤ c.weight := fun c hc => Int.le_of_lt (hw c hc)
    obtain ⟨r, h1, h2, hlin⟩ := exists_draw (sorter (choices a)) hw' hnd ((hperm _).mem_iff.2 hch) hpos
    obtain ⟨rs, hd, hloop⟩ := loop_of_posOK p cs (acc ++ ch.item) hrest
    have hget : mapGet (chooserMap sorter t) [aa] = some (newChooser sorter (choices a)) := by
      rw [chooserMap_get, hl]; rfl
    have hmax : (newChooser sorter (choices a)).max = sumW (sorter (choices a)) := rfl
    have hpick := pick_eq_linPick sorter (choices a) hw' h1 (by rw [hmax]; exact h2)
    rw [hlin] at hpick
    refine ⟨r :: rs, ?_, ?_⟩
    · simp only [DrawsOK, hget]
      exact ⟨⟨h1, by rw [hmax]; exact h2⟩, hd⟩
    · have hm : ¬ (newChooser sorter (choices a)).max ≤ 0 := by rw [hmax]; omega
      simp only [optimizeLoop, hget, hm, if_false, hpick, hloop, List.flatten_cons, List.append_assoc]

/-- and everything the loop can return passes the membership test -/
theorem posOK_of_loop : ∀ (p : Str) (rs : List Nat) (acc out : Str), DrawsOK (chooserMap sorter t) p rs →
    optimizeLoop (chooserMap sorter t) p rs acc = some (.ok out) →
    ∃ cs, PosOK (choiceMap t) p cs ∧ out = acc ++ cs.flatten
  | [], _, acc, out, _, h => by
    simp only [optimizeLoop, Option.some.injEq, Outcome.ok.injEq] at h
    exact ⟨[], trivial, by simp [h]⟩
  | aa :: p, rs, acc, out, hd, h => by
    rw [optimizeLoop] at h
    cases hget : mapGet (chooserMap sorter t) [aa] with
    | none => simp [hget] at h
    | some chooser =>
      have hget' := hget
      rw [chooserMap_get] at hget'
      cases hl : mapGet (choiceMap t) [aa] with
      | none => simp [hl] at hget'
      | some l =>
        obtain ⟨a, ha, _, rfl⟩ := choiceMap_get hl
        simp only [hl, Option.map_some, Option.some.injEq] at hget'
        subst hget'
        simp only [DrawsOK, hget] at hd
        match rs, hd with
        | r :: rs', ⟨⟨h1, h2⟩, hd'⟩ =>
          obtain ⟨hw, _⟩ := sorted_choices_facts hperm hwf ha
          have hw' : ∀ c ∈ sorter (choices a), 0 ≤ c.weight := fun c hc => Int.le_of_lt (hw c hc)
          have hpick := pick_eq_linPick sorter (choices a) hw' h1 h2
          have hm : ¬ (newChooser sorter (choices a)).max ≤ 0 := by omega
          simp only [hget, hm, if_false] at h
          cases hlin : linPick (sorter (choices a)) (r : Int) with
          | none => simp [hpick, hlin] at h
          | some ch =>
            rw [hlin] at hpick
            simp only [hpick] at h
            obtain ⟨cs, hcs, hout⟩ := posOK_of_loop p rs' (acc ++ ch.item) out hd' h
            have hmem := linPick_mem _ _ _ hlin
            refine ⟨ch.item :: cs, ⟨⟨choices a, hl, ch, (hperm _).mem_iff.1 hmem, rfl, hw ch hmem⟩, hcs⟩, ?_⟩
            simp [hout, List.append_assoc]

end

theorem posOK_items {t : Table} (hp : Partition t) : ∀ (p : Str) (cs : List Str), PosOK (choiceMap t) p cs →
    ∀ c ∈ cs, c ∈ all64
  | [], [], _, c, hc => by cases hc
  | [], _ :: _, h, _, _ => by cases h
  | _ :: _, [], h, _, _ => by cases h
  | aa :: p, c :: cs, h, x, hx => by
    obtain ⟨⟨l, hl, ch, hch, rfl, _⟩, hrest⟩ := h
    obtain ⟨a, ha, _, rfl⟩ := choiceMap_get hl
    rcases List.mem_cons.1 hx with rfl | hx
    · exact choices_item_mem hp ha hch
    · exact posOK_items hp p cs hrest x hx

theorem flatten_chunks3 : ∀ (s : Str), s.length % 3 = 0 → (chunks3 s).flatten = s
  | [], _ => rfl
  | [_], h => by simp at h
  | [_, _], h => by simp at h
  | a :: b :: c :: rest, h => by
    have : rest.length % 3 = 0 := by simp only [List.length_cons] at h; omega
    simp [chunks3, flatten_chunks3 rest this]

theorem flatten_length3 : ∀ (cs : List Str), (∀ c ∈ cs, c.length = 3) → cs.flatten.length = 3 * cs.length
  | [], _ => rfl
  | c :: cs, h => by
    have := h c List.mem_cons_self
    have := flatten_length3 cs (fun x hx => h x (List.mem_cons_of_mem _ hx))
    simp only [List.flatten_cons, List.length_append, List.length_cons]
    omega

end PolyVerif.CodonOptimize

namespace PolyVerif.CodonOptimize
open PolyVerif PolyVerif.Codon

/-! ### the stable sort is an admissible sorter -/

theorem insertByWeight_perm (c : Choice) : ∀ l : List Choice, (insertByWeight c l).Perm (c :: l)
  | [] => List.Perm.refl _
  | d :: ds => by
    simp only [insertByWeight]
    split
    · exact List.Perm.refl _
    · exact ((insertByWeight_perm c ds).cons d).trans (List.Perm.swap c d ds)

theorem foldl_insert_perm : ∀ (cs acc : List Choice),
    (cs.foldl (fun acc c => insertByWeight c acc) acc).Perm (cs.reverse ++ acc)
  | [], acc => by simp
  | c :: cs, acc => by
    simp only [List.foldl_cons, List.reverse_cons, List.append_assoc, List.singleton_append]
    exact (foldl_insert_perm cs (insertByWeight c acc)).trans ((insertByWeight_perm c acc).append_left _)

theorem stableSort_perm (cs : List Choice) : (stableSort cs).Perm cs := by
  have := foldl_insert_perm cs []
  simp only [List.append_nil] at this
  exact this.trans (List.reverse_perm cs)

end PolyVerif.CodonOptimize
