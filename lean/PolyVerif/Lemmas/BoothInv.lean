import PolyVerif.Lemmas.BoothSeg
/-
The loop invariants of Booth's least-rotation scan (C12) and their preservation, stated over a
letter function `σ : Nat → Nat` and a failure function `γ : Nat → Nat` (length-valued, i.e. Go's
`failureSlice[t] + 1`).  Still no reference to the model: `Lemmas/BoothModel.lean` walks the model
along these lemmas.

Head of outer iteration `j` with candidate `k` (`Inv`):
  (i)   `γ[0 .. j-k)` is the failure function of `σ[k .. j)`;
  (ii)  for `p ∈ (k, j)`:  `σ[k .. k+j-p) ≤ σ[p .. j)`;
  (iii) for `p < k`:       `σ[k .. j) < σ[p .. p+j-k)`  (strictly).
Inside the inner loop, at border length `i` (`InvIn`): additionally `i` is a border of `σ[k .. j)`,
every longer border `b` was visited and has `σ (k+b) < σ j`, and (iii) already holds strictly on
the longer window `j+1-k` (trivially before the candidate moves, by the comparison that moved it
afterwards).
-/
namespace PolyVerif.Booth

variable {σ γ : Nat → Nat}

/-- function update (the assignment `failureSlice[a] = v`) -/
def upd (γ : Nat → Nat) (a v : Nat) : Nat → Nat := fun t => if t = a then v else γ t

theorem upd_same (γ : Nat → Nat) (a v : Nat) : upd γ a v a = v := by simp [upd]

theorem upd_ne (γ : Nat → Nat) {a t : Nat} (v : Nat) (h : t ≠ a) : upd γ a v t = γ t := by simp [upd, h]

structure Inv (σ γ : Nat → Nat) (j k : Nat) : Prop where
  kj : k < j
  ff : FF σ γ k (j - k)
  ii : ∀ p, k < p → p < j → LeSeg σ k p (j - p)
  iii : ∀ p, p < k → LtSeg σ k p (j - k)

structure InvIn (σ γ : Nat → Nat) (j k i : Nat) : Prop where
  kij : k + i < j
  ff : FF σ γ k (j - k)
  bord : EqSeg σ k (j - i) i
  cs : ∀ b, i < b → b < j - k → EqSeg σ k (j - b) b → σ (k + b) < σ j
  ii : ∀ p, k < p → p < j → LeSeg σ k p (j - p)
  iii : ∀ p, p < k → LtSeg σ k p (j + 1 - k)

theorem Bord.mk' {j k b : Nat} (hk : k ≤ j) (hb : b < j - k) (e : EqSeg σ k (j - b) b) :
    Bord σ k (j - k) b := by
  refine ⟨hb, ?_⟩
  rw [show k + (j - k) - b = j - b by omega]; exact e

theorem Bord.eq' {j k b : Nat} (hk : k ≤ j) (h : Bord σ k (j - k) b) : EqSeg σ k (j - b) b := by
  have := h.2
  rwa [show k + (j - k) - b = j - b by omega] at this

/-- the failure-function entry used when the border `i` fails -/
theorem InvIn.maxBord {j k i : Nat} (h : InvIn σ γ j k i) (hi : 0 < i) : MaxBord σ k i (γ (i - 1)) := by
  have := h.ff (i - 1) (by have := h.kij; omega)
  rwa [show i - 1 + 1 = i by omega] at this

theorem Inv.init : Inv σ (fun _ => 0) 1 0 where
  kj := by omega
  ff := by
    intro t ht
    have : t = 0 := by omega
    subst this
    exact ⟨⟨by omega, EqSeg.zero _ _⟩, fun b hb => by have := hb.1; omega⟩
  ii := by intro p h1 h2; omega
  iii := by intro p h; omega

/-- entering the inner loop: `failure := failureSlice[j-k-1]` -/
theorem Inv.enter {j k : Nat} (h : Inv σ γ j k) : InvIn σ γ j k (γ (j - k - 1)) := by
  have hk := h.kj
  have hm : MaxBord σ k (j - k) (γ (j - k - 1)) := by
    have := h.ff (j - k - 1) (by omega)
    rwa [show j - k - 1 + 1 = j - k by omega] at this
  obtain ⟨hb, hmax⟩ := hm
  have hv := hb.1
  exact {
    kij := by omega
    ff := h.ff
    bord := Bord.eq' (by omega) hb
    cs := by
      intro b h1 h2 e
      have := hmax b (Bord.mk' (by omega) h2 e)
      omega
    ii := h.ii
    iii := fun p hp => (h.iii p hp).mono (by omega) }

/-- inner loop body, `character > sequence[k+failure+1]`: the candidate stays -/
theorem InvIn.step_gt {j k i : Nat} (h : InvIn σ γ j k i) (hi : 0 < i) (hlt : σ (k + i) < σ j) :
    InvIn σ γ j k (γ (i - 1)) := by
  have hkij := h.kij
  obtain ⟨hbv, hmax⟩ := h.maxBord hi
  have hv := hbv.1
  have hbi : Bord σ k (j - k) i := Bord.mk' (by omega) (by omega) h.bord
  exact {
    kij := by omega
    ff := h.ff
    bord := Bord.eq' (by omega) (hbi.trans hbv)
    cs := by
      intro b h1 h2 e
      by_cases c1 : i < b
      · exact h.cs b c1 h2 e
      · by_cases c2 : b = i
        · subst c2; exact hlt
        · have := hmax b (Bord.of_lt hbi (Bord.mk' (by omega) h2 e) (by omega))
          omega
    ii := h.ii
    iii := h.iii }

/-- the order facts after the candidate moves to `j - i` because `σ j < σ (k+i)` -/
theorem InvIn.ord_lt {j k i : Nat} (h : InvIn σ γ j k i) (hlt : σ j < σ (k + i)) :
    (∀ p, p < j - i → LtSeg σ (j - i) p (i + 1)) ∧
    (∀ p, j - i < p → p < j → LeSeg σ (j - i) p (j - p)) := by
  have hkij := h.kij
  have base : LtSeg σ (j - i) k (i + 1) :=
    ⟨i, by omega, h.bord.symm, by rw [show j - i + i = j by omega]; exact hlt⟩
  constructor
  · intro p hp
    by_cases c1 : p < k
    · exact base.trans_le ((h.iii p c1).pre (by omega))
    · by_cases c2 : p = k
      · subst c2; exact base
      · exact base.trans_le ((h.ii p (by omega) (by omega)).pre (by omega))
  · intro p hp1 hp2
    have hq := (h.ii (k + (p - (j - i))) (by omega) (by omega)).pre (L' := j - p) (by omega)
    refine hq.transfer (h.bord.mono (by omega)) ?_
    intro t ht
    exact h.bord.get (x := k + (p - (j - i)) + t) (y := p + t) (by omega) (by omega) (by omega)

/-- inner loop body, `character < sequence[k+failure+1]`: the candidate moves to `j - i` -/
theorem InvIn.step_lt {j k i : Nat} (h : InvIn σ γ j k i) (hi : 0 < i) (hlt : σ j < σ (k + i)) :
    InvIn σ γ (j) (j - i) (γ (i - 1)) := by
  have hkij := h.kij
  have hff : FF σ γ (j - i) i := (h.ff.mono (by omega)).transfer h.bord (Nat.le_refl _)
  have hm : MaxBord σ (j - i) i (γ (i - 1)) := by
    have := hff (i - 1) (by omega)
    rwa [show i - 1 + 1 = i by omega] at this
  obtain ⟨hbv, hmax⟩ := hm
  have hv := hbv.1
  obtain ⟨o1, o2⟩ := h.ord_lt hlt
  exact {
    kij := by omega
    ff := by rw [show j - (j - i) = i by omega]; exact hff
    bord := by
      have := hbv.2
      rwa [show j - i + i - γ (i - 1) = j - γ (i - 1) by omega] at this
    cs := by
      intro b h1 h2 e
      have hb : Bord σ (j - i) i b := by
        refine ⟨by omega, ?_⟩
        rw [show j - i + i - b = j - b by omega]; exact e
      have := hmax b hb
      omega
    ii := o2
    iii := by
      intro p hp
      rw [show j + 1 - (j - i) = i + 1 by omega]; exact o1 p hp }

/-- (ii) at `j+1` from the inner invariant at exit, given that the borders `b ≥ i` satisfy
`σ (k+b) ≤ σ j` -/
theorem InvIn.ii_next {j k i : Nat} (h : InvIn σ γ j k i) (hle : σ (k + i) ≤ σ j) :
    ∀ p, k < p → p < j + 1 → LeSeg σ k p (j + 1 - p) := by
  have hkij := h.kij
  intro p hp1 hp2
  by_cases hb : EqSeg σ k p (j - p)
  · rw [show j + 1 - p = (j - p) + 1 by omega]
    refine LeSeg.snoc hb ?_
    rw [show p + (j - p) = j by omega]
    by_cases c1 : i < j - p
    · exact Nat.le_of_lt (h.cs (j - p) c1 (by omega) (by rw [show j - (j - p) = p by omega]; exact hb))
    · by_cases c2 : j - p = i
      · rw [c2]; exact hle
      · -- an unvisited shorter border: compare through (ii) of the current state
        have hbi : Bord σ k (j - k) i := Bord.mk' (by omega) (by omega) h.bord
        have hbb : Bord σ k (j - k) (j - p) :=
          Bord.mk' (by omega) (by omega) (by rw [show j - (j - p) = p by omega]; exact hb)
        have hbo := (Bord.of_lt hbi hbb (by omega)).2
        have hle2 := ((h.ii (k + i - (j - p)) (by omega) (by omega)).pre (L' := (j - p) + 1) (by omega)).last hbo
        rw [show k + i - (j - p) + (j - p) = k + i by omega] at hle2
        omega
  · have hpj : p < j := by
      apply Classical.byContradiction
      intro hc
      apply hb
      rw [show j - p = 0 by omega]; exact EqSeg.zero _ _
    exact (((h.ii p hp1 hpj).lt_of_ne hb).mono (by omega)).le

/-- the failure-function entry written at exit is the longest border of `σ[k .. j]` -/
theorem InvIn.maxBord_next {j k i v : Nat} (h : InvIn σ γ j k i)
    (hv : (v = i + 1 ∧ σ (k + i) = σ j) ∨ (v = 0 ∧ i = 0 ∧ σ k ≠ σ j)) :
    MaxBord σ k (j - k + 1) v := by
  have hkij := h.kij
  refine ⟨?_, ?_⟩
  · rcases hv with ⟨rfl, e⟩ | ⟨rfl, _, _⟩
    · refine ⟨by omega, ?_⟩
      rw [show k + (j - k + 1) - (i + 1) = j - i by omega]
      exact h.bord.snoc (by rw [show j - i + i = j by omega]; exact e)
    · exact ⟨by omega, EqSeg.zero _ _⟩
  · intro b hb
    obtain ⟨hb1, eb⟩ := hb
    cases b with
    | zero => omega
    | succ b' =>
      have e1 : EqSeg σ k (j - b') b' := by
        have := eb.mono (Nat.le_succ b')
        rwa [show k + (j - k + 1) - (b' + 1) = j - b' by omega] at this
      have e2 : σ (k + b') = σ j := by
        have := eb b' (by omega)
        rwa [show k + (j - k + 1) - (b' + 1) + b' = j by omega] at this
      by_cases c : i < b'
      · have := h.cs b' c (by omega) e1
        omega
      · rcases hv with ⟨rfl, _⟩ | ⟨rfl, hi0, hne⟩
        · omega
        · have : b' = 0 := by omega
          subst this
          exact absurd e2 hne

theorem FF.snoc {k L v : Nat} (h : FF σ γ k L) (hm : MaxBord σ k (L + 1) v) :
    FF σ (upd γ L v) k (L + 1) := by
  intro t ht
  by_cases c : t = L
  · subst c
    rw [upd_same]; exact hm
  · rw [upd_ne _ _ c]; exact h t (by omega)

/-- exit with `character = sequence[k+failure+1]`: `failureSlice[j-k] = failure+1` -/
theorem InvIn.exit_eq {j k i : Nat} (h : InvIn σ γ j k i) (e : σ (k + i) = σ j) :
    Inv σ (upd γ (j - k) (i + 1)) (j + 1) k := by
  have hkij := h.kij
  exact {
    kj := by omega
    ff := by
      rw [show j + 1 - k = (j - k) + 1 by omega]
      exact h.ff.snoc (h.maxBord_next (Or.inl ⟨rfl, e⟩))
    ii := h.ii_next (Nat.le_of_eq e)
    iii := h.iii }

/-- exit with `failure = -1`, `character > sequence[k]`: `failureSlice[j-k] = -1` -/
theorem InvIn.exit_gt {j k : Nat} (h : InvIn σ γ j k 0) (hlt : σ k < σ j) :
    Inv σ (upd γ (j - k) 0) (j + 1) k := by
  have hkij := h.kij
  exact {
    kj := by omega
    ff := by
      rw [show j + 1 - k = (j - k) + 1 by omega]
      exact h.ff.snoc (h.maxBord_next (Or.inr ⟨rfl, rfl, by omega⟩))
    ii := h.ii_next (by rw [Nat.add_zero]; omega)
    iii := h.iii }

/-- exit with `failure = -1`, `character < sequence[k]`: `k = j`, `failureSlice[0] = -1` -/
theorem InvIn.exit_lt {j k : Nat} (h : InvIn σ γ j k 0) (hlt : σ j < σ k) :
    Inv σ (upd γ 0 0) (j + 1) j := by
  obtain ⟨o1, _⟩ := h.ord_lt (by rw [Nat.add_zero]; exact hlt)
  exact {
    kj := by omega
    ff := by
      intro t ht
      have : t = 0 := by omega
      subst this
      rw [upd_same]
      exact ⟨⟨by omega, EqSeg.zero _ _⟩, fun b hb => by have := hb.1; omega⟩
    ii := by intro p h1 h2; omega
    iii := by
      intro p hp
      rw [show j + 1 - j = 1 by omega]
      have := o1 p (by omega)
      rwa [Nat.sub_zero] at this }

/-- At loop exit on a doubled word (`σ (t+n) = σ t` for `t < n`, `j = 2n`): the candidate is a
start inside the first copy, strictly below every earlier start and weakly below every later one,
on windows of the full length `n`. -/
theorem Inv.final {n k : Nat} (hn : 0 < n) (h : Inv σ γ (2 * n) k)
    (per : ∀ t, t < n → σ (t + n) = σ t) :
    k < n ∧ (∀ p, p < k → LtSeg σ k p n) ∧ (∀ p, k < p → p < n → LeSeg σ k p n) := by
  have hkj := h.kj
  have hper : ∀ x, n ≤ x → x < 2 * n → σ x = σ (x - n) := by
    intro x h1 h2
    have := per (x - n) (by omega)
    rwa [show x - n + n = x by omega] at this
  have hk : k < n := by
    apply Classical.byContradiction
    intro hc
    obtain ⟨m, hm, _, hlt⟩ := h.iii (k - n) (by omega)
    have := hper (k + m) (by omega) (by omega)
    rw [show k - n + m = k + m - n by omega] at hlt
    omega
  refine ⟨hk, ?_, ?_⟩
  · intro p hp
    obtain ⟨m, hm, he, hlt⟩ := h.iii p hp
    by_cases c : m < n
    · exact ⟨m, c, he, hlt⟩
    · have e1 := hper (k + m) (by omega) (by omega)
      have e2 := hper (p + m) (by omega) (by omega)
      have e3 := he (m - n) (by omega)
      rw [show k + (m - n) = k + m - n by omega, show p + (m - n) = p + m - n by omega] at e3
      omega
  · intro p hp1 hp2
    exact (h.ii p hp1 (by omega)).pre (by omega)

end PolyVerif.Booth
