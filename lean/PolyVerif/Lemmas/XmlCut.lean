import PolyVerif.Lemmas.XmlScan
/-
The lexer of Spec/XmlScan on a text that is CUT inside a token: a proper, non-empty prefix of a markup
token's text is an error (`nextTok_cut_markup`); a prefix of character data is character data or an error
(`nextTok_cut_chars`).  And the depth bookkeeping of the reader (`depthAfter`, `run_depth`).
-/
namespace PolyVerif.Spec.XmlScan
open PolyVerif PolyVerif.Uniprot

/-! ### the lexer reads a rendered token sequence back and goes on with what follows -/

theorem lexFuel_render' : ∀ (ts : List Tok) (X : Str) (f : Nat), WFToks ts → EndOk ts X → ts.length ≤ f →
    lexFuel f (renderToks ts ++ X) = (ts ++ (lexFuel (f - ts.length) X).1, (lexFuel (f - ts.length) X).2)
  | [], X, f, _, _, _ => by simp [renderToks]
  | t :: ts, X, f + 1, hw, he, hf => by
    have hfol : Follows t (renderToks ts ++ X) := by
      intro hc
      cases ts with
      | nil =>
        simp only [renderToks, List.map_nil, List.flatten_nil, List.nil_append]
        exact he t (by simp) hc
      | cons t' ts' =>
        obtain ⟨r, hr⟩ := renderTok_markup (hw.2.1 hc t' (by simp))
        right; simp [renderToks_cons, hr]
    have he' : EndOk ts X := by
      intro t' ht'
      cases ts with
      | nil => simp at ht'
      | cons a as => exact he t' (by simpa [List.getLast?_cons_cons] using ht')
    have ih := lexFuel_render' ts X f hw.2.2 he' (by simp at hf; omega)
    simp only [renderToks_cons, List.append_assoc, lexFuel, nextTok_render t _ hw.1 hfol, ih, List.cons_append,
      List.length_cons, Nat.add_sub_add_right]

/-! ### proper prefixes of markup -/

theorem untilPiEnd_cut : ∀ (p b q : Str), '>' ∉ b → p ++ q = b ++ ['?', '>'] → q ≠ [] → untilPiEnd p = none
  | [], _, _, _, _, _ => rfl
  | c :: p, [], q, _, h, hq => by
    simp only [List.nil_append, List.cons_append, List.cons.injEq] at h
    obtain ⟨rfl, h2⟩ := h
    have hp : p = [] := by
      cases p with
      | nil => rfl
      | cons x p => simp only [List.cons_append, List.cons.injEq] at h2; exact absurd h2.2 (by simp [hq])
    subst hp
    simp [untilPiEnd]
  | c :: p, x :: b, q, hb, h, hq => by
    simp only [List.cons_append, List.cons.injEq] at h
    obtain ⟨rfl, h2⟩ := h
    have hb' : '>' ∉ b := fun hm => hb (by simp [hm])
    have hhead : p.head? ≠ some '>' := by
      cases p with
      | nil => simp
      | cons y p =>
        simp only [List.cons_append] at h2
        cases b with
        | nil => simp only [List.nil_append, List.cons.injEq] at h2; simp [h2.1]
        | cons z b => simp only [List.cons_append, List.cons.injEq] at h2; simp only [List.head?_cons, ne_eq, Option.some.injEq]; intro e; exact hb (by simp [← h2.1, e])
    simp only [untilPiEnd]
    rw [if_neg (fun hc => hhead hc.2), untilPiEnd_cut p b q hb' h2 hq]
    rfl

theorem untilCommentEnd_cut : ∀ (p b q : Str), '-' ∉ b → p ++ q = b ++ ['-', '-', '>'] → q ≠ [] →
    untilCommentEnd p = none
  | [], _, _, _, _, _ => rfl
  | c :: p, [], q, _, h, hq => by
    simp only [List.nil_append, List.cons_append, List.cons.injEq] at h
    obtain ⟨rfl, h2⟩ := h
    -- p is a proper prefix of "->"
    cases p with
    | nil => simp [untilCommentEnd]
    | cons x p =>
      simp only [List.cons_append, List.cons.injEq] at h2
      obtain ⟨rfl, h3⟩ := h2
      have hp : p = [] := by
        cases p with
        | nil => rfl
        | cons y p => simp only [List.cons_append, List.cons.injEq] at h3; exact absurd h3.2 (by simp [hq])
      subst hp
      simp [untilCommentEnd]
  | c :: p, x :: b, q, hb, h, hq => by
    simp only [List.cons_append, List.cons.injEq] at h
    obtain ⟨rfl, h2⟩ := h
    have hb' : '-' ∉ b := fun hm => hb (by simp [hm])
    have hc : c ≠ '-' := fun e => hb (by simp [e])
    simp only [untilCommentEnd]
    rw [if_neg (fun hx => hc hx.1), untilCommentEnd_cut p b q hb' h2 hq]
    rfl

/-! ### tags -/

theorem nameStart_nameChar {c : Char} (h : nameStart c = true) : nameChar c = true := by
  simp only [nameStart, Bool.or_eq_true, beq_iff_eq] at h
  simp only [nameChar, Bool.or_eq_true, beq_iff_eq]
  rcases h with (h | h) | h
  · left; left; left; left; simp [Char.isAlphanum, h]
  · left; left; left; right; exact h
  · left; left; right; exact h

/-- the lexer on `<` followed by a name start character: a start tag or an error -/
theorem nextTok_start_eq (c : Char) (tl : Str) (hs : nameStart c = true) :
    nextTok ('<' :: c :: tl) =
      match lexAttrs ((c :: tl).length + 1) ((c :: tl).dropWhile nameChar) with
      | some (as, sc, rest) => .tok (.start ((c :: tl).takeWhile nameChar) as sc) rest
      | none => .err := by
  have hcs := nameStart_not_ws hs
  have hn := nameStart_nameChar hs
  unfold nextTok
  split
  · rename_i heq; cases heq
  · rename_i r heq
    simp only [List.cons.injEq, true_and] at heq
    subst heq
    split
    · rename_i heq; simp only [List.cons.injEq] at heq; exact absurd heq.1 hcs.2.2.2.1
    · rename_i heq; simp only [List.cons.injEq] at heq; exact absurd heq.1 hcs.2.2.2.2.1
    · rename_i heq; simp only [List.cons.injEq] at heq; exact absurd heq.1 hcs.2.2.1
    · simp only [List.takeWhile_cons, hn, if_true, List.isEmpty_cons, List.head?_cons, Option.map_some,
        Option.getD_some, hs, Bool.not_true, Bool.or_self, Bool.false_eq_true, if_false]
      rfl
  · rename_i c' r' hne heq
    simp only [List.cons.injEq] at heq
    exact absurd heq.1.symm hne

theorem nextTok_close_eq (r1 : Str) :
    nextTok ('<' :: '/' :: r1) =
      (let n := r1.takeWhile nameChar
       if n.isEmpty || !(n.head?.map nameStart).getD false then .err else
       (match (r1.dropWhile nameChar).dropWhile isWs with
        | '>' :: rest => .tok (.close n) rest
        | _ => .err)) := by
  rfl

theorem lexAttrs_nil (f : Nat) : lexAttrs f [] = none := by
  cases f <;> simp [lexAttrs]

/-- `lexAttrs` after a blank and an attribute name, on whatever follows the name -/
theorem lexAttrs_afterName (k tl : Str) (f : Nat) (hk : WFName k) (htl : ∀ x ∈ tl.head?, nameChar x = false) :
    lexAttrs (f + 1) (' ' :: (k ++ tl)) =
      match tl.dropWhile isWs with
      | '=' :: r2 =>
        (match r2.dropWhile isWs with
         | q :: r3 =>
           if q == '"' || q == '\'' then
             (match r3.dropWhile (valueChar q) with
              | q' :: r4 => if q' == q then (lexAttrs f r4).map (fun x => ((k, r3.takeWhile (valueChar q)) :: x.1, x.2.1, x.2.2)) else none
              | [] => none)
           else none
         | [] => none)
      | _ => none := by
  obtain ⟨⟨c, t, rfl, hs⟩, hall⟩ := hk
  have hcs := nameStart_not_ws hs
  have htk : ((c :: t) ++ tl).takeWhile nameChar = c :: t := by
    cases tl with
    | nil => simpa using takeWhile_all_nil nameChar (c :: t) hall
    | cons x xs => exact takeWhile_stop nameChar (c :: t) x xs hall (htl x (by simp))
  have hdk : ((c :: t) ++ tl).dropWhile nameChar = tl := by
    cases tl with
    | nil => simpa using dropWhile_all_nil nameChar (c :: t) hall
    | cons x xs => exact dropWhile_stop nameChar (c :: t) x xs hall (htl x (by simp))
  simp only [List.cons_append] at htk hdk
  conv => lhs; unfold lexAttrs
  simp only [List.dropWhile_cons, nameChar_facts, if_true, hcs.1, Bool.false_eq_true, if_false, List.cons_append]
  split
  · rename_i heq; simp only [List.cons.injEq] at heq; exact absurd heq.1 hcs.2.1
  · rename_i heq; simp only [List.cons.injEq] at heq; exact absurd heq.1 hcs.2.2.1
  · simp only [htk, hdk, List.isEmpty_cons, List.head?_cons, Option.map_some, Option.getD_some, hs, Bool.not_true,
      Bool.or_self, Bool.false_eq_true, if_false]
    rfl

theorem wfName_prefix {k a x : Str} (hk : WFName k) (h : k = a ++ x) (ha : a ≠ []) : WFName a := by
  obtain ⟨⟨c, t, rfl, hs⟩, hall⟩ := hk
  cases a with
  | nil => exact absurd rfl ha
  | cons c' a' =>
    simp only [List.cons_append, List.cons.injEq] at h
    obtain ⟨rfl, ht⟩ := h
    exact ⟨⟨c, a', rfl, hs⟩, fun y hy => hall y (by
      rcases List.mem_cons.mp hy with rfl | hy
      · simp
      · simp [ht, hy])⟩

/-- the attributes and end of a start tag, cut anywhere before the end: not a tag -/
theorem lexAttrs_cut : ∀ (as : List (Str × Str)) (f : Nat) (a q : Str) (sc : Bool), (∀ x ∈ as, WFAttr x) →
    a ++ q = renderAttrs as ++ (if sc then ['/', '>'] else ['>']) → q ≠ [] → lexAttrs f a = none
  | _, 0, _, _, _, _, _, _ => rfl
  | [], f + 1, a, q, sc, _, h, hq => by
    cases a with
    | nil => exact lexAttrs_nil _
    | cons x a =>
      cases sc with
      | false =>
        simp only [renderAttrs, List.nil_append, Bool.false_eq_true, if_false, List.cons_append, List.cons.injEq] at h
        exact absurd (List.append_eq_nil_iff.mp h.2).2 hq
      | true =>
        simp only [renderAttrs, List.nil_append, if_true, List.cons_append, List.cons.injEq] at h
        obtain ⟨rfl, h2⟩ := h
        cases a with
        | nil => simp [lexAttrs, nameChar_facts]
        | cons y a =>
          simp only [List.cons_append, List.cons.injEq] at h2
          exact absurd (List.append_eq_nil_iff.mp h2.2).2 hq
  | (k, v) :: as, f + 1, a, q, sc, hw, h, hq => by
    have hkv := hw (k, v) (by simp)
    have ih := fun a' q' => lexAttrs_cut as f a' q' sc (fun x hx => hw x (by simp [hx]))
    cases a with
    | nil => exact lexAttrs_nil _
    | cons sp a1 =>
      simp only [renderAttrs, List.cons_append, List.append_assoc, List.cons.injEq] at h
      obtain ⟨rfl, h1⟩ := h
      -- a1 ++ q = k ++ '=' :: '"' :: (v ++ '"' :: R)
      rcases List.append_eq_append_iff.mp h1 with ⟨x2, hk, _⟩ | ⟨a2, ha1, h2⟩
      · -- the cut lies inside (or right after) the attribute name
        by_cases he : a1 = []
        · subst he; simp [lexAttrs, nameChar_facts]
        · have := lexAttrs_afterName a1 [] f (wfName_prefix hkv.1 hk he) (by simp)
          simp only [List.append_nil] at this
          rw [this]; rfl
      · subst ha1
        cases a2 with
        | nil =>
          have := lexAttrs_afterName k [] f hkv.1 (by simp)
          simp only [List.append_nil] at this ⊢
          rw [this]; rfl
        | cons e a3 =>
          simp only [List.cons_append, List.cons.injEq] at h2
          obtain ⟨rfl, h3⟩ := h2
          rw [lexAttrs_afterName k ('=' :: a3) f hkv.1 (by simp [nameChar_facts])]
          simp only [List.dropWhile_cons, nameChar_facts, Bool.false_eq_true, if_false]
          cases a3 with
          | nil => rfl
          | cons qt a4 =>
            simp only [List.cons_append, List.cons.injEq] at h3
            obtain ⟨rfl, h4⟩ := h3
            simp only [List.dropWhile_cons, nameChar_facts, Bool.false_eq_true, if_false, beq_self_eq_true,
              Bool.true_or, if_true]
            rcases List.append_eq_append_iff.mp h4.symm with ⟨y, hv, _⟩ | ⟨a5, ha4, h5⟩
            · have hall : ∀ x ∈ a4, valueChar '"' x = true := fun x hx => hkv.2 x (by simp [hv, hx])
              rw [dropWhile_all_nil _ _ hall]
            · subst ha4
              cases a5 with
              | nil =>
                simp only [List.append_nil]
                rw [dropWhile_all_nil _ _ hkv.2]
              | cons q2 a6 =>
                simp only [List.cons_append, List.cons.injEq] at h5
                obtain ⟨rfl, h6⟩ := h5
                rw [dropWhile_stop _ v '"' a6 hkv.2 nameChar_facts.2.2.2.2.2.2.2.2.2]
                simp only [beq_self_eq_true, if_true]
                rw [ih a6 q h6.symm hq]
                rfl

/-- a markup token cut anywhere inside (not before it, not after it) is not a token: the lexer reports an error -/
theorem nextTok_cut_markup (t : Tok) (p q : Str) (hw : WFTok t) (hm : isChars t = false)
    (h : p ++ q = renderTok t) (hp : p ≠ []) (hq : q ≠ []) : nextTok p = .err := by
  cases p with
  | nil => exact absurd rfl hp
  | cons c0 p1 =>
  cases t with
  | chars _ => cases hm
  | pi b =>
    simp only [renderTok, List.cons_append, List.cons.injEq] at h
    obtain ⟨rfl, h1⟩ := h
    cases p1 with
    | nil => rfl
    | cons c1 p2 =>
      simp only [List.cons_append, List.cons.injEq] at h1
      obtain ⟨rfl, h2⟩ := h1
      simp [nextTok, untilPiEnd_cut p2 b q hw h2 hq]
  | comment b =>
    simp only [renderTok, List.cons_append, List.cons.injEq] at h
    obtain ⟨rfl, h1⟩ := h
    cases p1 with
    | nil => rfl
    | cons c1 p2 =>
      simp only [List.cons_append, List.cons.injEq] at h1
      obtain ⟨rfl, h2⟩ := h1
      cases p2 with
      | nil => rfl
      | cons c2 p3 =>
        simp only [List.cons_append, List.cons.injEq] at h2
        obtain ⟨rfl, h3⟩ := h2
        cases p3 with
        | nil => rfl
        | cons c3 p4 =>
          simp only [List.cons_append, List.cons.injEq] at h3
          obtain ⟨rfl, h4⟩ := h3
          simp [nextTok, untilCommentEnd_cut p4 b q hw h4 hq]
  | close n =>
    simp only [renderTok, List.cons_append, List.cons.injEq] at h
    obtain ⟨rfl, h1⟩ := h
    cases p1 with
    | nil => rfl
    | cons c1 p2 =>
      simp only [List.cons_append, List.cons.injEq] at h1
      obtain ⟨rfl, h2⟩ := h1
      have hall : ∀ x ∈ p2, nameChar x = true := by
        rcases List.append_eq_append_iff.mp h2 with ⟨x2, hn, _⟩ | ⟨a2, hp2, h3⟩
        · intro x hx; exact hw.2 x (by simp [hn, hx])
        · have : a2 = [] := by
            cases a2 with
            | nil => rfl
            | cons y a2 =>
              simp only [List.cons_append, List.cons.injEq] at h3
              exact absurd (List.append_eq_nil_iff.mp h3.2.symm).2 hq
          subst this
          intro x hx; exact hw.2 x (by simpa [hp2] using hx)
      rw [nextTok_close_eq, takeWhile_all_nil _ _ hall, dropWhile_all_nil _ _ hall]
      simp only [List.dropWhile_nil]
      split <;> rfl
  | start n as sc =>
    simp only [renderTok, List.cons_append, List.append_assoc, List.cons.injEq] at h
    obtain ⟨rfl, h1⟩ := h
    obtain ⟨⟨⟨c, tl, rfl, hs⟩, hall⟩, has⟩ := hw
    cases p1 with
    | nil => rfl
    | cons c1 p2 =>
      have hc1 : c1 = c := by
        simp only [List.cons_append, List.cons.injEq] at h1; exact h1.1
      subst hc1
      rw [nextTok_start_eq c1 p2 hs]
      have hnone : lexAttrs ((c1 :: p2).length + 1) ((c1 :: p2).dropWhile nameChar) = none := by
        rcases List.append_eq_append_iff.mp h1 with ⟨x2, hn, _⟩ | ⟨a2, hp1, h3⟩
        · have hp : ∀ x ∈ c1 :: p2, nameChar x = true := fun x hx => hall x (by rw [hn]; exact List.mem_append_left _ hx)
          rw [dropWhile_all_nil _ _ hp]; exact lexAttrs_nil _
        · cases a2 with
          | nil =>
            simp only [List.append_nil] at hp1
            rw [hp1, dropWhile_all_nil _ _ hall]; exact lexAttrs_nil _
          | cons y a2 =>
            obtain ⟨x, xs, hx, hnx⟩ := tagEnd_head as sc []
            simp only [List.append_nil] at hx
            have hy : y = x := by
              rw [hx] at h3; simp only [List.cons_append, List.cons.injEq] at h3; exact h3.1.symm
            subst hy
            rw [hp1, dropWhile_stop nameChar (c1 :: tl) y a2 hall hnx]
            exact lexAttrs_cut as _ (y :: a2) q sc has h3.symm hq
      rw [hnone]

/-- character data cut inside: the part before the cut is character data, or (cut inside an entity) an error -/
theorem nextTok_cut_chars (x p q : Str) (hw : WFTok (.chars x)) (h : p ++ q = x) (hp : p ≠ []) :
    nextTok p = .err ∨ nextTok p = .tok (.chars p) [] := by
  have hno : ∀ c ∈ p, (c != '<') = true := fun c hc => validTextAux_no_lt x none hw.2 c (by rw [← h]; simp [hc])
  cases p with
  | nil => exact absurd rfl hp
  | cons c r =>
    have hc : c ≠ '<' := by simpa using hno c (by simp)
    have ht : (c :: r).takeWhile (fun y => y != '<') = c :: r := takeWhile_all_nil _ _ hno
    have hd : (c :: r).dropWhile (fun y => y != '<') = [] := dropWhile_all_nil _ _ hno
    unfold nextTok
    split
    · rename_i heq; cases heq
    · rename_i r' heq; simp only [List.cons.injEq] at heq; exact absurd heq.1 hc
    · rename_i c' r' _ heq
      rw [← heq, ht, hd]
      by_cases hv : validText (c :: r) = true
      · right; rw [if_pos hv]
      · left; rw [if_neg hv]

/-! ### a cut falls inside (or right before) one token -/

theorem take_renderToks : ∀ (ts : List Tok) (n : Nat), n < (renderToks ts).length →
    ∃ A t B p q, ts = A ++ t :: B ∧ renderTok t = p ++ q ∧ q ≠ [] ∧ (renderToks ts).take n = renderToks A ++ p
  | [], n, h => by simp [renderToks] at h
  | t :: ts, n, h => by
    by_cases hn : n < (renderTok t).length
    · refine ⟨[], t, ts, (renderTok t).take n, (renderTok t).drop n, rfl, (List.take_append_drop _ _).symm, ?_, ?_⟩
      · intro e
        have := congrArg List.length e
        simp only [List.length_drop, List.length_nil] at this
        omega
      · rw [renderToks_cons, List.take_append_of_le_length (by omega)]
        simp [renderToks]
    · have hlen : n - (renderTok t).length < (renderToks ts).length := by
        simp only [renderToks_cons, List.length_append] at h; omega
      obtain ⟨A, t', B, p, q, hts, hr, hq, htake⟩ := take_renderToks ts (n - (renderTok t).length) hlen
      refine ⟨t :: A, t', B, p, q, by simp [hts], hr, hq, ?_⟩
      rw [renderToks_cons, List.take_append, List.take_of_length_le (by omega), htake, renderToks_cons,
        List.append_assoc]

/-! ### depth -/

/-- number of open elements the reader is inside of -/
def depth (s : St) : Nat :=
  s.stack.length + (match s.ent with | some es => 1 + es.inner.length | none => 0)

/-- depth after a token, `none` if it would close an element that is not open -/
def tokDepth (d : Nat) : Tok → Option Nat
  | .start _ _ false => some (d + 1)
  | .close _ => if d = 0 then none else some (d - 1)
  | _ => some d

def depthAfter : Nat → List Tok → Option Nat
  | d, [] => some d
  | d, t :: ts => (tokDepth d t).bind (fun d' => depthAfter d' ts)

theorem step_dead (s : St) (t : Tok) (h : s.dead = true) : step s t = s := by simp [step, h]

theorem run_dead : ∀ (ts : List Tok) (s : St), s.dead = true → (run s ts).dead = true
  | [], _, h => h
  | t :: ts, s, h => by rw [run_cons, step_dead s t h]; exact run_dead ts s h

/-- a step that does not kill the reader changes the depth as the token says -/
theorem step_depth (s : St) (t : Tok) (h : (step s t).dead = false) :
    s.dead = false ∧ tokDepth (depth s) t = some (depth (step s t)) := by
  have hs : s.dead = false := by
    cases hd : s.dead with
    | false => rfl
    | true => rw [step_dead s t hd, hd] at h; cases h
  refine ⟨hs, ?_⟩
  unfold step at h ⊢
  simp only [hs, Bool.false_eq_true, if_false] at h ⊢
  cases hent : s.ent with
  | some es =>
    simp only [hent] at h ⊢
    cases t with
    | pi b => simp [stepEntry, tokDepth, depth, hent]
    | comment b => simp [stepEntry, tokDepth, depth, hent]
    | chars x => simp only [stepEntry]; split <;> simp [tokDepth, depth, hent]
    | start n as sc =>
      simp only [stepEntry]
      cases sc with
      | true => simp only [if_true]; split <;> simp [tokDepth, depth, hent]
      | false => simp [tokDepth, depth, hent]; omega
    | close n =>
      simp only [stepEntry] at h ⊢
      cases hin : es.inner with
      | cons top rest =>
        simp only [hin] at h ⊢
        by_cases e : top = n
        · simp [e, tokDepth, depth, hent, hin]; omega
        · simp [e, St.failEntry] at h
      | nil =>
        simp only [hin] at h ⊢
        by_cases e : strEq n "entry" = true
        · simp [e, tokDepth, depth, hent, hin]
        · simp [e, St.failEntry] at h
  | none =>
    simp only [hent] at h ⊢
    cases t with
    | pi b => simp [tokDepth, depth, hent]
    | comment b => simp [tokDepth, depth, hent]
    | chars x => simp [tokDepth, depth, hent]
    | close n =>
      cases hst : s.stack with
      | nil => simp [hst] at h
      | cons top rest =>
        simp only [hst] at h ⊢
        by_cases e : top = n
        · simp [e, tokDepth, depth, hent, hst]
        · simp [e] at h
    | start n as sc =>
      by_cases e : strEq n "entry" = true
      · cases sc <;> simp [e, tokDepth, depth, hent]
      · cases sc <;> simp [e, tokDepth, depth, hent]

theorem run_depth : ∀ (ts : List Tok) (s : St), (run s ts).dead = false →
    depthAfter (depth s) ts = some (depth (run s ts))
  | [], _, _ => rfl
  | t :: ts, s, h => by
    rw [run_cons] at h ⊢
    have hst : (step s t).dead = false := by
      cases hd : (step s t).dead with
      | false => rfl
      | true => rw [run_dead ts _ hd] at h; cases h
    have := step_depth s t hst
    simp only [depthAfter, this.2, Option.bind_some]
    exact run_depth ts (step s t) h

theorem depthAfter_append : ∀ (a b : List Tok) (d : Nat),
    depthAfter d (a ++ b) = (depthAfter d a).bind (fun d' => depthAfter d' b)
  | [], _, _ => rfl
  | t :: a, b, d => by
    simp only [List.cons_append, depthAfter]
    cases tokDepth d t with
    | none => rfl
    | some d' => simpa using depthAfter_append a b d'

/-- deeper by `k` at the start, deeper by `k` at the end -/
theorem depthAfter_shift : ∀ (ts : List Tok) (d m k : Nat), depthAfter d ts = some m → depthAfter (d + k) ts = some (m + k)
  | [], d, m, k, h => by simp only [depthAfter, Option.some.injEq] at h ⊢; omega
  | t :: ts, d, m, k, h => by
    simp only [depthAfter] at h ⊢
    cases t with
    | close n =>
      simp only [tokDepth] at h ⊢
      by_cases hd : d = 0
      · simp [hd] at h
      · have : ¬ d + k = 0 := by omega
        simp only [hd, this, if_false, Option.bind_some] at h ⊢
        have := depthAfter_shift ts (d - 1) m k h
        rwa [show d - 1 + k = d + k - 1 by omega] at this
    | start n as sc =>
      cases sc with
      | false =>
        simp only [tokDepth, Option.bind_some] at h ⊢
        have := depthAfter_shift ts (d + 1) m k h
        rwa [show d + 1 + k = d + k + 1 by omega] at this
      | true => simp only [tokDepth, Option.bind_some] at h ⊢; exact depthAfter_shift ts d m k h
    | pi b => simp only [tokDepth, Option.bind_some] at h ⊢; exact depthAfter_shift ts d m k h
    | comment b => simp only [tokDepth, Option.bind_some] at h ⊢; exact depthAfter_shift ts d m k h
    | chars x => simp only [tokDepth, Option.bind_some] at h ⊢; exact depthAfter_shift ts d m k h

/-- a prefix of a token sequence that never closes too much never closes too much -/
theorem depthAfter_prefix (a b : List Tok) (d m : Nat) (h : depthAfter d (a ++ b) = some m) :
    ∃ m', depthAfter d a = some m' := by
  rw [depthAfter_append] at h
  cases ha : depthAfter d a with
  | none => rw [ha] at h; cases h
  | some m' => exact ⟨m', rfl⟩

end PolyVerif.Spec.XmlScan
