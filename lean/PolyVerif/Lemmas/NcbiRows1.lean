import PolyVerif.Lemmas.NcbiRowDefs
namespace PolyVerif.CodonTranslate
/-- decided on the regenerated tables: NCBI's residue = the compiled Translate's answer = the model's lookup, 64 codons per table -/
theorem rows_ok_a : ∀ id ∈ [1, 2, 3, 4, 5], rowOk id = true := by decide +kernel
end PolyVerif.CodonTranslate
