import PolyVerif.Lemmas.GbBuild
import PolyVerif.Lemmas.LocationNum
/-
C03: the ORIGIN section written by `buildOrigin` is read back by the column reader.
-/
namespace PolyVerif.Lemmas.GbOrigin
open PolyVerif PolyVerif.StrBuild PolyVerif.GenbankBuild PolyVerif.Spec.GbStrict
open PolyVerif.Lemmas.GbBuild
open PolyVerif.Location (itoa)

/-! ### chunks -/

/-- pieces of `n` elements, the last one shorter when the length is not a multiple (fuel `f ≥ length`) -/
def chunksF {α : Type} (n : Nat) : Nat → List α → List (List α)
  | 0, _ => []
  | f + 1, l => if l.length ≤ n then [l] else l.take n :: chunksF n f (l.drop n)

def chunks {α : Type} (n : Nat) (l : List α) : List (List α) := chunksF n l.length l

theorem chunksF_flatten {α : Type} {n : Nat} (hn : 0 < n) : ∀ (f : Nat) (l : List α), l ≠ [] → l.length ≤ f →
    (chunksF n f l).flatten = l
  | 0, l, h0, hl => by
    have : l = [] := List.length_eq_zero_iff.mp (by omega)
    exact absurd this h0
  | f + 1, l, h0, hl => by
    unfold chunksF
    split
    · simp
    · rename_i hlen
      have hd : l.drop n ≠ [] := by
        intro e
        have := congrArg List.length e
        simp at this
        omega
      rw [List.flatten_cons, chunksF_flatten hn f (l.drop n) hd (by simp; omega), List.take_append_drop]

/-- all pieces but the last have exactly `n` elements, the last between 1 and `n` -/
def ChunksOK {α : Type} (n : Nat) : List (List α) → Prop
  | [] => False
  | [c] => c ≠ [] ∧ c.length ≤ n
  | c :: d :: cs => c.length = n ∧ ChunksOK n (d :: cs)

theorem chunksF_ok {α : Type} {n : Nat} (hn : 0 < n) : ∀ (f : Nat) (l : List α), l ≠ [] → l.length ≤ f →
    ChunksOK n (chunksF n f l)
  | 0, l, h0, hl => by
    have : l = [] := List.length_eq_zero_iff.mp (by omega)
    exact absurd this h0
  | f + 1, l, h0, hl => by
    unfold chunksF
    split
    · rename_i hlen
      exact ⟨h0, hlen⟩
    · rename_i hlen
      have hd : l.drop n ≠ [] := by
        intro e
        have := congrArg List.length e
        simp at this
        omega
      have ih := chunksF_ok hn f (l.drop n) hd (by simp; omega)
      cases hc : chunksF n f (l.drop n) with
      | nil => rw [hc] at ih; exact ih.elim
      | cons d cs =>
        rw [hc] at ih
        exact ⟨by simp; omega, ih⟩

theorem chunksF_count {α : Type} {n : Nat} (hn : 0 < n) : ∀ (f : Nat) (l : List α), l ≠ [] → l.length ≤ f →
    (chunksF n f l).length * n < l.length + n
  | 0, l, h0, hl => by
    have : l = [] := List.length_eq_zero_iff.mp (by omega)
    exact absurd this h0
  | f + 1, l, h0, hl => by
    unfold chunksF
    split
    · have : 0 < l.length := List.length_pos_iff.mpr h0
      simp; omega
    · rename_i hlen
      have hd : l.drop n ≠ [] := by
        intro e
        have := congrArg List.length e
        simp at this
        omega
      have ih := chunksF_count hn f (l.drop n) hd (by simp; omega)
      simp only [List.length_cons, List.length_drop] at ih ⊢
      rw [Nat.add_mul]
      omega

theorem mem_chunksF_sub {α : Type} {n : Nat} : ∀ (f : Nat) (l c : List α), c ∈ chunksF n f l → ∀ x ∈ c, x ∈ l
  | 0, l, c, h => by simp [chunksF] at h
  | f + 1, l, c, h => by
    unfold chunksF at h
    split at h
    · simp only [List.mem_singleton] at h
      subst h
      exact fun x hx => hx
    · rcases List.mem_cons.mp h with rfl | h
      · exact fun x hx => List.mem_of_mem_take hx
      · exact fun x hx => List.mem_of_mem_drop (mem_chunksF_sub f _ c h x hx)

/-! ### the ORIGIN loop, cell by cell -/

def cells (i : Nat) (s : Str) : Str := ((s.zipIdx i).map fun p => originCell p.2 p.1).flatten

theorem buildOrigin_eq (s : Str) : buildOrigin s = cells 0 s := rfl

theorem cells_nil (i : Nat) : cells i [] = [] := rfl

theorem cells_cons (i : Nat) (b : Char) (s : Str) : cells i (b :: s) = originCell i b ++ cells (i + 1) s := by
  simp [cells]

theorem cells_append : ∀ (a b : Str) (i : Nat), cells i (a ++ b) = cells i a ++ cells (i + a.length) b
  | [], b, i => by simp [cells_nil]
  | c :: a, b, i => by
    rw [List.cons_append, cells_cons, cells_cons, cells_append a b (i + 1), List.append_assoc]
    simp only [List.length_cons]
    rw [show i + 1 + a.length = i + (a.length + 1) by omega]

theorem cells_plain : ∀ (s : Str) (i : Nat), (∀ k, k < s.length → (i + k) % 10 ≠ 0) → cells i s = s
  | [], _, _ => rfl
  | b :: s, i, h => by
    have h0 : i % 10 ≠ 0 := by simpa using h 0 (by simp)
    have h60 : ¬ i % 60 = 0 := by omega
    rw [cells_cons, originCell, if_neg h60, if_neg h0,
      cells_plain s (i + 1) (fun k hk => by
        have := h (k + 1) (by simp; omega)
        rwa [show i + 1 + k = i + (k + 1) by omega])]
    rfl

theorem cells_group {g : Str} (hg : g ≠ []) (hl : g.length ≤ 10) {i : Nat} (h10 : i % 10 = 0) (h60 : i % 60 ≠ 0) :
    cells i g = ' ' :: g := by
  cases g with
  | nil => exact absurd rfl hg
  | cons b g =>
    rw [cells_cons, originCell, if_neg h60, if_pos h10,
      cells_plain g (i + 1) (fun k hk => by simp only [List.length_cons] at hl; omega)]
    rfl

/-- the counter of a line: right-justified in 9 columns -/
def counter (i : Nat) : Str := spaces (9 - (itoa (i + 1)).length) ++ itoa (i + 1)

theorem cells_first {g : Str} (hg : g ≠ []) (hl : g.length ≤ 10) {i : Nat} (h60 : i % 60 = 0) :
    cells i g = (if i ≠ 0 then ['\n'] else []) ++ counter i ++ ' ' :: g := by
  cases g with
  | nil => exact absurd rfl hg
  | cons b g =>
    rw [cells_cons, originCell, if_pos h60,
      cells_plain g (i + 1) (fun k hk => by simp only [List.length_cons] at hl; omega)]
    simp [counter]

theorem groupsOk_single {g : Str} (h : groupsOk [g] = true) : g ≠ [] ∧ g.length ≤ 10 := by
  simp only [groupsOk, Bool.and_eq_true, bne_iff_ne, ne_eq, decide_eq_true_eq] at h
  exact ⟨h.1.1, h.1.2⟩

theorem groupsOk_cons {g g2 : Str} {gs : List Str} (h : groupsOk (g :: g2 :: gs) = true) :
    g.length = 10 ∧ groupsOk (g2 :: gs) = true := by
  simp only [groupsOk, Bool.and_eq_true, beq_iff_eq] at h
  exact ⟨h.1.1, h.2⟩

theorem cells_rest : ∀ (gs : List Str) (i : Nat), groupsOk gs = true → i % 10 = 0 →
    (∀ j, j < gs.length → (i + 10 * j) % 60 ≠ 0) → cells i gs.flatten = (gs.map (' ' :: ·)).flatten
  | [], _, h, _, _ => by simp [groupsOk] at h
  | [g], i, h, h10, h60 => by
    obtain ⟨hg, hl⟩ := groupsOk_single h
    have := h60 0 (by simp)
    simp only [List.flatten_cons, List.flatten_nil, List.append_nil, List.map_cons, List.map_nil]
    exact cells_group hg hl h10 (by simpa using this)
  | g :: g2 :: gs, i, h, h10, h60 => by
    obtain ⟨hl, hok⟩ := groupsOk_cons h
    have hg : g ≠ [] := by intro e; rw [e] at hl; simp at hl
    have h0 := h60 0 (by simp)
    rw [List.flatten_cons, cells_append, cells_group hg (by omega) h10 (by simpa using h0), hl,
      cells_rest (g2 :: gs) (i + 10) hok (by omega) (fun j hj => by
        have := h60 (j + 1) (by simp only [List.length_cons] at hj ⊢; omega)
        rwa [show i + 10 + 10 * j = i + 10 * (j + 1) by omega])]
    simp

theorem flatten_blank_cons : ∀ gs : List Str, gs ≠ [] → (gs.map (' ' :: ·)).flatten = ' ' :: joinSp gs
  | [], h => absurd rfl h
  | [g], _ => by simp [joinSp]
  | g :: g2 :: gs, _ => by
    have ih := flatten_blank_cons (g2 :: gs) (by simp)
    simp only [List.map_cons, List.flatten_cons] at ih ⊢
    rw [ih]
    simp [joinSp]

/-- one line of the ORIGIN section: counter, blank, groups separated by single blanks -/
def lineText (i : Nat) (gs : List Str) : Str := counter i ++ ' ' :: joinSp gs

theorem cells_line : ∀ (gs : List Str) (i : Nat), groupsOk gs = true → gs.length ≤ 6 → i % 60 = 0 →
    cells i gs.flatten = (if i ≠ 0 then ['\n'] else []) ++ lineText i gs
  | [], _, h, _, _ => by simp [groupsOk] at h
  | [g], i, h, _, h60 => by
    obtain ⟨hg, hl⟩ := groupsOk_single h
    simp only [List.flatten_cons, List.flatten_nil, List.append_nil, lineText, joinSp]
    rw [cells_first hg hl h60, List.append_assoc]
  | g :: g2 :: gs, i, h, hlen, h60 => by
    obtain ⟨hl, hok⟩ := groupsOk_cons h
    have hg : g ≠ [] := by intro e; rw [e] at hl; simp at hl
    simp only [List.length_cons] at hlen
    rw [List.flatten_cons, cells_append, cells_first hg (by omega) h60, hl,
      cells_rest (g2 :: gs) (i + 10) hok (by omega) (fun j hj => by
        simp only [List.length_cons] at hj
        omega),
      flatten_blank_cons (g2 :: gs) (by simp)]
    simp [lineText, joinSp]

/-! ### groups and lines of a sequence -/

theorem groupsOk_of_chunksOK : ∀ gs : List Str, ChunksOK 10 gs → (∀ g ∈ gs, g.all isLetter = true) → groupsOk gs = true
  | [], h, _ => h.elim
  | [g], h, hl => by
    simp only [groupsOk, Bool.and_eq_true, bne_iff_ne, ne_eq, decide_eq_true_eq]
    exact ⟨⟨h.1, h.2⟩, hl g (by simp)⟩
  | g :: g2 :: gs, h, hl => by
    have ih := groupsOk_of_chunksOK (g2 :: gs) h.2 (fun x hx => hl x (List.mem_cons_of_mem _ hx))
    simp only [groupsOk, Bool.and_eq_true, beq_iff_eq]
    exact ⟨⟨h.1, hl g (by simp)⟩, ih⟩

theorem all_of_mem_chunks {n : Nat} {l : Str} (h : l.all isLetter = true) : ∀ c ∈ chunks n l, c.all isLetter = true := by
  intro c hc
  rw [List.all_eq_true] at h ⊢
  exact fun x hx => h x (mem_chunksF_sub _ _ c hc x hx)

theorem groups_of_piece {c : Str} (hne : c ≠ []) (hlen : c.length ≤ 60) (hlet : c.all isLetter = true) :
    groupsOk (chunks 10 c) = true ∧ (chunks 10 c).length ≤ 6 ∧ (chunks 10 c).flatten = c := by
  refine ⟨groupsOk_of_chunksOK _ (chunksF_ok (by decide) _ c hne (Nat.le_refl _)) (all_of_mem_chunks hlet), ?_,
    chunksF_flatten (by decide) _ c hne (Nat.le_refl _)⟩
  have := chunksF_count (n := 10) (by decide) c.length c hne (Nat.le_refl _)
  unfold chunks
  omega

/-- the lines of the ORIGIN section for the pieces `cs`, the first one starting after `60 * k` bases -/
def oLines : Nat → List Str → List Str
  | _, [] => []
  | k, c :: cs => lineText (60 * k) (chunks 10 c) :: oLines (k + 1) cs

/-- every line preceded by a newline -/
def nlLines (ls : List Str) : Str := (ls.map ('\n' :: ·)).flatten

theorem nlLines_cons (l : Str) (ls : List Str) : nlLines (l :: ls) = '\n' :: l ++ nlLines ls := by
  simp [nlLines]

theorem cells_pieces : ∀ (cs : List Str) (k : Nat), ChunksOK 60 cs → (∀ c ∈ cs, c.all isLetter = true) →
    (if 60 * k ≠ 0 then [] else ['\n']) ++ cells (60 * k) cs.flatten = nlLines (oLines k cs)
  | [], _, h, _ => h.elim
  | [c], k, h, hl => by
    obtain ⟨hg, hn, hf⟩ := groups_of_piece h.1 h.2 (hl c (by simp))
    have := cells_line (chunks 10 c) (60 * k) hg hn (by omega)
    rw [hf] at this
    simp only [List.flatten_cons, List.flatten_nil, List.append_nil, oLines, nlLines]
    rw [this]
    split <;> simp
  | c :: d :: cs, k, h, hl => by
    have hc60 : c.length = 60 := h.1
    have hne : c ≠ [] := by intro e; rw [e] at hc60; simp at hc60
    obtain ⟨hg, hn, hf⟩ := groups_of_piece hne (by omega) (hl c (by simp))
    have h1 := cells_line (chunks 10 c) (60 * k) hg hn (by omega)
    rw [hf] at h1
    have ih := cells_pieces (d :: cs) (k + 1) h.2 (fun x hx => hl x (List.mem_cons_of_mem _ hx))
    rw [if_pos (by omega)] at ih
    rw [List.flatten_cons, cells_append, h1, hc60, show 60 * k + 60 = 60 * (k + 1) by omega]
    simp only [List.nil_append] at ih
    rw [ih]
    simp only [oLines, nlLines_cons]
    split <;> simp

/-! ### reading it back -/

theorem itoaF_length : ∀ (f n d : Nat), n < 10 ^ d → (Location.itoaF f n).length ≤ d
  | 0, _, _, _ => by simp [Location.itoaF]
  | f + 1, n, d, h => by
    unfold Location.itoaF
    split
    · simp
    · rename_i hn
      cases d with
      | zero => simp at h; omega
      | succ d =>
        have : n / 10 < 10 ^ d := by
          rw [Nat.pow_succ] at h
          omega
        have := itoaF_length f (n / 10) d this
        simp; omega

theorem itoa_length {n d : Nat} (hd : 0 < d) (h : n < 10 ^ d) : (itoa n).length ≤ d := by
  unfold Location.itoa
  split
  · simp; omega
  · exact itoaF_length n n d h

theorem isDigit_of_isDig {c : Char} (h : Insdc.isDig c = true) : isDigit c = true := by
  simp only [Insdc.isDig, Bool.and_eq_true, decide_eq_true_eq] at h
  simp [isDigit, h.1, h.2]

theorem natOfDigits_itoa (n : Nat) : natOfDigits (itoa n) = n := Location.itoa_horner n

theorem trimLeft_spaces (n : Nat) {t : Str} (h : ∀ c r, t = c :: r → c ≠ ' ') : trimLeft (spaces n ++ t) = t := by
  induction n with
  | zero =>
    simp only [spaces, List.replicate_zero, List.nil_append, trimLeft]
    cases t with
    | nil => rfl
    | cons c r =>
      have := h c r rfl
      simp [this]
  | succ n ih =>
    simp only [spaces, List.replicate_succ, List.cons_append, trimLeft] at ih ⊢
    simpa using ih

theorem counter_length {i : Nat} (h : (itoa (i + 1)).length ≤ 9) : (counter i).length = 9 := by
  simp [counter, spaces]; omega

theorem fields_noBlank : ∀ g : Str, (∀ c ∈ g, c ≠ ' ') → fields g = [g]
  | [], _ => rfl
  | c :: g, h => by
    have hc : c ≠ ' ' := h c List.mem_cons_self
    have ih := fields_noBlank g (fun d hd => h d (List.mem_cons_of_mem _ hd))
    simp only [fields, List.foldr_cons] at ih ⊢
    rw [ih]
    simp [fieldStep, hc]

theorem fields_append_blank : ∀ (g r : Str), (∀ c ∈ g, c ≠ ' ') → fields (g ++ ' ' :: r) = g :: fields r
  | [], r, _ => by simp [fields, fieldStep]
  | c :: g, r, h => by
    have hc : c ≠ ' ' := h c List.mem_cons_self
    have ih := fields_append_blank g r (fun d hd => h d (List.mem_cons_of_mem _ hd))
    simp only [fields, List.cons_append, List.foldr_cons] at ih ⊢
    rw [ih]
    simp [fieldStep, hc]

theorem fields_joinSp : ∀ gs : List Str, gs ≠ [] → (∀ g ∈ gs, ∀ c ∈ g, c ≠ ' ') → fields (joinSp gs) = gs
  | [], h, _ => absurd rfl h
  | [g], _, hb => fields_noBlank g (hb g (by simp))
  | g :: g2 :: gs, _, hb => by
    show fields (g ++ ' ' :: joinSp (g2 :: gs)) = _
    rw [fields_append_blank g _ (hb g (by simp)),
      fields_joinSp (g2 :: gs) (by simp) (fun x hx => hb x (List.mem_cons_of_mem _ hx))]

theorem letter_ne_blank {c : Char} (h : isLetter c = true) : c ≠ ' ' := by
  intro e; subst e; revert h; decide

theorem letter_ne_nl {c : Char} (h : isLetter c = true) : c ≠ '\n' := by
  intro e; subst e; revert h; decide

theorem groupsOk_letters : ∀ gs : List Str, groupsOk gs = true → ∀ g ∈ gs, g.all isLetter = true
  | [], h, _, _ => by simp [groupsOk] at h
  | [g], h, x, hx => by
    simp only [groupsOk, Bool.and_eq_true] at h
    rw [List.mem_singleton.mp hx]
    exact h.2
  | g :: g2 :: gs, h, x, hx => by
    simp only [groupsOk, Bool.and_eq_true] at h
    rcases List.mem_cons.mp hx with rfl | hx
    · exact h.1.2
    · exact groupsOk_letters (g2 :: gs) h.2 x hx

theorem readOriginLine_lineText (i : Nat) (gs : List Str) (hok : groupsOk gs = true) (hn : gs.length ≤ 6)
    (hi : (itoa (i + 1)).length ≤ 9) : readOriginLine i (lineText i gs) = some gs.flatten := by
  have hc9 := counter_length hi
  have htake : (lineText i gs).take 9 = counter i := by
    unfold lineText
    rw [List.take_append_of_le_length (by omega), List.take_of_length_le (by omega)]
  have hdrop9 : (lineText i gs).drop 9 = ' ' :: joinSp gs := by
    unfold lineText
    rw [List.drop_append_of_le_length (by omega), List.drop_of_length_le (by omega)]
    rfl
  have hdrop10 : (lineText i gs).drop 10 = joinSp gs := by
    rw [show (10 : Nat) = 9 + 1 from rfl, ← List.drop_drop, hdrop9]
    rfl
  have hnum : trimLeft (counter i) = itoa (i + 1) := by
    unfold counter
    apply trimLeft_spaces
    intro c r e
    have := Location.itoa_digits (i + 1) c (by rw [e]; exact List.mem_cons_self)
    intro eb; subst eb; revert this; decide
  have hgs : gs ≠ [] := by intro e; subst e; simp [groupsOk] at hok
  have hfields : fields (joinSp gs) = gs :=
    fields_joinSp gs hgs (fun g hg c hc =>
      letter_ne_blank (List.all_eq_true.mp (groupsOk_letters gs hok g hg) c hc))
  unfold readOriginLine
  simp only [htake, hdrop9, hdrop10, hnum, hfields]
  rw [if_pos ⟨hc9, Location.itoa_ne_nil _, by
      rw [List.all_eq_true]; exact fun c hc => isDigit_of_isDig (Location.itoa_digits _ c hc),
    natOfDigits_itoa _, rfl⟩]
  rw [if_pos ⟨hok, hn⟩]

theorem readOrigin_pieces : ∀ (cs : List Str) (k : Nat), ChunksOK 60 cs → (∀ c ∈ cs, c.all isLetter = true) →
    60 * (k + cs.length) < 10 ^ 9 + 60 → readOrigin (60 * k) (oLines k cs) = some cs.flatten
  | [], _, h, _, _ => h.elim
  | [c], k, h, hl, hb => by
    obtain ⟨hg, hn, hf⟩ := groups_of_piece h.1 h.2 (hl c (by simp))
    simp only [oLines, readOrigin, List.flatten_cons, List.flatten_nil, List.append_nil]
    rw [readOriginLine_lineText _ _ hg hn (itoa_length (by decide) (by simp at hb; omega)), hf]
  | c :: d :: cs, k, h, hl, hb => by
    have hc60 : c.length = 60 := h.1
    have hne : c ≠ [] := by intro e; rw [e] at hc60; simp at hc60
    obtain ⟨hg, hn, hf⟩ := groups_of_piece hne (by omega) (hl c (by simp))
    have ih := readOrigin_pieces (d :: cs) (k + 1) h.2 (fun x hx => hl x (List.mem_cons_of_mem _ hx))
      (by simp only [List.length_cons] at hb ⊢; omega)
    simp only [oLines] at ih ⊢
    show (match readOriginLine (60 * k) (lineText (60 * k) (chunks 10 c)) with
      | some g =>
        if g.length = 60 then
          match readOrigin (60 * k + 60) (lineText (60 * (k + 1)) (chunks 10 d) :: oLines (k + 1 + 1) cs) with
          | some rest => some (g ++ rest)
          | none => none
        else none
      | none => none) = _
    rw [readOriginLine_lineText _ _ hg hn (itoa_length (by decide) (by simp at hb; omega)), hf]
    simp only [hc60, if_true]
    rw [show 60 * k + 60 = 60 * (k + 1) by omega, ih]
    simp

/-! ### the section as lines -/

theorem lines_nlLines : ∀ (ls : List Str) (l0 t : Str), NoNl l0 → (∀ l ∈ ls, NoNl l) →
    lines (l0 ++ nlLines ls ++ '\n' :: t) = l0 :: ls ++ lines t
  | [], l0, t, h0, _ => by
    simp only [nlLines, List.map_nil, List.flatten_nil, List.append_nil]
    rw [lines_append_nl _ h0]
    rfl
  | l :: ls, l0, t, h0, h => by
    rw [nlLines_cons]
    simp only [List.cons_append, List.append_assoc]
    rw [lines_append_nl _ h0, ← List.append_assoc,
      lines_nlLines ls l t (h l List.mem_cons_self) (fun x hx => h x (List.mem_cons_of_mem _ hx))]
    rfl

theorem noNl_joinSp : ∀ gs : List Str, (∀ g ∈ gs, NoNl g) → NoNl (joinSp gs)
  | [], _ => by intro c hc; simp [joinSp] at hc
  | [g], h => h g (by simp)
  | g :: g2 :: gs, h => by
    show NoNl (g ++ ' ' :: joinSp (g2 :: gs))
    refine NoNl.append (h g (by simp)) ?_
    intro c hc
    rcases List.mem_cons.mp hc with rfl | hc
    · decide
    · exact noNl_joinSp (g2 :: gs) (fun x hx => h x (List.mem_cons_of_mem _ hx)) c hc

theorem noNl_counter (i : Nat) : NoNl (counter i) := by
  refine NoNl.append (noNl_replicate _) ?_
  intro c hc e
  have := Location.itoa_digits (i + 1) c hc
  subst e
  revert this
  decide

theorem noNl_lineText (i : Nat) (gs : List Str) (h : groupsOk gs = true) : NoNl (lineText i gs) := by
  refine NoNl.append (noNl_counter i) ?_
  intro c hc
  rcases List.mem_cons.mp hc with rfl | hc
  · decide
  · exact noNl_joinSp gs (fun g hg d hd =>
      letter_ne_nl (List.all_eq_true.mp (groupsOk_letters gs h g hg) d hd)) c hc

/-- a sequence line begins with a blank or a digit -/
theorem lineText_head (i : Nat) (gs : List Str) : ∃ c r, lineText i gs = c :: r ∧ c ≠ '/' := by
  obtain ⟨d, t, e, hd⟩ := Location.itoa_cons (i + 1)
  unfold lineText counter
  cases hs : spaces (9 - (itoa (i + 1)).length) with
  | nil =>
    rw [e]
    refine ⟨d, _, rfl, ?_⟩
    intro e'; subst e'; revert hd; decide
  | cons c r =>
    have : c = ' ' := by
      have : c ∈ spaces (9 - (itoa (i + 1)).length) := by rw [hs]; exact List.mem_cons_self
      exact (List.mem_replicate.mp this).2
    refine ⟨c, _, rfl, ?_⟩
    rw [this]; decide

theorem oLines_props : ∀ (cs : List Str) (k : Nat), ChunksOK 60 cs → (∀ c ∈ cs, c.all isLetter = true) →
    ∀ l ∈ oLines k cs, NoNl l ∧ ∃ c r, l = c :: r ∧ c ≠ '/'
  | [], _, h, _ => h.elim
  | [c], k, h, hl => by
    intro l hmem
    obtain ⟨hg, _, _⟩ := groups_of_piece h.1 h.2 (hl c (by simp))
    simp only [oLines, List.mem_singleton] at hmem
    subst hmem
    exact ⟨noNl_lineText _ _ hg, lineText_head _ _⟩
  | c :: d :: cs, k, h, hl => by
    intro l hmem
    have hc60 : c.length = 60 := h.1
    have hne : c ≠ [] := by intro e; rw [e] at hc60; simp at hc60
    obtain ⟨hg, _, _⟩ := groups_of_piece hne (by omega) (hl c (by simp))
    simp only [oLines, List.mem_cons] at hmem
    rcases hmem with rfl | hmem
    · exact ⟨noNl_lineText _ _ hg, lineText_head _ _⟩
    · exact oLines_props (d :: cs) (k + 1) h.2 (fun x hx => hl x (List.mem_cons_of_mem _ hx)) l (by simpa [oLines] using hmem)

/-- the lines of the ORIGIN section, concretely -/
theorem origin_lines (seq : Str) (hne : seq ≠ []) (hlet : seq.all isLetter = true) :
    lines (buildOrigin seq ++ "\n//".toList) = oLines 0 (chunks 60 seq) ++ ["//".toList] := by
  have hok : ChunksOK 60 (chunks 60 seq) := chunksF_ok (by decide) _ seq hne (Nat.le_refl _)
  have hfl : (chunks 60 seq).flatten = seq := chunksF_flatten (by decide) _ seq hne (Nat.le_refl _)
  have hl : ∀ c ∈ chunks 60 seq, c.all isLetter = true := all_of_mem_chunks hlet
  have hcells := cells_pieces (chunks 60 seq) 0 hok hl
  rw [hfl] at hcells
  simp only [Nat.mul_zero, ne_eq, not_true_eq_false, if_false] at hcells
  have hprops := oLines_props (chunks 60 seq) 0 hok hl
  cases hO : oLines 0 (chunks 60 seq) with
  | nil =>
    rw [hO] at hcells
    simp [nlLines] at hcells
  | cons l0 ls =>
    rw [hO] at hcells hprops
    rw [nlLines_cons] at hcells
    have hc : cells 0 seq = l0 ++ nlLines ls := (List.cons.inj hcells).2
    have e : "\n//".toList = '\n' :: "//".toList := by decide
    rw [buildOrigin_eq, hc, e, lines_nlLines ls l0 _ (hprops l0 List.mem_cons_self).1
      (fun x hx => (hprops x (List.mem_cons_of_mem _ hx)).1)]
    have : lines "//".toList = ["//".toList] := by decide
    rw [this]

/-- The ORIGIN section of a non-empty sequence of letters (fewer than 10^9): the text
`buildOrigin seq ++ "\n//"` consists of sequence lines followed by the terminator line, none of
the sequence lines is a terminator, and the column reader recovers the sequence from them. -/
theorem origin_section (seq : Str) (hne : seq ≠ []) (hlet : seq.all isLetter = true) (hlen : seq.length < 10 ^ 9) :
    ∃ ols : List Str, lines (buildOrigin seq ++ "\n//".toList) = ols ++ ["//".toList]
      ∧ readOrigin 0 ols = some seq ∧ ∀ l ∈ ols, l ≠ "//".toList := by
  have hok : ChunksOK 60 (chunks 60 seq) := chunksF_ok (by decide) _ seq hne (Nat.le_refl _)
  have hfl : (chunks 60 seq).flatten = seq := chunksF_flatten (by decide) _ seq hne (Nat.le_refl _)
  have hl : ∀ c ∈ chunks 60 seq, c.all isLetter = true := all_of_mem_chunks hlet
  have hcount := chunksF_count (n := 60) (by decide) seq.length seq hne (Nat.le_refl _)
  refine ⟨oLines 0 (chunks 60 seq), ?_, ?_, ?_⟩
  · have hcells := cells_pieces (chunks 60 seq) 0 hok hl
    rw [hfl] at hcells
    simp only [Nat.mul_zero, ne_eq, not_true_eq_false, if_false] at hcells
    have hprops := oLines_props (chunks 60 seq) 0 hok hl
    cases hO : oLines 0 (chunks 60 seq) with
    | nil =>
      rw [hO] at hcells
      simp [nlLines] at hcells
    | cons l0 ls =>
      rw [hO] at hcells hprops
      rw [nlLines_cons] at hcells
      have hc : cells 0 seq = l0 ++ nlLines ls := by
        have := List.cons.inj hcells
        exact this.2
      have e : "\n//".toList = '\n' :: "//".toList := by decide
      rw [buildOrigin_eq, hc, e, lines_nlLines ls l0 _ (hprops l0 List.mem_cons_self).1
        (fun x hx => (hprops x (List.mem_cons_of_mem _ hx)).1)]
      have : lines "//".toList = ["//".toList] := by decide
      rw [this]
  · have := readOrigin_pieces (chunks 60 seq) 0 hok hl (by
      unfold chunks
      simp only [Nat.zero_add]
      omega)
    rw [hfl] at this
    simpa using this
  · intro l hmem e
    obtain ⟨_, c, r, e', hc⟩ := oLines_props (chunks 60 seq) 0 hok hl l hmem
    rw [e] at e'
    have : "//".toList = '/' :: "/".toList := by decide
    rw [this] at e'
    exact hc (List.cons.inj e').1.symm

end PolyVerif.Lemmas.GbOrigin
