import PolyVerif.Lemmas.Rebase
import PolyVerif.Lemmas.JsonText
/-
Helper lemmas for Props/C16, second part: the whole listing, the map it denotes, export/import.
-/
namespace PolyVerif.Rebase
open PolyVerif PolyVerif.LineText PolyVerif.Spec.RebaseListing

/-! ### lines of the blocks -/

theorem mem_supplierBlock {blank indent : Str} : ∀ (sups : List Supplier) (gaps : List Nat) (l : Str),
    l ∈ supplierBlock blank indent sups gaps → l = blank ∨ ∃ s ∈ sups, l = supplierLine indent s
  | [], _, l, h => by simp [supplierBlock] at h
  | s :: ss, [], l, h => by
    simp only [supplierBlock, List.mem_cons] at h
    rcases h with rfl | h
    · exact Or.inr ⟨s, by simp, rfl⟩
    · rcases mem_supplierBlock ss [] l h with h | ⟨x, hx, e⟩
      · exact Or.inl h
      · exact Or.inr ⟨x, by simp [hx], e⟩
  | s :: ss, g :: gs, l, h => by
    simp only [supplierBlock, List.mem_append, List.mem_cons, List.mem_replicate] at h
    rcases h with ⟨_, rfl⟩ | rfl | h
    · exact Or.inl rfl
    · exact Or.inr ⟨s, by simp, rfl⟩
    · rcases mem_supplierBlock ss gs l h with h | ⟨x, hx, e⟩
      · exact Or.inl h
      · exact Or.inr ⟨x, by simp [hx], e⟩

theorem mem_recBlock {blank : Str} : ∀ (recs : List Rec) (gaps : List Nat) (l : Str),
    l ∈ recBlock blank recs gaps → l = blank ∨ ∃ r ∈ recs, l ∈ recLines r
  | [], _, l, h => by simp [recBlock] at h
  | r :: rs, [], l, h => by
    simp only [recBlock, List.mem_append, List.mem_cons] at h
    rcases h with h | rfl | h
    · exact Or.inr ⟨r, by simp, h⟩
    · exact Or.inl rfl
    · rcases mem_recBlock rs [] l h with h | ⟨x, hx, e⟩
      · exact Or.inl h
      · exact Or.inr ⟨x, by simp [hx], e⟩
  | r :: rs, g :: gs, l, h => by
    simp only [recBlock, List.mem_append, List.mem_replicate] at h
    rcases h with (h | ⟨_, rfl⟩) | h
    · exact Or.inr ⟨r, by simp, h⟩
    · exact Or.inl rfl
    · rcases mem_recBlock rs gs l h with h | ⟨x, hx, e⟩
      · exact Or.inl h
      · exact Or.inr ⟨x, by simp [hx], e⟩

theorem blank_noNl {blank : Str} (hb : ∀ c ∈ blank, isBlank c = true) : '\n' ∉ blank :=
  fun hm => absurd (hb _ hm) (by decide)

theorem supplierLine_noNl {indent : Str} {s : Supplier} (hi : ∀ c ∈ indent, isBlank c = true)
    (hw : wfSupplier indent s = true) : '\n' ∉ supplierLine indent s := by
  simp only [wfSupplier, Bool.and_eq_true, Bool.not_eq_true', bne_iff_ne, ne_eq] at hw
  obtain ⟨⟨⟨⟨_, hc⟩, hn⟩, _⟩, _⟩ := hw
  simp only [supplierLine, List.mem_append, List.mem_cons, List.mem_replicate, not_or]
  exact ⟨⟨blank_noNl hi, fun e => hc e.symm, fun e => absurd e.2 (by decide)⟩, noNl_spec hn⟩

/-! ### the map a listing denotes -/

theorem foldl_ext_mem {α β : Type} (f g : β → α → β) : ∀ (l : List α) (b : β), (∀ b, ∀ a ∈ l, f b a = g b a) →
    l.foldl f b = l.foldl g b
  | [], _, _ => rfl
  | a :: r, b, h => by
    simp only [List.foldl_cons, h b a (by simp)]
    exact foldl_ext_mem f g r _ (fun b x hx => h b x (by simp [hx]))

theorem enzymeModel_eq (sups : List Supplier) {r : Rec} (hw : RecFacts sups r) :
    enzymeModel (sups.map fun s => (s.code, s.name)) r = enzymeOf sups r := by
  simp only [enzymeModel, enzymeOf, split_joinSep_isos hw.isos hw.isosNe]
  congr 1
  apply List.map_congr_left
  intro c _
  exact supLookup_table sups c

theorem namesNodup_spec : ∀ {recs : List Rec}, namesNodup recs = true → (recs.map (·.name)).Nodup
  | [], _ => List.nodup_nil
  | r :: rs, h => by
    simp only [namesNodup, Bool.and_eq_true, Bool.not_eq_true'] at h
    simp only [List.map_cons, List.nodup_cons]
    refine ⟨?_, namesNodup_spec h.2⟩
    intro hm
    rw [List.contains_iff_mem.2 hm] at h
    exact Bool.noConfusion h.1

theorem foldl_mapInsert_nodup (f : Rec → Enzyme) : ∀ (recs : List Rec) (m : List (Str × Enzyme)),
    ((m.map (·.1)) ++ recs.map (·.name)).Nodup →
    recs.foldl (fun m r => mapInsert m r.name (f r)) m = m ++ recs.map fun r => (r.name, f r)
  | [], m, _ => by simp
  | r :: rs, m, h => by
    have hnew : r.name ∉ m.map (·.1) := by
      intro hm
      have := (List.nodup_append.1 h).2.2 r.name hm r.name (by simp)
      exact this rfl
    simp only [List.foldl_cons, mapInsert_new m r.name (f r) hnew]
    rw [foldl_mapInsert_nodup f rs (m ++ [(r.name, f r)]) (by simpa [List.append_assoc] using h)]
    simp [List.append_assoc]

theorem expectedMap_of_nodup (sups : List Supplier) (recs : List Rec) (hn : namesNodup recs = true) :
    expectedMap sups recs = recs.map fun r => (r.name, enzymeOf sups r) := by
  have := foldl_mapInsert_nodup (enzymeOf sups) recs [] (by simpa using namesNodup_spec hn)
  simpa [expectedMap] using this

theorem mapInsert_nodup {β : Type} (m : List (Str × β)) (k : Str) (v : β) (h : (m.map (·.1)).Nodup) :
    ((mapInsert m k v).map (·.1)).Nodup := by
  by_cases hk : k ∈ m.map (·.1)
  · rw [mapInsert_keys m k v hk]; exact h
  · rw [mapInsert_new m k v hk]
    simp only [List.map_append, List.map_cons, List.map_nil]
    exact List.nodup_append.2 ⟨h, by simp, fun a ha b hb => by
      simp only [List.mem_singleton] at hb
      subst hb
      exact fun e => hk (e ▸ ha)⟩

theorem foldl_mapInsert_keys_nodup (f : Rec → Enzyme) : ∀ (recs : List Rec) (m : List (Str × Enzyme)),
    (m.map (·.1)).Nodup → ((recs.foldl (fun m r => mapInsert m r.name (f r)) m).map (·.1)).Nodup
  | [], _, h => h
  | r :: rs, m, h => foldl_mapInsert_keys_nodup f rs _ (mapInsert_nodup m r.name (f r) h)

theorem expectedMap_keys_nodup (sups : List Supplier) (recs : List Rec) :
    ((expectedMap sups recs).map (·.1)).Nodup :=
  foldl_mapInsert_keys_nodup (enzymeOf sups) recs [] List.nodup_nil

theorem supplierOf_mem : ∀ (sups : List Supplier) (s : Supplier), s ∈ sups → codesNodup sups = true →
    supplierOf sups s.code = s.name
  | [], _, h, _ => by simp at h
  | x :: r, s, h, hnd => by
    simp only [codesNodup, Bool.and_eq_true, Bool.not_eq_true'] at hnd
    simp only [List.mem_cons] at h
    rcases h with rfl | h
    · simp [supplierOf, List.find?]
    · have hne : (x.code == s.code) = false := by
        apply beq_false_of_ne
        intro e
        have : s.code ∈ r.map (·.code) := List.mem_map_of_mem (f := (·.code)) h
        rw [← e] at this
        rw [List.contains_iff_mem.2 this] at hnd
        exact Bool.noConfusion hnd.1
      have ih := supplierOf_mem r s h hnd.2
      simp only [supplierOf] at ih
      simp [supplierOf, List.find?, hne, ih]

/-! ### the whole listing -/

theorem parse_listing_core (sups : List Supplier) (recs : List Rec) (ℓ : Spec.RebaseListing.Layout) (h : wfListing sups recs ℓ = true) :
    parse (listing sups recs ℓ) = .ok (expectedMap sups recs) := by
  simp only [wfListing, wfLayout, Bool.and_eq_true, List.all_eq_true, bne_iff_ne, ne_eq] at h
  obtain ⟨⟨⟨⟨⟨hprose, hblank⟩, hindent⟩, hsups⟩, hcodes⟩, hrecs⟩ := h
  have hfacts : ∀ r ∈ recs, RecFacts sups r := fun r hr => recFacts (hrecs r hr)
  -- the loop over the lines of the listing
  have e1 : loop ℓ.prose {} = .ok {} :=
    loop_idle _ _ rfl (fun l hl => ⟨(hprose l hl).2, (hprose l hl).1.2⟩)
  obtain ⟨s4, e4, s4s, s4l, s4e, s4m, s4sup⟩ := loop_supplierBlock hblank hindent sups ℓ.tableGaps
    { started := true, lineNo := 1 + (1 + ℓ.afterHeading) } rfl (by simp only []; omega) hsups
  obtain ⟨s6, e6, _, s6m⟩ := loop_recBlock sups hblank recs ℓ.gaps { s4 with lineNo := s4.lineNo + ℓ.afterTable } (by simp [s4e]) hfacts
  have hloop : loop (listingLines sups recs ℓ) {} = .ok s6 := by
    unfold listingLines
    rw [loop_append, loop_append, loop_append, loop_append, loop_append, e1]
    simp only [Outcome.bind_ok, loop]
    rw [step_trigger _ rfl]
    simp only [Outcome.bind_ok]
    rw [loop_blanks_started hblank _ _ rfl]
    simp only [Outcome.bind_ok]
    rw [e4]
    simp only [Outcome.bind_ok]
    rw [loop_blanks_started hblank _ _ s4s]
    simp only [Outcome.bind_ok]
    exact e6
  have hmap : s6.enzymeMap = expectedMap sups recs := by
    rw [s6m]
    simp only [s4m, s4sup]
    rw [foldl_supInsert sups [] (by simpa using codesNodup_spec hcodes)]
    simp only [List.nil_append, expectedMap]
    apply foldl_ext_mem
    intro m r hr
    rw [enzymeModel_eq sups (hfacts r hr)]
  -- no line holds a newline, so splitting the text gives the lines back
  have hnonl : ∀ l ∈ listingLines sups recs ℓ, '\n' ∉ l := by
    intro l hl
    simp only [listingLines, List.mem_append, List.mem_singleton, List.mem_replicate] at hl
    rcases hl with ((((hl | rfl) | ⟨_, rfl⟩) | hl) | ⟨_, rfl⟩) | hl
    · exact noNl_spec (hprose l hl).1.1
    · decide
    · exact blank_noNl hblank
    · rcases mem_supplierBlock _ _ l hl with rfl | ⟨s, hs, rfl⟩
      · exact blank_noNl hblank
      · exact supplierLine_noNl hindent (hsups s hs)
    · exact blank_noNl hblank
    · rcases mem_recBlock _ _ l hl with rfl | ⟨r, hr, hl⟩
      · exact blank_noNl hblank
      · exact (hfacts r hr).noNl l hl
  have hne : listingLines sups recs ℓ ≠ [] := by
    simp [listingLines]
  unfold parse listing
  by_cases hfn : ℓ.finalNewline = true
  · rw [if_pos hfn, split_joinSep_sep hne hnonl, loop_append, hloop]
    simp only [Outcome.bind_ok, loop]
    obtain ⟨s7, e7, s7m⟩ := step_blank_keeps s6 (blank := []) (by simp)
    rw [e7]
    simp only [Outcome.bind_ok]
    rw [s7m, hmap]
  · rw [if_neg hfn, List.append_nil, split_joinSep hne hnonl, hloop]
    simp only [hmap]

/-! ### export, import -/

theorem allSome_strs : ∀ (l : List Str), allSome ((l.map JVal.str).map strItem) = some l
  | [] => rfl
  | s :: r => by
    have ih := allSome_strs r
    simp only [List.map_cons, strItem, allSome, ih, Option.map_some]

theorem getStrs_jStrs (l : List Str) : getStrs (some (jStrs l)) = some l := by
  cases l with
  | nil => rfl
  | cons a r =>
    simp only [jStrs, List.isEmpty_cons, Bool.false_eq_true, if_false, getStrs]
    exact allSome_strs (a :: r)

theorem enzymeOfJ_enzymeJ
    (hnd : [kName, kIsoschizomers, kRecognitionSequence, kMethylationSite, kMicroOrganism, kSource,
      kCommercialAvailability, kReferences].Nodup) (e : Enzyme) : enzymeOfJ (enzymeJ e) = some e := by
  simp only [enzymeJ, enzymeOfJ, jLookup]
  generalize kName = k1 at *
  generalize kIsoschizomers = k2 at *
  generalize kRecognitionSequence = k3 at *
  generalize kMethylationSite = k4 at *
  generalize kMicroOrganism = k5 at *
  generalize kSource = k6 at *
  generalize kCommercialAvailability = k7 at *
  generalize kReferences = k8 at *
  simp only [List.nodup_cons, List.mem_cons, List.not_mem_nil, or_false, not_or, List.nodup_nil, and_true] at hnd
  obtain ⟨⟨h12, h13, h14, h15, h16, h17, h18⟩, ⟨h23, h24, h25, h26, h27, h28⟩, ⟨h34, h35, h36, h37, h38⟩,
    ⟨h45, h46, h47, h48⟩, ⟨h56, h57, h58⟩, ⟨h67, h68⟩, h78⟩ := hnd
  simp only [if_true, h12, h13, h14, h15, h16, h17, h18, h23, h24, h25, h26, h27, h28,
    h34, h35, h36, h37, h38, h45, h46, h47, h48, h56, h57, h58, h67, h68, h78, if_false, getStrs_jStrs, getStr, jStr]

theorem entriesOfJ_map
    (hnd : [kName, kIsoschizomers, kRecognitionSequence, kMethylationSite, kMicroOrganism, kSource,
      kCommercialAvailability, kReferences].Nodup) :
    ∀ (l : List (Str × Enzyme)), entriesOfJ (l.map fun kv => (kv.1, enzymeJ kv.2)) = some l
  | [] => rfl
  | kv :: r => by
    simp [entriesOfJ, enzymeOfJ_enzymeJ hnd, entriesOfJ_map hnd r]

theorem importJ_exportJ
    (hnd : [kName, kIsoschizomers, kRecognitionSequence, kMethylationSite, kMicroOrganism, kSource,
      kCommercialAvailability, kReferences].Nodup) (m : List (Str × Enzyme)) :
    importJ (exportJ m) = some (sortedEntries {} m) := by
  simp only [exportJ, importJ]
  exact entriesOfJ_map hnd _

/-! ### the text layer -/

theorem map_ofNat_toNat (s : Str) : (s.map Char.toNat).map Char.ofNat = s := by
  induction s with
  | nil => rfl
  | cons c cs ih => simp only [List.map_cons, Char.ofNat_toNat, ih]

theorem map_comp_ofNat_toNat (s : Str) : List.map (Char.ofNat ∘ Char.toNat) s = s := by
  rw [← List.map_map]; exact map_ofNat_toNat s

mutual
theorem ofBase_toBase : ∀ v : JVal, ofBase (toBase v) = some v
  | .null => rfl
  | .str s => by simp [toBase, ofBase, map_comp_ofNat_toNat]
  | .arr items => by simp [toBase, ofBase, ofBaseList_toBaseList items]
  | .obj fields => by simp [toBase, ofBase, ofBaseFields_toBaseFields fields]
theorem ofBaseList_toBaseList : ∀ l : List JVal, ofBaseList (toBaseList l) = some l
  | [] => rfl
  | v :: r => by simp [toBaseList, ofBaseList, ofBase_toBase v, ofBaseList_toBaseList r]
theorem ofBaseFields_toBaseFields : ∀ l : List (Str × JVal), ofBaseFields (toBaseFields l) = some l
  | [] => rfl
  | (k, v) :: r => by
    simp [toBaseFields, ofBaseFields, ofBase_toBase v, ofBaseFields_toBaseFields r, map_comp_ofNat_toNat]
end

theorem importText_exportText
    (hnd : [kName, kIsoschizomers, kRecognitionSequence, kMethylationSite, kMicroOrganism, kSource,
      kCommercialAvailability, kReferences].Nodup) (m : List (Str × Enzyme)) :
    importText (exportText m) = some (sortedEntries {} m) := by
  simp only [importText, exportText, JsonText.parse_print, ofBase_toBase, importJ_exportJ hnd m]

end PolyVerif.Rebase
