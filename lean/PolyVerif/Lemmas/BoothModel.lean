import PolyVerif.Model.Seqhash
import PolyVerif.Lemmas.BoothInv
/-
Walking the model `Seqhash.boothInner / boothStep / booth.go` along the invariants of
`Lemmas/BoothInv.lean`: every bounds-checked index is in range, the inner loop's fuel is never
exhausted, and the invariant `Inv` is carried from the head of one iteration to the next.
-/
namespace PolyVerif.Booth
open PolyVerif PolyVerif.Seqhash

/-- the letter function of the array (letter codes; `0` beyond the end, never used there) -/
def sig (S : Array Char) (t : Nat) : Nat := match S[t]? with | some c => c.toNat | none => 0

/-- the failure function stored in the array -/
def gam (g : Array Nat) (t : Nat) : Nat := match g[t]? with | some v => v | none => 0

theorem sig_of_get {S : Array Char} {t : Nat} {c : Char} (h : S[t]? = some c) : sig S t = c.toNat := by
  simp [sig, h]

theorem gam_of_get {g : Array Nat} {t v : Nat} (h : g[t]? = some v) : gam g t = v := by
  simp [gam, h]

theorem gam_set (g : Array Nat) {a : Nat} (v : Nat) (h : a < g.size) :
    gam (g.set! a v) = upd (gam g) a v := by
  funext t
  by_cases c : t = a
  · subst c
    rw [upd_same]
    exact gam_of_get (by simp [h])
  · rw [upd_ne _ _ c]
    have : a ≠ t := fun e => c e.symm
    simp [gam, Array.getElem?_setIfInBounds_ne this]

theorem gam_replicate (n : Nat) : gam (Array.replicate n 0) = fun _ => 0 := by
  funext t
  simp only [gam]
  split
  · next v h =>
    have := Array.getElem?_replicate (n := n) (v := (0 : Nat)) (i := t)
    rw [this] at h
    split at h <;> simp_all
  · rfl

/-- the inner loop: no index out of range, fuel suffices, invariant kept, and at exit either
`failure = -1` or the letters agree -/
theorem inner_ok {S : Array Char} {g : Array Nat} {c : Char} {j : Nat}
    (hc : S[j]? = some c) (hj : j < S.size) (hg : g.size = S.size) :
    ∀ fuel k i, InvIn (sig S) (gam g) j k i → i < fuel →
      ∃ k' i', boothInner S g c j fuel k i = some (k', i') ∧ InvIn (sig S) (gam g) j k' i' ∧
        (i' = 0 ∨ sig S (k' + i') = sig S j) := by
  intro fuel
  induction fuel with
  | zero => intro k i _ h; omega
  | succ fuel ih =>
    intro k i hinv hlt
    have hkij := hinv.kij
    have hsj : sig S j = c.toNat := sig_of_get hc
    unfold boothInner
    by_cases hi : i = 0
    · rw [if_pos hi]; exact ⟨k, i, rfl, hinv, Or.inl hi⟩
    · rw [if_neg hi]
      have hd : S[k + i]? = some (S[k + i]'(by omega)) := Array.getElem?_eq_getElem (by omega)
      have hsd : sig S (k + i) = (S[k + i]'(by omega)).toNat := sig_of_get hd
      have hgi : g[i - 1]? = some (g[i - 1]'(by omega)) := Array.getElem?_eq_getElem (by omega)
      have hgam : gam g (i - 1) = g[i - 1]'(by omega) := gam_of_get hgi
      have hvi : gam g (i - 1) < i := (hinv.maxBord (by omega)).1.1
      simp only [hd, hgi]
      by_cases hcd : c = S[k + i]'(by omega)
      · rw [if_pos hcd]
        exact ⟨k, i, rfl, hinv, Or.inr (by rw [hsd, hsj, hcd])⟩
      · rw [if_neg hcd]
        have hne : c.toNat ≠ (S[k + i]'(by omega)).toNat := fun e => hcd (Char.toNat_inj.mp e)
        rw [if_neg (fun hh => by omega)]
        by_cases hlt' : c.toNat < (S[k + i]'(by omega)).toNat
        · rw [if_pos hlt']
          have := hinv.step_lt (by omega) (by rw [hsd, hsj]; exact hlt')
          rw [hgam] at this
          exact ih _ _ this (by omega)
        · rw [if_neg hlt']
          have := hinv.step_gt (by omega) (by rw [hsd, hsj]; omega)
          rw [hgam] at this
          exact ih _ _ this (by omega)

/-- one outer iteration: no index out of range, and the head invariant moves from `j` to `j+1` -/
theorem step_ok {S : Array Char} {st : BoothState} {j : Nat}
    (hj : j < S.size) (hg : st.g.size = S.size) (h : Inv (sig S) (gam st.g) j st.k) :
    ∃ st', boothStep S st j = some st' ∧ st'.g.size = S.size ∧
      Inv (sig S) (gam st'.g) (j + 1) st'.k := by
  have hkj := h.kj
  have hc : S[j]? = some (S[j]'hj) := Array.getElem?_eq_getElem hj
  have hsj : sig S j = (S[j]'hj).toNat := sig_of_get hc
  have hi0 : st.g[j - st.k - 1]? = some (st.g[j - st.k - 1]'(by omega)) :=
    Array.getElem?_eq_getElem (by omega)
  have hin := h.enter
  rw [gam_of_get hi0] at hin
  obtain ⟨k', i', hrun, hinv, hex⟩ := inner_ok hc hj hg (j + 1) st.k _ hin (by have := hin.kij; omega)
  have hkij := hinv.kij
  have hd : S[k' + i']? = some (S[k' + i']'(by omega)) := Array.getElem?_eq_getElem (by omega)
  have hsd : sig S (k' + i') = (S[k' + i']'(by omega)).toNat := sig_of_get hd
  unfold boothStep
  have hk1 : st.k + 1 ≤ j := by omega
  simp only [hc, if_pos hk1, hi0, hrun, hd, Option.bind_eq_bind, Option.bind_some]
  by_cases hcd : S[j]'hj = S[k' + i']'(by omega)
  · rw [if_neg (fun hne => hne hcd), if_pos ⟨by omega, by omega⟩]
    refine ⟨_, rfl, by simp [hg], ?_⟩
    show Inv (sig S) (gam (st.g.set! (j - k') (i' + 1))) (j + 1) k'
    rw [gam_set _ _ (by omega)]
    exact hinv.exit_eq (by rw [hsd, hsj, hcd])
  · rw [if_pos hcd]
    have hne : (S[j]'hj).toNat ≠ (S[k' + i']'(by omega)).toNat := fun e => hcd (Char.toNat_inj.mp e)
    have hi' : i' = 0 := by
      rcases hex with h0 | h1
      · exact h0
      · rw [hsd, hsj] at h1; exact absurd h1.symm hne
    subst hi'
    have hk : S[k']? = some (S[k']'(by omega)) := Array.getElem?_eq_getElem (by omega)
    have hsk : sig S k' = (S[k']'(by omega)).toNat := sig_of_get hk
    have hsd' : sig S k' = (S[k' + 0]'(by omega)).toNat := by rw [← hsd]; rfl
    simp only [hk, Option.bind_some]
    by_cases hlt : (S[j]'hj).toNat < (S[k']'(by omega)).toNat
    · simp only [if_pos hlt]
      rw [if_pos ⟨by omega, by omega⟩]
      refine ⟨_, rfl, by simp [hg], ?_⟩
      show Inv (sig S) (gam (st.g.set! (j - j) 0)) (j + 1) j
      rw [Nat.sub_self, gam_set _ _ (by omega)]
      exact hinv.exit_lt (by rw [hsk, hsj]; exact hlt)
    · simp only [if_neg hlt]
      rw [if_pos ⟨by omega, by omega⟩]
      refine ⟨_, rfl, by simp [hg], ?_⟩
      show Inv (sig S) (gam (st.g.set! (j - k') 0)) (j + 1) k'
      rw [gam_set _ _ (by omega)]
      exact hinv.exit_gt (by rw [hsk, hsj]; rw [hsk] at hsd'; omega)

/-- the outer loop from `j` to the end of the array -/
theorem go_ok {S : Array Char} :
    ∀ fuel j (st : BoothState), j ≤ S.size → S.size ≤ j + fuel → st.g.size = S.size →
      Inv (sig S) (gam st.g) j st.k →
      ∃ st', booth.go S fuel j st = some st' ∧ Inv (sig S) (gam st'.g) S.size st'.k := by
  intro fuel
  induction fuel with
  | zero =>
    intro j st h1 h2 _ h
    have : j = S.size := by omega
    subst this
    exact ⟨st, rfl, h⟩
  | succ fuel ih =>
    intro j st h1 h2 hg h
    unfold booth.go
    by_cases hj : j < S.size
    · rw [if_pos hj]
      obtain ⟨st', hs, hg', h'⟩ := step_ok hj hg h
      rw [hs, Option.bind_some]
      exact ih (j + 1) st' (by omega) (by omega) hg' h'
    · rw [if_neg hj]
      have : j = S.size := by omega
      subst this
      exact ⟨st, rfl, h⟩

end PolyVerif.Booth
