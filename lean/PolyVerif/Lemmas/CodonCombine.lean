import PolyVerif.Model.CodonTables
import PolyVerif.Spec.ValueTables
/- Helper lemmas for C18: AddCodonTable / CompromiseCodonTable on tables over the same code, read as maps. -/
namespace PolyVerif.Lemmas.CodonCombine
open PolyVerif PolyVerif.Codon PolyVerif.CodonTables
open PolyVerif.Spec PolyVerif.Spec.ValueTables

abbrev Entry := Str × Str × Int

/-! ### lists with distinct keys -/

theorem filterMap_none {α β : Type} (E : List α) (f : α → Option β) (h : ∀ e ∈ E, f e = none) : E.filterMap f = [] := by
  induction E with
  | nil => rfl
  | cons x rest ih =>
    rw [List.filterMap_cons, h x (by simp)]
    exact ih (fun e he => h e (by simp [he]))

theorem filterMap_congr' {α β : Type} (l : List α) (f g : α → Option β) (h : ∀ x ∈ l, f x = g x) :
    l.filterMap f = l.filterMap g := by
  induction l with
  | nil => rfl
  | cons x rest ih =>
    rw [List.filterMap_cons, List.filterMap_cons, h x (by simp), ih (fun y hy => h y (by simp [hy]))]

theorem find_unique {E : List Entry} (p : Entry → Bool) (e : Entry) (nd : (E.map (·.2.1)).Nodup) (he : e ∈ E)
    (pe : p e = true) (hp : ∀ e' ∈ E, p e' = true → e'.2.1 = e.2.1) : E.find? p = some e := by
  induction E with
  | nil => cases he
  | cons x rest ih =>
    simp only [List.map_cons, List.nodup_cons] at nd
    cases hx : p x with
    | true =>
      have hk := hp x (by simp) hx
      rcases List.mem_cons.1 he with rfl | hin
      · simp [List.find?_cons, hx]
      · exfalso
        apply nd.1
        rw [hk]
        exact List.mem_map.2 ⟨e, hin, rfl⟩
    | false =>
      rcases List.mem_cons.1 he with rfl | hin
      · rw [pe] at hx; cases hx
      · simp only [List.find?_cons, hx]
        exact ih nd.2 hin (fun e' he' => hp e' (by simp [he']))

theorem filterMap_unique {β : Type} {E : List Entry} (p : Entry → Bool) (g : Entry → β) (e : Entry)
    (nd : (E.map (·.2.1)).Nodup) (he : e ∈ E) (pe : p e = true) (hp : ∀ e' ∈ E, p e' = true → e'.2.1 = e.2.1) :
    E.filterMap (fun e' => if p e' then some (g e') else none) = [g e] := by
  induction E with
  | nil => cases he
  | cons x rest ih =>
    simp only [List.map_cons, List.nodup_cons] at nd
    cases hx : p x with
    | true =>
      have hk := hp x (by simp) hx
      rcases List.mem_cons.1 he with rfl | hin
      · rw [List.filterMap_cons]
        simp only [hx, if_true]
        congr 1
        apply filterMap_none
        intro e' he'
        cases hp' : p e' with
        | false => simp
        | true =>
          exfalso
          apply nd.1
          rw [← hp e' (by simp [he']) hp']
          exact List.mem_map.2 ⟨e', he', rfl⟩
      · exfalso
        apply nd.1
        rw [hk]
        exact List.mem_map.2 ⟨e, hin, rfl⟩
    | false =>
      rcases List.mem_cons.1 he with rfl | hin
      · rw [pe] at hx; cases hx
      · rw [List.filterMap_cons]
        simp only [hx]
        exact ih nd.2 hin (fun e' he' => hp e' (by simp [he']))

/-! ### entries of a table -/

def entriesOf (aas : List AminoAcid) : List Entry :=
  aas.flatMap fun a => a.codons.map fun c => (a.letter, c.triplet, c.weight)

theorem entries_eq (t : Table) : entries t = entriesOf t.aminoAcids := rfl

theorem mem_entriesOf {aas : List AminoAcid} {e : Entry} :
    e ∈ entriesOf aas ↔ ∃ a ∈ aas, ∃ c ∈ a.codons, e = (a.letter, c.triplet, c.weight) := by
  simp only [entriesOf, List.mem_flatMap, List.mem_map]
  constructor
  · rintro ⟨a, ha, c, hc, rfl⟩; exact ⟨a, ha, c, hc, rfl⟩
  · rintro ⟨a, ha, c, hc, rfl⟩; exact ⟨a, ha, c, hc, rfl⟩

theorem entriesOf_cons (a : AminoAcid) (rest : List AminoAcid) :
    entriesOf (a :: rest) = (a.codons.map fun c => (a.letter, c.triplet, c.weight)) ++ entriesOf rest := by
  simp [entriesOf]

theorem sumInts_append (a b : List Int) : ValueTables.sumInts (a ++ b) = ValueTables.sumInts a + ValueTables.sumInts b := by
  induction a with
  | nil => simp [ValueTables.sumInts]
  | cons x rest ih => simp only [ValueTables.sumInts, List.cons_append, List.foldr_cons] at ih ⊢; omega

theorem sumInts_perm {a b : List Int} (h : a.Perm b) : ValueTables.sumInts a = ValueTables.sumInts b := by
  induction h with
  | nil => rfl
  | cons x _ ih => simp only [ValueTables.sumInts, List.foldr_cons] at ih ⊢; omega
  | swap x y l => simp only [ValueTables.sumInts, List.foldr_cons]; omega
  | trans _ _ ih1 ih2 => exact ih1.trans ih2

theorem model_sumInts_eq (l : List Int) : CodonTables.sumInts l = ValueTables.sumInts l := rfl

/-- a letter listed once: the entries under it are the codons of its amino acid -/
theorem filter_letter (aas : List AminoAcid) (a : AminoAcid) (ha : a ∈ aas) (nd : (aas.map (·.letter)).Nodup) :
    (entriesOf aas).filter (fun e => e.1 == a.letter) = a.codons.map fun c => (a.letter, c.triplet, c.weight) := by
  induction aas with
  | nil => cases ha
  | cons x rest ih =>
    simp only [List.map_cons, List.nodup_cons] at nd
    rw [entriesOf_cons, List.filter_append]
    have none_of : ∀ (l : List AminoAcid) (s : Str), (∀ b ∈ l, b.letter ≠ s) → (entriesOf l).filter (fun e => e.1 == s) = [] := by
      intro l s hl
      apply List.filter_eq_nil_iff.2
      intro e he
      obtain ⟨b, hb, c, _, rfl⟩ := mem_entriesOf.1 he
      simpa using hl b hb
    rcases List.mem_cons.1 ha with rfl | hin
    · have h1 : (a.codons.map fun c => (a.letter, c.triplet, c.weight)).filter (fun e => e.1 == a.letter) =
          a.codons.map fun c => (a.letter, c.triplet, c.weight) := by
        apply List.filter_eq_self.2
        intro e he
        obtain ⟨c, _, rfl⟩ := List.mem_map.1 he
        simp
      rw [h1, none_of rest a.letter, List.append_nil]
      intro b hb hbl
      exact nd.1 (List.mem_map.2 ⟨b, hb, hbl⟩)
    · have hne : x.letter ≠ a.letter := fun h => nd.1 (List.mem_map.2 ⟨a, hin, h.symm⟩)
      have h1 : (x.codons.map fun c => (x.letter, c.triplet, c.weight)).filter (fun e => e.1 == a.letter) = [] := by
        apply List.filter_eq_nil_iff.2
        intro e he
        obtain ⟨c, _, rfl⟩ := List.mem_map.1 he
        simpa using hne
      rw [h1, List.nil_append]
      exact ih hin nd.2

theorem totalOf_eq (t : Table) (a : AminoAcid) (ha : a ∈ t.aminoAcids) (nd : (t.aminoAcids.map (·.letter)).Nodup) :
    totalOf t a.letter = ValueTables.sumInts (a.codons.map (·.weight)) := by
  simp only [totalOf, totalOfE, entries_eq, filter_letter _ a ha nd, List.map_map]
  rfl

/-- two amino acids with the same letter in a table without repeated letters are the same -/
theorem eq_of_letter {aas : List AminoAcid} (nd : (aas.map (·.letter)).Nodup) {a b : AminoAcid}
    (ha : a ∈ aas) (hb : b ∈ aas) (h : a.letter = b.letter) : a = b := by
  induction aas with
  | nil => cases ha
  | cons x rest ih =>
    simp only [List.map_cons, List.nodup_cons] at nd
    rcases List.mem_cons.1 ha with rfl | ha' <;> rcases List.mem_cons.1 hb with rfl | hb'
    · rfl
    · exact absurd (List.mem_map.2 ⟨b, hb', h.symm⟩) nd.1
    · exact absurd (List.mem_map.2 ⟨a, ha', h⟩) nd.1
    · exact ih nd.2 ha' hb'

/-- the triplets of one amino acid are a sublist of all triplets -/
theorem triplets_sublist {aas : List AminoAcid} {a : AminoAcid} (ha : a ∈ aas) :
    (a.codons.map (·.triplet)).Sublist ((entriesOf aas).map (·.2.1)) := by
  induction aas with
  | nil => cases ha
  | cons x rest ih =>
    rw [entriesOf_cons, List.map_append, List.map_map]
    rcases List.mem_cons.1 ha with rfl | hin
    · exact List.sublist_append_of_sublist_left (List.Sublist.refl _)
    · exact List.sublist_append_of_sublist_right (ih hin)


/-! ### reading a well-formed table as a map -/

/-- no letter twice, no triplet twice (Prop form of `WFCode`) -/
structure WF (t : Table) : Prop where
  letters : (t.aminoAcids.map (·.letter)).Nodup
  keys : ((entriesOf t.aminoAcids).map (·.2.1)).Nodup

theorem wf_of_bool {t : Table} (h : WFCode t = true) : WF t := by
  simp only [WFCode, Bool.and_eq_true, decide_eq_true_eq] at h
  exact ⟨h.1, h.2⟩

theorem weightAt_mem {t : Table} (w : WF t) {a : AminoAcid} {c : Codon} (ha : a ∈ t.aminoAcids) (hc : c ∈ a.codons) :
    weightAt t a.letter c.triplet = c.weight := by
  have he : (a.letter, c.triplet, c.weight) ∈ entriesOf t.aminoAcids := mem_entriesOf.2 ⟨a, ha, c, hc, rfl⟩
  have := find_unique (fun e => e.1 == a.letter && e.2.1 == c.triplet) _ w.keys he (by simp)
    (by intro e' _ h; simp only [Bool.and_eq_true, beq_iff_eq] at h; exact h.2)
  simp only [weightAt, weightAtE, entries_eq, this]

theorem weightOf_mem {t : Table} (w : WF t) {a : AminoAcid} {c : Codon} (ha : a ∈ t.aminoAcids) (hc : c ∈ a.codons) :
    weightOf t c.triplet = c.weight := by
  have he : (a.letter, c.triplet, c.weight) ∈ entriesOf t.aminoAcids := mem_entriesOf.2 ⟨a, ha, c, hc, rfl⟩
  have := find_unique (fun e => e.2.1 == c.triplet) _ w.keys he (by simp)
    (by intro e' _ h; simpa using h)
  simp only [weightOf, weightOfE, entries_eq, this]

theorem mem_pairs {t : Table} {l x : Str} :
    (l, x) ∈ pairs t ↔ ∃ a ∈ t.aminoAcids, ∃ c ∈ a.codons, a.letter = l ∧ c.triplet = x := by
  simp only [pairs, entries_eq, List.mem_map]
  constructor
  · rintro ⟨e, he, h⟩
    obtain ⟨a, ha, c, hc, rfl⟩ := mem_entriesOf.1 he
    simp only [Prod.mk.injEq] at h
    exact ⟨a, ha, c, hc, h.1, h.2⟩
  · rintro ⟨a, ha, c, hc, rfl, rfl⟩
    exact ⟨_, mem_entriesOf.2 ⟨a, ha, c, hc, rfl⟩, rfl⟩

/-! ### AddCodonTable -/

theorem addCodons_fusion (c1 : Codon) (aas : List AminoAcid) :
    (aas.flatMap fun a2 => a2.codons.filterMap fun c2 =>
      if c1.triplet = c2.triplet then some ({ triplet := c1.triplet, weight := c1.weight + c2.weight } : Codon) else none) =
    (entriesOf aas).filterMap fun e =>
      if (e.2.1 == c1.triplet) then some ({ triplet := c1.triplet, weight := c1.weight + e.2.2 } : Codon) else none := by
  induction aas with
  | nil => rfl
  | cons a rest ih =>
    rw [List.flatMap_cons, entriesOf_cons, List.filterMap_append, ih, List.filterMap_map]
    congr 1
    apply filterMap_congr'
    intro c _
    simp only [Function.comp, beq_iff_eq]
    by_cases h : c1.triplet = c.triplet
    · simp [h]
    · have : ¬ c.triplet = c1.triplet := fun h' => h h'.symm
      simp [h, this]

/-- a first-table codon whose triplet the second table lists once yields exactly one summed codon -/
theorem addCodons_eq {t2 : Table} (w2 : WF t2) (c1 : Codon) (h : c1.triplet ∈ (entriesOf t2.aminoAcids).map (·.2.1)) :
    addCodons c1 t2 = [{ triplet := c1.triplet, weight := c1.weight + weightOf t2 c1.triplet }] := by
  obtain ⟨e, he, hk⟩ := List.mem_map.1 h
  have hu : ∀ e' ∈ entriesOf t2.aminoAcids, (e'.2.1 == c1.triplet) = true → e'.2.1 = e.2.1 := by
    intro e' _ h'; rw [hk]; simpa using h'
  have hf := find_unique (fun e => e.2.1 == c1.triplet) e w2.keys he (by simpa using hk) hu
  have hm := filterMap_unique (fun e => e.2.1 == c1.triplet)
    (fun e => ({ triplet := c1.triplet, weight := c1.weight + e.2.2 } : Codon)) e w2.keys he (by simpa using hk) hu
  simp only [addCodons, addCodons_fusion, hm, weightOf, weightOfE, entries_eq, hf]

theorem flatMap_singleton_map {α β : Type} (l : List α) (f : α → List β) (g : α → β) (h : ∀ x ∈ l, f x = [g x]) :
    l.flatMap f = l.map g := by
  induction l with
  | nil => rfl
  | cons x rest ih =>
    rw [List.flatMap_cons, h x (by simp), ih (fun y hy => h y (by simp [hy]))]
    rfl

/-- AddCodonTable on tables over the same code: the first table with each weight replaced by the sum -/
theorem addTable_eq {t1 t2 : Table} (w2 : WF t2) (sub : ∀ p ∈ pairs t1, p ∈ pairs t2) :
    addTable t1 t2 = mapWeights (fun _ x w => w + weightOf t2 x) t1 := by
  simp only [addTable, mapWeights]
  congr 1
  apply List.map_congr_left
  intro a1 ha1
  congr 1
  apply flatMap_singleton_map
  intro c1 hc1
  apply addCodons_eq w2
  have : (a1.letter, c1.triplet) ∈ pairs t2 := sub _ (mem_pairs.2 ⟨a1, ha1, c1, hc1, rfl, rfl⟩)
  obtain ⟨a2, ha2, c2, hc2, _, hx⟩ := mem_pairs.1 this
  exact List.mem_map.2 ⟨_, mem_entriesOf.2 ⟨a2, ha2, c2, hc2, rfl⟩, hx⟩

theorem codeOf_mapWeights (f : Str → Str → Int → Int) (t : Table) : codeOf (mapWeights f t) = codeOf t := by
  simp only [codeOf, mapWeights, List.map_map]
  congr 2
  apply List.map_congr_left
  intro a _
  simp [Function.comp]

theorem pairs_mapWeights (f : Str → Str → Int → Int) (t : Table) : pairs (mapWeights f t) = pairs t := by
  simp only [pairs, entries, mapWeights, List.map_flatMap, List.flatMap_map, List.map_map]
  rfl


/-! ### CompromiseCodonTable -/

/-- the weight rule of CompromiseCodonTable for one codon, from the two shares -/
def comb {κ : Type} (A : Arith κ) (cw f s : Int) : Int := if f < cw || s < cw then 0 else A.mean f s

theorem secondWeights_fusion (aas : List AminoAcid) (l x : Str) :
    (aas.flatMap fun a2 => if a2.letter = l then
        a2.codons.filterMap fun c2 => if c2.triplet = x then some c2.weight else none else []) =
    (entriesOf aas).filterMap fun e => if (e.1 == l && e.2.1 == x) then some e.2.2 else none := by
  induction aas with
  | nil => rfl
  | cons a rest ih =>
    rw [List.flatMap_cons, entriesOf_cons, List.filterMap_append, ih, List.filterMap_map]
    congr 1
    by_cases h : a.letter = l
    · simp only [h, if_true]
      apply filterMap_congr'
      intro c _
      simp [Function.comp]
    · simp only [h, if_false]
      symm
      apply filterMap_none
      intro c _
      simp [Function.comp, h]

theorem secondWeights_eq {t1 t2 : Table} (w2 : WF t2) (sub : ∀ p ∈ pairs t1, p ∈ pairs t2) {a1 : AminoAcid}
    (ha1 : a1 ∈ t1.aminoAcids) :
    secondWeights t2 a1 = a1.codons.map fun c1 => weightAt t2 a1.letter c1.triplet := by
  unfold secondWeights
  apply flatMap_singleton_map
  intro c1 hc1
  have : (a1.letter, c1.triplet) ∈ pairs t2 := sub _ (mem_pairs.2 ⟨a1, ha1, c1, hc1, rfl, rfl⟩)
  obtain ⟨a2, ha2, c2, hc2, hl, hx⟩ := mem_pairs.1 this
  have he : (a2.letter, c2.triplet, c2.weight) ∈ entriesOf t2.aminoAcids := mem_entriesOf.2 ⟨a2, ha2, c2, hc2, rfl⟩
  have hm := filterMap_unique (fun e => e.1 == a1.letter && e.2.1 == c1.triplet) (fun e => e.2.2) _ w2.keys he
    (by simp [hl, hx]) (by intro e' _ h; simp only [Bool.and_eq_true, beq_iff_eq] at h; rw [h.2, hx])
  rw [secondWeights_fusion, hm, ← hl, ← hx, weightAt_mem w2 ha2 hc2]

theorem finalCodons_eq {κ : Type} (A : Arith κ) (cw ft st : Int) (φ : Codon → Int) (cs : List Codon) : ∀ pre : List Int,
    finalCodons A cw ft st (pre ++ cs.map φ) pre.length cs =
      some (cs.map fun c => { triplet := c.triplet, weight := comb A cw (A.share c.weight ft) (A.share (φ c) st) }) := by
  induction cs with
  | nil => intro pre; rfl
  | cons c rest ih =>
    intro pre
    have hget : (pre ++ φ c :: rest.map φ)[pre.length]? = some (φ c) := by
      rw [List.getElem?_append_right (Nat.le_refl _)]; simp
    have hrec := ih (pre ++ [φ c])
    simp only [List.append_assoc, List.singleton_append, List.length_append, List.length_singleton] at hrec
    simp only [finalCodons, List.map_cons, hget, hrec, comb]

theorem compromiseAAs_eq {κ : Type} (A : Arith κ) (cw : Int) (t2 : Table) (g : AminoAcid → AminoAcid) (aas : List AminoAcid)
    (h : ∀ a ∈ aas, compromiseAA A cw t2 a = some (g a)) : compromiseAAs A cw t2 aas = some (aas.map g) := by
  induction aas with
  | nil => rfl
  | cons a rest ih =>
    simp only [compromiseAAs, h a (by simp), ih (fun b hb => h b (by simp [hb])), List.map_cons]

/-- the second total the code computes (over the first table's codons) is the second table's total for the letter -/
theorem matched_total {t1 t2 : Table} (w1 : WF t1) (w2 : WF t2) (sub12 : ∀ p ∈ pairs t1, p ∈ pairs t2)
    (sub21 : ∀ p ∈ pairs t2, p ∈ pairs t1) {a1 : AminoAcid} (ha1 : a1 ∈ t1.aminoAcids) :
    ValueTables.sumInts (a1.codons.map fun c1 => weightAt t2 a1.letter c1.triplet) = totalOf t2 a1.letter := by
  let F := (entriesOf t2.aminoAcids).filter (fun e => e.1 == a1.letter)
  have hF : ∀ e ∈ F, e ∈ entriesOf t2.aminoAcids ∧ e.1 = a1.letter := by
    intro e he
    have := List.mem_filter.1 he
    exact ⟨this.1, by simpa using this.2⟩
  have nd1 : (a1.codons.map (·.triplet)).Nodup := (triplets_sublist ha1).nodup w1.keys
  have nd2 : (F.map (·.2.1)).Nodup := (List.Sublist.map _ List.filter_sublist).nodup w2.keys
  have hperm : (a1.codons.map (·.triplet)).Perm (F.map (·.2.1)) := by
    rw [List.perm_ext_iff_of_nodup nd1 nd2]
    intro x
    constructor
    · intro hx
      obtain ⟨c1, hc1, rfl⟩ := List.mem_map.1 hx
      have := sub12 _ (mem_pairs.2 ⟨a1, ha1, c1, hc1, rfl, rfl⟩)
      obtain ⟨a2, ha2, c2, hc2, hl, hx2⟩ := mem_pairs.1 this
      refine List.mem_map.2 ⟨(a2.letter, c2.triplet, c2.weight), ?_, hx2⟩
      exact List.mem_filter.2 ⟨mem_entriesOf.2 ⟨a2, ha2, c2, hc2, rfl⟩, by simp [hl]⟩
    · intro hx
      obtain ⟨e, he, rfl⟩ := List.mem_map.1 hx
      obtain ⟨hin, hl⟩ := hF e he
      obtain ⟨a2, ha2, c2, hc2, rfl⟩ := mem_entriesOf.1 hin
      have := sub21 _ (mem_pairs.2 ⟨a2, ha2, c2, hc2, rfl, rfl⟩)
      obtain ⟨a1', ha1', c1, hc1, hl1, hx1⟩ := mem_pairs.1 this
      have : a1' = a1 := eq_of_letter w1.letters ha1' ha1 (by rw [hl1]; exact hl)
      subst this
      exact List.mem_map.2 ⟨c1, hc1, hx1⟩
  have e1 : (a1.codons.map fun c1 => weightAt t2 a1.letter c1.triplet) =
      (a1.codons.map (·.triplet)).map (weightAt t2 a1.letter) := by simp [List.map_map, Function.comp]
  have e2 : (F.map (·.2.1)).map (weightAt t2 a1.letter) = F.map (·.2.2) := by
    rw [List.map_map]
    apply List.map_congr_left
    intro e he
    obtain ⟨hin, hl⟩ := hF e he
    obtain ⟨a2, ha2, c2, hc2, rfl⟩ := mem_entriesOf.1 hin
    simp only [Function.comp]
    rw [← hl]
    exact weightAt_mem w2 ha2 hc2
  rw [e1, sumInts_perm (hperm.map _), e2]
  rfl

/-- CompromiseCodonTable on well-formed tables over the same code, for any arithmetic: the first table with
each weight replaced by the rule applied to the two shares -/
theorem compromise_eq {κ : Type} (A : Arith κ) {t1 t2 : Table} (w1 : WF t1) (w2 : WF t2)
    (sub12 : ∀ p ∈ pairs t1, p ∈ pairs t2) (sub21 : ∀ p ∈ pairs t2, p ∈ pairs t1) (c : κ)
    (h0 : A.below0 c = false) (h1 : A.above1 c = false) :
    compromise A t1 t2 c = .ok (mapWeights (fun l x w =>
      comb A (A.cutWeight c) (A.share w (totalOf t1 l)) (A.share (weightAt t2 l x) (totalOf t2 l))) t1) := by
  have hA : compromiseAAs A (A.cutWeight c) t2 t1.aminoAcids = some (t1.aminoAcids.map fun a =>
      ({ letter := a.letter, codons := a.codons.map fun cd => ({ triplet := cd.triplet, weight := comb A (A.cutWeight c) (A.share cd.weight (totalOf t1 a.letter)) (A.share (weightAt t2 a.letter cd.triplet) (totalOf t2 a.letter)) } : Codon) } : AminoAcid)) := by
    apply compromiseAAs_eq
    intro a1 ha1
    have hs := secondWeights_eq w2 sub12 ha1
    have hfin := finalCodons_eq A (A.cutWeight c) (CodonTables.sumInts (a1.codons.map (·.weight)))
      (CodonTables.sumInts (secondWeights t2 a1)) (fun c1 => weightAt t2 a1.letter c1.triplet) a1.codons []
    simp only [List.nil_append, List.length_nil] at hfin
    rw [← hs] at hfin
    simp only [compromiseAA, hfin]
    rw [hs, model_sumInts_eq, model_sumInts_eq, matched_total w1 w2 sub12 sub21 ha1, ← totalOf_eq t1 a1 ha1 w1.letters]
  simp only [compromise, h0, h1, hA, mapWeights]
  rfl

end PolyVerif.Lemmas.CodonCombine
