import Batteries.Data.List.Perm
import PolyVerif.Lemmas.CodonTranslate
import PolyVerif.Lemmas.NcbiRowDefs
import PolyVerif.Lemmas.NcbiRows1
import PolyVerif.Lemmas.NcbiRows2
import PolyVerif.Lemmas.NcbiRows3
import PolyVerif.Lemmas.NcbiRows4
import PolyVerif.Lemmas.NcbiRows5
/-
The table obligations of C06: the five `rows_ok_*` chunks (decided by the kernel on the regenerated tables,
one file each so that they are checked in parallel) are collected into `rows_ok`, and the Boolean is turned
back into the statements used by Props/C06 and Props/C07.
-/
namespace PolyVerif.CodonTranslate
open PolyVerif PolyVerif.Codon

theorem ncbi_ids : Spec.Ncbi.ids =
    [1, 2, 3, 4, 5] ++ [6, 9, 10, 11, 12] ++ [13, 14, 16, 21, 22] ++ [23, 24, 25, 26, 27] ++ [28, 29, 30, 31, 33] := by
  decide +kernel

theorem rows_ok : ∀ id ∈ Spec.Ncbi.ids, rowOk id = true := by
  intro id h
  rw [ncbi_ids] at h
  simp only [List.mem_append] at h
  rcases h with (((h | h) | h) | h) | h
  · exact rows_ok_a id h
  · exact rows_ok_b id h
  · exact rows_ok_c id h
  · exact rows_ok_d id h
  · exact rows_ok_e id h

theorem cells_spec (id : Nat) (m : List (Str × Str)) : ∀ (cs : List Str) (rs : Str), cells id m cs rs = true →
    cs.length = rs.length ∧ ∀ p ∈ cs.zip rs, Spec.Ncbi.aa id p.1 = some p.2 ∧ mapGetStr m p.1 = [p.2]
  | [], [], _ => by simp
  | [], _ :: _, h => by simp [cells] at h
  | _ :: _, [], h => by simp [cells] at h
  | c :: cs, r :: rs, h => by
    simp only [cells, Bool.and_eq_true, beq_iff_eq] at h
    obtain ⟨⟨h1, h2⟩, h3⟩ := h
    obtain ⟨ih1, ih2⟩ := cells_spec id m cs rs h3
    refine ⟨by simp [ih1], ?_⟩
    intro p hp
    simp only [List.zip_cons_cons, List.mem_cons] at hp
    rcases hp with rfl | hp
    · exact ⟨h1, h2⟩
    · exact ih2 p hp

theorem all64_nodup : all64.Nodup := by decide +kernel
theorem all64_length : all64.length = 64 := by decide +kernel
theorem all64_upper : ∀ c ∈ all64, upper c = c := by decide +kernel
theorem all64_len3 : ∀ c ∈ all64, c.length = 3 := by decide +kernel
theorem all64_ascii : ∀ c ∈ all64, Ascii c := by decide +kernel
theorem all64_acgt : ∀ c ∈ all64, Acgt c := by decide +kernel

theorem triplets_eq_keys (t : Table) : triplets t = (translationMap t).map (·.1) := by
  simp [triplets, translationMap, List.map_flatMap, Function.comp_def]

/-- `length = 64` and "contains all 64 codons" give the partition (pigeonhole) -/
theorem partition_of_cover (t : Table) (hlen : (triplets t).length = 64) (hcov : ∀ c ∈ all64, c ∈ triplets t) :
    Partition t := by
  have hsub : List.Subperm all64 (triplets t) := List.subperm_of_subset all64_nodup hcov
  have hperm : List.Perm all64 (triplets t) := hsub.perm_of_length_le (by rw [hlen, all64_length]; exact Nat.le_refl _)
  exact ⟨(hperm.nodup_iff).1 all64_nodup, fun c hc => hperm.symm.subset hc, hcov⟩

/-- everything `rowOk` says about a default table -/
theorem rowOk_spec {id : Nat} (h : rowOk id = true) :
    (gen64 id).length = 64 ∧ WFTable (getCodonTable id) ∧
    ∀ p ∈ all64.zip (gen64 id), Spec.Ncbi.aa id p.1 = some p.2 ∧ aaOf (getCodonTable id) p.1 = [p.2] := by
  unfold rowOk at h
  split at h
  · rename_i t row ht hrow
    simp only [Bool.and_eq_true, beq_iff_eq, List.all_eq_true] at h
    obtain ⟨⟨hc, hlen⟩, hsl⟩ := h
    obtain ⟨hl, hcells⟩ := cells_spec id _ _ _ hc
    have hg : gen64 id = row := by simp [gen64, hrow]
    have hT : getCodonTable id = t := by simp [getCodonTable, ht]
    rw [hg, hT]
    refine ⟨by rw [← hl, all64_length], ⟨?_, fun a ha => hsl a ha⟩, ?_⟩
    · apply partition_of_cover t hlen
      intro c hc64
      -- c is paired with some residue in the row
      have hi : ∃ r, (c, r) ∈ all64.zip row := by
        obtain ⟨i, hi, rfl⟩ := List.getElem_of_mem hc64
        have hi' : i < row.length := hl ▸ hi
        refine ⟨row[i], ?_⟩
        have : (all64.zip row)[i]'(by simp [List.length_zip]; omega) = (all64[i], row[i]) := by simp
        exact this ▸ List.getElem_mem _
      obtain ⟨r, hr⟩ := hi
      have hm := (hcells _ hr).2
      simp only [mapGetStr] at hm
      split at hm
      · rename_i v hv
        rw [triplets_eq_keys]
        exact List.mem_map_of_mem (f := (·.1)) (mapGet_some_mem _ _ _ hv)
      · cases hm
    · intro p hp
      refine ⟨(hcells p hp).1, ?_⟩
      have hu : upper p.1 = p.1 := all64_upper p.1 (List.of_mem_zip hp).1
      simp only [aaOf, hu]
      exact (hcells p hp).2
  · cases h

end PolyVerif.CodonTranslate
