import Mathlib.Data.List.Nodup
import Mathlib.Data.List.Forall2
import Mathlib.Data.List.Perm.Basic
import PolyVerif.Model.Transform
import PolyVerif.Spec.Nucleotide
import PolyVerif.Lemmas.RotationSpec
/-
Helper lemmas for C11's expansion clause: the Cartesian product `cart`, products of lengths, and the
correctness of the JUDGE's predicates `Spec.allDistinct` (merge sort + neighbour comparison) and
`Spec.isExpansion` (all read + distinct + right count), so that the predicate evaluated on the
implementation's reply is provably the statement of `variants_exact`.
-/
namespace PolyVerif.Props.C11
open PolyVerif PolyVerif.Transform PolyVerif.Spec

theorem mem_cart : ∀ (ls : List (List Char)) (w : Str),
    w ∈ cart ls ↔ List.Forall₂ (fun x l => x ∈ l) w ls
  | [], w => by
    simp only [cart, List.mem_singleton]
    constructor
    · rintro rfl; exact .nil
    · intro h; cases h; rfl
  | l :: ls, w => by
    simp only [cart, List.mem_flatMap, List.mem_map]
    constructor
    · rintro ⟨c, hc, v, hv, rfl⟩
      exact .cons hc ((mem_cart ls v).1 hv)
    · intro h
      cases h with
      | cons hc hv => exact ⟨_, hc, _, (mem_cart ls _).2 hv, rfl⟩

theorem cart_nodup : ∀ (ls : List (List Char)), (∀ l ∈ ls, l.Nodup) → (cart ls).Nodup
  | [], _ => by simp [cart]
  | l :: ls, h => by
    have hl : l.Nodup := h l (by simp)
    have ih := cart_nodup ls (fun x hx => h x (by simp [hx]))
    simp only [cart]
    rw [List.nodup_flatMap]
    refine ⟨fun c _ => ?_, ?_⟩
    · exact ih.map (fun a b hab => by simpa using hab)
    · refine hl.imp ?_
      intro a b hab
      simp only [Function.onFun, List.disjoint_left, List.mem_map]
      rintro x ⟨v, _, rfl⟩ ⟨v', _, h'⟩
      exact hab (by simpa using (List.cons_eq_cons.1 h').1.symm)

/-- product of a list of numbers -/
def prodR : List Nat → Nat
  | [] => 1
  | n :: ns => n * prodR ns

theorem foldl_mul_eq (ns : List Nat) (a : Nat) : ns.foldl (· * ·) a = a * prodR ns := by
  induction ns generalizing a with
  | nil => simp [prodR]
  | cons n ns ih => simp [List.foldl_cons, ih, prodR, Nat.mul_assoc]

theorem readingCount_eq (s : Str) : readingCount s = prodR (s.map fun c => (basesOf c).length) := by
  simp [readingCount, foldl_mul_eq]


theorem length_cart : ∀ (ls : List (List Char)), (cart ls).length = prodR (ls.map List.length)
  | [] => by simp [cart, prodR]
  | l :: ls => by
    have ih := length_cart ls
    simp only [cart, List.length_flatMap, List.length_map, ih, List.map_cons, prodR]
    induction l with
    | nil => simp
    | cons a l _ => simp [Nat.succ_mul, Nat.add_comm]

/-! ### `allDistinct` -/

/-- on a list sorted by a total order, "no two neighbours equal" is "no two entries equal" -/
theorem adjDistinct_iff_nodup : ∀ (l : List Str), l.Pairwise (fun a b => lexLe a b = true) →
    (adjDistinct l = true ↔ l.Nodup)
  | [], _ => by simp [adjDistinct]
  | [a], _ => by simp [adjDistinct]
  | a :: b :: rest, h => by
    have h2 : (b :: rest).Pairwise (fun a b => lexLe a b = true) := (List.pairwise_cons.1 h).2
    have ha := (List.pairwise_cons.1 h).1
    have hb := (List.pairwise_cons.1 h2).1
    have ih := adjDistinct_iff_nodup (b :: rest) h2
    simp only [adjDistinct, Bool.and_eq_true, bne_iff_ne, ne_eq, ih]
    rw [List.nodup_cons (a := a)]
    constructor
    · rintro ⟨hab, hnd⟩
      refine ⟨?_, hnd⟩
      intro hmem
      rcases List.mem_cons.1 hmem with e | hx
      · exact hab e
      · -- `b ≤ a` (as `a ∈ rest`) and `a ≤ b`: `a = b`
        exact hab (lexLe_antisymm (ha b (by simp)) (hb a hx))
    · rintro ⟨hnm, hnd⟩
      exact ⟨fun e => hnm (by simp [e]), hnd⟩

/-- **the judge's distinctness test is `List.Nodup`** -/
theorem allDistinct_iff_nodup (l : List Str) : allDistinct l = true ↔ l.Nodup := by
  unfold allDistinct
  have hs : (l.mergeSort lexLe).Pairwise (fun a b => lexLe a b = true) :=
    List.pairwise_mergeSort (le := lexLe) (fun a b c h1 h2 => lexLe_trans h1 h2)
      (fun a b => by
        rcases lexLe_total a b with h | h
        · simp [h]
        · simp [h]) l
  rw [adjDistinct_iff_nodup _ hs]
  exact (List.mergeSort_perm l lexLe).nodup_iff

/-! ### `reads`, `isExpansion` -/

theorem reads_iff : ∀ (s w : Str), reads s w = true ↔ List.Forall₂ (fun x c => x ∈ basesOf c) w s
  | [], [] => by simp [reads]
  | [], _ :: _ => by simp [reads]
  | _ :: _, [] => by simp [reads]
  | c :: s, x :: w => by
    have ih := reads_iff s w
    simp only [reads, List.length_cons, List.zip_cons_cons, List.all_cons, Bool.and_eq_true,
      beq_iff_eq, List.contains_iff_mem, List.forall₂_cons] at ih ⊢
    constructor
    · rintro ⟨hl, hx, hall⟩
      exact ⟨hx, ih.1 ⟨by omega, hall⟩⟩
    · rintro ⟨hx, hr⟩
      have := ih.2 hr
      exact ⟨by omega, hx, this.2⟩

theorem basesOf_nodup (c : Char) : (basesOf c).Nodup := by
  unfold basesOf
  split
  · next p _ =>
    apply List.Nodup.map
    · intro a b h; cases a <;> cases b <;> simp_all [Base.toChar]
    · exact List.Nodup.filter _ (by decide)
  · exact List.nodup_nil

/-- the readings of `s`, enumerated: a duplicate-free list with `readingCount s` entries -/
theorem readings_enum (s : Str) :
    ∃ R : List Str, R.Nodup ∧ R.length = readingCount s ∧
      ∀ w, w ∈ R ↔ List.Forall₂ (fun x c => x ∈ basesOf c) w s := by
  refine ⟨cart (s.map basesOf), ?_, ?_, ?_⟩
  · apply cart_nodup
    intro l hl
    obtain ⟨c, _, rfl⟩ := List.mem_map.1 hl
    exact basesOf_nodup c
  · rw [length_cart, readingCount_eq, List.map_map]; rfl
  · intro w
    rw [mem_cart, List.forall₂_map_right_iff]

/-- **the judge's predicate is the statement of `variants_exact`**: all entries read `s`, no entry
repeated, as many entries as readings  ⇔  duplicate-free and exactly the set of readings
(the converse inclusion is the pigeonhole principle). -/
theorem isExpansion_iff_forall₂ (s : Str) (got : List Str) :
    isExpansion s got = true ↔
      got.Nodup ∧ ∀ w, w ∈ got ↔ List.Forall₂ (fun x c => x ∈ basesOf c) w s := by
  obtain ⟨R, hRnd, hRlen, hRmem⟩ := readings_enum s
  unfold isExpansion
  simp only [Bool.and_eq_true, List.all_eq_true, beq_iff_eq, allDistinct_iff_nodup, reads_iff]
  constructor
  · rintro ⟨⟨hall, hnd⟩, hlen⟩
    refine ⟨hnd, fun w => ⟨hall w, fun hw => ?_⟩⟩
    have hsub : got ⊆ R := fun x hx => (hRmem x).2 (hall x hx)
    have hperm : got.Perm R :=
      (List.subperm_of_subset hnd hsub).perm_of_length_le (by omega)
    exact hperm.mem_iff.2 ((hRmem w).2 hw)
  · rintro ⟨hnd, hmem⟩
    refine ⟨⟨fun w hw => (hmem w).1 hw, hnd⟩, ?_⟩
    have hperm : got.Perm R :=
      (List.perm_ext_iff_of_nodup hnd hRnd).2 (fun w => by rw [hmem, hRmem])
    rw [hperm.length_eq, hRlen]

end PolyVerif.Props.C11
