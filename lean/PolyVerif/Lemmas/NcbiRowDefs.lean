import PolyVerif.Model.CodonTranslate
import PolyVerif.Spec.Ncbi
/-
Definitions for the table obligations of C06: one Boolean pass per table (`rowOk`), decided by the kernel
in five chunks that live in five files (`NcbiRows1..5`) so that `lake` checks them in parallel.
-/
namespace PolyVerif.CodonTranslate
open PolyVerif PolyVerif.Codon

/-- what `codon.Translate` returned for the 64 codons under table `id` (`Gen.translate64`) -/
def gen64 (id : Nat) : Str := match gen64? id with | some r => r | none => []

/-- one row: for each of the 64 codons, NCBI's residue = the extracted answer of `Translate` = the model's
lookup in the regenerated table -/
def cells (id : Nat) (m : List (Str × Str)) : List Str → Str → Bool
  | c :: cs, r :: rs => (Spec.Ncbi.aa id c == some r && mapGetStr m c == [r]) && cells id m cs rs
  | [], [] => true
  | _, _ => false

def rowOk (id : Nat) : Bool :=
  match genTable? id, gen64? id with
  | some t, some row =>
    cells id (translationMap t) all64 row && (triplets t).length == 64 && t.aminoAcids.all fun a => a.letter.length == 1
  | _, _ => false

end PolyVerif.CodonTranslate
