import PolyVerif.Model.LineText
/-
Model of poly/io/gff (property C14), statement by statement, as the code is after commits
988c96c, fdf6b17 (`strings.HasPrefix(line, "#")`: directives and comments are skipped), 244ec83 (an
empty attribute piece is skipped), 4e5b18b (a CR at the end of a line is dropped) and aac6dbd (the
region line is the first line from the second on that begins with `##sequence-region`):

  gff.Parse   ↦ `parse`        gff.Build ↦ `build`
  poly.Feature.GetSequence on a feature without sub-locations and without the complement
  flag (all that gff.Parse creates) ↦ `getSeq`

`Gff` carries the fields of poly.Sequence that the two functions read or write.  A Go
`map[string]string` is an association list; `Build` sorts the keys before writing, so the order
of the list (= the map's iteration order) is a free variable of every theorem.  Go `int` is `Int`;
`strconv.Atoi` clamps, arithmetic overflow (`Start--` at the minimum int) is outside the model
and excluded by the well-formedness predicate.  Go panics (index / slice out of range) are
`Outcome.panic`.  Core Lean only.
-/
namespace PolyVerif.Gff
open PolyVerif PolyVerif.LineText

/-- the fields of `poly.Feature` used by gff (`start`/`stop` are `SequenceLocation.Start/End`) -/
structure Feature where
  name : Str := []
  source : Str := []
  type : Str := []
  start : Int := 0
  stop : Int := 0
  score : Str := []
  strand : Str := []
  phase : Str := []
  attrs : List (Str × Str) := []
  deriving Repr, DecidableEq

/-- the fields of `poly.Sequence` / `poly.Meta` used by gff -/
structure Gff where
  name : Str := []            -- Meta.Name
  gffVersion : Str := []      -- Meta.GffVersion
  regionStart : Int := 0
  regionEnd : Int := 0
  size : Int := 0
  locusName : Str := []       -- Meta.Locus.Name
  accession : Str := []       -- Meta.Accession
  locusSeqLen : Str := []     -- Meta.Locus.SequenceLength
  description : Str := []
  seq : Str := []
  features : List Feature := []
  deriving Repr, DecidableEq

def sFasta : Str := ['#', '#', 'F', 'A', 'S', 'T', 'A']
def sHash1 : Str := ['#']
def sHash2 : Str := ['#', '#']
def sClose : Str := ['#', '#', '#']
def sGffVersion : Str := "##gff-version".toList
def sSeqRegion : Str := "##sequence-region".toList
def sFeature : Str := "feature".toList
def sUnknown : Str := "unknown".toList

/-! ### Parse -/

/-- `xs[i]` with Go's index check -/
def idx (xs : List Str) (i : Nat) : Outcome Str :=
  match xs[i]? with
  | some x => .ok x
  | none => .panic

/-- the loop over `attributeSlice`: `Split(attribute, "=")`, `[0]`, `[1]`, map store -/
def parseAttrs : List Str → List (Str × Str) → Outcome (List (Str × Str))
  | [], m => .ok m
  | a :: as, m =>
    if a = [] then parseAttrs as m      -- `if attribute == "" { continue }`
    else
    let attributeSplit := split '=' a
    (idx attributeSplit 0).bind fun key =>
    (idx attributeSplit 1).bind fun value =>
    parseAttrs as (mapInsert m key value)

/-- the `else` branch of the line loop: one feature line -/
def parseFeature (line : Str) : Outcome Feature :=
  let fields := split '\t' line
  (idx fields 0).bind fun f0 =>
  (idx fields 1).bind fun f1 =>
  (idx fields 2).bind fun f2 =>
  (idx fields 3).bind fun f3 =>
  (idx fields 4).bind fun f4 =>
  (idx fields 5).bind fun f5 =>
  (idx fields 6).bind fun f6 =>
  (idx fields 7).bind fun f7 =>
  (idx fields 8).bind fun f8 =>
  (parseAttrs (split ';' f8) []).bind fun attrs =>
  .ok { name := f0, source := f1, type := f2, start := atoi f3 - 1, stop := atoi f4,
        score := f5, strand := f6, phase := f7, attrs := attrs }

/-- loop state: `fastaFlag`, `sequenceBuffer`, `sequence.Description`, `sequence.Features` -/
structure PState where
  fasta : Bool := false
  buf : Str := []
  desc : Str := []
  feats : List Feature := []
  deriving Repr, DecidableEq

/-- one iteration of `for _, line := range lines` -/
def step (st : PState) (line : Str) : Outcome PState :=
  if line = sFasta then .ok { st with fasta := true }
  else if line.length = 0 then .ok st
  else if hasPrefix sHash1 line then .ok st
  else if st.fasta && line.take 1 != ['>'] then .ok { st with buf := st.buf ++ line }
  else if st.fasta && line.take 1 == ['>'] then .ok { st with desc := line }
  else (parseFeature line).bind fun record => .ok { st with feats := st.feats ++ [record] }

def loop : List Str → PState → Outcome PState
  | [], st => .ok st
  | l :: ls, st => (step st l).bind (loop ls)

/-- `strings.TrimSuffix(line, "\r")` -/
def trimCR (l : Str) : Str := if l.getLast? = some '\r' then l.dropLast else l

/-- `gff.Parse` after the lines have been split and their CRs trimmed -/
def parseTrimmed (lines : List Str) : Outcome Gff :=
  -- versionString := lines[0]; regionString := lines[1]  (index panic with fewer than two lines)
  match lines with
  | versionString :: second :: rest =>
    -- for _, line := range lines[1:] { if HasPrefix(line, "##sequence-region") { regionString = line; break } }
    let regionLine := match (second :: rest).find? (fun l => hasPrefix sSeqRegion l) with
      | some l => l
      | none => second
    let regionStringArray := split ' ' regionLine
    (idx (split ' ' versionString) 1).bind fun gffVersion =>
    (idx regionStringArray 1).bind fun name =>
    (idx regionStringArray 2).bind fun rs =>
    (idx regionStringArray 3).bind fun re =>
    let regionStart := atoi rs
    let regionEnd := atoi re
    (loop lines {}).bind fun st =>
    .ok { name := name, gffVersion := gffVersion, regionStart := regionStart, regionEnd := regionEnd,
          size := regionEnd - regionStart, description := st.desc, seq := st.buf, features := st.feats }
  | _ => .panic

/-- `gff.Parse` after `lines := strings.Split(gff, "\n")` -/
def parseLines (lines : List Str) : Outcome Gff := parseTrimmed (lines.map trimCR)

/-- `gff.Parse` -/
def parse (file : Str) : Outcome Gff := parseLines (split '\n' file)

/-! ### Build -/

def tab : Str := ['\t']

/-- the text of one feature line (without the newline) -/
def buildFeature (locusName : Str) (f : Feature) : Str :=
  let featureName := if f.name ≠ [] then f.name else locusName
  let featureSource := if f.source ≠ [] then f.source else sFeature
  let featureType := if f.type ≠ [] then f.type else sUnknown
  let featureStart := itoa (f.start + 1)
  let featureEnd := itoa f.stop
  let keys := sortStrings (f.attrs.map (·.1))
  let featureAttributes : Str := keys.flatMap fun key => key ++ '=' :: lookupD [] key f.attrs ++ [';']
  let featureAttributes := if featureAttributes.length > 0 then featureAttributes.dropLast else featureAttributes
  featureName ++ tab ++ featureSource ++ tab ++ featureType ++ tab ++ featureStart ++ tab ++ featureEnd ++ tab
    ++ f.score ++ tab ++ f.strand ++ tab ++ f.phase ++ tab ++ featureAttributes

/-- the FASTA loop with its line-break test as a parameter: `i` letters have been written; a
newline follows letter number `letterIndex = i+1` when `brk letterIndex` -/
def wrapWith (brk : Nat → Bool) : Nat → Str → Str
  | _, [] => []
  | i, letter :: rest =>
    let letterIndex := i + 1
    if brk letterIndex then letter :: '\n' :: wrapWith brk letterIndex rest
    else letter :: wrapWith brk letterIndex rest

/-- the test of `Build`: `letterIndex%70 == 0 && letterIndex != 0 && letterIndex != RegionEnd`
(`letterIndex` has been incremented, so it is never 0) -/
def buildBreak (regionEnd : Int) (letterIndex : Nat) : Bool :=
  letterIndex % 70 == 0 && letterIndex != 0 && (letterIndex : Int) != regionEnd

/-- the name written into the `##sequence-region` line -/
def regionName (x : Gff) : Str :=
  if x.name ≠ [] then x.name
  else if x.locusName ≠ [] then x.locusName
  else if x.accession ≠ [] then x.accession
  else sUnknown

def regionStartText (x : Gff) : Str := if x.regionStart ≠ 0 then itoa x.regionStart else ['1']

def regionEndText (x : Gff) : Str :=
  if x.regionEnd ≠ 0 then itoa x.regionEnd
  else if x.locusSeqLen ≠ [] then digitsOnly x.locusSeqLen
  else ['1']

def versionLine (x : Gff) : Str :=
  if x.gffVersion ≠ [] then sGffVersion ++ ' ' :: x.gffVersion else sGffVersion ++ [' ', '3', ' ']

def regionLine (x : Gff) : Str :=
  sSeqRegion ++ ' ' :: regionName x ++ ' ' :: regionStartText x ++ ' ' :: regionEndText x

/-- every line before the sequence letters, each followed by a newline in the file -/
def headLines (x : Gff) : List Str :=
  versionLine x :: regionLine x :: (x.features.map (buildFeature x.locusName)
    ++ [sClose, sFasta, '>' :: x.name])

/-- `lines.flatMap (· ++ "\n")` -/
def unlines : List Str → Str
  | [] => []
  | l :: ls => l ++ '\n' :: unlines ls

/-- `gff.Build` with an arbitrary line-break test in the FASTA loop -/
def buildWith (brk : Nat → Bool) (x : Gff) : Str :=
  unlines (headLines x) ++ wrapWith brk 0 x.seq ++ ['\n']

/-- `gff.Build` -/
def build (x : Gff) : Str := buildWith (buildBreak x.regionEnd) x

/-! ### Feature.GetSequence on a parsed feature -/

/-- `getFeatureSequence` for a location without sub-locations and without the complement flag,
`parent = feature.ParentSequence.Sequence` -/
def getSeq (parent : Str) (f : Feature) : Outcome Str := slice parent f.start f.stop

end PolyVerif.Gff
