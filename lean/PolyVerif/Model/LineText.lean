import PolyVerif.Base.Proto
/-
Go library functions used by poly/io/gff and poly/io/rebase (properties C14, C16), one
executable definition each, over `Str = List Char` (ASCII: one byte = one rune):

  strings.Split(s, "<one byte>")      ↦ `split`
  strings.HasPrefix / Contains        ↦ `hasPrefix` / `hasSub`
  strings.TrimLeft(s, cutset)         ↦ `trimLeft`
  strconv.Itoa / `v, _ := strconv.Atoi(s)` ↦ `itoa` / `atoi` (syntax error ⇒ 0, range error ⇒
                                         the clamped value, which is what Go returns beside the error)
  sort.Strings                        ↦ `sortStrings` (bytewise lexicographic order)
  regexp("[^0-9]+").ReplaceAllString(s, "") ↦ `digitsOnly`
  s[lo:hi] on strings                 ↦ `slice` (panics unless 0 ≤ lo ≤ hi ≤ len)
  a Go map[string]V                   ↦ association list, `mapInsert` / `lookupD`

Core Lean only.
-/
namespace PolyVerif.LineText
open PolyVerif

inductive Outcome (α : Type) | ok (a : α) | err | panic
  deriving Repr, DecidableEq

def Outcome.bind {α β : Type} : Outcome α → (α → Outcome β) → Outcome β
  | .ok a, f => f a
  | .err, _ => .err
  | .panic, _ => .panic

@[simp] theorem Outcome.bind_ok {α β : Type} (a : α) (f : α → Outcome β) : (Outcome.ok a).bind f = f a := rfl
@[simp] theorem Outcome.bind_panic {α β : Type} (f : α → Outcome β) : (Outcome.panic : Outcome α).bind f = .panic := rfl
@[simp] theorem Outcome.bind_err {α β : Type} (f : α → Outcome β) : (Outcome.err : Outcome α).bind f = .err := rfl

/-! ### strings.Split with a one-byte separator -/

/-- one right-to-left pass: (field under construction, finished fields to its right) -/
def splitStep (sep : Char) (c : Char) (r : Str × List Str) : Str × List Str :=
  if c = sep then ([], r.1 :: r.2) else (c :: r.1, r.2)

def splitGo (sep : Char) (s : Str) : Str × List Str := s.foldr (splitStep sep) ([], [])

/-- `strings.Split(s, string(sep))`: always at least one field; `n` separators give `n+1` fields -/
def split (sep : Char) (s : Str) : List Str :=
  let r := splitGo sep s
  r.1 :: r.2

/-- the inverse: `strings.Join(fields, string(sep))` -/
def joinSep (sep : Char) : List Str → Str
  | [] => []
  | [l] => l
  | l :: ls => l ++ sep :: joinSep sep ls

/-! ### prefixes, substrings, trimming -/

/-- `strings.HasPrefix(s, p)` -/
def hasPrefix (p s : Str) : Bool := p.isPrefixOf s

/-- `strings.Contains(s, pat)` -/
def hasSub (pat : Str) : Str → Bool
  | [] => pat.isPrefixOf []
  | c :: cs => pat.isPrefixOf (c :: cs) || hasSub pat cs

/-- `strings.TrimLeft(s, cutset)` -/
def trimLeft (cutset : List Char) (s : Str) : Str := s.dropWhile (fun c => cutset.contains c)

/-- slice expression `s[lo:hi]`; panics unless `0 ≤ lo ≤ hi ≤ len(s)` -/
def slice (s : Str) (lo hi : Int) : Outcome Str :=
  if lo < 0 ∨ hi > (s.length : Int) ∨ lo > hi then .panic
  else .ok ((s.take hi.toNat).drop lo.toNat)

/-! ### numbers -/

def digitChar (d : Nat) : Char := Char.ofNat (48 + d)

def isDigit (c : Char) : Bool := 48 ≤ c.toNat && c.toNat ≤ 57

/-- decimal digits of `n`, most significant first; fuel `f > n` is always enough -/
def digitsF : Nat → Nat → Str
  | 0, _ => []
  | f + 1, n => if n < 10 then [digitChar n] else digitsF f (n / 10) ++ [digitChar (n % 10)]

def itoaNat (n : Nat) : Str := digitsF (n + 1) n

/-- `strconv.Itoa` -/
def itoa : Int → Str
  | .ofNat n => itoaNat n
  | .negSucc n => '-' :: itoaNat (n + 1)

/-- value of a digit string read left to right; `none` when a byte is not a digit -/
def digitsVal : Str → Nat → Option Nat
  | [], acc => some acc
  | c :: cs, acc => if isDigit c then digitsVal cs (acc * 10 + (c.toNat - 48)) else none

def maxInt : Int := 9223372036854775807
def minInt : Int := -9223372036854775808

def clampInt (v : Int) : Int := if v > maxInt then maxInt else if v < minInt then minInt else v

/-- one or more digits, else the syntax error -/
def unsignedVal (s : Str) : Option Nat :=
  match s with
  | [] => none
  | _ => digitsVal s 0

/-- `v, _ := strconv.Atoi(s)` on a 64-bit platform: optional sign, one or more digits; a syntax
error leaves 0, a range error leaves the nearest representable value -/
def atoi (s : Str) : Int :=
  match s with
  | [] => 0
  | c :: r =>
    if c = '-' then
      match unsignedVal r with | some v => clampInt (-(v : Int)) | none => 0
    else if c = '+' then
      match unsignedVal r with | some v => clampInt (v : Int) | none => 0
    else
      match unsignedVal (c :: r) with | some v => clampInt (v : Int) | none => 0

/-- `regexp.MustCompile("[^0-9]+").ReplaceAllString(s, "")` -/
def digitsOnly (s : Str) : Str := s.filter isDigit

/-! ### sort.Strings -/

/-- bytewise `a < b` -/
def strLt : Str → Str → Bool
  | [], [] => false
  | [], _ :: _ => true
  | _ :: _, [] => false
  | a :: as, b :: bs => a.toNat < b.toNat || (a.toNat == b.toNat && strLt as bs)

def insertSorted (k : Str) : List Str → List Str
  | [] => [k]
  | x :: xs => if strLt x k then x :: insertSorted k xs else k :: x :: xs

/-- `sort.Strings` (any correct sort gives this result; ties are equal strings) -/
def sortStrings (l : List Str) : List Str := l.foldr insertSorted []

/-! ### map[string]V as an association list -/

/-- `m[k] = v` -/
def mapInsert {β : Type} (m : List (Str × β)) (k : Str) (v : β) : List (Str × β) :=
  match m with
  | [] => [(k, v)]
  | (k', v') :: r => if k' = k then (k, v) :: r else (k', v') :: mapInsert r k v

/-- `m[k]` with the zero value `d` when absent -/
def lookupD {β : Type} (d : β) (k : Str) : List (Str × β) → β
  | [] => d
  | (k', v) :: r => if k' = k then v else lookupD d k r

/-- the entries in `sort.Strings` order of the keys (how a map is canonicalised for output, and
the order in which `encoding/json` writes a map) -/
def sortedEntries {β : Type} (d : β) (m : List (Str × β)) : List (Str × β) :=
  (sortStrings (m.map (·.1))).map fun k => (k, lookupD d k m)

end PolyVerif.LineText
