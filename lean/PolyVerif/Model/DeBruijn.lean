import PolyVerif.Base.Proto
/-
Model of poly/primers.NucleobaseDeBruijnSequence (primers/primers.go).

Everything is list-backed and fuel-structural so that the kernel can evaluate it (`decide +kernel`
gets stuck on `Array.get!/set!` and on well-founded recursion).  Where Go would panic (index or
slice out of range, division by zero) the model returns `Res.panic`; when the fuel counter runs
out it returns `Res.fuel`.  Strings are `List Char` (ASCII, one byte = one rune).

The barcode functions that call this one are modelled in Model/Barcodes.lean (kept apart so that
the expensive kernel evaluations of `deBruijn n` do not depend on the regenerated complement table).
-/
namespace PolyVerif.DeBruijn
open PolyVerif

/-- outcome of a Go call: a value, a run-time panic, or "the model's fuel ran out" (the Go loop
runs longer than the bound the model was given; proved unreachable on the property's domain) -/
inductive Res (α : Type) where
  | ok (a : α)
  | panic
  | fuel
  deriving Repr, DecidableEq

@[inline] def Res.bind {α β : Type} (r : Res α) (f : α → Res β) : Res β :=
  match r with
  | .ok a => f a
  | .panic => .panic
  | .fuel => .fuel

def Res.toOption {α : Type} : Res α → Option α
  | .ok a => some a
  | _ => none

/-- `alphabet := "ATGC"` -/
def alphabet : Str := ['A', 'T', 'G', 'C']

/-- `a[i]` on the byte slice (`none` = index out of range) -/
def aGet : List Nat → Nat → Option Nat
  | [], _ => none
  | x :: _, 0 => some x
  | _ :: xs, i + 1 => aGet xs i

/-- the two variables captured by the closure: the byte array `a` and `seq`; `seq` is kept
REVERSED (`append(seq, xs...)` pushes the elements of `xs`, in order, onto the front) -/
abbrev St := List Nat × List Nat

/-- `for j := frm; j < alphabetLength; j++ { a[t] = byte(j); ConstructDeBruijn(t+1, t) }`;
`f` is the recursive call `ConstructDeBruijn(t+1, t)` acting on the captured variables, `cnt` the
number of iterations left (`alphabetLength - j`).  `a[t] = …` is in range here because the caller
has already written `a[t]` (`List.set` would silently ignore an out-of-range index). -/
def forJ (f : List Nat → List Nat → Res St) (t : Nat) : (cnt j : Nat) → List Nat → List Nat → Res St
  | 0, _, a, seq => .ok (a, seq)
  | cnt + 1, j, a, seq =>
    match f (a.set t j) seq with
    | .ok (a', seq') => forJ f t cnt (j + 1) a' seq'
    | r => r

/-- Go's recursive closure `ConstructDeBruijn(t, p)`; `n` = substringLength, `cap` = `len(a)` =
`alphabetLength*n` (the array never changes its length).  `fuel` bounds the recursion depth (`t`
grows by one per level and the recursion stops at `t > n`).  `t - p` is a Go `int`: a negative
index panics.  `a[t-p] + 1` is `byte` arithmetic; the stored values are < 4 so it never wraps.
Comparisons are written with `Nat.blt/ble/beq` and `bif` because the kernel evaluates those fastest. -/
def construct (n cap : Nat) : (fuel t p : Nat) → List Nat → List Nat → Res St
  | 0, _, _, _, _ => .fuel
  | fuel + 1, t, p, a, seq =>
    bif n.blt t then                                           -- if t > substringLength
      bif p.beq 0 then .panic                                  -- substringLength % 0
      else bif (n % p).beq 0 then
        -- seq = append(seq, a[1:p+1]...)   (slice bounds are checked against cap(a) = len(a))
        bif (p + 1).ble cap then .ok (a, ((a.drop 1).take p).reverse ++ seq) else .panic
      else .ok (a, seq)
    else
      bif t.blt p || cap.ble t then .panic else                -- a[t-p], a[t] out of range
      match aGet a (t - p) with
      | none => .panic
      | some v =>
        -- a[t] = a[t-p]; ConstructDeBruijn(t+1, p)
        match construct n cap fuel (t + 1) p (a.set t v) seq with
        | .ok (a2, seq2) =>
          -- for j := int(a[t-p] + 1); j < alphabetLength; j++ { … }
          match aGet a2 (t - p) with
          | none => .panic
          | some v2 => forJ (construct n cap fuel (t + 1) t) t (4 - (v2 + 1)) (v2 + 1) a2 seq2
        | r => r

/-- `alphabet[i]` -/
def alphabetAt (i : Nat) : Option Char :=
  match i with
  | 0 => some 'A' | 1 => some 'T' | 2 => some 'G' | 3 => some 'C' | _ => none

/-- `for _, i := range seq { buf.WriteByte(alphabet[i]) }`, reading the reversed `seq` from its
front and building the text from its back -/
def toLetters : List Nat → Str → Res Str
  | [], acc => .ok acc
  | i :: is, acc =>
    match alphabetAt i with
    | some c => toLetters is (c :: acc)
    | none => .panic

/-- `k ≤ len(b)`, without walking the whole of `b` -/
def atLeast : Str → Nat → Bool
  | _, 0 => true
  | [], _ + 1 => false
  | _ :: cs, k + 1 => atLeast cs k

/-- `primers.NucleobaseDeBruijnSequence(n)` for `n ≥ 0` (a negative argument panics in `make`).
For `n = 0` Go panics in `a[1:2]` on the empty array — here `(0+1).ble 0 = false`. -/
def deBruijn (n : Nat) : Res Str :=
  -- a := make([]byte, alphabetLength*substringLength); ConstructDeBruijn(1, 1)
  match construct n (4 * n) (n + 2) 1 1 (List.replicate (4 * n) 0) [] with
  | .ok (_, seqRev) =>
    match toLetters seqRev [] with
    | .ok b =>
      -- return b + b[0:substringLength-1]
      bif n.beq 0 then .panic                                  -- b[0:-1]
      else bif atLeast b (n - 1) then .ok (b ++ b.take (n - 1)) else .panic   -- n-1 ≤ len(b)
    | r => r
  | .panic => .panic
  | .fuel => .fuel

end PolyVerif.DeBruijn
