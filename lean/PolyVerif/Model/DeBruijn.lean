import PolyVerif.Base.Proto
import PolyVerif.Model.Transform
/-
Model of poly/primers: NucleobaseDeBruijnSequence, CreateBarcodesWithBannedSequences, CreateBarcodes
(primers/primers.go, as it is after the fix commit "barcodes are re-checked against every ban and
filter after each shift").

Everything is list-backed and fuel-structural so that the kernel can evaluate it (`decide +kernel`
gets stuck on `Array.get!/set!` and on well-founded recursion).  Where Go would panic (index or
slice out of range, division by zero) the model returns `Res.panic`; when a fuel counter runs out
it returns `Res.fuel`, which the theorems show never happens (termination).  Strings are
`List Char` on ASCII input (one byte = one rune), the domain the property names.
-/
namespace PolyVerif.DeBruijn
open PolyVerif

/-- outcome of a Go call: a value, a run-time panic, or "the model's fuel ran out" (which means the
Go loop runs longer than the bound the model was given; proved unreachable on the property's domain) -/
inductive Res (α : Type) where
  | ok (a : α)
  | panic
  | fuel
  deriving Repr, DecidableEq

@[inline] def Res.bind {α β : Type} (r : Res α) (f : α → Res β) : Res β :=
  match r with
  | .ok a => f a
  | .panic => .panic
  | .fuel => .fuel

/-! ### NucleobaseDeBruijnSequence -/

/-- `alphabet := "ATGC"` -/
def alphabet : Str := ['A', 'T', 'G', 'C']

/-- `a[i]` on a byte slice, with Go's bounds check -/
def aGet : List Nat → Nat → Res Nat
  | [], _ => .panic
  | x :: _, 0 => .ok x
  | _ :: xs, i + 1 => aGet xs i

/-- `a[i] = v`, with Go's bounds check -/
def aSet : List Nat → Nat → Nat → Res (List Nat)
  | [], _, _ => .panic
  | _ :: xs, 0, v => .ok (v :: xs)
  | x :: xs, i + 1, v => (aSet xs i v).bind fun ys => .ok (x :: ys)

/-- the two variables the closure captures: the byte array `a` and `seq`.  `seq` is kept REVERSED
(`append(seq, xs...)` becomes "push the elements of xs in order onto the front"). -/
structure St where
  a : List Nat
  seqRev : List Nat

/-- `for j := from; j < alphabetLength; j++` — the values `j` takes -/
def jRange (frm : Nat) : List Nat := (List.range 4).filter (fun j => frm ≤ j)

/-- Go's `ConstructDeBruijn(t, p)`; `n` = substringLength.  `fuel` bounds the recursion depth
(`t` grows by one per level and the recursion stops at `t > n`).
Go's `t - p` is an `int`; a negative index panics. `a[t-p] + 1` is `byte` arithmetic — the stored
values are < 4 so it never wraps. -/
def construct (n : Nat) : (fuel t p : Nat) → St → Res St
  | 0, _, _, _ => .fuel
  | fuel + 1, t, p, st =>
    if t > n then
      if p = 0 then .panic                                   -- substringLength % 0
      else if n % p = 0 then
        -- seq = append(seq, a[1:p+1]...)   (slice bounds are checked against cap(a) = len(a))
        if p + 1 ≤ st.a.length then
          .ok { st with seqRev := ((st.a.drop 1).take p).reverse ++ st.seqRev }
        else .panic
      else .ok st
    else
      if t < p then .panic else                              -- a[t-p] with a negative index
      -- a[t] = a[t-p]
      (aGet st.a (t - p)).bind fun v =>
      (aSet st.a t v).bind fun a1 =>
      -- ConstructDeBruijn(t+1, p)
      (construct n fuel (t + 1) p { st with a := a1 }).bind fun st2 =>
      -- for j := int(a[t-p] + 1); j < alphabetLength; j++ { a[t] = byte(j); ConstructDeBruijn(t+1, t) }
      (aGet st2.a (t - p)).bind fun v2 =>
      (jRange (v2 + 1)).foldl
        (fun (acc : Res St) j => acc.bind fun s =>
          (aSet s.a t j).bind fun a3 => construct n fuel (t + 1) t { s with a := a3 })
        (.ok st2)

/-- `alphabet[i]` -/
def alphabetAt (i : Nat) : Res Char :=
  match i with
  | 0 => .ok 'A' | 1 => .ok 'T' | 2 => .ok 'G' | 3 => .ok 'C' | _ => .panic

def mapAlphabet : List Nat → Res Str
  | [] => .ok []
  | i :: is => (alphabetAt i).bind fun c => (mapAlphabet is).bind fun cs => .ok (c :: cs)

/-- `primers.NucleobaseDeBruijnSequence(n)` for `n ≥ 0` (a negative argument panics in `make`). -/
def deBruijn (n : Nat) : Res Str :=
  -- a := make([]byte, alphabetLength*substringLength)
  let a := List.replicate (4 * n) 0
  (construct n (n + 2) 1 1 { a := a, seqRev := [] }).bind fun st =>
  (mapAlphabet st.seqRev.reverse).bind fun b =>
  -- b + b[0:substringLength-1]
  if n = 0 then .panic                                       -- b[0:-1]
  else if n - 1 ≤ b.length then .ok (b ++ b.take (n - 1)) else .panic

/-! ### CreateBarcodesWithBannedSequences -/

/-- Go's `strings.Contains(s, sub)` (byte-wise; `Contains(s, "")` is true) -/
def contains : Str → Str → Bool
  | [], sub => sub.isEmpty
  | c :: cs, sub => sub.isPrefixOf (c :: cs) || contains cs sub

/-- the body of the re-check loop: does ANY ban, any reverse complement of a ban, or any filter
reject the window?  (Go sets `banned = true` without leaving the loops; filters are pure here.) -/
def rejected (bans : List Str) (filters : List (Str → Bool)) (w : Str) : Bool :=
  bans.any (fun b => contains w b || contains w (Transform.revComp b)) || filters.any (fun f => !f w)

/-- `debruijn[start:end]` for `0 ≤ start ≤ end`, with Go's bounds check against `len` -/
def slice (db : Str) (start end_ : Nat) : Res Str :=
  if start ≤ end_ ∧ end_ ≤ db.length then .ok ((db.drop start).take (end_ - start)) else .panic

/-- result of the inner `for { … }` loop -/
inductive Shift where
  | found (start end_ barcodeNum : Nat)   -- `break`: the window passed every check
  | atEnd                                 -- `return barcodes`
  | panic
  | fuel
  deriving Repr, DecidableEq

/-- the inner loop: shift the window by one (and count `barcodeNum` up) while it is rejected -/
def shiftLoop (db : Str) (bans : List Str) (filters : List (Str → Bool)) :
    (fuel start end_ barcodeNum : Nat) → Shift
  | 0, _, _, _ => .fuel
  | fuel + 1, start, end_, barcodeNum =>
    match slice db start end_ with
    | .ok w =>
      if !rejected bans filters w then .found start end_ barcodeNum
      else if end_ + 1 > db.length then .atEnd
      else shiftLoop db bans filters fuel (start + 1) (end_ + 1) (barcodeNum + 1)
    | _ => .panic

/-- the outer loop from a given `barcodeNum`; the barcodes appended from here on, in order
(`barcodes = append(barcodes, w)` followed by the rest of the loop is `w :: rest`).
`stride = length - (maxSubSequence - 1)` is a Go `int` and may be ≤ 0. -/
def outerLoop (db : Str) (length : Nat) (stride : Int) (bans : List Str) (filters : List (Str → Bool)) :
    (fuel barcodeNum : Nat) → Res (List Str)
  | 0, _ => .fuel
  | fuel + 1, barcodeNum =>
    if (barcodeNum : Int) * stride + length < db.length then
      let startI : Int := barcodeNum * stride
      if startI < 0 then .panic else                         -- debruijn[start:end], start < 0
      let start := startI.toNat
      let end_ := start + length
      match shiftLoop db bans filters (db.length + 1) start end_ (barcodeNum + 1) with
      | .found s e bn =>
        (slice db s e).bind fun w =>
        (outerLoop db length stride bans filters fuel bn).bind fun rest => .ok (w :: rest)
      | .atEnd => .ok []
      | .panic => .panic
      | .fuel => .fuel
    else .ok []

/-- the loops of `CreateBarcodesWithBannedSequences` on a given de Bruijn string -/
def barcodesOn (db : Str) (length n : Nat) (bans : List Str) (filters : List (Str → Bool)) : Res (List Str) :=
  outerLoop db length ((length : Int) - ((n : Int) - 1)) bans filters (db.length + 1) 0

/-- `primers.CreateBarcodesWithBannedSequences(length, n, bans, filters)` for `length, n ≥ 0` -/
def createBarcodesWith (length n : Nat) (bans : List Str) (filters : List (Str → Bool)) : Res (List Str) :=
  (deBruijn n).bind fun db => barcodesOn db length n bans filters

/-- `primers.CreateBarcodes(length, n)` -/
def createBarcodes (length n : Nat) : Res (List Str) := createBarcodesWith length n [] []

/-! ### the named filter family used on the protocol (the same functions in harness/cmd/run-primers/ops_c17.go) -/

/-- longest run of equal adjacent letters, scanning with the current run's letter and length -/
def maxRunAux : Char → Nat → Nat → Str → Nat
  | _, cur, best, [] => max cur best
  | p, cur, best, c :: cs => if c = p then maxRunAux p (cur + 1) best cs else maxRunAux c 1 (max cur best) cs

def maxRun : Str → Nat
  | [] => 0
  | c :: cs => maxRunAux c 1 0 cs

def gcCount (s : Str) : Nat := (s.filter (fun c => c = 'G' || c = 'C')).length

/-- `homo:k` accept iff no homopolymer run of length ≥ k; `gc:lo:hi` accept iff lo ≤ #G+#C ≤ hi;
`nostart:X` / `noend:X` accept iff the barcode does not start / end with the letter X;
`nopal` accept iff the barcode is not its own reverse complement.  Anything else: accept all. -/
def namedFilter (spec : String) : Str → Bool :=
  match spec.splitOn ":" with
  | ["homo", k] => fun s => maxRun s < natOfStr k
  | ["gc", lo, hi] => fun s => natOfStr lo ≤ gcCount s && gcCount s ≤ natOfStr hi
  | ["nostart", x] => fun s => !(x.toList.isPrefixOf s && !x.isEmpty)
  | ["noend", x] => fun s => !(x.toList.isSuffixOf s && !x.isEmpty)
  | ["nopal"] => fun s => !(s == Transform.revComp s)
  | _ => fun _ => true

end PolyVerif.DeBruijn
