import PolyVerif.Model.Codon
/-
Vocabulary shared by the heap model (Model/CodonTables.lean) and the value-semantics spec
(Spec/ValueTables.lean) of C08: the operations of a history, what a step shows, outcomes.  Types only.
-/
namespace PolyVerif.CodonTables
open PolyVerif PolyVerif.Codon

inductive Outcome (α : Type) | ok (a : α) | err | panic
deriving Repr, DecidableEq

def zeroTable : Table := { startCodons := [], stopCodons := [], aminoAcids := [] }

/-- operations of a history; handle k is the table produced by step k; `κ` = type of cut-offs -/
inductive Op (κ : Type)
  | get (id : Nat)                          -- t := codon.GetCodonTable(id)
  | reweight (h : Nat) (s : Str)            -- t := handles[h].OptimizeTable(s)
  | add (h1 h2 : Nat)                       -- t := codon.AddCodonTable(handles[h1], handles[h2])
  | compromise (h1 h2 : Nat) (cut : κ)      -- t, err := codon.CompromiseCodonTable(handles[h1], handles[h2], cut)
  | json (h : Nat)                          -- WriteCodonJSON(handles[h], f); t := ReadCodonJSON(f)
  | observe (h : Nat)                       -- look at handles[h]  (slot k gets the zero Table)
deriving Repr

/-- what a step shows: the table produced (or looked at), an error, a panic; `fault` = the history names a
handle that does not exist (malformed history, never sent to the code) -/
inductive Obs | table (t : Table) | err | panic | fault
deriving Repr, DecidableEq

/-- the text is a well-formed table text of the line protocol (Model/Codon.lean): three "/"-separated parts, every
amino-acid entry `LETTER:codons`, every codon `triplet=integer`.  `parseTable` is total (a malformed text would
read as the empty table, an unparsable weight as 0); drivers call this first and treat a malformed reply of
the implementation as a failure, never as a value. -/
def validTableText (s : String) : Bool :=
  match s.splitOn "/" with
  | [_, _, c] =>
    (splitNonEmpty c ";").all fun a =>
      match a.splitOn ":" with
      | [l, cs] => l != "" && (splitNonEmpty cs ",").all fun cd =>
          match cd.splitOn "=" with
          | [t, w] => t != "" && w.toInt?.isSome
          | _ => false
      | _ => false
  | _ => false

end PolyVerif.CodonTables
