import PolyVerif.Model.Codon
/-
Vocabulary shared by the heap model (Model/CodonTables.lean) and the value-semantics spec
(Spec/ValueTables.lean) of C08: the operations of a history, what a step shows, outcomes.  Types only.
-/
namespace PolyVerif.CodonTables
open PolyVerif PolyVerif.Codon

inductive Outcome (α : Type) | ok (a : α) | err | panic
deriving Repr, DecidableEq

def zeroTable : Table := { startCodons := [], stopCodons := [], aminoAcids := [] }

/-- operations of a history; handle k is the table produced by step k; `κ` = type of cut-offs -/
inductive Op (κ : Type)
  | get (id : Nat)                          -- t := codon.GetCodonTable(id)
  | reweight (h : Nat) (s : Str)            -- t := handles[h].OptimizeTable(s)
  | add (h1 h2 : Nat)                       -- t := codon.AddCodonTable(handles[h1], handles[h2])
  | compromise (h1 h2 : Nat) (cut : κ)      -- t, err := codon.CompromiseCodonTable(handles[h1], handles[h2], cut)
  | json (h : Nat)                          -- WriteCodonJSON(handles[h], f); t := ReadCodonJSON(f)
  | observe (h : Nat)                       -- look at handles[h]  (slot k gets the zero Table)
deriving Repr

/-- what a step shows: the table produced (or looked at), an error, a panic; `fault` = the history names a
handle that does not exist (malformed history, never sent to the code) -/
inductive Obs | table (t : Table) | err | panic | fault
deriving Repr, DecidableEq

/-! ### IEEE binary64 rounding, over `Nat` (independent of Lean's `Float` and of the model)

`rne p q` is the binary64 value nearest to the positive rational `p/q` (round to nearest, ties to even,
53-bit significand), returned as a fraction.  Exponent range is not modelled: the shares and cut-off weights
it is used for lie in [10⁻⁷, 10⁴], and a subnormal cut-off times 10000 truncates to 0 under any precision. -/

/-- `p/q ≥ 2^k` -/
def geTwoPow (p q : Nat) (k : Int) : Bool :=
  if k ≥ 0 then decide (p ≥ q * 2 ^ k.toNat) else decide (p * 2 ^ (-k).toNat ≥ q)

def rne (p q : Nat) : Nat × Nat :=
  if p = 0 ∨ q = 0 then (0, 1) else
  let k : Int := (Nat.log2 p : Int) - (Nat.log2 q : Int)          -- ⌊log₂(p/q)⌋ ∈ {k-1, k}
  let fl : Int := if geTwoPow p q k then k else k - 1
  let e : Int := fl - 52                                          -- (p/q) / 2^e ∈ [2^52, 2^53)
  let n : Nat := if e ≥ 0 then p else p * 2 ^ (-e).toNat
  let d : Nat := if e ≥ 0 then q * 2 ^ e.toNat else q
  let m := n / d
  let r := n % d
  let m' := if 2 * r > d then m + 1 else if 2 * r = d then (if m % 2 = 0 then m else m + 1) else m
  if e ≥ 0 then (m' * 2 ^ e.toNat, 1) else (m', 2 ^ (-e).toNat)

/-- `int((float64(w) / float64(total)) * 10000)` for `0 ≤ w`, `0 < total` below 2^53: two roundings, then truncation -/
def shareF64 (w total : Int) : Int :=
  let a := rne w.toNat total.toNat
  let b := rne (a.1 * 10000) a.2
  ((b.1 / b.2 : Nat) : Int)

/-- `int(10000 * c)` for the real number `q = c ≥ 0` (a binary64 value given exactly) -/
def cutF64 (q : Rat) : Int :=
  let b := rne (10000 * q.num.toNat) q.den
  ((b.1 / b.2 : Nat) : Int)

/-- the text is a well-formed table text of the line protocol (Model/Codon.lean): three "/"-separated parts, every
amino-acid entry `LETTER:codons`, every codon `triplet=integer`.  `parseTable` is total (a malformed text would
read as the empty table, an unparsable weight as 0); drivers call this first and treat a malformed reply of
the implementation as a failure, never as a value. -/
def validTableText (s : String) : Bool :=
  match s.splitOn "/" with
  | [_, _, c] =>
    (splitNonEmpty c ";").all fun a =>
      match a.splitOn ":" with
      | [l, cs] => l != "" && (splitNonEmpty cs ",").all fun cd =>
          match cd.splitOn "=" with
          | [t, w] => t != "" && w.toInt?.isSome
          | _ => false
      | _ => false
  | _ => false

end PolyVerif.CodonTables
