import PolyVerif.Base.Proto
import PolyVerif.Base.Chan
/-
Model of uniprot.Parse (/repo/io/uniprot/uniprot.go, after the fixes: `break` after a token error; an
error for a stream that ends before any element; errors are KEPT and sent after close(entries), 1559ed9).

    sawElement := false
    var decoderErrors []error
    for {
        tok, err := decoder.Token()
        if err != nil {
            if err.Error() == "EOF" { if !sawElement { keep io.ErrUnexpectedEOF }; break }
            keep err; break
        }
        start, ok := tok.(xml.StartElement)
        if ok { sawElement = true }
        if ok && start.Name.Local == "entry" {
            var e Entry
            err = decoder.DecodeElement(&e, &start)
            if err != nil { keep err }
            entries <- e                    // NOTE: also after an error (a partial entry)
        }
    }
    close(entries)
    for _, err := range decoderErrors { errors <- err }
    close(errors)

The decoder (encoding/xml) is ABSTRACT: all the loop sees of it is, per iteration, one of
  other           Token() returned something that is not a start element
  start           Token() returned a start element other than `entry`
  entry e         Token() returned `<entry …>` and DecodeElement filled `e` without error
  entryErr e      Token() returned `<entry …>` and DecodeElement returned an error, leaving `e` partly filled
and finally
  eof             Token() returned io.EOF
  err             Token() returned another error
Recorded assumptions about encoding/xml (observed by the harness on every case, not proved):
  (finite)  on a finite input the decoder reaches `eof` or `err` after finitely many calls — a `Trace` is a
            finite list of iterations plus the way it ends;
  (sticky)  after a syntax or reader error every later Token() returns that error again: an `entryErr`
            caused by malformed input is followed at once by `err`  (`Sticky`);
            A THIRD behaviour exists for errors that are not syntax errors (an attribute value the
            unmarshaller cannot type, e.g. `version="x"`): DecodeElement fails without consuming the element,
            the decoder goes on, and — encoding/xml keeps an internal end-of-element marker on its stack —
            Token() answers io.EOF right after that entry's end tag: one error, then a FAKE end of input, the
            rest of the stream is never read (`nonsticky` in the class tags; the trace shows it as it is);
  (reports) a stream that is cut or corrupted after its first element has begun makes Token or
            DecodeElement return an error (inside an open element the end of input is `unexpected EOF`);
  DecodeElement consumes through the matching end tag or returns an error.
Channel 0 = entries, channel 1 = errors.  Core Lean only.
-/
namespace PolyVerif.Uniprot
open PolyVerif PolyVerif.Chan

/-- the fields of an Entry the property speaks about -/
structure Entry where
  accessions : List Str
  names : List Str
  seq : Str
  deriving DecidableEq, Repr, Inhabited

inductive Ev where
  | other
  | start
  | entry (e : Entry)
  | entryErr (e : Entry)
  deriving DecidableEq, Repr

inductive End where
  | eof
  | err
  deriving DecidableEq, Repr

/-- what the decoder does on one input, as seen by the loop -/
structure Trace where
  evs : List Ev
  fin : End
  deriving Repr, DecidableEq

/-- what travels on the two channels -/
inductive Msg where
  | entry (e : Entry)
  | error
  deriving DecidableEq, Repr

/-- the loop, iteration by iteration: the sends it performs on the entries channel, and the errors it
keeps (`decoderErrors`, in order); the first argument is `sawElement` -/
def loop : Bool → List Ev → End → List (Op Msg) × List Msg
  | saw, [], .eof => ([], if saw then [] else [.error])
  | _, [], .err => ([], [.error])
  | saw, .other :: r, f => loop saw r f
  | _, .start :: r, f => loop true r f
  | _, .entry e :: r, f => let x := loop true r f; (.send 0 (.entry e) :: x.1, x.2)
  | _, .entryErr e :: r, f => let x := loop true r f; (.send 0 (.entry e) :: x.1, .error :: x.2)

/-- uniprot.Parse as a producer program: the loop's entry sends, close(entries), the kept errors, close(errors) -/
def program (t : Trace) : List (Op Msg) :=
  (loop false t.evs t.fin).1 ++ [.close 0] ++ (loop false t.evs t.fin).2.map (Op.send 1) ++ [.close 1]

/-- the entries the loop sends, in order (complete or partial) -/
def entriesOf : List Ev → List Entry
  | [] => []
  | .other :: r => entriesOf r
  | .start :: r => entriesOf r
  | .entry e :: r => e :: entriesOf r
  | .entryErr e :: r => e :: entriesOf r

def isErrEv : Ev → Bool
  | .entryErr _ => true
  | _ => false

/-- the token is a start element -/
def isStartEv : Ev → Bool
  | .other => false
  | _ => true

/-- errors forwarded when the token stream ends -/
def finErrors (saw : Bool) : End → Nat
  | .err => 1
  | .eof => if saw then 0 else 1

/-- number of errors the loop keeps, started with `sawElement = saw` -/
def numErrorsFrom (saw : Bool) (evs : List Ev) (f : End) : Nat :=
  (evs.filter isErrEv).length + finErrors (saw || evs.any isStartEv) f

/-- number of errors uniprot.Parse forwards -/
def numErrors (t : Trace) : Nat := numErrorsFrom false t.evs t.fin

/-- the stream is a well-formed document as far as the decoder can tell: it contains an element, no
decoding error occurs, and it ends with io.EOF -/
def Clean (t : Trace) : Prop :=
  t.fin = .eof ∧ (∀ ev ∈ t.evs, isErrEv ev = false) ∧ t.evs.any isStartEv = true

instance (t : Trace) : Decidable (Clean t) := by unfold Clean; infer_instance

/-- encoding/xml's errors are sticky: a failed DecodeElement is followed at once by a failing Token -/
def Sticky (t : Trace) : Prop := ∀ pre e post, t.evs = pre ++ .entryErr e :: post → post = [] ∧ t.fin = .err

/-- the consumers of the property: `seq` = entries until closed, then errors (documented usage);
otherwise both concurrently -/
def consumer (seq : Bool) : Consumer Msg := if seq then sequential else concurrent [0, 1]

def system (entCap errCap : Nat) (t : Trace) : Sys Msg :=
  init (fun ch => if ch = 0 then entCap else errCap) (program t)

/-- one maximal run (deterministic scheduler; all maximal runs agree, Props.C20) -/
def run (seq eager : Bool) (entCap errCap : Nat) (t : Trace) : Sys Msg :=
  let s := system entCap errCap t
  runFuel (consumer seq) eager (fuelFor s) s

def deliveredOf (s : Sys Msg) : List Entry :=
  (recvd 0 s.hist).filterMap (fun m => match m with | .entry e => some e | .error => none)

/-- both channels closed and observed closed by the consumer, producer finished without panic -/
def bothClosed (s : Sys Msg) : Bool :=
  s.prog.isEmpty && !s.panicked && seen s.hist 0 && seen s.hist 1 &&
    (s.chans 0).closes == 1 && (s.chans 1).closes == 1

end PolyVerif.Uniprot
