import PolyVerif.Model.Transform
/-
Model of poly/clone: Overhang, Fragment, Enzyme, getBaseRestrictionEnzymes,
CutWithEnzymeByName and CutWithEnzyme, statement by statement, as the code is after the
commits "CutWithEnzyme yields the same fragments whichever base a circular sequence starts at" and
"a reverse site at the very end of a linear part no longer loses its fragment".

* Strings are `List Char` (ASCII); positions are `Int` because a reverse overhang position
  `match_start - skip` can be negative.
* `enzyme.RegexpFor` / `enzyme.RegexpRev` are regular expressions of a LITERAL site
  (`regexp.MustCompile("GGTCTC")`, or `regexp.QuoteMeta(site)` for the custom enzymes of the
  harness).  `FindAllStringIndex(sequence, -1)` on a literal is the leftmost, non-overlapping
  scan: after a match at `i` the search resumes at `i + |site|` (`findAll`).
* Every slice expression is bounds-checked (`goSlice`): `none` = Go panics
  (slice bounds out of range); `% len(seq.Sequence)` with an empty sequence = Go panics
  (integer divide by zero).
* `Skip` and `OverhangLen` are natural numbers (the property's enzymes; negative values of the
  Go `int` fields are outside the model's type).
-/
namespace PolyVerif.Digest
open PolyVerif PolyVerif.Transform

inductive Outcome (α : Type) | ok (a : α) | err | panic
deriving Repr, DecidableEq

/-- `clone.Overhang` -/
structure Overhang where
  length : Nat
  position : Int
  forward : Bool
deriving DecidableEq, Repr

/-- `clone.Fragment` -/
structure Fragment where
  seq : Str
  fwd : Str
  rev : Str
deriving DecidableEq, Repr

/-- `clone.Enzyme`; the two regular expressions are represented by the literal they match. -/
structure Enzyme where
  name : String
  reFor : Str
  reRev : Str
  skip : Nat
  ohLen : Nat
  site : Str
deriving DecidableEq, Repr

/-- `getBaseRestrictionEnzymes` (a Go map: looked up by key only, never iterated) -/
def baseEnzymes : List (String × Enzyme) :=
  [("BsaI",  ⟨"BsaI",  "GGTCTC".toList, "GAGACC".toList, 1, 4, "GGTCTC".toList⟩),
   ("BbsI",  ⟨"BbsI",  "GAAGAC".toList, "GTCTTC".toList, 2, 4, "GAAGAC".toList⟩),
   ("BtgZI", ⟨"BtgZI", "GCGATG".toList, "CATCGC".toList, 10, 4, "GCGATG".toList⟩)]

/-- `regexp.FindAllStringIndex(s, -1)` for a literal pattern: `(start, end)` of the leftmost
non-overlapping matches.  `i` = current byte offset, `hold` = letters still covered by the
previous match (the scan resumes after them).  (For the empty pattern Go reports an empty
match at every offset `0..len`; reproduced for totality, outside every property.) -/
def findAllAux (pat : Str) : Nat → Nat → Str → List (Nat × Nat)
  | i, 0, [] => if pat = [] then [(i, i)] else []
  | _, _ + 1, [] => []
  | i, hold + 1, _ :: cs => findAllAux pat (i + 1) hold cs
  | i, 0, c :: cs =>
    if pat.isPrefixOf (c :: cs) then (i, i + pat.length) :: findAllAux pat (i + 1) (pat.length - 1) cs
    else findAllAux pat (i + 1) 0 cs

def findAll (pat s : Str) : List (Nat × Nat) := findAllAux pat 0 0 s

/-- Go slice expression `s[lo:hi]`; `none` = panic (`0 ≤ lo ≤ hi ≤ len(s)` violated) -/
def goSlice (s : Str) (lo hi : Int) : Option Str :=
  if 0 ≤ lo ∧ lo ≤ hi ∧ hi ≤ (s.length : Int) then some ((s.drop lo.toNat).take (hi.toNat - lo.toNat)) else none

/-- the end-trimming rule: on a LINEAR sequence the LAST overhang of the FORWARD set is removed when
`Position + Skip + OverhangLen > len(sequence)` (the reverse set is left alone: the overhang of a
reverse site lies to the left of that site) -/
def trimLast (circular : Bool) (e : Enzyme) (seqLen : Nat) (set : List Overhang) : List Overhang :=
  match set.getLast? with
  | none => set
  | some l =>
    if !circular && decide (l.position + (e.skip : Int) + (e.ohLen : Int) > (seqLen : Int)) then set.dropLast else set

/-- `((p % n) + n) % n` with Go's truncated `%` -/
def firstTurn (n : Nat) (p : Int) : Int := ((p.tmod n) + n).tmod n

/-- the duplicate-dropping loop: an overhang is kept unless an equal one (whole struct) was kept before -/
def dedupInto (acc : List Overhang) : List Overhang → List Overhang
  | [] => acc
  | o :: os => if acc.contains o then dedupInto acc os else dedupInto (acc ++ [o]) os

/-- stable insertion: `o` goes before the first element whose position is not smaller -/
def insertByPos (o : Overhang) : List Overhang → List Overhang
  | [] => [o]
  | x :: xs => if o.position ≤ x.position then o :: x :: xs else x :: insertByPos o xs

/-- `sort.SliceStable` by `Position` (a stable sort has one possible result) -/
def sortByPos : List Overhang → List Overhang
  | [] => []
  | o :: os => insertByPos o (sortByPos os)

/-- the pairing loop `for overhangIndex := 0; overhangIndex < len(overhangs)-1; …`:
collects `fragmentSeqs`; `none` = a slice expression panicked.  `n = len(seq.Sequence)`. -/
def pairLoop (sequence : Str) (n : Nat) (selective : Bool) : List Overhang → Option (List Str)
  | cur :: next :: rest =>
    let emit := !selective || (cur.forward && !next.forward)
    let piece : Option (List Str) :=
      if emit then (goSlice sequence cur.position next.position).map ([·]) else some []
    match piece with
    | none => none
    | some p =>
      if next.position > (n : Int) then some p
      else (pairLoop sequence n selective (next :: rest)).map (p ++ ·)
  | _ => some []

/-- `Fragment{fragment[oh : len-oh], fragment[:oh], fragment[len-oh:]}` -/
def toFragment (oh : Nat) (f : Str) : Option Fragment := do
  let s ← goSlice f oh ((f.length : Int) - oh)
  let a ← goSlice f 0 oh
  let b ← goSlice f ((f.length : Int) - oh) f.length
  pure ⟨s, a, b⟩

def allSome : List (Option α) → Option (List α)
  | [] => some []
  | none :: _ => none
  | some a :: r => (allSome r).map (a :: ·)

/-- `sequence`: the upper-cased sequence, doubled for a circular part -/
def sequenceOf (seq : Str) (circular : Bool) : Str := upper (if circular then seq ++ seq else seq)

/-- the overhang list as it stands when the pairing starts; `sequence = sequenceOf seq circular`,
`n = len(seq.Sequence)`; `none` = panic (`% 0`) -/
def overhangsCore (sequence : Str) (n : Nat) (circular : Bool) (e : Enzyme) : Option (List Overhang) :=
  let palindromic := isPalindromic e.site
  let forwardOverhangs : List Overhang :=
    (findAll e.reFor sequence).map fun m => ⟨e.ohLen, (m.2 : Int) + e.skip, true⟩
  let reverseOverhangs : List Overhang :=
    if palindromic then [] else
    (findAll e.reRev sequence).map fun m => ⟨e.ohLen, (m.1 : Int) - e.skip, false⟩
  -- `for setIndex, overhangSet := range {forwardOverhangs, reverseOverhangs}`: the rule is applied when `setIndex == 0` only
  let overhangs := trimLast circular e sequence.length forwardOverhangs ++ reverseOverhangs
  if circular && n == 0 && !overhangs.isEmpty then none else   -- `% 0`
  let overhangs :=
    if circular then dedupInto [] (overhangs.map fun o => { o with position := firstTurn n o.position })
    else overhangs
  let overhangs := sortByPos overhangs
  let overhangs :=
    if circular then
      match overhangs with
      | [] => []
      | o :: _ => overhangs ++ [{ o with position := o.position + n }]
    else overhangs
  some overhangs

/-- the body of `CutWithEnzyme` after `sequence` has been formed -/
def cutCore (sequence : Str) (n : Nat) (circular directional : Bool) (e : Enzyme) : Outcome (List Fragment) :=
  let palindromic := isPalindromic e.site
  match overhangsCore sequence n circular e with
  | none => .panic
  | some overhangs =>
  -- a single cut, linear, not directional: two fragments with one sticky end each
  if overhangs.length == 1 && !directional && !circular then
    match overhangs with
    | [o] =>
      match goSlice sequence (o.position + o.length) sequence.length, goSlice sequence 0 o.position,
            goSlice sequence o.position (o.position + o.length) with
      | some f1, some f2, some oh => .ok [⟨f1, oh, []⟩, ⟨f2, [], oh⟩]
      | _, _, _ => .panic
    | _ => .panic
  -- a single cut, circular, not directional: one fragment
  else if overhangs.length == 2 && !directional && circular then
    match overhangs with
    | o :: _ =>
      match goSlice sequence (o.position + o.length) n, goSlice sequence 0 o.position,
            goSlice sequence o.position (o.position + o.length) with
      | some f1, some f2, some oh => .ok [⟨f1 ++ f2, oh, oh⟩]
      | _, _, _ => .panic
    | _ => .panic
  else if overhangs.length > 1 then
    match pairLoop sequence n (directional && !palindromic) overhangs with
    | none => .panic
    | some fragmentSeqs =>
      match allSome (fragmentSeqs.map (toFragment e.ohLen)) with
      | none => .panic
      | some fr => .ok fr
  else .ok []

/-- `clone.CutWithEnzyme(Part{seq, circular}, directional, e)` -/
def cutWithEnzyme (seq : Str) (circular directional : Bool) (e : Enzyme) : Outcome (List Fragment) :=
  cutCore (sequenceOf seq circular) seq.length circular directional e

/-- `clone.CutWithEnzymeByName` -/
def cutWithEnzymeByName (seq : Str) (circular directional : Bool) (name : String) : Outcome (List Fragment) :=
  match baseEnzymes.lookup name with
  | none => .err
  | some e => cutWithEnzyme seq circular directional e

end PolyVerif.Digest
