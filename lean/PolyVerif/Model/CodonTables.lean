import PolyVerif.Model.CodonOps
import PolyVerif.Gen.CodonTables
/-
Model of the table-valued functions of poly/transform/codon (C08, C18), statement by statement:

  getCodonFrequency, Table.OptimizeTable          (re-weighting from a coding sequence)
  AddCodonTable, CompromiseCodonTable             (combining two tables)
  GetCodonTable / defaultCodonTablesByNumber      (shared package-level default tables)
  WriteCodonJSON ; ReadCodonJSON                  (serialise + parse: a deep copy)

and the HEAP in which Go's slice sharing between these functions is made explicit (§ "Heap model").

Modelling notes
* `map[string]int` is an association list with unique keys in first-insertion order; reading a missing
  key gives Go's zero value 0 (that is Go's semantics of `m[k]`, not a convenience default).
* Since /repo 053f18d the loop counts LETTERS (`currentCodonLetters`, incremented per rune of the `range`, reset
  with the builder), no longer `strings.Builder.Len()` (bytes): the model carries that counter; a model `Char` is
  one rune, so the framing is modelled for every valid Unicode string.  `strings.ToUpper` is `Char.toUpper`, which
  is Go's function on ASCII only.  ASSUMPTION (gen/c08.py): strings.ToUpper maps rune by rune (keeps the number
  of letters) and maps no non-ASCII letter to A, C, G or T — then the weights of every table over ACGT triplets
  are the same under both functions, whatever the sequence.
* Go `int` is 64 bit; the model's `Int` is unbounded.  Assumption (named in gen/c08.py, gen/c18.py): all
  weights and their sums stay below 2^53 (coding sequences have at most 10^5 letters).
* Floats: `CompromiseCodonTable` computes with float64.  The function is written once, over an `Arith`
  record holding the five numeric primitives; `exactArith` (cut-off a `Rat`, shares `⌊10000·w/Σ⌋`) is what
  the theorems are about, `floatArith` (Lean `Float` = IEEE binary64, as Go) is what the correspondence
  check runs.  `int(NaN)` / out-of-range conversions are implementation-specific in Go; on amd64
  (CVTTSD2SQ) the result is the "integer indefinite" -2^63.  Both instances return that value, named
  `intIndefinite`, explicitly — it is reachable exactly when an amino acid has total weight 0, which the
  property excludes (`every amino acid occurs`); drivers tag such cases `nan` and do not judge them.
-/
namespace PolyVerif.CodonTables
open PolyVerif PolyVerif.Codon

def upper (s : Str) : Str := s.map Char.toUpper

/-! ## getCodonFrequency -/

/-- `map[string]int`: unique keys, insertion order -/
abbrev FreqMap := List (Str × Int)

/-- `m[k]` (zero value 0 for a missing key) -/
def mapGet : FreqMap → Str → Int
  | [], _ => 0
  | (k, v) :: rest, key => if k = key then v else mapGet rest key

/-- `_, ok := m[k]` -/
def mapHas : FreqMap → Str → Bool
  | [], _ => false
  | (k, _) :: rest, key => if k = key then true else mapHas rest key

/-- `m[k]++` for a key that is present -/
def mapIncr : FreqMap → Str → FreqMap
  | [], _ => []
  | (k, v) :: rest, key => if k = key then (k, v + 1) :: rest else (k, v) :: mapIncr rest key

/-- `m[k] = 1` for a key that is absent -/
def mapInit (m : FreqMap) (key : Str) : FreqMap := m ++ [(key, 1)]

/-- one iteration of `for _, letter := range sequence`; state = (currentCodon, currentCodonLetters, codonFrequencyHashMap) -/
def freqStep (st : Str × Nat × FreqMap) (letter : Char) : Str × Nat × FreqMap :=
  let cur := st.1 ++ [letter]                      -- currentCodon.WriteRune(letter)
  let n := st.2.1 + 1                              -- currentCodonLetters++
  if n = 3 then                                    -- if currentCodonLetters == 3
    if mapHas st.2.2 cur then ([], 0, mapIncr st.2.2 cur)   --   present: ++
    else ([], 0, mapInit st.2.2 cur)                        --   absent: = 1 ; then Reset(), currentCodonLetters = 0
  else (cur, n, st.2.2)

def getCodonFrequency (sequence : Str) : FreqMap := (sequence.foldl freqStep ([], 0, [])).2.2

/-! ## OptimizeTable (on the contents of the table's AminoAcids array) -/

/-- inner loop: `codonTable.AminoAcids[i].Codons[j].Weight = codonFrequencyMap[codon.Triplet]` -/
def reweightCodons (m : FreqMap) : List Codon → List Codon
  | [] => []
  | c :: rest => { triplet := c.triplet, weight := mapGet m c.triplet } :: reweightCodons m rest

/-- outer loop over `codonTable.AminoAcids` -/
def reweightAAs (m : FreqMap) : List AminoAcid → List AminoAcid
  | [] => []
  | a :: rest => { letter := a.letter, codons := reweightCodons m a.codons } :: reweightAAs m rest

/-- the new contents of the AminoAcids array after `OptimizeTable(sequence)` -/
def optimizeCell (sequence : Str) (cell : List AminoAcid) : List AminoAcid :=
  reweightAAs (getCodonFrequency (upper sequence)) cell

/-- `OptimizeTable` on a table VALUE (what the returned struct denotes) -/
def optimizeTable (t : Table) (sequence : Str) : Table :=
  { startCodons := t.startCodons, stopCodons := t.stopCodons, aminoAcids := optimizeCell sequence t.aminoAcids }

/-! ## AddCodonTable -/

/-- the two inner loops for one `firstCodon` -/
def addCodons (c1 : Codon) (t2 : Table) : List Codon :=
  t2.aminoAcids.flatMap fun a2 => a2.codons.filterMap fun c2 =>
    if c1.triplet = c2.triplet then some { triplet := c1.triplet, weight := c1.weight + c2.weight } else none

def addTable (t1 t2 : Table) : Table :=
  { startCodons := t1.startCodons, stopCodons := t1.stopCodons,
    aminoAcids := t1.aminoAcids.map fun a1 =>
      { letter := a1.letter, codons := a1.codons.flatMap fun c1 => addCodons c1 t2 } }

/-! ## CompromiseCodonTable -/

/-- Go's `int(x)` for NaN / out-of-range `x` on amd64: the "integer indefinite" -/
def intIndefinite : Int := -9223372036854775808

/-- the numeric primitives of CompromiseCodonTable over a cut-off type `κ` -/
structure Arith (κ : Type) where
  below0 : κ → Bool               -- cutOff < 0
  above1 : κ → Bool               -- cutOff > 1
  cutWeight : κ → Int             -- int(10000 * cutOff)
  share : Int → Int → Int         -- int((float64(w) / float64(total)) * 10000)
  mean : Int → Int → Int          -- int((float64(a) + float64(b)) / 2)

/-- exact arithmetic: truncation of the exact quotient; total = 0 is 0/0 = NaN ⇒ `intIndefinite` (w ≠ 0 would be ±Inf, same result) -/
def exactArith : Arith Rat where
  below0 c := c < 0
  above1 c := c > 1
  cutWeight c := (10000 * c).floor   -- reached only for 0 ≤ c ≤ 1, where truncation is floor
  share w total := if total = 0 then intIndefinite else Int.tdiv (10000 * w) total
  mean a b := Int.tdiv (a + b) 2

/-- Go `int(x)` of a float64 on amd64 -/
def goInt (x : Float) : Int :=
  if x.isNaN then intIndefinite
  else if x >= 9223372036854775808.0 || x < -9223372036854775808.0 then intIndefinite
  else x.toInt64.toInt

def floatArith : Arith Float where
  below0 c := c < 0.0
  above1 c := c > 1.0
  cutWeight c := goInt (10000.0 * c)
  share w total := goInt ((Float.ofInt w / Float.ofInt total) * 10000.0)
  mean a b := goInt ((Float.ofInt a + Float.ofInt b) / 2.0)

/-- float64 arithmetic at the level of `Nat`: every rounding is `rne` (IEEE binary64 round to nearest even, written
over `Nat` in Model/CodonOps.lean, independent of Lean's opaque `Float`), so the kernel can reason about it
(Props/C18F64).  `mean`: both shares are integers in [0, 10000]; float64 adds such integers and halves the sum
exactly, and `int(·)` truncates.  total = 0 is 0/0 as in the other instances.  The driver checks on every case
that the implementation equals this instance too (bit for bit), next to Lean's `Float` instance. -/
def f64Arith : Arith Rat where
  below0 c := c < 0
  above1 c := c > 1
  cutWeight c := cutF64 c
  share w total := if total = 0 then intIndefinite else shareF64 w total
  mean a b := Int.tdiv (a + b) 2

/-- `secondWeights` for one amino acid of the first table: for each first codon, every codon with the same
triplet among the second table's amino acids with the same letter -/
def secondWeights (t2 : Table) (a1 : AminoAcid) : List Int :=
  a1.codons.flatMap fun c1 => t2.aminoAcids.flatMap fun a2 =>
    if a2.letter = a1.letter then
      a2.codons.filterMap fun c2 => if c2.triplet = c1.triplet then some c2.weight else none
    else []

def sumInts (l : List Int) : Int := l.foldr (· + ·) 0

/-- the loop `for i, firstTriplet := range firstTriplets`; `none` = `secondWeights[i]` index out of range (panic) -/
def finalCodons {κ : Type} (A : Arith κ) (cw ftot stot : Int) (sws : List Int) : Nat → List Codon → Option (List Codon)
  | _, [] => some []
  | i, c :: rest =>
    match sws[i]? with
    | none => none
    | some sw =>
      let f := A.share c.weight ftot
      let s := A.share sw stot
      let w := if f < cw || s < cw then 0 else A.mean f s
      match finalCodons A cw ftot stot sws (i + 1) rest with
      | none => none
      | some r => some ({ triplet := c.triplet, weight := w } :: r)

def compromiseAA {κ : Type} (A : Arith κ) (cw : Int) (t2 : Table) (a1 : AminoAcid) : Option AminoAcid :=
  let sws := secondWeights t2 a1
  match finalCodons A cw (sumInts (a1.codons.map (·.weight))) (sumInts sws) sws 0 a1.codons with
  | none => none
  | some cs => some { letter := a1.letter, codons := cs }

def compromiseAAs {κ : Type} (A : Arith κ) (cw : Int) (t2 : Table) : List AminoAcid → Option (List AminoAcid)
  | [] => some []
  | a1 :: rest =>
    match compromiseAA A cw t2 a1 with
    | none => none
    | some a => match compromiseAAs A cw t2 rest with
      | none => none
      | some r => some (a :: r)

def compromise {κ : Type} (A : Arith κ) (t1 t2 : Table) (cutOff : κ) : Outcome Table :=
  if A.below0 cutOff then .err
  else if A.above1 cutOff then .err
  else match compromiseAAs A (A.cutWeight cutOff) t2 t1.aminoAcids with
    | none => .panic
    | some aas => .ok { startCodons := t1.startCodons, stopCodons := t1.stopCodons, aminoAcids := aas }

/-! ## Default tables -/

def ofGen (r : Nat × List String × List String × List (String × List (String × Int))) : Nat × Table :=
  (r.1, { startCodons := r.2.1.map String.toList, stopCodons := r.2.2.1.map String.toList,
          aminoAcids := r.2.2.2.map fun a => { letter := a.1.toList, codons := a.2.map fun c => { triplet := c.1.toList, weight := c.2 } } })

/-- the default tables as regenerated from the code (amino acids sorted by letter) -/
def genDefaults : List (Nat × Table) := Gen.codonTables.map ofGen

/-! ## Heap model

Go: a `Table` is a struct of three slice headers.  `StartCodons` / `StopCodons` are never written by any
function of the package, so they are carried as immutable values.  `AminoAcids` points to a backing array
of `AminoAcid{Letter, Codons}` whose `Codons` slices point to arrays of `Codon{Triplet, Weight}`; the only
writes of the package are `…AminoAcids[i].Codons[j].Weight = …` in `OptimizeTable`, reached through the
`AminoAcids` array.  No function shares a `Codons` array without sharing the `AminoAcids` array it hangs
from (AddCodonTable / CompromiseCodonTable / json.Unmarshal build fresh arrays of both kinds), so one
heap CELL holds the contents of one AminoAcids array together with the Codons arrays it owns; a table
value `HTable` holds the ADDRESS of its cell.  Struct copies (`GetCodonTable`'s return value, the value
returned by `OptimizeTable`) copy the address: that is the sharing the property is about.
A nil `AminoAcids` slice (zero `Table`) is a fresh empty cell. -/

abbrev Addr := Nat
abbrev Heap := List (List AminoAcid)

structure HTable where
  startCodons : List Str
  stopCodons : List Str
  aas : Addr
deriving Repr, DecidableEq

def Heap.alloc (h : Heap) (cell : List AminoAcid) : Heap × Addr := (h ++ [cell], h.length)

def deref (h : Heap) (t : HTable) : Option Table :=
  match h[t.aas]? with
  | none => none
  | some cell => some { startCodons := t.startCodons, stopCodons := t.stopCodons, aminoAcids := cell }

/-- a table value stored into fresh memory -/
def store (h : Heap) (t : Table) : Heap × HTable :=
  ((h.alloc t.aminoAcids).1, { startCodons := t.startCodons, stopCodons := t.stopCodons, aas := (h.alloc t.aminoAcids).2 })

/-- `var defaultCodonTablesByNumber = map[int]Table{…}` at package initialisation: table k of `defs` lives at address k -/
def initHeap : List (Nat × Table) → Heap
  | [] => []
  | (_, t) :: rest => t.aminoAcids :: initHeap rest

def initDefaults : Nat → List (Nat × Table) → List (Nat × HTable)
  | _, [] => []
  | a, (id, t) :: rest => (id, { startCodons := t.startCodons, stopCodons := t.stopCodons, aas := a }) :: initDefaults (a + 1) rest

structure HState where
  heap : Heap
  defaults : List (Nat × HTable)
  handles : List HTable
  trace : List Obs

def HState.init (defs : List (Nat × Table)) : HState :=
  { heap := initHeap defs, defaults := initDefaults 0 defs, handles := [], trace := [] }

def obsOf : Option Table → Obs
  | some t => .table t
  | none => .fault

/-- push a freshly stored value as the new handle and show it -/
def HState.pushFresh (st : HState) (t : Table) (o : Obs) : HState :=
  let r := store st.heap t
  { st with heap := r.1, handles := st.handles ++ [r.2], trace := st.trace ++ [o] }

def HState.pushFault (st : HState) : HState := st.pushFresh zeroTable .fault

def hstep {κ : Type} (cmp : Table → Table → κ → Outcome Table) (st : HState) : Op κ → HState
  | .get id =>
    match st.defaults.lookup id with
    | some ht => { st with handles := st.handles ++ [ht], trace := st.trace ++ [obsOf (deref st.heap ht)] }   -- the SAME address
    | none => st.pushFresh zeroTable (.table zeroTable)                      -- missing map key: zero Table
  | .reweight h s =>
    match st.handles[h]? with
    | none => st.pushFault
    | some ht =>
      match st.heap[ht.aas]? with
      | none => st.pushFault
      | some cell =>
        let heap' := st.heap.set ht.aas (optimizeCell s cell)                 -- writes in place
        { st with heap := heap', handles := st.handles ++ [ht], trace := st.trace ++ [obsOf (deref heap' ht)] }   -- returns the same address
  | .add h1 h2 =>
    match st.handles[h1]?.bind (deref st.heap), st.handles[h2]?.bind (deref st.heap) with
    | some t1, some t2 => let r := addTable t1 t2; st.pushFresh r (.table r)
    | _, _ => st.pushFault
  | .compromise h1 h2 cut =>
    match st.handles[h1]?.bind (deref st.heap), st.handles[h2]?.bind (deref st.heap) with
    | some t1, some t2 =>
      match cmp t1 t2 cut with
      | .ok r => st.pushFresh r (.table r)
      | .err => st.pushFresh zeroTable .err
      | .panic => st.pushFresh zeroTable .panic
    | _, _ => st.pushFault
  | .json h =>
    match st.handles[h]?.bind (deref st.heap) with
    | some t => st.pushFresh t (.table t)
    | none => st.pushFault
  | .observe h =>
    match st.handles[h]?.bind (deref st.heap) with
    | some t => st.pushFresh zeroTable (.table t)
    | none => st.pushFault

/-- the semantics of a PARTLY REPAIRED package: `GetCodonTable` returns a deep copy (fresh cell), everything else as it
is (`OptimizeTable` still writes in place through its receiver).  Used by the C08 driver only, to recognise such a
repair: with it C08-alias-default is gone and C08-receiver-mutated remains.  (A copying `OptimizeTable` needs no
model of its own: nothing then ever writes to a shared cell, which is value semantics.) -/
def hstepCopyGet {κ : Type} (cmp : Table → Table → κ → Outcome Table) (st : HState) : Op κ → HState
  | .get id =>
    match st.defaults.lookup id with
    | some ht => match deref st.heap ht with
      | some t => st.pushFresh t (.table t)
      | none => st.pushFault
    | none => st.pushFresh zeroTable (.table zeroTable)
  | op => hstep cmp st op

def runHeapFrom {κ : Type} (cmp : Table → Table → κ → Outcome Table) (st : HState) (hist : List (Op κ)) : HState :=
  hist.foldl (hstep cmp) st

/-- run a history against default tables `defs`; the observation is the trace of what every step showed -/
def runHeap {κ : Type} (cmp : Table → Table → κ → Outcome Table) (defs : List (Nat × Table)) (hist : List (Op κ)) : List Obs :=
  (runHeapFrom cmp (HState.init defs) hist).trace

/-! ## Concurrent re-weighting (atomic steps)

Each goroutine holds a default table and calls `OptimizeTable` on it repeatedly.  In the model one call is
one atomic heap update `writeAt` (the frequency map is goroutine-local); a schedule is an interleaving of
the threads' call sequences.  What this cannot show — data races on individual words under the Go memory
model — is left to the race detector (thorough tier). -/

/-- the heap effect of `OptimizeTable(s)` on a table whose cell is at `a` -/
def writeAt (h : Heap) (a : Addr) (s : Str) : Heap :=
  match h[a]? with
  | none => h
  | some cell => h.set a (optimizeCell s cell)

def execWrites (h : Heap) (ws : List (Addr × Str)) : Heap := ws.foldl (fun h w => writeAt h w.1 w.2) h

/-- `l` is an interleaving of `l₁` and `l₂` (each thread's program order kept) -/
inductive Interleave {α : Type} : List α → List α → List α → Prop
  | nil : Interleave [] [] []
  | left {x : α} {l₁ l₂ l : List α} : Interleave l₁ l₂ l → Interleave (x :: l₁) l₂ (x :: l)
  | right {y : α} {l₁ l₂ l : List α} : Interleave l₁ l₂ l → Interleave l₁ (y :: l₂) (y :: l)

end PolyVerif.CodonTables
