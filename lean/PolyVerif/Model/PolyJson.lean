import PolyVerif.Base.JVal
import PolyVerif.Base.JsonRead
import PolyVerif.Gen.PolyStructs
import PolyVerif.Model.Transform
/-
Model of poly's JSON form (property C15): the value types of poly.go, `json.Marshal`
(`toJ`) and `json.Unmarshal` (`fromJ`) on them, `polyjson.Parse` (`polyjsonParse`),
`Sequence.AddFeature` (inside `polyjsonParse`) and `Feature.GetSequence` (`Feature.getSeq`).

`toJ` / `fromJ` are written per struct but DRIVEN BY the regenerated table
`Gen.polyStructs`: which members exist, their names and their order come from the table
(`encStruct`, `fieldOf`); the hand-written part only says which Lean field a *Go field name*
denotes.  A changed tag, a `json:"-"`, an `omitempty`, two fields sharing one JSON name
therefore change these functions (and the theorems in Props/C15 are re-checked against them).

Go's rules that are modelled:
* struct → object, members in field order; nil slice / nil map → `null`, empty → `[]` / `{}`;
  map members sorted by key (the model keeps maps as key-sorted association lists, see `Sequence.WF`);
* decoding: a missing member leaves the field at its old (zero) value; `null` sets a slice / map
  to nil and has no effect on string / int / bool / struct; a member of the wrong JSON type is an
  `UnmarshalTypeError` that `polyjson.Parse` ignores: the field keeps its old value; unknown
  members are ignored; `[]` gives an empty non-nil slice, `{}` an empty non-nil map.
Not modelled (outside the images of `toJ`): Go's case-insensitive fallback when matching member
names (the model matches exactly), duplicate members re-using slice elements, numbers that are
not integers or exceed int64.
-/
namespace PolyVerif.PolyJson
open PolyVerif

/-- `map[string]string`: `none` = nil map; entries sorted by key (canonical form of an unordered map) -/
abbrev SMap := Option (List (S × S))

structure Locus where
  name : S
  sequenceLength : S
  moleculeType : S
  genbankDivision : S
  modificationDate : S
  sequenceCoding : S
  circular : Bool
  linear : Bool
  deriving DecidableEq, Repr

structure Reference where
  index : S
  authors : S
  title : S
  journal : S
  pubMed : S
  remark : S
  range : S
  deriving DecidableEq, Repr

/-- `poly.Location`; `subs = none` is the nil slice -/
inductive Location where
  | mk (start stop : Int) (complement join fivePartial threePartial : Bool)
       (subs : Option (List Location))
  deriving Repr

structure Meta where
  name : S
  gffVersion : S
  regionStart : Int
  regionEnd : Int
  size : Int
  type : S
  date : S
  definition : S
  accession : S
  version : S
  keywords : S
  organism : S
  source : S
  origin : S
  locus : Locus
  references : Option (List Reference)
  other : SMap
  deriving DecidableEq, Repr

/-- `poly.Feature`.  `parent` models `ParentSequence *Sequence` by what it is used for: `none` = nil
pointer, `some s` = a pointer to a sequence struct whose `.Sequence` text is `s`. -/
structure Feature where
  name : S
  source : S
  type : S
  score : S
  strand : S
  phase : S
  attributes : SMap
  gbkLocationString : S
  sequence : S
  sequenceLocation : Location
  sequenceHash : S
  description : S
  sequenceHashFunction : S
  parent : Option S
  deriving Repr

structure Sequence where
  metadata : Meta
  description : S
  sequenceHash : S
  sequenceHashFunction : S
  sequence : S
  features : Option (List Feature)
  deriving Repr

def Locus.zero : Locus := ⟨[], [], [], [], [], [], false, false⟩
def Reference.zero : Reference := ⟨[], [], [], [], [], [], []⟩
def Location.zero : Location := .mk 0 0 false false false false none
def Meta.zero : Meta := ⟨[], [], 0, 0, 0, [], [], [], [], [], [], [], [], [], Locus.zero, none, none⟩
def Feature.zero : Feature := ⟨[], [], [], [], [], [], none, [], [], Location.zero, [], [], [], none⟩
def Sequence.zero : Sequence := ⟨Meta.zero, [], [], [], [], none⟩

/-- the regenerated field list of one struct -/
def fieldsOfStruct (n : String) : List PField := (Gen.polyStructs.lookup n).getD []

/-! ### scalar and container codecs -/

def strOf (old : S) : JVal → S
  | .str s => s
  | _ => old
def intOf (old : Int) : JVal → Int
  | .num n => n
  | _ => old
def boolOf (old : Bool) : JVal → Bool
  | .bool b => b
  | _ => old

/-- lexicographic order on code points (= byte order of the UTF-8 encodings, which is the
order in which `encoding/json` emits map keys) -/
def ltS : S → S → Bool
  | [], [] => false
  | [], _ :: _ => true
  | _ :: _, [] => false
  | a :: as, b :: bs => a < b || (a == b && ltS as bs)

/-- insert or replace in a key-sorted association list -/
def mapInsert (k v : S) : List (S × S) → List (S × S)
  | [] => [(k, v)]
  | (k', v') :: rest =>
    if k == k' then (k, v) :: rest
    else if ltS k k' then (k, v) :: (k', v') :: rest
    else (k', v') :: mapInsert k v rest

/-- keys strictly ascending -/
def sortedKeys : List (S × S) → Bool
  | [] => true
  | (k, _) :: rest => rest.all (fun p => ltS k p.1) && sortedKeys rest

def mapToJ : SMap → JVal
  | none => .null
  | some kvs => .obj (kvs.map fun p => (p.1, .str p.2))

def mapOf (old : SMap) : JVal → SMap
  | .null => none
  | .obj kvs => some (kvs.foldl (fun m p => mapInsert p.1 (strOf [] p.2) m) (old.getD []))
  | _ => old

def sliceToJ {α : Type} (enc : α → JVal) : Option (List α) → JVal
  | none => .null
  | some xs => .arr (xs.map enc)

def sliceOf {α : Type} (dec : JVal → α) (old : Option (List α)) : JVal → Option (List α)
  | .null => none
  | .arr xs => some (xs.map dec)
  | _ => old

/-- `json.Unmarshal` into a struct: members in textual order; a known member sets its field -/
def decStruct {α : Type} (fs : List PField) (set : α → String → JVal → α) : List (S × JVal) → α → α
  | [], acc => acc
  | (k, v) :: es, acc =>
    decStruct fs set es (match fieldOf fs k with
      | some go => set acc go v
      | none => acc)

/-! ### Locus, Reference -/

def Locus.get (l : Locus) (go : String) : Option JVal :=
  match go with
  | "Name" => some (.str l.name)
  | "SequenceLength" => some (.str l.sequenceLength)
  | "MoleculeType" => some (.str l.moleculeType)
  | "GenbankDivision" => some (.str l.genbankDivision)
  | "ModificationDate" => some (.str l.modificationDate)
  | "SequenceCoding" => some (.str l.sequenceCoding)
  | "Circular" => some (.bool l.circular)
  | "Linear" => some (.bool l.linear)
  | _ => none

def Locus.set (l : Locus) (go : String) (v : JVal) : Locus :=
  match go with
  | "Name" => { l with name := strOf l.name v }
  | "SequenceLength" => { l with sequenceLength := strOf l.sequenceLength v }
  | "MoleculeType" => { l with moleculeType := strOf l.moleculeType v }
  | "GenbankDivision" => { l with genbankDivision := strOf l.genbankDivision v }
  | "ModificationDate" => { l with modificationDate := strOf l.modificationDate v }
  | "SequenceCoding" => { l with sequenceCoding := strOf l.sequenceCoding v }
  | "Circular" => { l with circular := boolOf l.circular v }
  | "Linear" => { l with linear := boolOf l.linear v }
  | _ => l

def Locus.toJ (l : Locus) : JVal := encStruct (fieldsOfStruct "Locus") l.get

def Locus.into (old : Locus) : JVal → Locus
  | .obj es => decStruct (fieldsOfStruct "Locus") Locus.set es old
  | _ => old

def Reference.get (r : Reference) (go : String) : Option JVal :=
  match go with
  | "Index" => some (.str r.index)
  | "Authors" => some (.str r.authors)
  | "Title" => some (.str r.title)
  | "Journal" => some (.str r.journal)
  | "PubMed" => some (.str r.pubMed)
  | "Remark" => some (.str r.remark)
  | "Range" => some (.str r.range)
  | _ => none

def Reference.set (r : Reference) (go : String) (v : JVal) : Reference :=
  match go with
  | "Index" => { r with index := strOf r.index v }
  | "Authors" => { r with authors := strOf r.authors v }
  | "Title" => { r with title := strOf r.title v }
  | "Journal" => { r with journal := strOf r.journal v }
  | "PubMed" => { r with pubMed := strOf r.pubMed v }
  | "Remark" => { r with remark := strOf r.remark v }
  | "Range" => { r with range := strOf r.range v }
  | _ => r

def Reference.toJ (r : Reference) : JVal := encStruct (fieldsOfStruct "Reference") r.get

def Reference.into (old : Reference) : JVal → Reference
  | .obj es => decStruct (fieldsOfStruct "Reference") Reference.set es old
  | _ => old

def Reference.fromJ (j : JVal) : Reference := Reference.zero.into j

/-! ### Location (recursive: explicit mutual structural recursion) -/

mutual
def Location.toJ : Location → JVal
  | .mk s e c j f t subs => encStruct (fieldsOfStruct "Location") fun go =>
    match go with
    | "Start" => some (.num s)
    | "End" => some (.num e)
    | "Complement" => some (.bool c)
    | "Join" => some (.bool j)
    | "FivePrimePartial" => some (.bool f)
    | "ThreePrimePartial" => some (.bool t)
    | "SubLocations" => some (Location.subsToJ subs)
    | _ => none
def Location.subsToJ : Option (List Location) → JVal
  | none => .null
  | some xs => .arr (Location.listToJ xs)
def Location.listToJ : List Location → List JVal
  | [] => []
  | x :: xs => Location.toJ x :: Location.listToJ xs
end

mutual
def Location.into (old : Location) : JVal → Location
  | .obj es => Location.intoEntries es old
  | _ => old
def Location.intoEntries : List (S × JVal) → Location → Location
  | [], acc => acc
  | (k, v) :: es, acc =>
    Location.intoEntries es (match acc with
      | .mk s e c j f t subs =>
        match fieldOf (fieldsOfStruct "Location") k with
        | some "Start" => .mk (intOf s v) e c j f t subs
        | some "End" => .mk s (intOf e v) c j f t subs
        | some "Complement" => .mk s e (boolOf c v) j f t subs
        | some "Join" => .mk s e c (boolOf j v) f t subs
        | some "FivePrimePartial" => .mk s e c j (boolOf f v) t subs
        | some "ThreePrimePartial" => .mk s e c j f (boolOf t v) subs
        | some "SubLocations" => .mk s e c j f t (Location.subsOf v subs)
        | _ => acc)
def Location.subsOf : JVal → Option (List Location) → Option (List Location)
  | .null, _ => none
  | .arr xs, _ => some (Location.listOf xs)
  | _, old => old
def Location.listOf : List JVal → List Location
  | [] => []
  | x :: xs => Location.into Location.zero x :: Location.listOf xs
end

def Location.fromJ (j : JVal) : Location := Location.zero.into j

/-! ### Feature, Meta, Sequence -/

def Feature.get (f : Feature) (go : String) : Option JVal :=
  match go with
  | "Name" => some (.str f.name)
  | "Source" => some (.str f.source)
  | "Type" => some (.str f.type)
  | "Score" => some (.str f.score)
  | "Strand" => some (.str f.strand)
  | "Phase" => some (.str f.phase)
  | "Attributes" => some (mapToJ f.attributes)
  | "GbkLocationString" => some (.str f.gbkLocationString)
  | "Sequence" => some (.str f.sequence)
  | "SequenceLocation" => some f.sequenceLocation.toJ
  | "SequenceHash" => some (.str f.sequenceHash)
  | "Description" => some (.str f.description)
  | "SequenceHashFunction" => some (.str f.sequenceHashFunction)
  | _ => none     -- ParentSequence: a pointer, has no JSON value in the model

def Feature.set (f : Feature) (go : String) (v : JVal) : Feature :=
  match go with
  | "Name" => { f with name := strOf f.name v }
  | "Source" => { f with source := strOf f.source v }
  | "Type" => { f with type := strOf f.type v }
  | "Score" => { f with score := strOf f.score v }
  | "Strand" => { f with strand := strOf f.strand v }
  | "Phase" => { f with phase := strOf f.phase v }
  | "Attributes" => { f with attributes := mapOf f.attributes v }
  | "GbkLocationString" => { f with gbkLocationString := strOf f.gbkLocationString v }
  | "Sequence" => { f with sequence := strOf f.sequence v }
  | "SequenceLocation" => { f with sequenceLocation := f.sequenceLocation.into v }
  | "SequenceHash" => { f with sequenceHash := strOf f.sequenceHash v }
  | "Description" => { f with description := strOf f.description v }
  | "SequenceHashFunction" => { f with sequenceHashFunction := strOf f.sequenceHashFunction v }
  | _ => f

def Feature.toJ (f : Feature) : JVal := encStruct (fieldsOfStruct "Feature") f.get

def Feature.into (old : Feature) : JVal → Feature
  | .obj es => decStruct (fieldsOfStruct "Feature") Feature.set es old
  | _ => old

def Feature.fromJ (j : JVal) : Feature := Feature.zero.into j

def Meta.get (m : Meta) (go : String) : Option JVal :=
  match go with
  | "Name" => some (.str m.name)
  | "GffVersion" => some (.str m.gffVersion)
  | "RegionStart" => some (.num m.regionStart)
  | "RegionEnd" => some (.num m.regionEnd)
  | "Size" => some (.num m.size)
  | "Type" => some (.str m.type)
  | "Date" => some (.str m.date)
  | "Definition" => some (.str m.definition)
  | "Accession" => some (.str m.accession)
  | "Version" => some (.str m.version)
  | "Keywords" => some (.str m.keywords)
  | "Organism" => some (.str m.organism)
  | "Source" => some (.str m.source)
  | "Origin" => some (.str m.origin)
  | "Locus" => some m.locus.toJ
  | "References" => some (sliceToJ Reference.toJ m.references)
  | "Other" => some (mapToJ m.other)
  | _ => none

def Meta.set (m : Meta) (go : String) (v : JVal) : Meta :=
  match go with
  | "Name" => { m with name := strOf m.name v }
  | "GffVersion" => { m with gffVersion := strOf m.gffVersion v }
  | "RegionStart" => { m with regionStart := intOf m.regionStart v }
  | "RegionEnd" => { m with regionEnd := intOf m.regionEnd v }
  | "Size" => { m with size := intOf m.size v }
  | "Type" => { m with type := strOf m.type v }
  | "Date" => { m with date := strOf m.date v }
  | "Definition" => { m with definition := strOf m.definition v }
  | "Accession" => { m with accession := strOf m.accession v }
  | "Version" => { m with version := strOf m.version v }
  | "Keywords" => { m with keywords := strOf m.keywords v }
  | "Organism" => { m with organism := strOf m.organism v }
  | "Source" => { m with source := strOf m.source v }
  | "Origin" => { m with origin := strOf m.origin v }
  | "Locus" => { m with locus := m.locus.into v }
  | "References" => { m with references := sliceOf Reference.fromJ m.references v }
  | "Other" => { m with other := mapOf m.other v }
  | _ => m

def Meta.toJ (m : Meta) : JVal := encStruct (fieldsOfStruct "Meta") m.get

def Meta.into (old : Meta) : JVal → Meta
  | .obj es => decStruct (fieldsOfStruct "Meta") Meta.set es old
  | _ => old

def Sequence.get (x : Sequence) (go : String) : Option JVal :=
  match go with
  | "Meta" => some x.metadata.toJ
  | "Description" => some (.str x.description)
  | "SequenceHash" => some (.str x.sequenceHash)
  | "SequenceHashFunction" => some (.str x.sequenceHashFunction)
  | "Sequence" => some (.str x.sequence)
  | "Features" => some (sliceToJ Feature.toJ x.features)
  | _ => none

def Sequence.set (x : Sequence) (go : String) (v : JVal) : Sequence :=
  match go with
  | "Meta" => { x with metadata := x.metadata.into v }
  | "Description" => { x with description := strOf x.description v }
  | "SequenceHash" => { x with sequenceHash := strOf x.sequenceHash v }
  | "SequenceHashFunction" => { x with sequenceHashFunction := strOf x.sequenceHashFunction v }
  | "Sequence" => { x with sequence := strOf x.sequence v }
  | "Features" => { x with features := sliceOf Feature.fromJ x.features v }
  | _ => x

/-- `json.Marshal(sequence)` -/
def toJ (x : Sequence) : JVal := encStruct (fieldsOfStruct "Sequence") x.get

def Sequence.into (old : Sequence) : JVal → Sequence
  | .obj es => decStruct (fieldsOfStruct "Sequence") Sequence.set es old
  | _ => old

/-- `var sequence poly.Sequence; json.Unmarshal(text, &sequence)` (error ignored) -/
def fromJ (j : JVal) : Sequence := Sequence.zero.into j

/-- parent pointer erased (nil): all that `json.Unmarshal` can produce for a feature -/
def Feature.unlink (f : Feature) : Feature := { f with parent := none }
def Sequence.unlink (x : Sequence) : Sequence := { x with features := x.features.map (·.map Feature.unlink) }

/-! ### polyjson.Parse -/

/-- `AddFeature` as used by `Parse`: the stored copy points to the sequence being built; the
pointee is the local variable of `Parse`, whose `.Sequence` text is `seqText` when `Parse` returns. -/
def relinkTo (seqText : S) (f : Feature) : Feature := { f with parent := some seqText }

/-- `polyjson.Parse` on the document `j`: unmarshal, take the features out, start again from
`[]poly.Feature{}` (non-nil, empty) and `AddFeature` each one.
Go detail: `Parse` returns `sequence` BY VALUE while every stored feature's `ParentSequence` points to
the local variable inside `Parse` (which escapes to the heap).  The returned copy and the pointee are
two structs with equal `.Sequence` strings at return time, which is all `GetSequence` reads; the model
therefore records the pointee's text (`relinkTo s.sequence`), not an identity of structs. -/
def polyjsonParse (j : JVal) : Sequence :=
  let s := fromJ j
  { s with features := some ((s.features.getD []).map (relinkTo s.sequence)) }

/-! ### the same at the level of JSON TEXT (the Lean printer / reader of Base/JVal, Base/JsonRead) -/

/-- `json.Marshal(x)` as text: compact form, members in struct order, Go's string escapes -/
def marshalText (x : Sequence) : S := (toJ x).print

/-- the file `polyjson.Write(x, path)` stores, and what `poly convert -o json` prints: `json.MarshalIndent(x, "", " ")` -/
def writeFileText (x : Sequence) : S := (toJ x).printIndent

/-- `polyjson.Parse(text)`; `none`: the text is not a JSON document (Go: Unmarshal error, ignored by Parse) -/
def parseText (t : S) : Option Sequence := (JsonRead.parse t).map polyjsonParse

/-- plain `json.Unmarshal(text, &sequence)` -/
def unmarshalText (t : S) : Option Sequence := (JsonRead.parse t).map fromJ

/-! ### Feature.GetSequence -/

inductive Outcome (α : Type) where
  | ok (a : α)
  | panic
  deriving DecidableEq, Repr

def Outcome.bind {α β : Type} : Outcome α → (α → Outcome β) → Outcome β
  | .ok a, f => f a
  | .panic, _ => .panic

/-- Go's `s[lo:hi]` on a string: panics unless `0 ≤ lo ≤ hi ≤ len s` (ASCII: byte = code point) -/
def sliceStr (p : S) (lo hi : Int) : Outcome S :=
  if 0 ≤ lo ∧ lo ≤ hi ∧ hi ≤ (p.length : Int) then .ok ((p.drop lo.toNat).take (hi.toNat - lo.toNat))
  else .panic

/-- the domain on which `sliceStr` / `revCompS` are Go's byte slicing and rune mapping: one byte per
code point.  Sequences are nucleotide / protein letters, so this is the honest domain of
`GetSequence`; on other text Go slices the UTF-8 bytes and the model below is not claimed. -/
def asciiS (s : S) : Bool := s.all (· < 128)

/-- `transform.ReverseComplement` on code points (ASCII domain of Model/Transform) -/
def revCompS (s : S) : S := (Transform.revComp (s.map Char.ofNat)).map Char.toNat

def subsEmpty : Option (List Location) → Bool
  | none => true
  | some [] => true
  | some (_ :: _) => false

mutual
/-- `getFeatureSequence(feature, location)` with `feature.ParentSequence.Sequence = p` -/
def Location.seqOf (p : S) : Location → Outcome S
  | .mk s e c _ _ _ subs =>
    (if subsEmpty subs then sliceStr p s e else Location.seqOfSubs p subs).bind fun body =>
      .ok (if c then revCompS body else body)
def Location.seqOfSubs (p : S) : Option (List Location) → Outcome S
  | none => .ok []
  | some xs => Location.seqOfList p xs
def Location.seqOfList (p : S) : List Location → Outcome S
  | [] => .ok []
  | x :: xs => (Location.seqOf p x).bind fun a => (Location.seqOfList p xs).bind fun b => .ok (a ++ b)
end

/-- `feature.GetSequence()`: a nil `ParentSequence` is a nil-pointer panic -/
def Feature.getSeq (f : Feature) : Outcome S :=
  match f.parent with
  | none => .panic
  | some p => f.sequenceLocation.seqOf p

/-! ### "equal value": nil and empty collections identified, parent pointers ignored -/

mutual
def Location.norm : Location → Location
  | .mk s e c j f t subs => .mk s e c j f t (some (Location.normSubs subs))
def Location.normSubs : Option (List Location) → List Location
  | none => []
  | some xs => Location.normList xs
def Location.normList : List Location → List Location
  | [] => []
  | x :: xs => Location.norm x :: Location.normList xs
end

def Feature.norm (f : Feature) : Feature :=
  { f with attributes := some (f.attributes.getD []), sequenceLocation := f.sequenceLocation.norm, parent := none }

def Meta.norm (m : Meta) : Meta :=
  { m with references := some (m.references.getD []), other := some (m.other.getD []) }

def Sequence.norm (x : Sequence) : Sequence :=
  { x with metadata := x.metadata.norm, features := some ((x.features.getD []).map Feature.norm) }

/-- `x ≈ y`: equal in every field, where a nil slice / map counts as equal to an empty one
(at all six places: Meta.References, Meta.Other, Sequence.Features, Feature.Attributes,
Location.SubLocations at every depth) and `ParentSequence` pointers are not compared. -/
def Sequence.Equiv (x y : Sequence) : Prop := x.norm = y.norm

/-! ### well-formedness: maps in canonical (key-sorted) form; parent links -/

def mapWF : SMap → Bool
  | none => true
  | some kvs => sortedKeys kvs

def Sequence.WF (x : Sequence) : Bool :=
  mapWF x.metadata.other && (x.features.getD []).all (fun f => mapWF f.attributes)

/-- every feature was added with `AddFeature`: its parent pointer leads to this sequence's text -/
def Sequence.Linked (x : Sequence) : Prop :=
  ∀ f ∈ x.features.getD [], f.parent = some x.sequence

end PolyVerif.PolyJson
