import PolyVerif.Model.DeBruijn
import PolyVerif.Model.Transform
/-
Model of poly/primers.CreateBarcodesWithBannedSequences and CreateBarcodes (primers/primers.go, as
they are after the fix commit "barcodes are re-checked against every ban and filter after each
shift").  Loops are fuel-structural; a Go panic is `Res.panic`; `Res.fuel` / `Shift.fuel` mean the
model's loop bound was reached (proved unreachable whenever `length ≥ n`: Props/C17 `barcodes_terminate`).
-/
namespace PolyVerif.DeBruijn
open PolyVerif

/-! ### CreateBarcodesWithBannedSequences -/

/-- Go's `strings.Contains(s, sub)` (byte-wise; `Contains(s, "")` is true) -/
def contains : Str → Str → Bool
  | [], sub => sub.isEmpty
  | c :: cs, sub => sub.isPrefixOf (c :: cs) || contains cs sub

/-- the body of the re-check loop: does ANY ban, any reverse complement of a ban, or any filter
reject the window?  (Go sets `banned = true` without leaving the loops; filters are pure here.) -/
def rejected (bans : List Str) (filters : List (Str → Bool)) (w : Str) : Bool :=
  bans.any (fun b => contains w b || contains w (Transform.revComp b)) || filters.any (fun f => !f w)

/-- `debruijn[start:end]` for `0 ≤ start ≤ end`, with Go's bounds check against `L = len(debruijn)`
(`len` is O(1) in Go; the loops below receive it once as `L` instead of walking the list each time) -/
def slice (db : Str) (L : Nat) (start end_ : Nat) : Res Str :=
  if start ≤ end_ ∧ end_ ≤ L then .ok ((db.drop start).take (end_ - start)) else .panic

/-- result of the inner `for { … }` loop -/
inductive Shift where
  | found (start end_ barcodeNum : Nat)   -- `break`: the window passed every check
  | atEnd                                 -- `return barcodes`
  | panic
  | fuel
  deriving Repr, DecidableEq

/-- the inner loop: shift the window by one (and count `barcodeNum` up) while it is rejected.
A list has no O(1) slicing, so the loop carries `rest`, the suffix of `debruijn` at `start`
(the caller passes `debruijn.drop start`; `start++` is `rest.tail`), and reads the window
`debruijn[start:end]` as `rest.take (end - start)` after Go's bounds check. `L = len(debruijn)`. -/
def shiftLoop (L : Nat) (bans : List Str) (filters : List (Str → Bool)) :
    (fuel : Nat) → (rest : Str) → (start end_ barcodeNum : Nat) → Shift
  | 0, _, _, _, _ => .fuel
  | fuel + 1, rest, start, end_, barcodeNum =>
    if start ≤ end_ ∧ end_ ≤ L then                          -- debruijn[start:end] is in range
      if !rejected bans filters (rest.take (end_ - start)) then .found start end_ barcodeNum
      else if end_ + 1 > L then .atEnd
      else shiftLoop L bans filters fuel rest.tail (start + 1) (end_ + 1) (barcodeNum + 1)
    else .panic

/-- the outer loop from a given `barcodeNum`; the barcodes appended from here on, in order
(`barcodes = append(barcodes, w)` followed by the rest of the loop is `w :: rest`).
`stride = length - (maxSubSequence - 1)` is a Go `int` and may be ≤ 0.  `L = len(debruijn)`. -/
def outerLoop (db : Str) (L : Nat) (length : Nat) (stride : Int) (bans : List Str) (filters : List (Str → Bool)) :
    (fuel barcodeNum : Nat) → Res (List Str)
  | 0, _ => .fuel
  | fuel + 1, barcodeNum =>
    if (barcodeNum : Int) * stride + length < L then
      let startI : Int := barcodeNum * stride
      if startI < 0 then .panic else                         -- debruijn[start:end], start < 0
      let start := startI.toNat
      let end_ := start + length
      match shiftLoop L bans filters (L + 1) (db.drop start) start end_ (barcodeNum + 1) with
      | .found s e bn =>
        (slice db L s e).bind fun w =>
        (outerLoop db L length stride bans filters fuel bn).bind fun rest => .ok (w :: rest)
      | .atEnd => .ok []
      | .panic => .panic
      | .fuel => .fuel
    else .ok []

/-- the loops of `CreateBarcodesWithBannedSequences` on a given de Bruijn string -/
def barcodesOn (db : Str) (length n : Nat) (bans : List Str) (filters : List (Str → Bool)) : Res (List Str) :=
  outerLoop db db.length length ((length : Int) - ((n : Int) - 1)) bans filters (db.length + 1) 0

/-! ### an executable twin of the outer loop (used by the correspondence driver only)

`outerLoop` finds `debruijn[start:]` by walking the list from its head for every slot — at orders
7 and 8 with small strides that is 10⁴–10⁵ walks over 16–65 k letters.  `outerLoopFast` does the same
loop but keeps the last suffix it reached (`cur = db.drop curPos`) and walks on from there.
`Lemmas/Barcodes.outerLoopFast_eq` / Props/C17 `barcodesOnFast_eq` prove that the two return the
same value for every input (any stride, also ≤ 0), so the driver's use of the twin changes nothing
about what is compared with the code. -/

/-- `db.drop start`, reached from a known suffix `cur = db.drop curPos` when `curPos ≤ start` -/
def suffixAt (db cur : Str) (curPos start : Nat) : Str :=
  if curPos ≤ start then cur.drop (start - curPos) else db.drop start

def outerLoopFast (db : Str) (L : Nat) (length : Nat) (stride : Int) (bans : List Str) (filters : List (Str → Bool)) :
    (fuel barcodeNum : Nat) → (cur : Str) → (curPos : Nat) → Res (List Str)
  | 0, _, _, _ => .fuel
  | fuel + 1, barcodeNum, cur, curPos =>
    if (barcodeNum : Int) * stride + length < L then
      let startI : Int := barcodeNum * stride
      if startI < 0 then .panic else
      let start := startI.toNat
      let end_ := start + length
      let rest := suffixAt db cur curPos start
      match shiftLoop L bans filters (L + 1) rest start end_ (barcodeNum + 1) with
      | .found s e bn =>
        let rest' := rest.drop (s - start)
        (if s ≤ e ∧ e ≤ L then Res.ok (rest'.take (e - s)) else Res.panic).bind fun w =>
        (outerLoopFast db L length stride bans filters fuel bn rest' s).bind fun tl => .ok (w :: tl)
      | .atEnd => .ok []
      | .panic => .panic
      | .fuel => .fuel
    else .ok []

def barcodesOnFast (db : Str) (length n : Nat) (bans : List Str) (filters : List (Str → Bool)) : Res (List Str) :=
  outerLoopFast db db.length length ((length : Int) - ((n : Int) - 1)) bans filters (db.length + 1) 0 db 0

/-- `primers.CreateBarcodesWithBannedSequences(length, n, bans, filters)` for `length, n ≥ 0` -/
def createBarcodesWith (length n : Nat) (bans : List Str) (filters : List (Str → Bool)) : Res (List Str) :=
  (deBruijn n).bind fun db => barcodesOn db length n bans filters

/-- `primers.CreateBarcodes(length, n)` -/
def createBarcodes (length n : Nat) : Res (List Str) := createBarcodesWith length n [] []

/-! ### the named filter family used on the protocol (the same functions in harness/cmd/run-primers/ops_c17.go) -/

/-- longest run of equal adjacent letters, scanning with the current run's letter and length -/
def maxRunAux : Char → Nat → Nat → Str → Nat
  | _, cur, best, [] => max cur best
  | p, cur, best, c :: cs => if c = p then maxRunAux p (cur + 1) best cs else maxRunAux c 1 (max cur best) cs

def maxRun : Str → Nat
  | [] => 0
  | c :: cs => maxRunAux c 1 0 cs

def gcCount (s : Str) : Nat := (s.filter (fun c => c = 'G' || c = 'C')).length

/-- `homo:k` accept iff no homopolymer run of length ≥ k; `gc:lo:hi` accept iff lo ≤ #G+#C ≤ hi;
`nostart:X` / `noend:X` accept iff the barcode does not start / end with the letter X;
`nopal` accept iff the barcode is not its own reverse complement.  Anything else: accept all. -/
def namedFilter (spec : String) : Str → Bool :=
  match spec.splitOn ":" with
  | ["homo", k] => fun s => maxRun s < natOfStr k
  | ["gc", lo, hi] => fun s => natOfStr lo ≤ gcCount s && gcCount s ≤ natOfStr hi
  | ["nostart", x] => fun s => !(x.toList.isPrefixOf s && !x.isEmpty)
  | ["noend", x] => fun s => !(x.toList.isSuffixOf s && !x.isEmpty)
  | ["nopal"] => fun s => !(s == Transform.revComp s)
  | _ => fun _ => true

end PolyVerif.DeBruijn
