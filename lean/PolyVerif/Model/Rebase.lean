import PolyVerif.Model.LineText
import PolyVerif.Gen.RebaseTags
import PolyVerif.Base.JsonRead
/-
Model of poly/io/rebase (property C16), statement by statement, as the code is after commits
13143f5 (`TrimLeft(line, " \t")`, `commercialParsingLine > 2`) and a3fb5a0 (an empty `<2>` line leaves
`Isoschizomers` as it is, i.e. nil in a fresh record):

  rebase.Parse  ↦ `parse`  (a fold of `step` over `strings.Split(file, "\n")`)
  rebase.Export ↦ `exportJ` (the JSON *value* `json.Marshal` writes: map keys sorted, struct
                   fields in declaration order under the keys of their `json` tags — the tags
                   are `Gen.enzymeJsonFields`, re-extracted with `reflect` on every run)
  json.Unmarshal into map[string]Enzyme ↦ `importJ`

A `[]string` is a `List Str` with `[]` standing for the nil slice (Parse never makes an empty
non-nil slice; `json.Marshal` writes nil as `null`).  Maps are association lists in insertion
order.  ASCII only: `rune(trimmedString[0])` (a byte) and `range line[3:]` (runes) coincide.
Core Lean only.
-/
namespace PolyVerif.Rebase
open PolyVerif PolyVerif.LineText

/-- `rebase.Enzyme` -/
structure Enzyme where
  name : Str := []
  isoschizomers : List Str := []
  recognitionSequence : Str := []
  methylationSite : Str := []
  microOrganism : Str := []
  source : Str := []
  commercialAvailability : List Str := []
  references : Str := []
  deriving Repr, DecidableEq

def trigger : Str := "REBASE codes for commercial sources of enzymes".toList

/-- the record tag `<n>` -/
def tag (n : Nat) : Str := ['<', digitChar n, '>']

/-- loop state of `Parse` -/
structure PState where
  enzyme : Enzyme := {}
  enzymeMap : List (Str × Enzyme) := []
  suppliers : List (Char × Str) := []       -- commercialSupplierMap
  lineNo : Nat := 0                          -- commercialParsingLine
  started : Bool := false                    -- startCommercialParsing
  deriving Repr, DecidableEq

/-- `commercialSupplierMap[c] = name` -/
def supInsert (m : List (Char × Str)) (c : Char) (name : Str) : List (Char × Str) :=
  match m with
  | [] => [(c, name)]
  | (c', n') :: r => if c' = c then (c, name) :: r else (c', n') :: supInsert r c name

/-- `commercialSupplierMap[c]`, the empty string when absent -/
def supLookup (m : List (Char × Str)) (c : Char) : Str :=
  match m with
  | [] => []
  | (c', n) :: r => if c' = c then n else supLookup r c

def blanks : List Char := [' ', '\t']

/-- the first half of the loop body: the supplier table -/
def supplierStep (st : PState) (line : Str) : Outcome PState :=
  let st := if line = trigger then { st with started := true } else st
  if st.started then
    let st := if hasSub (tag 1) line then { st with lineNo := 0, started := false } else st
    let st := { st with lineNo := st.lineNo + 1 }
    if st.lineNo > 2 ∧ (trimLeft blanks line).length > 0 then
      let trimmedString := trimLeft blanks line
      match trimmedString with
      | [] => .panic                                  -- trimmedString[0] (unreachable: length > 0)
      | code :: _ =>
        if trimmedString.length < 9 then .panic       -- trimmedString[9:]
        else .ok { st with suppliers := supInsert st.suppliers code (trimmedString.drop 9) }
    else .ok st
  else .ok st

/-- `line[3:]` -/
def from3 (line : Str) : Outcome Str := if line.length < 3 then .panic else .ok (line.drop 3)

/-- the second half of the loop body: the `switch` over `strings.Contains(line, "<n>")` -/
def recordStep (st : PState) (line : Str) : Outcome PState :=
  if hasSub (tag 1) line then (from3 line).bind fun v => .ok { st with enzyme := { st.enzyme with name := v } }
  else if hasSub (tag 2) line then
    (from3 line).bind fun v =>
      -- `if line[3:] != "" { enzyme.Isoschizomers = strings.Split(line[3:], ",") }`
      if v = [] then .ok st else .ok { st with enzyme := { st.enzyme with isoschizomers := split ',' v } }
  else if hasSub (tag 3) line then (from3 line).bind fun v => .ok { st with enzyme := { st.enzyme with recognitionSequence := v } }
  else if hasSub (tag 4) line then (from3 line).bind fun v => .ok { st with enzyme := { st.enzyme with methylationSite := v } }
  else if hasSub (tag 5) line then (from3 line).bind fun v => .ok { st with enzyme := { st.enzyme with microOrganism := v } }
  else if hasSub (tag 6) line then (from3 line).bind fun v => .ok { st with enzyme := { st.enzyme with source := v } }
  else if hasSub (tag 7) line then
    (from3 line).bind fun v =>
      .ok { st with enzyme := { st.enzyme with commercialAvailability := v.map (supLookup st.suppliers) } }
  else if hasSub (tag 8) line then
    (from3 line).bind fun v =>
      let e := { st.enzyme with references := v }
      .ok { st with enzymeMap := mapInsert st.enzymeMap e.name e, enzyme := {} }
  else .ok st

/-- one iteration of `for _, line := range lines` -/
def step (st : PState) (line : Str) : Outcome PState :=
  (supplierStep st line).bind fun st => recordStep st line

def loop : List Str → PState → Outcome PState
  | [], st => .ok st
  | l :: ls, st => (step st l).bind (loop ls)

/-- `rebase.Parse` -/
def parse (file : Str) : Outcome (List (Str × Enzyme)) :=
  match loop (split '\n' file) {} with
  | .ok st => .ok st.enzymeMap
  | .err => .err
  | .panic => .panic

/-! ### Export / import at the level of JSON values -/

inductive JVal
  | null
  | str (s : Str)
  | arr (items : List JVal)
  | obj (fields : List (Str × JVal))

/-- a `string` field -/
def jStr (s : Str) : JVal := .str s

/-- a `[]string` field: nil ↦ `null` -/
def jStrs (l : List Str) : JVal := if l.isEmpty then .null else .arr (l.map .str)

/-- the JSON object key of the Go field `goName`, from the regenerated struct tags -/
def tagOf (goName : Str) : Str :=
  match Gen.enzymeJsonFields.find? (fun row => row.1 == goName) with
  | some row => row.2.1
  | none => goName

def kName : Str := tagOf "Name".toList
def kIsoschizomers : Str := tagOf "Isoschizomers".toList
def kRecognitionSequence : Str := tagOf "RecognitionSequence".toList
def kMethylationSite : Str := tagOf "MethylationSite".toList
def kMicroOrganism : Str := tagOf "MicroOrganism".toList
def kSource : Str := tagOf "Source".toList
def kCommercialAvailability : Str := tagOf "CommercialAvailability".toList
def kReferences : Str := tagOf "References".toList

/-- the shape `enzymeJ` relies on: exactly these exported fields, in this order, with these Go
types, none `omitempty`, none dropped.  `Props/C16.tags_shape` decides it on the regenerated
table, so a changed struct breaks a proof obligation. -/
def expectedShape : List (Str × Str × Bool) :=
  [("Name".toList, "string".toList, false), ("Isoschizomers".toList, "[]string".toList, false),
   ("RecognitionSequence".toList, "string".toList, false), ("MethylationSite".toList, "string".toList, false),
   ("MicroOrganism".toList, "string".toList, false), ("Source".toList, "string".toList, false),
   ("CommercialAvailability".toList, "[]string".toList, false), ("References".toList, "string".toList, false)]

/-- one enzyme as `json.Marshal` writes it: the struct's fields in declaration order, under the
keys given by their tags -/
def enzymeJ (e : Enzyme) : JVal :=
  .obj [(kName, jStr e.name), (kIsoschizomers, jStrs e.isoschizomers),
        (kRecognitionSequence, jStr e.recognitionSequence), (kMethylationSite, jStr e.methylationSite),
        (kMicroOrganism, jStr e.microOrganism), (kSource, jStr e.source),
        (kCommercialAvailability, jStrs e.commercialAvailability), (kReferences, jStr e.references)]

/-- `rebase.Export` as a JSON value (`encoding/json` writes map keys in `sort.Strings` order) -/
def exportJ (m : List (Str × Enzyme)) : JVal :=
  .obj ((sortedEntries {} m).map fun kv => (kv.1, enzymeJ kv.2))

def getStr : Option JVal → Option Str
  | some (.str s) => some s
  | none => some []                 -- an absent key leaves the zero value
  | some .null => some []           -- null leaves the zero value
  | _ => none

def strItem : JVal → Option Str
  | .str s => some s
  | _ => none

def allSome {α : Type} : List (Option α) → Option (List α)
  | [] => some []
  | some a :: r => (allSome r).map (a :: ·)
  | none :: _ => none

def getStrs : Option JVal → Option (List Str)
  | some (.arr items) => allSome (items.map strItem)
  | none => some []
  | some .null => some []
  | _ => none

def jLookup (k : Str) : List (Str × JVal) → Option JVal
  | [] => none
  | (k', v) :: r => if k' = k then some v else jLookup k r

/-- `json.Unmarshal` of one object into an `Enzyme` -/
def enzymeOfJ : JVal → Option Enzyme
  | .obj fs =>
    match getStr (jLookup kName fs), getStrs (jLookup kIsoschizomers fs),
          getStr (jLookup kRecognitionSequence fs), getStr (jLookup kMethylationSite fs),
          getStr (jLookup kMicroOrganism fs), getStr (jLookup kSource fs),
          getStrs (jLookup kCommercialAvailability fs), getStr (jLookup kReferences fs) with
    | some n, some i, some r, some me, some mo, some so, some ca, some re =>
      some { name := n, isoschizomers := i, recognitionSequence := r, methylationSite := me, microOrganism := mo,
             source := so, commercialAvailability := ca, references := re }
    | _, _, _, _, _, _, _, _ => none
  | _ => none

def entriesOfJ : List (Str × JVal) → Option (List (Str × Enzyme))
  | [] => some []
  | (k, v) :: r =>
    match enzymeOfJ v, entriesOfJ r with
    | some e, some es => some ((k, e) :: es)
    | _, _ => none

/-- `json.Unmarshal(data, &map[string]Enzyme{})` at the level of JSON values (distinct keys) -/
def importJ : JVal → Option (List (Str × Enzyme))
  | .obj fs => entriesOfJ fs
  | _ => none

/-! ### the JSON TEXT of the export (printer and reader of Base/JVal, Base/JsonRead) -/

mutual
/-- the same value in the shared JSON value type (strings as code points) -/
def toBase : JVal → PolyVerif.JVal
  | .null => .null
  | .str s => .str (s.map Char.toNat)
  | .arr items => .arr (toBaseList items)
  | .obj fields => .obj (toBaseFields fields)
def toBaseList : List JVal → List PolyVerif.JVal
  | [] => []
  | v :: r => toBase v :: toBaseList r
def toBaseFields : List (Str × JVal) → List (S × PolyVerif.JVal)
  | [] => []
  | (k, v) :: r => (k.map Char.toNat, toBase v) :: toBaseFields r
end

mutual
/-- back; `none` for a number or a boolean (no field of `rebase.Enzyme` is one) -/
def ofBase : PolyVerif.JVal → Option JVal
  | .null => some .null
  | .bool _ => none
  | .num _ => none
  | .str s => some (.str (s.map Char.ofNat))
  | .arr xs => (ofBaseList xs).map .arr
  | .obj kvs => (ofBaseFields kvs).map .obj
def ofBaseList : List PolyVerif.JVal → Option (List JVal)
  | [] => some []
  | v :: r =>
    match ofBase v, ofBaseList r with
    | some a, some b => some (a :: b)
    | _, _ => none
def ofBaseFields : List (S × PolyVerif.JVal) → Option (List (Str × JVal))
  | [] => some []
  | (k, v) :: r =>
    match ofBase v, ofBaseFields r with
    | some a, some b => some ((k.map Char.ofNat, a) :: b)
    | _, _ => none
end

/-- `rebase.Export`: the JSON text `json.Marshal` writes for the map (as code points; the harness
compares it with the real bytes on every case) -/
def exportText (m : List (Str × Enzyme)) : S := (toBase (exportJ m)).print

/-- `json.Unmarshal(text, &map[string]Enzyme{})` -/
def importText (t : S) : Option (List (Str × Enzyme)) :=
  match JsonRead.parse t with
  | some v =>
    match ofBase v with
    | some j => importJ j
    | none => none
  | none => none

end PolyVerif.Rebase
