import PolyVerif.Base.Proto
/-
Shared data types of poly/transform/codon and their text form on the line protocol.
Table text form (one field):   starts "/" stops "/" aminoacids
  starts, stops : triplets separated by ","
  aminoacids    : entries separated by ";", each  LETTER ":" triplet "=" weight { "," triplet "=" weight }
e.g.  "TTG,CTG,ATG/TAA,TAG,TGA/F:TTT=1,TTC=1;L:TTA=1,TTG=1"
The order of amino acids and codons is significant (AddCodonTable / CompromiseCodonTable follow it).
-/
namespace PolyVerif.Codon
open PolyVerif

structure Codon where
  triplet : Str
  weight : Int
deriving Repr, DecidableEq, BEq

structure AminoAcid where
  letter : Str
  codons : List Codon
deriving Repr, DecidableEq, BEq

structure Table where
  startCodons : List Str
  stopCodons : List Str
  aminoAcids : List AminoAcid
deriving Repr, DecidableEq, BEq

def splitNonEmpty (s : String) (sep : String) : List String := (s.splitOn sep).filter (· ≠ "")

def parseCodon (s : String) : Codon :=
  match s.splitOn "=" with
  | [t, w] => { triplet := t.toList, weight := w.toInt?.getD 0 }
  | _ => { triplet := s.toList, weight := 0 }

def parseAminoAcid (s : String) : AminoAcid :=
  match s.splitOn ":" with
  | [l, cs] => { letter := l.toList, codons := (splitNonEmpty cs ",").map parseCodon }
  | _ => { letter := s.toList, codons := [] }

def parseTable (s : String) : Table :=
  match s.splitOn "/" with
  | [a, b, c] => { startCodons := (splitNonEmpty a ",").map String.toList,
                   stopCodons := (splitNonEmpty b ",").map String.toList,
                   aminoAcids := (splitNonEmpty c ";").map parseAminoAcid }
  | _ => { startCodons := [], stopCodons := [], aminoAcids := [] }

def showTable (t : Table) : String :=
  ",".intercalate (t.startCodons.map String.ofList) ++ "/" ++ ",".intercalate (t.stopCodons.map String.ofList) ++ "/" ++
  ";".intercalate (t.aminoAcids.map fun a => String.ofList a.letter ++ ":" ++
    ",".intercalate (a.codons.map fun c => String.ofList c.triplet ++ "=" ++ toString c.weight))

/-- canonical form for comparing tables "as maps": amino acids sorted by letter, codons by triplet -/
def canonTable (t : Table) : Table :=
  let le (a b : Str) : Bool := String.ofList a ≤ String.ofList b
  { startCodons := t.startCodons.mergeSort le, stopCodons := t.stopCodons.mergeSort le,
    aminoAcids := (t.aminoAcids.map fun a => { a with codons := a.codons.mergeSort fun x y => le x.triplet y.triplet }).mergeSort
      fun x y => le x.letter y.letter }

end PolyVerif.Codon
