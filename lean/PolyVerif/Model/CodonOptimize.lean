import PolyVerif.Model.CodonTranslate
/-
Model of poly/transform/codon `Optimize` and `Table.chooser` (as they are after the fix
"codon.Optimize returns an error for a residue the table cannot encode"), of weightedrand v0.2.1
`NewChooser` / `Chooser.Pick`, of `sort.SearchInts`, and of random.ProteinSequence (C07).

  func (codonTable Table) chooser() map[string]weightedRand.Chooser {
      for _, aminoAcid := range codonTable.AminoAcids {
          codonOccurenceSum := Σ codon.Weight
          for _, codon := range aminoAcid.Codons {
              codonPercentage := float64(codon.Weight) / float64(codonOccurenceSum)
              if codonPercentage > 0.10 { codonChoices = append(codonChoices, Choice{codon.Triplet, uint(codon.Weight)}) }
          }
          if len(codonChoices) > 0 { codonChooser[aminoAcid.Letter] = weightedRand.NewChooser(codonChoices...) }
      }
  }
  func NewChooser(cs ...Choice) Chooser {
      sort.Slice(cs, func(i, j int) bool { return cs[i].Weight < cs[j].Weight })
      totals := make([]int, len(cs)); runningTotal := 0
      for i, c := range cs { runningTotal += int(c.Weight); totals[i] = runningTotal }
      return Chooser{data: cs, totals: totals, max: runningTotal}
  }
  func (chs Chooser) Pick() interface{} {
      r := rand.Intn(chs.max) + 1            // panics when max <= 0
      i := sort.SearchInts(chs.totals, r)
      return chs.data[i].Item                // panics when i == len(data)
  }

Modelling notes
* DOMAIN: `WF t` (below) includes `Bounded t` — usage totals below 2^50.  The theorems are stated for that range
  only, the judge treats other tables as out of domain.
* The share test is modelled EXACTLY (as a comparison of rationals): for a positive sum `w/sum > 1/10` iff
  `10*w > sum`.  IEEE-754: `0/0 = NaN` and `NaN > 0.10` is false; `w/0 = +Inf` for `w > 0` (true), `-Inf` for
  `w < 0` (false); a negative sum flips the inequality.  ASSUMPTION (not proved, Lean's `Float` is opaque):
  for |weights| and |sums| below 2^50 the float64 test `float64(w)/float64(sum) > 0.10` has the same truth
  value (conversions are exact, division is correctly rounded and monotone, `10*w = sum` gives exactly the
  double 0.1, and `10*w > sum` puts the quotient at least `1/(10*sum) > 2^-54` above 1/10).  `shareTestFloat`
  is the same test on Lean's binary64 `Float`; the driver cross-checks the two on every table it sees.
* `uint(w)` followed by `int(c.Weight)` is the identity on 64-bit two's complement, so weights stay `Int`;
  integer overflow is not modelled (weights and sums below 2^62).
* `sort.Slice` is unstable: the order of equal-weight choices is not determined by the Go specification.  The
  sort is therefore a PARAMETER `sorter : List Choice → List Choice`; the theorems hold for every `sorter`
  that returns a permutation of its argument (they do not even need it to be sorted).
* `rand.Intn(max) + 1` is the explicit argument `r`; a run of `Optimize` consumes a list of draws.  `none`
  means "the supplied list of draws is shorter than the number of draws the run makes" (an artefact of making
  the draws explicit, not a behaviour of the code).
-/
namespace PolyVerif.CodonOptimize
open PolyVerif PolyVerif.Codon PolyVerif.CodonTranslate

structure Choice where
  item : Str
  weight : Int
deriving Repr, DecidableEq

structure Chooser where
  data : List Choice
  totals : List Int
  max : Int
deriving Repr, DecidableEq

def sumWeights (a : AminoAcid) : Int := (a.codons.map (·.weight)).sum

/-- `float64(w)/float64(sum) > 0.10`, exactly -/
def shareTest (w sum : Int) : Bool :=
  if sum > 0 then decide (10 * w > sum)
  else if sum < 0 then decide (10 * w < sum)
  else decide (w > 0)

/-- the same test computed as the code computes it, on binary64 -/
def shareTestFloat (w sum : Int) : Bool := Float.ofInt w / Float.ofInt sum > 0.10

/-- `codonChoices` of one amino acid after the threshold loop -/
def choices (a : AminoAcid) : List Choice :=
  (a.codons.filter fun c => shareTest c.weight (sumWeights a)).map fun c => { item := c.triplet, weight := c.weight }

/-- the `totals` slice: running sums of the weights -/
def runningTotals : Int → List Choice → List Int
  | _, [] => []
  | acc, c :: cs => (acc + c.weight) :: runningTotals (acc + c.weight) cs

def newChooser (sorter : List Choice → List Choice) (cs : List Choice) : Chooser :=
  let data := sorter cs
  { data := data, totals := runningTotals 0 data, max := (data.map (·.weight)).sum }

/-- insertion into a list sorted by weight, after the elements that are not heavier (stable) -/
def insertByWeight (c : Choice) : List Choice → List Choice
  | [] => [c]
  | d :: ds => if c.weight < d.weight then c :: d :: ds else d :: insertByWeight c ds

/-- a STABLE sort by weight.  One admissible value of the `sorter` parameter; it is also what Go's
`sort.Slice` does on slices shorter than 12 elements (insertion sort) — and a chooser built by
`Table.chooser` has at most 9 choices (each share exceeds 10 %).  The correspondence check observes the order
`NewChooser` really leaves (op `pick`, read with reflect) and uses this sorter to replay whole `Optimize` runs. -/
def stableSort (cs : List Choice) : List Choice := cs.foldl (fun acc c => insertByWeight c acc) []

/-- `sort.Search(n, f)`: `i, j := 0, n; for i < j { h := int(uint(i+j) >> 1); if !f(h) { i = h + 1 } else { j = h } }; return i` -/
def searchLoop (f : Nat → Bool) : Nat → Nat → Nat → Nat
  | 0, i, _ => i
  | fuel + 1, i, j =>
    if i < j then
      let h := (i + j) / 2
      if !f h then searchLoop f fuel (h + 1) j else searchLoop f fuel i h
    else i

/-- `a[h] >= x` (inside `sort.Search` the index is always in range) -/
def geAt (a : List Int) (x : Int) (h : Nat) : Bool :=
  match a[h]? with
  | some v => decide (v ≥ x)
  | none => false

/-- `sort.SearchInts(a, x)`; the interval halves, so `len(a) + 1` iterations suffice -/
def searchInts (a : List Int) (x : Int) : Nat := searchLoop (geAt a x) (a.length + 1) 0 a.length

/-- `Pick` with the value of `rand.Intn(max) + 1` given as `r` -/
def pick (ch : Chooser) (r : Nat) : Outcome Str :=
  if ch.max ≤ 0 then .panic
  else
    match ch.data[searchInts ch.totals (r : Int)]? with
    | some c => .ok c.item
    | none => .panic

/-- the writes to `codonChooser`, in program order -/
def chooserMap (sorter : List Choice → List Choice) (t : Table) : List (Str × Chooser) :=
  t.aminoAcids.filterMap fun a =>
    if (choices a).length > 0 then some (a.letter, newChooser sorter (choices a)) else none

/-- the loop of `Optimize` over the runes of the protein; `acc` = the string builder -/
def optimizeLoop (m : List (Str × Chooser)) : Str → List Nat → Str → Option (Outcome Str)
  | [], _, acc => some (.ok acc)
  | aa :: rest, rs, acc =>
    match mapGet m [aa] with
    | none => some .err
    | some ch =>
      if ch.max ≤ 0 then some .panic
      else
        match rs with
        | [] => none
        | r :: rs' =>
          match pick ch r with
          | .ok item => optimizeLoop m rest rs' (acc ++ item)
          | .err => some .err
          | .panic => some .panic

def optimize (sorter : List Choice → List Choice) (t : Table) (p : Str) (rs : List Nat) : Option (Outcome Str) :=
  if emptyTable t then some .err
  else if byteLen p = 0 then some .err
  else optimizeLoop (chooserMap sorter t) p rs []

/-! ### what can come out (used by the correspondence check: `Optimize` reseeds from the clock) -/

/-- triplets that `Optimize` can emit for a residue: the items of the chooser stored under that letter
(`none`: no chooser, `Optimize` returns the error) -/
def eligible (t : Table) (letter : Str) : Option (List (Str × Int)) :=
  (mapGet (chooserMap id t) letter).map fun ch => ch.data.map fun c => (c.item, c.weight)

/-- the choice lists behind the chooser map (letter ↦ `codonChoices`, in program order) -/
def choiceMap (t : Table) : List (Str × List Choice) :=
  t.aminoAcids.filterMap fun a => if (choices a).length > 0 then some (a.letter, choices a) else none

/-- position by position, the codon is an item (of positive weight) of the choices stored under the residue -/
def memberLoop (M : List (Str × List Choice)) : Str → List Str → Bool
  | [], [] => true
  | aa :: p, c :: cs =>
    (match mapGet M [aa] with
     | some l => l.any fun ch => ch.item == c && decide (ch.weight > 0)
     | none => false) && memberLoop M p cs
  | _, _ => false

/-- the membership test of the correspondence check: is `dna` a possible output of `Optimize(p, t)`?
(Props/C07 `optimize_possible_iff`: exactly when some in-range draws make the model return it.) -/
def member (t : Table) (p dna : Str) : Bool :=
  dna.length == 3 * p.length && memberLoop (choiceMap t) p (chunks3 dna)

/-- weights are non-negative (true of the default tables and of everything `OptimizeTable`,
`AddCodonTable`, `CompromiseCodonTable` produce) -/
def NonNeg (t : Table) : Prop := ∀ a ∈ t.aminoAcids, ∀ c ∈ a.codons, 0 ≤ c.weight

instance (t : Table) : Decidable (NonNeg t) := by unfold NonNeg; infer_instance

/-- the usage of every amino acid is below 2^50: the range in which the exact share test `10·w > Σw` and the
code's binary64 test `float64(w)/float64(Σw) > 0.10` have the same truth value (and far from int64 overflow).
Outside it (first disagreement near 2^51) the model is not the code. -/
def Bounded (t : Table) : Prop := ∀ a ∈ t.aminoAcids, sumWeights a < 2 ^ 50

instance (t : Table) : Decidable (Bounded t) := by unfold Bounded; infer_instance

/-- the hypothesis of the C07 theorems about a table: it lists each of the 64 codons exactly once, weights
are non-negative, usage totals are below 2^50 -/
def WF (t : Table) : Prop := Partition t ∧ NonNeg t ∧ Bounded t

instance (t : Table) : Decidable (WF t) := by unfold WF; infer_instance

/-- the residue has a chooser (does not depend on the sorter) -/
def hasChooser (t : Table) (letter : Str) : Bool :=
  t.aminoAcids.any fun a => a.letter == letter && (choices a).length > 0

/-- the draws a run actually makes are in range: walking the protein, every residue that has a chooser
takes the next draw `r` with `1 ≤ r ≤ max`; at the first residue without a chooser the run ends. -/
def DrawsOK (m : List (Str × Chooser)) : Str → List Nat → Prop
  | [], _ => True
  | aa :: rest, rs =>
    match mapGet m [aa] with
    | none => True
    | some ch =>
      match rs with
      | [] => False
      | r :: rs' => (1 ≤ r ∧ (r : Int) ≤ ch.max) ∧ DrawsOK m rest rs'

instance decDrawsOK (m : List (Str × Chooser)) : ∀ (p : Str) (rs : List Nat), Decidable (DrawsOK m p rs)
  | [], _ => isTrue (by simp [DrawsOK])
  | aa :: rest, rs =>
    match h : mapGet m [aa], rs with
    | none, _ => isTrue (by simp [DrawsOK, h])
    | some ch, [] => isFalse (by simp [DrawsOK, h])
    | some ch, r :: rs' =>
      match decDrawsOK m rest rs' with
      | isTrue h' =>
        if h1 : 1 ≤ r ∧ (r : Int) ≤ ch.max then isTrue (by simp only [DrawsOK, h]; exact ⟨h1, h'⟩)
        else isFalse (by simp only [DrawsOK, h]; exact fun hh => h1 hh.1)
      | isFalse h' => isFalse (by simp only [DrawsOK, h]; exact fun hh => h' hh.2)

/-! ### random.ProteinSequence -/

def proteinAlphabet : Str := "ACDEFGHIKLMNPQRSTVWY".toList

/-- the loop body for the positions 1 .. length-2: `n` positions left, `i` = number of draws made so far;
`draw i` = the value of the i-th call `rand.Intn(len(aminoAcidsAlphabet))` after `rand.Seed(seed)` -/
def proteinBody (draw : Nat → Nat) : Nat → Nat → Outcome Str
  | 0, _ => .ok []
  | n + 1, i =>
    match proteinAlphabet[draw i]? with
    | none => .panic                       -- index out of range (impossible: Intn(20) < 20)
    | some c =>
      match proteinBody draw n (i + 1) with
      | .ok rest => .ok (c :: rest)
      | o => o

/-- `ProteinSequence(length, seed)`; the seed only determines the stream `draw` -/
def proteinSequence (length : Int) (draw : Nat → Nat) : Outcome Str :=
  if length ≤ 2 then .err
  else
    match proteinBody draw (length - 2).toNat 0 with
    | .ok body => .ok ('M' :: body ++ ['*'])
    | o => o

end PolyVerif.CodonOptimize
