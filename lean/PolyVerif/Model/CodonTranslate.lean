import PolyVerif.Model.Codon
import PolyVerif.Gen.CodonTables
/-
Model of poly/transform/codon `Translate` and `generateTranslationTable` (C06), statement by statement.

  func Translate(sequence string, codonTable Table) (string, error) {
      if len(StartCodons) == 0 && len(StopCodons) == 0 && len(AminoAcids) == 0 { return "", errEmtpyCodonTable }
      if len(sequence) == 0 { return "", errEmtpySequenceString }
      translationTable := codonTable.generateTranslationTable()   // map[triplet]letter, amino acids then codons
      currentCodonLetters := 0
      for _, letter := range sequence {                           // RUNE loop
          currentCodon.WriteRune(letter); currentCodonLetters++
          if currentCodonLetters == 3 {                           // letters, not bytes (/repo 053f18d)
              aminoAcids.WriteString(translationTable[strings.ToUpper(currentCodon.String())])  // missing key -> ""
              currentCodon.Reset(); currentCodonLetters = 0
          }
      }
      return aminoAcids.String(), nil
  }

Modelling notes
* a Go map filled by a sequence of writes is the list of writes in order; reading a key returns the LAST
  write to it (`mapGet`); a missing key reads as the zero value `""` (Go semantics, not a convenience default).
* codons are framed by LETTERS (runes): the buffer is translated when it holds three letters, whatever their
  byte length (since /repo 053f18d; before, `Len() == 3` counted bytes).  So the framing needs no ASCII hypothesis.
* `strings.ToUpper` is modelled by `Char.toUpper`, which is Go's mapping on ASCII only.  This is the one ASCII
  assumption left, and it cannot matter for a table whose triplets are over A/C/G/T: no letter outside ASCII is
  upper-cased to A, C, G or T by Unicode (the only non-ASCII letters with an ASCII upper case are ı → I and ſ → S),
  so a codon holding such a letter is in no such table under either mapping and reads as "".
* `len(sequence) == 0` is a byte length: `byteLen` (it is 0 exactly for the empty string).
* The amino-acid order of a default table is the iteration order of a Go map; for a table that lists no
  triplet twice the translation map does not depend on it (Props/C06 `mapGet_of_nodup`).
-/
namespace PolyVerif.CodonTranslate
open PolyVerif PolyVerif.Codon

inductive Outcome (α : Type) | ok (a : α) | err | panic
deriving Repr, DecidableEq

def upper (s : Str) : Str := s.map Char.toUpper
def lower (s : Str) : Str := s.map Char.toLower

/-- the writes of `generateTranslationTable`, in program order -/
def translationMap (t : Table) : List (Str × Str) :=
  t.aminoAcids.flatMap fun a => a.codons.map fun c => (c.triplet, a.letter)

/-- value of a Go map after the writes `m` (in order): the last write to `key`, `none` if never written -/
def mapGet {β : Type} : List (Str × β) → Str → Option β
  | [], _ => none
  | (k, v) :: rest, key =>
    match mapGet rest key with
    | some v' => some v'
    | none => if k = key then some v else none

/-- `translationTable[key]` for a `map[string]string`: a missing key reads as "" -/
def mapGetStr (m : List (Str × Str)) (key : Str) : Str :=
  match mapGet m key with
  | some v => v
  | none => []

/-- `len(s)` of a Go string: its UTF-8 byte length -/
def byteLen (s : Str) : Nat := (s.map Char.utf8Size).sum

/-- one iteration of the loop; state = (currentCodon, aminoAcids).  The `aminoAcids` builder is kept with its
most recently written character FIRST (a write prepends the reversed string), so that a write costs the
length of what is written; `translateCore` reverses it once at the end. -/
def step (m : List (Str × Str)) (st : Str × Str) (letter : Char) : Str × Str :=
  let buf := st.1 ++ [letter]
  if buf.length = 3 then ([], (mapGetStr m (upper buf)).reverse ++ st.2) else (buf, st.2)

def translateLoop (m : List (Str × Str)) (st : Str × Str) (s : Str) : Str × Str := s.foldl (step m) st

/-- the translation proper (after the two guards): `aminoAcids.String()` -/
def translateCore (t : Table) (s : Str) : Str := (translateLoop (translationMap t) ([], []) s).2.reverse

def emptyTable (t : Table) : Bool :=
  t.startCodons.length == 0 && t.stopCodons.length == 0 && t.aminoAcids.length == 0

def translate (s : Str) (t : Table) : Outcome Str :=
  if emptyTable t then .err
  else if byteLen s = 0 then .err
  else .ok (translateCore t s)

/-- the complete in-frame codons of a string (spec vocabulary: what `Translate` should read) -/
def chunks3 : Str → List Str
  | a :: b :: c :: rest => [a, b, c] :: chunks3 rest
  | _ => []

/-- the residue string the table assigns to one codon, case-insensitively ("" when it lists none) -/
def aaOf (t : Table) (codon : Str) : Str := mapGetStr (translationMap t) (upper codon)

/-! ### well-formedness of a table (decidable; the hypothesis of the C06 / C07 theorems) -/

def bases : List Char := ['T', 'C', 'A', 'G']

/-- the 64 codons in NCBI (TCAG) order -/
def all64 : List Str := bases.flatMap fun x => bases.flatMap fun y => bases.map fun z => [x, y, z]

/-- every triplet the table lists, in table order -/
def triplets (t : Table) : List Str := t.aminoAcids.flatMap fun a => a.codons.map (·.triplet)

/-- the table lists each of the 64 codons exactly once (so every triplet is upper case and of length 3) -/
def Partition (t : Table) : Prop :=
  (triplets t).Nodup ∧ (∀ c ∈ triplets t, c ∈ all64) ∧ (∀ c ∈ all64, c ∈ triplets t)

instance (t : Table) : Decidable (Partition t) := by unfold Partition; infer_instance

/-- every amino-acid entry is named by one letter -/
def SingleLetter (t : Table) : Prop := ∀ a ∈ t.aminoAcids, a.letter.length = 1

instance (t : Table) : Decidable (SingleLetter t) := by unfold SingleLetter; infer_instance

def WFTable (t : Table) : Prop := Partition t ∧ SingleLetter t

instance (t : Table) : Decidable (WFTable t) := by unfold WFTable; infer_instance

/-- `c.val ≤ 127` for every rune -/
def Ascii (s : Str) : Prop := ∀ c ∈ s, c.val ≤ 127

instance (s : Str) : Decidable (Ascii s) := by unfold Ascii; infer_instance

def acgtLetters : List Char := ['A', 'C', 'G', 'T', 'a', 'c', 'g', 't']

/-- a DNA string over A/C/G/T in either case (the property's input domain) -/
def Acgt (s : Str) : Prop := ∀ c ∈ s, c ∈ acgtLetters

instance (s : Str) : Decidable (Acgt s) := by unfold Acgt; infer_instance

/-! ### the regenerated default tables as `Table` values -/

def ofGen (g : Nat × List String × List String × List (String × List (String × Int))) : Table :=
  { startCodons := g.2.1.map String.toList, stopCodons := g.2.2.1.map String.toList,
    aminoAcids := g.2.2.2.map fun a => { letter := a.1.toList, codons := a.2.map fun c => { triplet := c.1.toList, weight := c.2 } } }

def genTable? (id : Nat) : Option Table := (Gen.codonTables.find? (·.1 == id)).map ofGen

def genTables : List (Nat × Table) := Gen.codonTables.map fun g => (g.1, ofGen g)

/-- `GetCodonTable(id)`: a missing key of `defaultCodonTablesByNumber` reads as the zero `Table` -/
def getCodonTable (id : Nat) : Table :=
  match genTable? id with
  | some t => t
  | none => { startCodons := [], stopCodons := [], aminoAcids := [] }

/-- row of `Gen.translate64` for a table id (what `codon.Translate` answered for the 64 codons) -/
def gen64? (id : Nat) : Option Str := (Gen.translate64.find? (·.1 == id)).map (·.2.toList)

end PolyVerif.CodonTranslate
