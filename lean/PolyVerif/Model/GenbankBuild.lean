import PolyVerif.Base.StrBuild
import PolyVerif.Model.Location
/-
Model of the GenBank WRITER of poly/io/genbank (property C03), as the code is after the fix
commits c2653c4 (sorted keys), 37caad5 (REMARK written), 3b69570 (continuation indent 12) and be39eee
(a reference's own number is written when it is set):

  poly.Sequence / Meta / Locus / Reference / Feature  ↦ `Sequence` / `Meta` / `Locus` / `Reference` / `Feature`
  genbank.Build                    ↦ `build`
  genbank.buildMetaString          ↦ `buildMetaString`
  genbank.BuildFeatureString       ↦ `buildFeatureString`
  genbank.BuildLocationString      ↦ `Location.buildLoc` (property C02's model)
  genbank.Write                    = `ioutil.WriteFile(path, Build(x))`: the file holds `build x`

A Go `map[string]string` is an association list (distinct keys) PLUS the order in which `range`
visits it, which is a parameter (`MapOrders`) of `build`: that all orders give the same text is
the theorem `build_deterministic`, not an assumption.

Transcribed statement by statement; a `bytes.Buffer` that is only appended to is the
concatenation of what is written.  Go `len` is the byte length: ASCII is a recorded assumption.
Core Lean only.
-/
namespace PolyVerif.GenbankBuild
open PolyVerif PolyVerif.StrBuild
open PolyVerif.Location (PLoc buildLoc itoa)

/-- `poly.Locus` -/
structure Locus where
  name : Str := []
  sequenceLength : Str := []
  moleculeType : Str := []
  genbankDivision : Str := []
  modificationDate : Str := []
  sequenceCoding : Str := []
  circular : Bool := false
  linear : Bool := false

/-- `poly.Reference` -/
structure Reference where
  index : Str := []
  authors : Str := []
  title : Str := []
  journal : Str := []
  pubMed : Str := []
  remark : Str := []
  range : Str := []

/-- `poly.Feature` (the fields the GenBank writer reads) -/
structure Feature where
  type : Str := []
  gbkLocationString : Str := []
  sequenceLocation : PLoc := {}
  attributes : List (Str × Str) := []      -- Go map

/-- `poly.Meta` (the fields the GenBank writer reads) -/
structure Meta where
  locus : Locus := {}
  definition : Str := []
  accession : Str := []
  version : Str := []
  keywords : Str := []
  source : Str := []
  organism : Str := []
  references : List Reference := []
  other : List (Str × Str) := []           -- Go map

/-- `poly.Sequence` -/
structure Sequence where
  metadata : Meta := {}
  features : List Feature := []
  sequence : Str := []

/-- the iteration orders of the maps of one record: `other` for `Meta.Other`,
`quals i` for the `Attributes` of feature number `i` -/
structure MapOrders where
  other : List Nat := []
  quals : Nat → List Nat := fun _ => []

/-- the order in which the entries were inserted (any order is as good as any other) -/
def MapOrders.id : MapOrders := {}

/-- `buildMetaString(name, data)` -/
def buildMetaString (name data : Str) : Str :=
  let name := name ++ spaces (12 - name.length)
  let wrappedData := wrapString data 68
  match splitChar '\n' wrappedData with
  | [] => []                                                  -- strings.Split never returns an empty slice
  | datum :: rest =>
    (name ++ datum ++ ['\n']) ++ (rest.map fun datum => spaces 12 ++ datum ++ ['\n']).flatten

/-- `BuildFeatureString(feature)`; `order` = iteration order of `feature.Attributes` -/
def buildFeatureString (feature : Feature) (order : List Nat) : Str :=
  let whiteSpaceTrail := spaces (16 - feature.type.length)
  let location :=
    if feature.gbkLocationString ≠ [] then feature.gbkLocationString
    else buildLoc feature.sequenceLocation
  let featureHeader := spaces 5 ++ feature.type ++ whiteSpaceTrail ++ location ++ ['\n']
  let qualifierKeys := sortStrings (rangeKeys order feature.attributes)
  featureHeader ++
    (qualifierKeys.map fun qualifier =>
      spaces 21 ++ ['/'] ++ qualifier ++ "=\"".toList ++ lookupD feature.attributes qualifier ++ "\"\n".toList).flatten

/-- the reference loop of `Build` (`referenceIndex` counts from `i`) -/
def buildReferences : Nat → List Reference → Str
  | _, [] => []
  | i, reference :: rest =>
    let referenceNumber := if reference.index = [] then itoa (i + 1) else reference.index
    buildMetaString "REFERENCE".toList (referenceNumber ++ "  ".toList ++ reference.range)
    ++ (if reference.authors ≠ [] then buildMetaString "  AUTHORS".toList reference.authors else [])
    ++ (if reference.title ≠ [] then buildMetaString "  TITLE".toList reference.title else [])
    ++ (if reference.journal ≠ [] then buildMetaString "  JOURNAL".toList reference.journal else [])
    ++ (if reference.pubMed ≠ [] then buildMetaString "  PUBMED".toList reference.pubMed else [])
    ++ (if reference.remark ≠ [] then buildMetaString "  REMARK".toList reference.remark else [])
    ++ buildReferences (i + 1) rest

/-- what the ORIGIN loop writes for the base at byte offset `index` -/
def originCell (index : Nat) (base : Char) : Str :=
  if index % 60 = 0 then
    let lineNumberString := itoa (index + 1)
    (if index ≠ 0 then ['\n'] else []) ++ spaces (9 - lineNumberString.length) ++ lineNumberString ++ [' ', base]
  else if index % 10 = 0 then [' ', base]
  else [base]

/-- the ORIGIN loop: `for index, base := range sequence.Sequence` -/
def buildOrigin (sequence : Str) : Str :=
  (sequence.zipIdx.map fun (base, index) => originCell index base).flatten

/-- the feature loop, feature numbers from `i` -/
def buildFeatures (orders : Nat → List Nat) : Nat → List Feature → Str
  | _, [] => []
  | i, feature :: rest => buildFeatureString feature (orders i) ++ buildFeatures orders (i + 1) rest

/-- `genbank.Build(sequence)`, the maps being visited in the orders `o` -/
def build (sequence : Sequence) (o : MapOrders) : Str :=
  let locus := sequence.metadata.locus
  let shape : Str := if locus.circular then "circular".toList else if locus.linear then "linear".toList else []
  let fivespace := spaces 5
  let locusData := locus.name ++ fivespace ++ locus.sequenceLength ++ " bp".toList ++ fivespace ++ locus.moleculeType
    ++ fivespace ++ shape ++ fivespace ++ locus.genbankDivision ++ fivespace ++ locus.modificationDate
  let locusString := "LOCUS       ".toList ++ locusData ++ ['\n']
  let otherKeys := sortStrings (rangeKeys o.other sequence.metadata.other)
  locusString
  ++ buildMetaString "DEFINITION".toList sequence.metadata.definition
  ++ buildMetaString "ACCESSION".toList sequence.metadata.accession
  ++ buildMetaString "VERSION".toList sequence.metadata.version
  ++ buildMetaString "KEYWORDS".toList sequence.metadata.keywords
  ++ buildMetaString "SOURCE".toList sequence.metadata.source
  ++ buildMetaString "  ORGANISM".toList sequence.metadata.organism
  ++ buildReferences 0 sequence.metadata.references
  ++ (otherKeys.map fun otherKey => buildMetaString otherKey (lookupD sequence.metadata.other otherKey)).flatten
  ++ "FEATURES             Location/Qualifiers\n".toList
  ++ buildFeatures o.quals 0 sequence.features
  ++ "ORIGIN\n".toList
  ++ buildOrigin sequence.sequence
  ++ "\n//".toList

end PolyVerif.GenbankBuild
