import PolyVerif.Base.Str
/-
Model of the GenBank PARSER of poly/io/genbank (property C01), statement by statement, as the
code is after the `fix:` commits 28c7350 (` \d+ \w{2} `), a5c3eef (qualifier split at the first
'=', only the leading '/' and the enclosing quotes stripped), 29ddb6d (a location continues only
on lines blank up to column 22), 87039ef (ParseMulti keeps a last record without final newline),
5a12a0c (the line cursor moves past all lines of a location), c94d396 + 9a46c6b (a quoted value continues on
a line beginning with '/' while its quote is open), 49c2e81 (sub-keywords recognised by column),
bca7ebf (REFERENCE line joined with its continuation lines), 1a072ef (no first-word break in
getReference) and d6becc3 (LOCUS fields searched after
the name; the longest molecule type wins):

  genbank.Parse       ↦ `parse`         genbank.ParseMulti ↦ `parseMulti`
  genbank.ParseFlat   ↦ `parseFlat`     (Read / ReadMulti / ReadFlat / ReadFlatGz = the same after
                                          ioutil.ReadFile / gzip, which the model does not contain)
  parseLocus ↦ `parseLocus`, joinSubLines ↦ `joinSubLines`, getSourceOrganism ↦ `getSourceOrganism`,
  getReference ↦ `getReference`, getFeatures ↦ `getFeatures`, getSequence ↦ `getSequence`,
  quick*Check ↦ `quick*Check` (with their index panics).

Regular expressions are replaced by scanners with the same leftmost-first result:
  ` \d+ \w{2} `            ↦ `findBasePair`     `\d{2}-[A-Z]{3}-\d{4}` ↦ `findDate`
  literal patterns         ↦ `Str.contains`     `[^a-zA-Z]+` → ""      ↦ `filter isLetter`

A Go `map[string]string` is an association list in insertion order, `m[k] = v` is `mapInsert`
(overwrites in place).  `feature.SequenceLocation = parseLocation(...)` is NOT part of this model
(property C02, `Model/Location.lean`): for C01 the location is text (`Feature.gbkLoc`); that
`parseLocation` does not panic on the location texts of the domain is an assumption here.
Go panics (index / slice out of range) are `Outcome.panic`.  Core Lean only.
-/
namespace PolyVerif.Genbank
open PolyVerif PolyVerif.Str

/-! ### poly.Sequence, as far as genbank.Parse fills it -/

structure Locus where
  name : Str := []
  seqLength : Str := []
  molType : Str := []
  division : Str := []
  date : Str := []
  coding : Str := []
  circular : Bool := false
  linear : Bool := false
  deriving Repr, DecidableEq

structure Reference where
  index : Str := []
  authors : Str := []
  title : Str := []
  journal : Str := []
  pubmed : Str := []
  remark : Str := []
  range : Str := []
  deriving Repr, DecidableEq

structure Feature where
  type : Str := []
  gbkLoc : Str := []
  attrs : List (Str × Str) := []
  deriving Repr, DecidableEq

structure Meta where
  locus : Locus := {}
  definition : Str := []
  accession : Str := []
  version : Str := []
  keywords : Str := []
  organism : Str := []
  source : Str := []
  references : List Reference := []
  other : List (Str × Str) := []
  deriving Repr, DecidableEq

structure Sequence where
  md : Meta := {}
  seq : Str := []
  features : List Feature := []
  deriving Repr, DecidableEq

/-- `m[k] = v` -/
def mapInsert (m : List (Str × Str)) (k v : Str) : List (Str × Str) :=
  match m with
  | [] => [(k, v)]
  | (k', v') :: r => if k' = k then (k, v) :: r else (k', v') :: mapInsert r k v

/-! ### constant tables of genbank.go -/

def genbankDivisions : List Str :=
  [c!"PRI", c!"ROD", c!"MAM", c!"VRT", c!"INV", c!"PLN", c!"BCT", c!"VRL", c!"PHG", c!"SYN",
   c!"UNA", c!"EST", c!"PAT", c!"STS", c!"GSS", c!"HTG", c!"HTC", c!"ENV"]

def genBankMoleculeTypes : List Str :=
  [c!"DNA", c!"genomic DNA", c!"genomic RNA", c!"mRNA", c!"tRNA", c!"rRNA", c!"other RNA",
   c!"other DNA", c!"transcribed RNA", c!"viral cRNA", c!"unassigned DNA", c!"unassigned RNA"]

def genbankTopLevelFeatures : List Str :=
  [c!"LOCUS", c!"DEFINITION", c!"ACCESSION", c!"VERSION", c!"KEYWORDS", c!"SOURCE",
   c!"REFERENCE", c!"FEATURES", c!"ORIGIN"]

/-- const qualifierIndex = 21, subMetaIndex = 5, metaIndex = 0 -/
def qualifierIndex : Nat := 21
def subMetaIndex : Nat := 5

/-! ### quick checks (lines 286-338) -/

/-- `len(line) == 0 → false`; `string(line[0]) != " " && string(line[0:2]) != "//"` -/
def quickMetaCheck (line : Str) : Outcome Bool :=
  match line with
  | [] => .ok false
  | c0 :: _ =>
    if c0 ≠ ' ' then
      (if line.length < 2 then .panic else .ok (line.take 2 != c!"//"))
    else .ok false

/-- `len(line) == 0 → false`; `string(line[0]) == " " && string(line[5]) != " "` -/
def quickSubMetaCheck (line : Str) : Outcome Bool :=
  match line with
  | [] => .ok false
  | c0 :: _ =>
    if c0 = ' ' then (Str.at line subMetaIndex).bind fun c5 => .ok (c5 != ' ')
    else .ok false

/-- no length check: `string(line[0]) == " " && string(line[5]) != " "` -/
def quickFeatureCheck (line : Str) : Outcome Bool :=
  (Str.at line 0).bind fun c0 =>
    if c0 = ' ' then (Str.at line subMetaIndex).bind fun c5 => .ok (c5 != ' ')
    else .ok false

/-- `line[0] == " " && line[5] == " " && line[21] == "/"` -/
def quickQualifierCheck (line : Str) : Outcome Bool :=
  (Str.at line 0).bind fun c0 =>
    if c0 = ' ' then (Str.at line subMetaIndex).bind fun c5 =>
      if c5 = ' ' then (Str.at line qualifierIndex).bind fun c21 => .ok (c21 == '/')
      else .ok false
    else .ok false

/-- `line[0] == " " && line[5] == " " && line[21] != "/" && line[20] == " "` -/
def quickQualifierSubLineCheck (line : Str) : Outcome Bool :=
  (Str.at line 0).bind fun c0 =>
    if c0 = ' ' then (Str.at line subMetaIndex).bind fun c5 =>
      if c5 = ' ' then (Str.at line qualifierIndex).bind fun c21 =>
        if c21 ≠ '/' then (Str.at line (qualifierIndex - 1)).bind fun c20 => .ok (c20 == ' ')
        else .ok false
      else .ok false
    else .ok false

/-- `topLevelFeatureCheck` -/
def topLevelFeatureCheck (s : Str) : Bool := genbankTopLevelFeatures.contains (trimSpace s)

/-! ### parseLocus (lines 354-417) -/

/-- one attempt of ` \d+ \w{2} ` at the start of `s`: the matched text -/
def matchBasePair : Str → Option Str
  | ' ' :: rest =>
    let ds := rest.takeWhile isDigit
    if ds = [] then none else
    match rest.dropWhile isDigit with
    | ' ' :: a :: b :: ' ' :: _ => if isWord a && isWord b then some (' ' :: ds ++ [' ', a, b, ' ']) else none
    | _ => none
  | _ => none

/-- `basePairRegex.FindString(s)`: leftmost match, "" when there is none -/
def findBasePair : Str → Str
  | [] => []
  | c :: cs => match matchBasePair (c :: cs) with
    | some m => m
    | none => findBasePair cs

/-- `\d{2}-[A-Z]{3}-\d{4}` at the start of `s` -/
def matchDate : Str → Bool
  | d1 :: d2 :: h1 :: m1 :: m2 :: m3 :: h2 :: y1 :: y2 :: y3 :: y4 :: _ =>
    isDigit d1 && isDigit d2 && h1 == '-' && isUpper m1 && isUpper m2 && isUpper m3 && h2 == '-'
      && isDigit y1 && isDigit y2 && isDigit y3 && isDigit y4
  | _ => false

/-- `ModificationDateRegex.FindString(s)` -/
def findDate : Str → Str
  | [] => []
  | c :: cs => if matchDate (c :: cs) then (c :: cs).take 11 else findDate cs

/-- `for _, x := range list { match := Find(x); if match != "" { field = match; break } }` -/
def firstContained (s : Str) : List Str → Str
  | [] => []
  | x :: xs => if contains s x then x else firstContained s xs

/-- `for _, x := range list { match := Find(x); if len(match) > len(field) { field = match } }` -/
def longestContained (s : Str) : Str → List Str → Str
  | cur, [] => cur
  | cur, x :: xs =>
    let m : Str := if contains s x then x else []
    longestContained s (if m.length > cur.length then m else cur) xs

/-- `if baseSequenceLength != "" { split := Split(TrimSpace(…), " "); if len(split) == 2 { length, coding = split[0], split[1] } }` -/
def lenCodingOf (bp : Str) : Str × Str :=
  if bp ≠ [] then (match split (trimSpace bp) c!" " with | [a, b] => (a, b) | _ => ([], [])) else ([], [])

def parseLocus (locusString : Str) : Outcome Locus :=
  let locusSplit := split (trimSpace locusString) c!" "
  let filtered := locusSplit.filter (· ≠ [])
  match filtered[1]? with
  | none => .panic                                   -- filteredLocusSplit[1]  (then [2:] cannot fail)
  | some name =>
    -- locusString = " " + strings.Join(filteredLocusSplit[2:], " ") + " "
    let locusString := c!" " ++ join c!" " (filtered.drop 2) ++ c!" "
    let lenCoding : Str × Str := lenCodingOf (findBasePair locusString)
    .ok { name := name
          seqLength := lenCoding.1
          coding := lenCoding.2
          molType := longestContained locusString [] genBankMoleculeTypes
          circular := contains locusString c!" circular "
          linear := contains locusString c!" linear "
          division := firstContained locusString genbankDivisions
          date := findDate locusString }

/-! ### joinSubLines / getSourceOrganism / getReference (lines 420-484) -/

/-- the loop of joinSubLines: continuation lines are appended until a line is a keyword line
(`quickMetaCheck`) or a sub-keyword line (`quickSubMetaCheck`) -/
def joinLoop (base : Str) : List Str → Outcome Str
  | [] => .ok base
  | l :: ls =>
    (quickMetaCheck l).bind fun m =>
      if m then .ok base else
      (quickSubMetaCheck l).bind fun s =>
        if s then .ok base else
        joinLoop (trimSpace (trimSpace base ++ c!" " ++ trimSpace l)) ls

/-- `splitLine[1:]` of a `strings.Split` result (never empty) -/
def joinSubLines (splitLine subLines : List Str) : Outcome Str :=
  joinLoop (trimSpace (join c!" " (splitLine.drop 1))) subLines

def headOf (l : List Str) : Str := match l with | [] => [] | x :: _ => x

def sourceLoop (source : Str) : List Str → Outcome (Str × Str)
  | [] => .ok (source, [])
  | l :: ls =>
    let headString := headOf (split (trimSpace l) c!" ")
    (Str.at l 0).bind fun c0 =>                       -- string(subLine[0])
      -- subLine[0] == " " && !(quickSubMetaCheck(subLine) && headString == "ORGANISM")
      (if c0 = ' ' then (quickSubMetaCheck l).bind fun sm => .ok (!(sm && headString == c!"ORGANISM"))
       else .ok false).bind fun cont =>
      if cont then
        sourceLoop (trimSpace (trimSpace source ++ c!" " ++ trimSpace l)) ls
      else
        -- SOURCE ends here: with its ORGANISM line or, when the record has none, with the next keyword, which is
        -- not the organism (6ccbb58):  if quickSubMetaCheck(subLine) && headString == "ORGANISM" { … }; break
        (quickSubMetaCheck l).bind fun sm =>
          if sm && headString == c!"ORGANISM" then
            (joinSubLines (split (trimSpace l) c!" ") ls).bind fun organism => .ok (source, organism)
          else .ok (source, [])

def getSourceOrganism (splitLine subLines : List Str) : Outcome (Str × Str) :=
  sourceLoop (trimSpace (join c!" " (splitLine.drop 1))) subLines

def refLoop (r : Reference) : List Str → Outcome Reference
  | [] => .ok r
  | l :: ls =>
    let fs := split (trimSpace l) c!" "
    let headString := headOf fs
    (quickMetaCheck l).bind fun m =>
    if m then .ok r else
    (quickSubMetaCheck l).bind fun sm =>
    if !sm then refLoop r ls
    else if headString = c!"AUTHORS" then (joinSubLines fs ls).bind fun v => refLoop { r with authors := v } ls
    else if headString = c!"TITLE" then (joinSubLines fs ls).bind fun v => refLoop { r with title := v } ls
    else if headString = c!"JOURNAL" then (joinSubLines fs ls).bind fun v => refLoop { r with journal := v } ls
    else if headString = c!"PUBMED" then (joinSubLines fs ls).bind fun v => refLoop { r with pubmed := v } ls
    else if headString = c!"REMARK" then (joinSubLines fs ls).bind fun v => refLoop { r with remark := v } ls
    else refLoop r ls

def getReference (splitLine subLines : List Str) : Outcome Reference :=
  (joinSubLines splitLine subLines).bind fun base =>
  let bs := split base c!" "
  let r : Reference := { index := headOf bs }
  let r := if base.length > 1 then { r with range := trimSpace (join c!" " (bs.drop 1)) } else r
  refLoop r subLines

/-! ### getFeatures (lines 486-585) -/

/-- `lines[i]` -/
def lineAt (lines : List Str) (i : Nat) : Outcome Str :=
  match lines[i]? with
  | some l => .ok l
  | none => .panic

/-- the location-continuation loop (lines 511-522): returns the location text and `nextLineNum` -/
def locLoop (lines : List Str) (lineIndex : Nat) : Nat → Nat → Str → Outcome (Str × Nat)
  | 0, _, _ => .panic                                 -- not reached: `lineAt` panics first
  | f + 1, nextLineNum, loc =>
    let n := nextLineNum + 1
    (lineAt lines (lineIndex + n)).bind fun nextLine =>
      if nextLine.length > qualifierIndex ∧ trimSpace (nextLine.take qualifierIndex) = []
          ∧ nextLine[qualifierIndex]? ≠ some '/' then
        locLoop lines lineIndex f n (loc ++ trimSpace nextLine)
      else .ok (loc, n)

/-- `unclosedQuote` of the qualifier-continuation loop: a quotation mark was opened and the text so
far does not end with a closing one -/
def unclosedQuote (qualifier : Str) : Bool :=
  let tq := trimSpace qualifier
  List.elem '"' tq && !(tq.count '"' ≥ 2 && hasSuffix tq c!"\"")

/-- the qualifier-continuation loop (lines 549-565): state = (qualifier, lineIndex, line) -/
def subLoop (lines : List Str) (isTranslation : Bool) : Nat → Str → Nat → Str → Outcome (Str × Nat × Str)
  | 0, _, _, _ => .panic                              -- not reached
  | f + 1, qualifier, lineIndex, line =>
    (quickQualifierSubLineCheck line).bind fun sub =>
    -- trimmedQualifier := strings.TrimSpace(qualifier)
    -- unclosedQuote := Contains(trimmedQualifier, "\"") && !(Count(trimmedQualifier, "\"") >= 2 && HasSuffix(trimmedQualifier, "\""))
    -- if !sub && !(unclosedQuote && quickQualifierCheck(line)) { break }
    (if sub then .ok true
     else if unclosedQuote qualifier then quickQualifierCheck line else .ok false).bind fun b =>
      if !b then .ok (qualifier, lineIndex, line) else
      let qualifier := if !isTranslation then qualifier ++ c!" " ++ trimSpace line else qualifier ++ trimSpace line
      (lineAt lines (lineIndex + 1)).bind fun line' =>
        subLoop lines isTranslation f qualifier (lineIndex + 1) line'

/-- f2612ce: `if len(v) >= 2 && HasPrefix(v, "\"") && HasSuffix(v, "\"") { v[1 : len(v)-1] } else { strings.Trim(v, "\"") }`:
of a quoted value only the enclosing pair is markup, quotation marks inside belong to the value -/
def unquoteValue (v : Str) : Str :=
  if v.length ≥ 2 ∧ hasPrefix v c!"\"" = true ∧ hasSuffix v c!"\"" = true then (v.drop 1).dropLast
  else trim v c!"\""

/-- `if len(attributeSplit) < 2 { "" } else { unquote(strings.TrimSpace(attributeSplit[1])) }`
(`SplitN(…, 2)` gives one or two fields) -/
def attributeValueOf (attributeSplit : List Str) : Str :=
  match attributeSplit with
  | [_, v] => unquoteValue (trimSpace v)
  | _ => []

/-- the qualifier loop (lines 534-578): state = (Attributes, lineIndex, line); returns the map and
the final lineIndex -/
def qualLoop (lines : List Str) : Nat → List (Str × Str) → Nat → Str → Outcome (List (Str × Str) × Nat)
  | 0, _, _, _ => .panic                              -- not reached
  | f + 1, attrs, lineIndex, line =>
    (quickQualifierCheck line).bind fun b =>
      if !b then .ok (attrs, lineIndex) else
      let qualifierKey := trimSpace (headOf (split line c!"="))
      (lineAt lines (lineIndex + 1)).bind fun line' =>
        (subLoop lines (qualifierKey == c!"/translation") (lines.length + 1) line (lineIndex + 1) line').bind
          fun (qualifier, lineIndex', line'') =>
            let attributeSplit := splitN2 '=' (trimSpace qualifier)
            let attributeLabel := trimPrefix (trimSpace (headOf attributeSplit)) c!"/"
            let attributeValue : Str := attributeValueOf attributeSplit
            qualLoop lines f (mapInsert attrs attributeLabel attributeValue) lineIndex' line''

/-- the feature loop (lines 491-583) -/
def featLoop (lines : List Str) : Nat → List Feature → Nat → Outcome (List Feature)
  | 0, _, _ => .panic                                 -- not reached
  | f + 1, features, lineIndex =>
    match lines[lineIndex]? with
    | none => .ok features                            -- lineIndex < len(lines) fails
    | some line =>
      (quickMetaCheck line).bind fun m =>
        if m then .ok features else
        (quickFeatureCheck line).bind fun fc =>
          if !fc then .ok features else
          let splitLine := split (trimSpace line) c!" "
          let type := trimSpace (headOf splitLine)
          let loc0 := trimSpace (splitLine.getLastD [])
          (locLoop lines lineIndex (lines.length + 1) 0 loc0).bind fun (loc, nextLineNum) =>
            -- lineIndex += nextLineNum ; line = lines[lineIndex]
            (lineAt lines (lineIndex + nextLineNum)).bind fun line' =>
              (qualLoop lines (lines.length + 1) [] (lineIndex + nextLineNum) line').bind fun (attrs, lineIndex') =>
                featLoop lines f (features ++ [{ type := type, gbkLoc := loc, attrs := attrs }]) lineIndex'

def getFeatures (lines : List Str) : Outcome (List Feature) :=
  featLoop lines (lines.length + 1) [] 0

/-! ### getSequence (lines 588-599) -/

def getSequence (subLines : List Str) : Str := (subLines.flatten).filter isLetter

/-! ### Parse (lines 24-94) -/

/-- one iteration of the line loop: `line = lines[numLine]`, `subLines = lines[numLine+1:]`.
`sequenceBreakFlag` is re-initialised to false in every iteration, so the loop never breaks. -/
def parseStep (line : Str) (subLines : List Str) (s : Sequence) : Outcome Sequence :=
  let splitLine := split line c!" "
  let kw := trimSpace (headOf splitLine)
  if kw = [] then .ok s
  else if kw = c!"LOCUS" then
    (parseLocus line).bind fun l => .ok { s with md := { s.md with locus := l } }
  else if kw = c!"DEFINITION" then
    (joinSubLines splitLine subLines).bind fun v => .ok { s with md := { s.md with definition := v } }
  else if kw = c!"ACCESSION" then
    (joinSubLines splitLine subLines).bind fun v => .ok { s with md := { s.md with accession := v } }
  else if kw = c!"VERSION" then
    (joinSubLines splitLine subLines).bind fun v => .ok { s with md := { s.md with version := v } }
  else if kw = c!"KEYWORDS" then
    (joinSubLines splitLine subLines).bind fun v => .ok { s with md := { s.md with keywords := v } }
  else if kw = c!"SOURCE" then
    (getSourceOrganism splitLine subLines).bind fun so =>
      .ok { s with md := { s.md with source := so.1, organism := so.2 } }
  else if kw = c!"REFERENCE" then
    (getReference splitLine subLines).bind fun r =>
      .ok { s with md := { s.md with references := s.md.references ++ [r] } }
  else if kw = c!"FEATURES" then
    (getFeatures subLines).bind fun fs => .ok { s with features := fs }
  else if kw = c!"ORIGIN" then
    .ok { s with seq := getSequence subLines }
  else
    (quickMetaCheck line).bind fun m =>
      if m then
        (joinSubLines splitLine subLines).bind fun v =>
          .ok { s with md := { s.md with other := mapInsert s.md.other kw v } }
      else .ok s

def parseLoop : List Str → Sequence → Outcome Sequence
  | [], s => .ok s
  | line :: subLines, s => (parseStep line subLines s).bind fun s' => parseLoop subLines s'

/-- `genbank.Parse` (the features are collected in a local slice and attached at the end with
`AddFeature`, which keeps their order) -/
def parse (file : Str) : Outcome Sequence :=
  parseLoop (split file c!"\n") {}

/-! ### ParseMulti / ParseFlat (lines 765-804) -/

def parseMulti (file : Str) : Outcome (List Sequence) :=
  let genbankFiles := splitAfter file c!"//\n"
  let last := genbankFiles.getLastD []
  let genbankFiles :=
    if !hasSuffix (trimSpace last) c!"//" then genbankFiles.dropLast else genbankFiles
  mapOutcome parse genbankFiles

/-- `strings.Split(gbk, "\n")[10:]` panics on fewer than 10 lines -/
def parseFlat (file : Str) : Outcome (List Sequence) :=
  let lines := split file c!"\n"
  if lines.length < 10 then .panic
  else parseMulti (join c!"\n" (lines.drop 10))

end PolyVerif.Genbank
