import PolyVerif.Base.Proto
import PolyVerif.Gen.Complement
import PolyVerif.Gen.Iupac
/-
Model of poly/transform (ComplementBase, Complement, Reverse, ReverseComplement),
poly/checks.IsPalindromic and poly/transform/variants.AllVariantsIUPAC.

The two lookup tables are NOT written here: they are `Gen.complementRows` and
`Gen.iupacRows`, re-extracted on every run from the compiled Go code over the
complete rune domain.  Strings are `List Char`; the Go functions are modelled on
ASCII input (one byte = one rune), which is the domain the properties name.
-/
namespace PolyVerif.Transform

open PolyVerif

/-- `transform.ComplementBase`: map lookup, zero rune when absent. -/
def complementBase (c : Char) : Char :=
  match Gen.complementRows.lookup c.toNat with
  | some n => Char.ofNat n
  | none => Char.ofNat 0

/-- `transform.Complement` = `strings.Map(ComplementBase, s)` (no rune is dropped: the
mapping never returns a negative value). -/
def complement (s : Str) : Str := s.map complementBase

/-- `transform.Reverse`: fills a rune slice from the back. -/
def reverse (s : Str) : Str := s.reverse

/-- `transform.ReverseComplement`: complement, then fill a rune slice from the back. -/
def revComp (s : Str) : Str := (complement s).reverse

/-- `checks.IsPalindromic` -/
def isPalindromic (s : Str) : Bool := s == revComp s

/-- Go's `strings.ToUpper` on ASCII. -/
def upper (s : Str) : Str := s.map Char.toUpper

/-- variants table lookup (the map literal inside AllVariantsIUPAC, composed with ToUpper,
as observed on every one-rune string). -/
def iupacLookup (c : Char) : Option (List Char) :=
  (Gen.iupacRows.lookup c.toNat).map (·.map Char.ofNat)

/-- `cartRune`: all choices, last position varying fastest (the odometer loop). -/
def cart : List (List Char) → List (List Char)
  | [] => [[]]
  | l :: ls => l.flatMap fun c => (cart ls).map (c :: ·)

/-- collect the per-letter variant lists; `none` = the error return -/
def variantLists : Str → Option (List (List Char))
  | [] => some []
  | c :: cs =>
    match iupacLookup c, variantLists cs with
    | some l, some ls => some (l :: ls)
    | _, _ => none

def maxInt32 : Nat := 2147483647

/-- the overflow guard of AllVariantsIUPAC (since fix fce67c5): the running product of the numbers of
choices, refused as soon as `count > MaxInt32 / len(choices)`; `true` = every step passed -/
def countGuard : List (List Char) → Nat → Bool
  | [], _ => true
  | l :: ls, n => if n > maxInt32 / l.length then false else countGuard ls (n * l.length)

/-- `variants.AllVariantsIUPAC`; `none` = error (an unsupported letter, or too many variants to
enumerate).  (For the empty input Go's `cartRune()` returns one empty product, i.e. `[""]`, which
`cart []` reproduces.) -/
def allVariants (s : Str) : Option (List Str) :=
  match variantLists s with
  | none => none
  | some ls => if countGuard ls 1 then some (cart ls) else none

end PolyVerif.Transform
