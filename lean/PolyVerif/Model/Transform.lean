import PolyVerif.Base.Proto
import PolyVerif.Gen.Complement
import PolyVerif.Gen.Iupac
/-
Model of poly/transform (ComplementBase, Complement, Reverse, ReverseComplement),
poly/checks.IsPalindromic and poly/transform/variants.AllVariantsIUPAC.

The two lookup tables are NOT written here: they are `Gen.complementRows` and
`Gen.iupacRows` (what the compiled Go code answers for the 15 IUPAC codes in both cases — the
letters C11 quantifies over; the `decide`d table lemmas of Props/C11 mention only these) and
`Gen.complementOther…` / `Gen.iupacOtherRows` (what it answers for every OTHER rune, recorded as
data), all re-extracted on every run from the compiled Go code over the complete rune domain.  Strings are `List Char`; the Go functions are modelled on
ASCII input (one byte = one rune), which is the domain the properties name.
-/
namespace PolyVerif.Transform

open PolyVerif

/-- `transform.ComplementBase` as observed: the row of the letter if it is one of the 30 code
letters; for any other rune the recorded behaviour (an explicit row, else the recorded default:
`0` = the zero rune — the map lookup of the present code — or `1` = the rune itself). -/
def complementBase (c : Char) : Char :=
  match Gen.complementRows.lookup c.toNat with
  | some n => Char.ofNat n
  | none =>
    match Gen.complementOtherRows.lookup c.toNat with
    | some n => Char.ofNat n
    | none => if Gen.complementOtherDefault = 0 then Char.ofNat 0 else c

/-- `transform.Complement` = `strings.Map(ComplementBase, s)` (no rune is dropped: the
mapping never returns a negative value). -/
def complement (s : Str) : Str := s.map complementBase

/-- `transform.Reverse`: fills a rune slice from the back. -/
def reverse (s : Str) : Str := s.reverse

/-- `transform.ReverseComplement`: complement, then fill a rune slice from the back. -/
def revComp (s : Str) : Str := (complement s).reverse

/-- `checks.IsPalindromic` -/
def isPalindromic (s : Str) : Bool := s == revComp s

/-- Go's `strings.ToUpper` on ASCII. -/
def upper (s : Str) : Str := s.map Char.toUpper

/-- variants table lookup (the map literal inside AllVariantsIUPAC, composed with ToUpper,
as observed on every one-rune string). -/
def iupacLookup (c : Char) : Option (List Char) :=
  (Gen.iupacRows.lookup c.toNat).map (·.map Char.ofNat)

/-- the same for ANY rune, including those outside the 30 code letters that the code accepts
(recorded in `Gen.iupacOtherRows`; a variant may then be empty or several runes).  Used only to
predict the code on out-of-domain inputs (correspondence drift), never by a theorem. -/
def iupacLookupAny (c : Char) : Option (List Str) :=
  match iupacLookup c with
  | some l => some (l.map fun x => [x])
  | none => (Gen.iupacOtherRows.lookup c.toNat).map (·.map (·.map Char.ofNat))

/-- `cartRune`: all choices, last position varying fastest (the odometer loop). -/
def cart : List (List Char) → List (List Char)
  | [] => [[]]
  | l :: ls => l.flatMap fun c => (cart ls).map (c :: ·)

/-- collect the per-letter variant lists; `none` = the error return -/
def variantLists : Str → Option (List (List Char))
  | [] => some []
  | c :: cs =>
    match iupacLookup c, variantLists cs with
    | some l, some ls => some (l :: ls)
    | _, _ => none

def maxInt32 : Nat := 2147483647

/-- the overflow guard of AllVariantsIUPAC (since fix fce67c5): the running product of the numbers of
choices, refused as soon as `count > MaxInt32 / len(choices)`; `true` = every step passed -/
def countGuard : List (List Char) → Nat → Bool
  | [], _ => true
  | l :: ls, n => if n > maxInt32 / l.length then false else countGuard ls (n * l.length)

/-- `variants.AllVariantsIUPAC`; `none` = error (an unsupported letter, or too many variants to
enumerate).  (For the empty input Go's `cartRune()` returns one empty product, i.e. `[""]`, which
`cart []` reproduces.) -/
def allVariants (s : Str) : Option (List Str) :=
  match variantLists s with
  | none => none
  | some ls => if countGuard ls 1 then some (cart ls) else none

/-- prediction of AllVariantsIUPAC on an input with letters outside the 30 codes, from the recorded
one-rune behaviour (letter by letter; no guard, no claim: out-of-domain correspondence only) -/
def allVariantsAny (s : Str) : Option (List Str) :=
  let rec go : Str → Option (List Str)
    | [] => some [[]]
    | c :: cs =>
      match iupacLookupAny c, go cs with
      | some l, some rest => some (l.flatMap fun x => rest.map (x ++ ·))
      | _, _ => none
  go s

end PolyVerif.Transform
