import PolyVerif.Base.Proto
import PolyVerif.Model.Transform
/-
Model of poly's feature locations (property C02):

  poly.Location                          ↦ `PLoc`
  poly.getFeatureSequence / GetSequence  ↦ `getSeq`
  genbank.parseLocation                  ↦ `parseLocation`   (as it is after the fix: commits 38778ae "single base",
                                            90c4195 "top-level commas", ec3cbb7 "complement of complement",
                                            1650bb9 "no panic on forms it does not model")
  genbank.BuildLocationString            ↦ `buildLoc`

Transcribed statement by statement.  Go `int` is modelled as the unbounded `Int` (coordinates
below 2^63 is a recorded assumption); a Go panic (slice bounds, index out of range) is
`Outcome.panic`.  The Go library functions used get one definition each: `strconv.Atoi`
(error ignored ⇒ 0), `strconv.Itoa`, `strings.Split(_, "..")`, `strings.ContainsAny/Contains`
with a one-letter pattern, `strings.Index/LastIndex` with a one-letter pattern,
`regexp("<|>").ReplaceAllString(_, "")`, `strings.TrimSuffix(_, ",")`, slice expressions.
Core Lean only.
-/
namespace PolyVerif.Location
open PolyVerif

inductive Outcome (α : Type) | ok (a : α) | err | panic
  deriving Repr, DecidableEq

def Outcome.bind {α β : Type} : Outcome α → (α → Outcome β) → Outcome β
  | .ok a, f => f a
  | .err, _ => .err
  | .panic, _ => .panic

def Outcome.map {α β : Type} (f : α → β) : Outcome α → Outcome β
  | .ok a => .ok (f a)
  | .err => .err
  | .panic => .panic

/-- `poly.Location` -/
structure PLoc where
  start : Int := 0
  stop : Int := 0          -- Go field `End`
  complement : Bool := false
  join : Bool := false
  five : Bool := false     -- FivePrimePartial
  three : Bool := false    -- ThreePrimePartial
  subs : List PLoc := []   -- SubLocations
  deriving Repr

/-! ### Go library functions -/

/-- the decimal digit `d < 10` as a byte -/
def digitChar (d : Nat) : Char := Char.ofNat (48 + d)

/-- digits of `n > 0`, most significant first (fuel `f ≥ n` suffices); `[]` for 0 -/
def itoaF : Nat → Nat → Str
  | 0, _ => []
  | f + 1, n => if n = 0 then [] else itoaF f (n / 10) ++ [digitChar (n % 10)]

/-- `strconv.Itoa` on a non-negative int -/
def itoa (n : Nat) : Str := if n = 0 then ['0'] else itoaF n n

/-- `strconv.Itoa` -/
def itoaInt : Int → Str
  | .ofNat n => itoa n
  | .negSucc n => '-' :: itoa (n + 1)

def digitVal? (c : Char) : Option Nat :=
  if 48 ≤ c.toNat ∧ c.toNat ≤ 57 then some (c.toNat - 48) else none

/-- value of a digit string, `none` when a byte is not a digit -/
def atoiNat : Str → Nat → Option Nat
  | [], acc => some acc
  | c :: cs, acc =>
    match digitVal? c with
    | some d => atoiNat cs (acc * 10 + d)
    | none => none

/-- digits to value; the empty string and any non-digit are the `strconv` syntax error, whose
value 0 the callers keep (`position, _ := strconv.Atoi(..)`) -/
def digitsOr0 (s : Str) : Nat :=
  match s with
  | [] => 0
  | _ => match atoiNat s 0 with | some v => v | none => 0

/-- `v, _ := strconv.Atoi(s)`: optional sign, then one or more digits; any error ⇒ 0 -/
def atoi (s : Str) : Int :=
  match s with
  | [] => 0
  | c :: r =>
    if c = '-' then -((digitsOr0 r : Nat) : Int)
    else if c = '+' then ((digitsOr0 r : Nat) : Int)
    else ((digitsOr0 (c :: r) : Nat) : Int)

/-- `strings.Contains(s, string(c))` / `strings.ContainsAny(s, string(c))` -/
def hasChar (c : Char) (s : Str) : Bool := s.contains c

/-- `strings.Index(s, string(c))`; `none` is Go's −1 -/
def indexOf (c : Char) : Str → Option Nat
  | [] => none
  | x :: xs => if x = c then some 0 else (indexOf c xs).map (· + 1)

/-- `strings.LastIndex(s, string(c))`; `none` is Go's −1 -/
def lastIndexOf (c : Char) (s : Str) : Option Nat :=
  (indexOf c s.reverse).map (fun i => s.length - 1 - i)

def optIdx : Option Nat → Int
  | some i => (i : Int)
  | none => -1

/-- slice expression `s[lo:hi]`; panics unless `0 ≤ lo ≤ hi ≤ len(s)` -/
def slice (s : Str) (lo hi : Int) : Outcome Str :=
  if lo < 0 ∨ hi > (s.length : Int) ∨ lo > hi then .panic
  else .ok ((s.take hi.toNat).drop lo.toNat)

/-- `strings.Split(s, "..")` as (first field, remaining fields): leftmost, non-overlapping -/
def splitDots : Str → Str × List Str
  | [] => ([], [])
  | [c] => ([c], [])
  | c :: c2 :: cs2 =>
    if c = '.' ∧ c2 = '.' then
      let r := splitDots cs2
      ([], r.1 :: r.2)
    else
      let r := splitDots (c2 :: cs2)
      (c :: r.1, r.2)

/-- `regexp.MustCompile("<|>").ReplaceAllString(s, "")` -/
def stripMarks (s : Str) : Str := s.filter (fun c => !(c == '<' || c == '>'))

/-- `strings.TrimSuffix(s, ",")` -/
def trimComma (s : Str) : Str :=
  match s.getLast? with
  | some ',' => s.dropLast
  | _ => s

/-- The operand loop of `parseLocation`'s `join` case: cut `expression` at the commas seen while
`parenthesesCount == 0`; returned as (first operand, remaining operands).  `d` is
`parenthesesCount` (a Go int: it may go negative on stray `)`). -/
def splitTop : Int → Str → Str × List Str
  | _, [] => ([], [])
  | d, c :: cs =>
    if c = ',' ∧ d = 0 then
      let r := splitTop d cs
      ([], r.1 :: r.2)
    else
      let r := splitTop (if c = '(' then d + 1 else if c = ')' then d - 1 else d) cs
      (c :: r.1, r.2)

def splitTopList (s : Str) : List Str :=
  let r := splitTop 0 s
  r.1 :: r.2

/-! ### parseLocation -/

/-- the keywords, as byte lists (explicit lists rather than `String.toList` of a literal, so
that proofs never have to evaluate `String` primitives) -/
def kwJoin : Str := ['j', 'o', 'i', 'n']
def kwComplement : Str := ['c', 'o', 'm', 'p', 'l', 'e', 'm', 'e', 'n', 't']
def joinOpen : Str := ['j', 'o', 'i', 'n', '(']
def complOpen : Str := ['c', 'o', 'm', 'p', 'l', 'e', 'm', 'e', 'n', 't', '(']

def mapOutcome {α β : Type} (f : α → Outcome β) : List α → Outcome (List β)
  | [] => .ok []
  | x :: xs => (f x).bind fun y => (mapOutcome f xs).bind fun ys => .ok (y :: ys)

/-- the tail of `parseLocation`, after the `if/else`: flags from the WHOLE string, then the
"excess root node" trim (only when there is a sublocation to trim to) -/
def finish (s : Str) (loc : PLoc) : Outcome PLoc :=
  let loc := if hasChar '<' s then { loc with five := true } else loc
  let loc := if hasChar '>' s then { loc with three := true } else loc
  if loc.start = 0 ∧ loc.stop = 0 ∧ loc.join = false ∧ loc.complement = false then
    match loc.subs with
    | [] => .ok loc                     -- `&& len(location.SubLocations) > 0` (since 1650bb9)
    | x :: _ => .ok x
  else .ok loc

/-- `parseLocation` with recursion fuel (every recursive call is on a strictly shorter string,
so `len + 1` is enough; running out — unreachable from `parseLocation` — is reported as a
panic, as the stack overflow it would be). -/
def parseLocF : Nat → Str → Outcome PLoc
  | 0, _ => .panic
  | f + 1, s =>
    if !hasChar '(' s then
      if !hasChar '.' s then
        let position := atoi s
        finish s { start := position - 1, stop := position }
      else
        let startEndSplit := splitDots s
        match startEndSplit.2 with
        | [p1] =>                       -- `if len(startEndSplit) == 2`
          let start := atoi (stripMarks startEndSplit.1)
          let stop := atoi (stripMarks p1)
          finish s { start := start - 1, stop := stop }
        | _ => finish s {}              -- e.g. 102.110: kept as text only, the structure stays zero
    else
      let firstOuterParentheses := optIdx (indexOf '(' s)
      (slice s (firstOuterParentheses + 1) (optIdx (lastIndexOf ')' s))).bind fun expression =>
      (slice s 0 firstOuterParentheses).bind fun command =>
      if command = kwJoin then
        (mapOutcome (parseLocF f) (splitTopList expression)).bind fun subs =>
          finish s { join := true, subs := subs }
      else if command = kwComplement then
        (parseLocF f expression).bind fun subLocation =>
          if subLocation.complement then
            -- the complement of a complement keeps a node of its own
            finish s { complement := true, subs := [subLocation] }
          else
            finish s { subs := [{ subLocation with complement := true }] }
      else
        finish s {}

def parseLocation (s : Str) : Outcome PLoc := parseLocF (s.length + 1) s

/-! ### getFeatureSequence -/

mutual
/-- `getFeatureSequence(feature, location)` with `parent = feature.ParentSequence.Sequence` -/
def getSeq : PLoc → Str → Outcome Str
  | ⟨start, stop, complement, _, _, _, subs⟩, parent =>
    let buffer := match subs with
      | [] => slice parent start stop
      | x :: xs => getSeqList (x :: xs) parent
    if complement then buffer.map Transform.revComp else buffer
def getSeqList : List PLoc → Str → Outcome Str
  | [], _ => .ok []
  | x :: xs, parent =>
    (getSeq x parent).bind fun a => (getSeqList xs parent).bind fun b => .ok (a ++ b)
end

/-! ### BuildLocationString -/

mutual
/-- `BuildLocationString`.  (The Go function recurses on the same node with `Complement`
cleared; that single step is unfolded here.)  After the complement: a join — or any node with
more than one sublocation — is written as `join(…)`, a node that only wraps one sublocation as
that sublocation, anything else as a span. -/
def buildLoc : PLoc → Str
  | ⟨start, stop, complement, join, five, three, subs⟩ =>
    let inner : Str :=
      if join then
        trimComma (joinOpen ++ buildSubs subs) ++ [')']
      else
        match subs with
        | [] =>
          (if five then ['<'] else []) ++ (itoaInt (start + 1) ++ ['.', '.'] ++ itoaInt stop)
            ++ (if three then ['>'] else [])
        | [x] => buildLoc x
        | x :: y :: zs => trimComma (joinOpen ++ buildSubs (x :: y :: zs)) ++ [')']
    if complement then complOpen ++ inner ++ [')'] else inner
/-- the loop `locationString += BuildLocationString(sublocation) + ","` -/
def buildSubs : List PLoc → Str
  | [] => []
  | x :: xs => buildLoc x ++ ',' :: buildSubs xs
end

/-! ### serialisation used by the harness protocol (not part of the model) -/

mutual
def showPLoc : PLoc → Str
  | ⟨start, stop, complement, join, five, three, subs⟩ =>
    let fl : Str := (if complement then ['c'] else []) ++ (if join then ['j'] else [])
      ++ (if five then ['5'] else []) ++ (if three then ['3'] else [])
    '(' :: (itoaInt start ++ ' ' :: itoaInt stop ++ ' ' :: (if fl.isEmpty then ['-'] else fl) ++ showPLocs subs) ++ [')']
def showPLocs : List PLoc → Str
  | [] => []
  | x :: xs => ' ' :: showPLoc x ++ showPLocs xs
end

end PolyVerif.Location
