import PolyVerif.Model.PolyJson
import PolyVerif.Model.GenbankBuild
import PolyVerif.Model.Gff
/-
The record types of the two writer models — `GenbankBuild.Sequence` (property C03, model of
`genbank.Build`) and `Gff.Gff` (property C14, model of `gff.Build`) — as views of the full
`PolyJson.Sequence` value: each view keeps the fields its writer reads, reads a slice or map
through `range` / `len` (so a nil collection and an empty one give the same list) and has no
place for `ParentSequence` (neither writer dereferences it).  Strings become `List Char`
(the writers' models are over `Str`; ASCII is their recorded domain).
-/
namespace PolyVerif.PolyJson
open PolyVerif

def toChars (s : S) : Str := s.map Char.ofNat

def mapView (m : SMap) : List (Str × Str) := (m.getD []).map fun p => (toChars p.1, toChars p.2)

mutual
def Location.toPLoc : Location → PolyVerif.Location.PLoc
  | .mk s e c j f t subs =>
    { start := s, stop := e, complement := c, join := j, five := f, three := t, subs := Location.subsToPLoc subs }
def Location.subsToPLoc : Option (List Location) → List PolyVerif.Location.PLoc
  | none => []
  | some xs => Location.listToPLoc xs
def Location.listToPLoc : List Location → List PolyVerif.Location.PLoc
  | [] => []
  | x :: xs => Location.toPLoc x :: Location.listToPLoc xs
end

def Locus.toGbk (l : Locus) : GenbankBuild.Locus :=
  { name := toChars l.name, sequenceLength := toChars l.sequenceLength, moleculeType := toChars l.moleculeType,
    genbankDivision := toChars l.genbankDivision, modificationDate := toChars l.modificationDate,
    sequenceCoding := toChars l.sequenceCoding, circular := l.circular, linear := l.linear }

def Reference.toGbk (r : Reference) : GenbankBuild.Reference :=
  { index := toChars r.index, authors := toChars r.authors, title := toChars r.title, journal := toChars r.journal,
    pubMed := toChars r.pubMed, remark := toChars r.remark, range := toChars r.range }

def Feature.toGbk (f : Feature) : GenbankBuild.Feature :=
  { type := toChars f.type, gbkLocationString := toChars f.gbkLocationString,
    sequenceLocation := f.sequenceLocation.toPLoc, attributes := mapView f.attributes }

def Meta.toGbk (m : Meta) : GenbankBuild.Meta :=
  { locus := m.locus.toGbk, definition := toChars m.definition, accession := toChars m.accession,
    version := toChars m.version, keywords := toChars m.keywords, source := toChars m.source,
    organism := toChars m.organism, references := (m.references.getD []).map Reference.toGbk,
    other := mapView m.other }

/-- what `genbank.Build` sees of a value -/
def Sequence.toGbk (x : Sequence) : GenbankBuild.Sequence :=
  { metadata := x.metadata.toGbk, features := (x.features.getD []).map Feature.toGbk, sequence := toChars x.sequence }

def Location.start : Location → Int
  | .mk s _ _ _ _ _ _ => s
def Location.stop : Location → Int
  | .mk _ e _ _ _ _ _ => e

def Feature.toGff (f : Feature) : Gff.Feature :=
  { name := toChars f.name, source := toChars f.source, type := toChars f.type,
    start := f.sequenceLocation.start, stop := f.sequenceLocation.stop, score := toChars f.score,
    strand := toChars f.strand, phase := toChars f.phase, attrs := mapView f.attributes }

/-- what `gff.Build` sees of a value -/
def Sequence.toGff (x : Sequence) : Gff.Gff :=
  { name := toChars x.metadata.name, gffVersion := toChars x.metadata.gffVersion,
    regionStart := x.metadata.regionStart, regionEnd := x.metadata.regionEnd, size := x.metadata.size,
    locusName := toChars x.metadata.locus.name, accession := toChars x.metadata.accession,
    locusSeqLen := toChars x.metadata.locus.sequenceLength, description := toChars x.description,
    seq := toChars x.sequence, features := (x.features.getD []).map Feature.toGff }

end PolyVerif.PolyJson
