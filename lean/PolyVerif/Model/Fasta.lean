import PolyVerif.Base.Proto
import PolyVerif.Base.Chan
/-
Model of /repo/io/fasta/fasta.go (as it is after the fixes 99317d2: `scanner.Buffer(…, math.MaxInt32)`, and
2e08c5c: lines that hold only white space are skipped).

  ParseConcurrent = `scanLines` (bufio.Scanner with the default ScanLines split function and a token
                    limit) → `parseLines` (the five-way switch with the `start` flag and the final
                    flush); the goroutine's sends and its close: `loopOps` / `producer`
  Parse           = what a `for range` consumer collects from a 1000-slot channel (`parseCollect`);
                    by Props.C13.stream_* every schedule yields `parse text`
  Build           = `build`

Core Lean only (compiled into the driver).
-/
namespace PolyVerif.Fasta
open PolyVerif

structure Rec where
  name : Str
  seq : Str
  deriving DecidableEq, Repr, Inhabited

/-! ### bufio.Scanner / bufio.ScanLines -/

/-- `dropCR`: one trailing carriage return is removed from a token -/
def dropCR (l : Str) : Str :=
  match l.getLast? with
  | some '\r' => l.dropLast
  | _ => l

/-- The tokens of `ScanLines` before `dropCR`: the text is cut at every `\n`; a last piece without
newline is a token if it is not empty ("the last non-empty line of input will be returned even if it
has no newline"). -/
def rawLines : Str → List Str
  | [] => []
  | c :: cs =>
    if c = '\n' then [] :: rawLines cs
    else match rawLines cs with
      | [] => [[c]]
      | l :: ls => (c :: l) :: ls

/-- `Scanner.Scan` in a loop that ignores `Scanner.Err()` (as ParseConcurrent does): tokens are
delivered until the first line that does not fit the buffer (`ErrTooLong` ends the loop silently).
`maxToken` is the second argument of `Scanner.Buffer`; the code passes `math.MaxInt32`.  (Where exactly
the limit falls, `≥ maxToken` or one or two bytes less depending on how reads are chunked, is not
modelled: the theorems assume every line is shorter than `maxToken - 1`.) -/
def scanLines (maxToken : Nat) (s : Str) : List Str :=
  ((rawLines s).takeWhile (fun l => l.length + 1 < maxToken)).map dropCR

def maxInt32 : Nat := 2147483647

/-! ### ParseConcurrent's loop -/

/-- `unicode.IsSpace`: the characters `strings.TrimSpace` removes -/
def spaceChars : List Char :=
  ['\t', '\n', '\x0b', '\x0c', '\r', ' ', '\u0085', '\u00a0', '\u1680', '\u2000', '\u2001', '\u2002', '\u2003',
   '\u2004', '\u2005', '\u2006', '\u2007', '\u2008', '\u2009', '\u200a', '\u2028', '\u2029', '\u202f', '\u205f', '\u3000']

def goIsSpace (c : Char) : Bool := spaceChars.contains c

/-- `len(strings.TrimSpace(line)) == 0` -/
def blankLine (line : Str) : Bool := line.all goIsSpace

/-- The loop body of ParseConcurrent over the scanner's tokens, returning the records in the order in
which they are sent to the channel; `acc` is `sequenceLines` in REVERSE order (Go appends at the end).
The five cases of the `switch`, in order: a line that is empty after `strings.TrimSpace` (empty, or white
space only); `;` comment; a line not starting with `>`
(sequence line); `>` when not at the start (flush the previous record, take the new name); the first `>`
(take the name; note that `sequenceLines` is not reset here).  After the loop the last record is sent
unconditionally — so an input without any header yields one record with an empty name. -/
def parseLines : Bool → Str → List Str → List Str → List Rec
  | _, name, acc, [] => [⟨name, acc.reverse.flatten⟩]
  | start, name, acc, line :: rest =>
    match line with
    | [] => parseLines start name acc rest
    | c :: tl =>
      if blankLine (c :: tl) then parseLines start name acc rest
      else if c = ';' then parseLines start name acc rest
      else if c ≠ '>' then parseLines start name (line :: acc) rest
      else if !start then ⟨name, acc.reverse.flatten⟩ :: parseLines false tl [] rest
      else parseLines false tl acc rest

/-- the records ParseConcurrent sends, in order -/
def parse (maxToken : Nat) (s : Str) : List Rec := parseLines true [] [] (scanLines maxToken s)

/-- the code as it is: token limit `math.MaxInt32` -/
def parseNow (s : Str) : List Rec := parse maxInt32 s

/-- fasta.Build -/
def build (rs : List Rec) : Str :=
  rs.flatMap (fun r => '>' :: r.name ++ '\n' :: r.seq ++ ['\n'])

/-! ### streaming -/

/-- The ParseConcurrent goroutine itself, statement by statement, as the channel operations it performs
while it consumes the scanner's tokens (channel 0 = `sequences`): the same five-way `switch` as `parseLines`,
but instead of returning records it SENDS — `sequences <- newFasta` at every `>` line that is not the first,
with the name and the joined `sequenceLines` accumulated so far — and after the loop sends the last record and
does `close(sequences)`.  That these sends are exactly the records of `parse`, in order, followed by the one
close is `Fasta.loopOps_eq` (Lemmas/Fasta.lean), not a definition. -/
def loopOps : Bool → Str → List Str → List Str → List (Chan.Op Rec)
  | _, name, acc, [] => [Chan.Op.send 0 ⟨name, acc.reverse.flatten⟩, Chan.Op.close 0]
  | start, name, acc, line :: rest =>
    match line with
    | [] => loopOps start name acc rest
    | c :: tl =>
      if blankLine (c :: tl) then loopOps start name acc rest
      else if c = ';' then loopOps start name acc rest
      else if c ≠ '>' then loopOps start name (line :: acc) rest
      else if !start then Chan.Op.send 0 ⟨name, acc.reverse.flatten⟩ :: loopOps false tl [] rest
      else loopOps false tl acc rest

/-- what the ParseConcurrent goroutine does to its channel: the loop above on the scanner's tokens -/
def producer (maxToken : Nat) (s : Str) : List (Chan.Op Rec) := loopOps true [] [] (scanLines maxToken s)

/-- the system: ParseConcurrent on `s` with a channel of capacity `c` -/
def system (maxToken c : Nat) (s : Str) : Chan.Sys Rec := Chan.init (fun _ => c) (producer maxToken s)

/-- one maximal run (deterministic scheduler) of ParseConcurrent against a `for range` consumer -/
def streamRun (c : Nat) (eager : Bool) (s : Str) : Chan.Sys Rec :=
  let sys := system maxInt32 c s
  Chan.runFuel Chan.ranging eager (Chan.fuelFor sys) sys

/-- fasta.Parse: the values collected from a 1000-slot channel until it is closed -/
def parseCollect (s : Str) : List Rec := Chan.recvd 0 (streamRun 1000 true s).hist

/-! ### tail-recursive line splitter for execution (proved equal to `rawLines`, Lemmas/Fasta.lean) -/

def rawLinesTR.go : Str → Str → List Str → List Str
  | [], cur, acc => (if cur = [] then acc else cur.reverse :: acc).reverse
  | c :: cs, cur, acc =>
    if c = '\n' then go cs [] (cur.reverse :: acc) else go cs (c :: cur) acc

def rawLinesTR (s : Str) : List Str := rawLinesTR.go s [] []

theorem rawLines_of_no_nl : ∀ (l : Str), '\n' ∉ l → rawLines l = if l = [] then [] else [l]
  | [], _ => rfl
  | c :: cs, h => by
    have hc : c ≠ '\n' := fun e => h (by simp [e])
    have hcs : '\n' ∉ cs := fun e => h (by simp [e])
    have ih := rawLines_of_no_nl cs hcs
    simp only [rawLines, if_neg hc, ih]
    by_cases e : cs = []
    · simp [e]
    · simp [e]

theorem rawLines_line : ∀ (l r : Str), '\n' ∉ l → rawLines (l ++ '\n' :: r) = l :: rawLines r
  | [], r, _ => by simp [rawLines]
  | c :: cs, r, h => by
    have hc : c ≠ '\n' := fun e => h (by simp [e])
    have hcs : '\n' ∉ cs := fun e => h (by simp [e])
    have ih := rawLines_line cs r hcs
    simp only [List.cons_append, rawLines, if_neg hc, ih]

theorem rawLinesTR_go_eq : ∀ (s cur : Str) (acc : List Str), '\n' ∉ cur →
    rawLinesTR.go s cur acc = acc.reverse ++ rawLines (cur.reverse ++ s)
  | [], cur, acc, h => by
    have h' : '\n' ∉ cur.reverse := by simpa using h
    simp only [rawLinesTR.go, List.append_nil, rawLines_of_no_nl _ h']
    by_cases e : cur = []
    · simp [e]
    · simp [e]
  | c :: cs, cur, acc, h => by
    have h' : '\n' ∉ cur.reverse := by simpa using h
    by_cases hc : c = '\n'
    · subst hc
      simp only [rawLinesTR.go, if_true]
      rw [rawLinesTR_go_eq cs [] _ (by simp), rawLines_line _ _ h']
      simp
    · simp only [rawLinesTR.go, if_neg hc]
      rw [rawLinesTR_go_eq cs (c :: cur) acc (by
        intro hm; rcases List.mem_cons.mp hm with e | e
        · exact hc e.symm
        · exact h e)]
      simp

@[csimp] theorem rawLines_eq_rawLinesTR : @rawLines = @rawLinesTR := by
  funext s
  simp [rawLinesTR, rawLinesTR_go_eq s [] [] (by simp)]

end PolyVerif.Fasta
