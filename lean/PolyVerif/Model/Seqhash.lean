import PolyVerif.Model.Transform
import PolyVerif.Spec.Rotation
/-
Model of poly/seqhash: boothLeastRotation, RotateSequence, Hash.

`booth` follows the Go loop statement by statement over the doubled string.  The failure
slice is stored shifted by one (`g = failure + 1`, so Go's `-1` is `0`) to stay in `Nat`.
Every index expression is bounds-checked in BOTH directions: `none` = Go would panic with an
index out of range, above the length (`S[x]?`, `g[x]?`, the explicit size tests before a write) or
below zero (the explicit `≤` guards before every subtraction: `Nat` subtraction truncates, Go's
`int` would go negative).  One guard is slightly stronger than a panic: the assignment
`leastRotationIndex = characterIndex - failure - 1` is `none` when it would make the index
NEGATIVE (Go would only panic at its next use).  So `none` covers every state in which Go panics;
`booth_safe` (Props/C12Booth) proves `none` never occurs, hence the Go loop never panics.
The inner `for failure != -1 && …` loop is run with fuel `characterIndex + 1`; fuel exhaustion is
`none` as well (`booth_safe`: it never happens; `booth_least` there shows
`rotateSequence s = some (Spec.leastRotation s)`).

`hash` takes the digest function as a parameter (`blake`); the theorems hold for every
digest, the correspondence check instantiates it with the Lean BLAKE3 of Base/Blake3.
-/
namespace PolyVerif.Seqhash
open PolyVerif PolyVerif.Transform

structure BoothState where
  k : Nat              -- leastRotationIndex
  g : Array Nat        -- failureSlice, shifted by one
deriving Repr

/-- inner loop; returns (k, i) with `i = failure + 1`, or `none` on an out-of-range index / fuel exhaustion -/
def boothInner (S : Array Char) (g : Array Nat) (c : Char) (j : Nat) : Nat → Nat → Nat → Option (Nat × Nat)
  | 0, _, _ => none
  | fuel + 1, k, i =>
    if i = 0 then some (k, i) else
    match S[k + i]? with
    | none => none
    | some d =>
      if c = d then some (k, i) else
      if c.toNat < d.toNat ∧ j < i then none else   -- `characterIndex - failure - 1` would be negative
      let k' := if c.toNat < d.toNat then j - i else k
      match g[i - 1]? with
      | none => none
      | some i' => boothInner S g c j fuel k' i'

/-- one iteration of the outer loop at `characterIndex = j` -/
def boothStep (S : Array Char) (st : BoothState) (j : Nat) : Option BoothState := do
  let c ← S[j]?
  -- `failureSlice[characterIndex-leastRotationIndex-1]`: a negative index panics
  let i0 ← if st.k + 1 ≤ j then st.g[j - st.k - 1]? else none
  let (k, i) ← boothInner S st.g c j (j + 1) st.k i0
  let d ← S[k + i]?
  if c ≠ d then
    -- here i = 0 (the inner loop ended on failure = -1), so S[k+i] = S[k]
    let k' := if c.toNat < (← S[k]?).toNat then j else k
    if k' ≤ j ∧ j - k' < st.g.size then some { k := k', g := st.g.set! (j - k') 0 } else none
  else
    if k ≤ j ∧ j - k < st.g.size then some { k := k, g := st.g.set! (j - k) (i + 1) } else none

/-- `boothLeastRotation` -/
def booth (s : Str) : Option Nat :=
  let S := (s ++ s).toArray
  let rec go (fuel j : Nat) (st : BoothState) : Option BoothState :=
    match fuel with
    | 0 => some st
    | fuel + 1 => if j < S.size then (boothStep S st j).bind (go fuel (j + 1)) else some st
  (go S.size 1 { k := 0, g := Array.replicate S.size 0 }).map (·.k)

/-- `RotateSequence`: slice `[k, k+n)` of the doubled string (bounds-checked) -/
def rotateSequence (s : Str) : Option Str :=
  match booth s with
  | none => none
  | some k => if k + s.length ≤ (s ++ s).length then some (((s ++ s).drop k).take s.length) else none

/-- Go `strings.ReplaceAll(s, "U", "T")` -/
def uToT (s : Str) : Str := s.map fun c => if c = 'U' then 'T' else c

/-- what `Hash` does to one letter before the checks: upper-case, and `U → T` under RNA -/
def normC (ty : String) (c : Char) : Char :=
  if ty = "RNA" then (if c.toUpper = 'U' then 'T' else c.toUpper) else c.toUpper

/-- what `Hash` does to the sequence before the checks (the first two assignments of `Hash`) -/
def norm (ty : String) (s : Str) : Str := if ty = "RNA" then uToT (upper s) else upper s

def nucleotideLetters : Str := "ATUGCYRSWKMBDHVNZ".toList
def proteinLetters : Str := "ACDEFGHIKLMNPQRSTVWYUO*BXZ".toList

inductive Outcome (α : Type) | ok (a : α) | err | panic
deriving Repr, DecidableEq

/-- Go's `sort.Strings` on a two-element slice, then `[0]` -/
def minStr (a b : Str) : Str := Spec.lexMin a b

/-- the deterministic sequence that is hashed, given a rotation function -/
def canon (rot : Str → Option Str) (s : Str) (circular ds : Bool) : Option Str :=
  match circular, ds with
  | true, true => do let a ← rot s; let b ← rot (revComp s); some (minStr a b)
  | true, false => rot s
  | false, true => some (minStr s (revComp s))
  | false, false => some s

def hexDigit (n : Nat) : Char := if n < 10 then Char.ofNat (48 + n) else Char.ofNat (87 + n)
def hex (bs : List UInt8) : Str := bs.flatMap fun b => [hexDigit (b.toNat / 16), hexDigit (b.toNat % 16)]

def tag (ty : String) (circular ds : Bool) : Str :=
  [if ty = "DNA" then 'D' else if ty = "RNA" then 'R' else 'P',
   if circular then 'C' else 'L', if ds then 'D' else 'S']

/-- `seqhash.Hash`, parametrised by the rotation function and the digest -/
def hashWith (rot : Str → Option Str) (blake : List UInt8 → List UInt8)
    (s : Str) (ty : String) (circular ds : Bool) : Outcome Str :=
  -- first statement of Hash: `for _, char := range sequence { if char > unicode.MaxASCII { return "", err } }`
  -- (before upper-casing, which would fold U+017F to S and U+0131 to I)
  if s.any (fun c => c.toNat > 127) then .err else
  let s := upper s
  let s := if ty = "RNA" then uToT s else s
  if ty ≠ "DNA" ∧ ty ≠ "RNA" ∧ ty ≠ "PROTEIN" then .err else
  if (ty = "DNA" ∨ ty = "RNA") ∧ ¬ s.all (fun c => nucleotideLetters.contains c) then .err else
  if ty = "PROTEIN" ∧ ¬ s.all (fun c => proteinLetters.contains c) then .err else
  if ty = "PROTEIN" ∧ ds then .err else
  match canon rot s circular ds with
  | none => .panic
  | some d =>
    .ok ("v1_".toList ++ tag ty circular ds ++ ['_'] ++ hex (blake (d.map fun c => c.toNat.toUInt8)))

/-- the model of the code: rotation by the Booth loop -/
def hash := hashWith rotateSequence

/-- the same with the arg-min spec of the least rotation (what C04/C05 are first stated over; equal to `hash` by C12's `booth_least`) -/
def hashSpec := hashWith (fun s => some (Spec.leastRotation s))

end PolyVerif.Seqhash
