import PolyVerif.Model.Transform
import PolyVerif.Gen.NNTable
/-
Model of poly/primers: SantaLucia, MarmurDoty, MeltingTemp (primers.go:22-108).

The Go code computes in float64.  The model is written ONCE, generically over a number type
`α` with `+ - * /`, an embedding of the integers and a logarithm (`Num α`), following the Go
statements in their order of evaluation.  It is instantiated twice:

* at `Float` (IEEE binary64, `Float.log`) — `floatNum`, used by the compiled driver for the
  correspondence check (same operations in the same order as Go, so enthalpies agree bit for bit
  and the rest to an ulp of `log`);
* at `ℝ` (`Real.log`) in the proof modules (Lemmas/Thermo.lean, Props/C19.lean), where the
  property's theorems are proved.

Decimal constants of the Go source (`0.368`, `1.9872`, `273.15`, `500e-9`, table entries with one
decimal, …) are written as `ofInt m / ofInt (10^e)`: in binary64 a correctly rounded division of two
exactly representable integers is the correctly rounded decimal — the value the Go compiler
produces for the literal; in `ℝ` it is the decimal itself.

The nearest-neighbour table, the initiation / symmetry penalties and the set of terminal letters
carrying a penalty are NOT typed here: they are `Gen.nnRows`, `Gen.nnInit`, `Gen.nnSymmetry`,
`Gen.nnTerminal`, re-extracted on every run from the behaviour of the compiled code (in tenths);
entries involving bytes other than A/C/G/T are kept apart (`Gen.nnOtherRows`, `Gen.nnOtherTerminal`,
capped) and are read only for out-of-domain inputs — no theorem depends on them.
-/
namespace PolyVerif.Primers
open PolyVerif PolyVerif.Transform

/-- result of a Go call that may panic -/
inductive Outcome (α : Type) where
  | ok (a : α)
  | panic
deriving Repr

def Outcome.map {α β : Type} (f : α → β) : Outcome α → Outcome β
  | .ok a => .ok (f a)
  | .panic => .panic

/-- what the code needs of `float64` besides `+ - * /`: `float64(int)` and `math.Log` -/
structure Num (α : Type) where
  ofInt : Int → α
  log : α → α

/-- binary64 with the C library logarithm -/
def floatNum : Num Float := { ofInt := Float.ofInt, log := Float.log }

section
variable {α : Type} [Add α] [Sub α] [Mul α] [Div α]

/-- the decimal literal `m · 10^-e` -/
def Num.dec (n : Num α) (m : Int) (e : Nat) : α := n.ofInt m / n.ofInt (10 ^ e)

/-- a table value given in tenths -/
def Num.tenths (n : Num α) (t : Int) : α := n.dec t 1

/-- `nearestNeighborsThermodynamics[xy]` in tenths; a missing key yields Go's zero value `{0, 0}` -/
def nnLookup (x y : Char) : Int × Int :=
  match Gen.nnRows.lookup (x.toNat, y.toNat) with
  | some p => p
  | none =>
    match Gen.nnOtherRows.lookup (x.toNat, y.toNat) with     -- pairs with a letter outside A/C/G/T (out of domain)
    | some p => p
    | none => (0, 0)

/-- the terminal penalty carried by a last letter (`== 'A' || == 'T'` in the source), as observed -/
def terminalLookup (c : Char) : Option (Int × Int) :=
  match Gen.nnTerminal.lookup c.toNat with
  | some p => some p
  | none => Gen.nnOtherTerminal.lookup c.toNat                   -- last letters outside A/C/G/T (out of domain)

/-- `for i := 0; i+1 < len(sequence); i++ { dT := table[sequence[i:i+2]]; dH += dT.H; dS += dT.S }` -/
def nnLoop (n : Num α) : Str → α × α → α × α
  | x :: y :: rest, acc =>
    nnLoop n (y :: rest) (acc.1 + n.tenths (nnLookup x y).1, acc.2 + n.tenths (nnLookup x y).2)
  | _, acc => acc

/-- the state of `SantaLucia` just before the final expression -/
structure Core (α : Type) where
  dH : α
  dS : α
  symmetryFactor : α

/-- `SantaLucia` after `sequence = strings.ToUpper(sequence)`, up to and including the neighbour loop -/
def coreUpper (n : Num α) (sequence : Str) (saltConcentration magnesiumConcentration : α) :
    Outcome (Core α) :=
  let dH := n.ofInt 0                                              -- named results start at 0
  let dS := n.ofInt 0
  let dH := dH + n.tenths Gen.nnInit.1                             -- dH += initialThermodynamicPenalty.H
  let dS := dS + n.tenths Gen.nnInit.2
  let selfComplementary := sequence == revComp sequence            -- sequence == transform.ReverseComplement(sequence)
  let dH := if selfComplementary then dH + n.tenths Gen.nnSymmetry.1 else dH
  let dS := if selfComplementary then dS + n.tenths Gen.nnSymmetry.2 else dS
  let symmetryFactor := if selfComplementary then n.ofInt 1 else n.ofInt 4
  match sequence.getLast? with
  | none => .panic                                                 -- sequence[len(sequence)-1] on ""
  | some last =>
    let dH := match terminalLookup last with                       -- last == 'A' || last == 'T'
      | some p => dH + n.tenths p.1
      | none => dH
    let dS := match terminalLookup last with
      | some p => dS + n.tenths p.2
      | none => dS
    let saltEffect := saltConcentration + magnesiumConcentration * n.ofInt 140
    let dS := dS + n.dec 368 3 * n.ofInt ((sequence.length : Int) - 1) * n.log saltEffect
    let r := nnLoop n sequence (dH, dS)
    .ok { dH := r.1, dS := r.2, symmetryFactor }

/-- `SantaLucia` up to and including the neighbour loop -/
def santaLuciaCore (n : Num α) (sequence : Str) (saltConcentration magnesiumConcentration : α) :
    Outcome (Core α) :=
  coreUpper n (upper sequence) saltConcentration magnesiumConcentration

/-- `primers.SantaLucia`: `(meltingTemp, dH, dS)` -/
def santaLucia (n : Num α) (sequence : Str) (primerConcentration saltConcentration magnesiumConcentration : α) :
    Outcome (α × α × α) :=
  (santaLuciaCore n sequence saltConcentration magnesiumConcentration).map fun k =>
    (k.dH * n.ofInt 1000 / (k.dS + n.dec 19872 4 * n.log (primerConcentration / k.symmetryFactor)) - n.dec 27315 2,
     k.dH, k.dS)

/-- `primers.MeltingTemp`: 500 nM primer, 50 mM sodium, no magnesium -/
def meltingTemp (n : Num α) (sequence : Str) : Outcome α :=
  (santaLucia n sequence (n.dec 500 9) (n.dec 50 3) (n.ofInt 0)).map (·.1)

/-- `primers.MarmurDoty` (`strings.Count` of a one-byte pattern = number of occurrences) -/
def marmurDoty (n : Num α) (sequence : Str) : α :=
  let sequence := upper sequence
  let aCount := n.ofInt (sequence.count 'A')
  let tCount := n.ofInt (sequence.count 'T')
  let cCount := n.ofInt (sequence.count 'C')
  let gCount := n.ofInt (sequence.count 'G')
  n.ofInt 2 * (aCount + tCount) + n.ofInt 4 * (cCount + gCount) - n.ofInt 7

end

end PolyVerif.Primers
