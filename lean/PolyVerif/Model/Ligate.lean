import PolyVerif.Model.Seqhash
/-
Model of poly/clone: recurseLigate, getConstructs, CircularLigate, GoldenGate (as the code is
after the fix "CircularLigate terminates when overhangs close a cycle that excludes the seed").

* `recurseLigate` is modelled as the residual PROGRAM (`Work`) of one goroutine: it either sends
  one construct, or runs the `for … range fragmentList` loop, each iteration possibly executing
  `wg.Add(1); go recurseLigate(…)` once or twice (forward match, flipped match), then `wg.Done()`.
  A `Work` value therefore is the whole spawn tree.  The Go recursion has no fuel; the model
  recursion is structural on a fuel argument, initial value `pool.length`, and a fuel-exhausted
  call is the explicit constructor `Work.stuck` (Props/C09 `fuel_never_exhausted`: it never occurs).
* `emits` lists the sends of a tree in depth-first order.  The order in which the collector
  RECEIVES them is decided by the Go scheduler; `System` below is the interleaving semantics
  (unbuffered channel, WaitGroup, close-after-Wait) and every function that depends on the arrival
  order takes the arrival list as an argument.
* `getConstructs` is the collector's loop as a fold over the arrival list, with the list of seen
  keys.  The key is `seqhash.Hash(construct, "DNA", true, true)` with the error IGNORED (`_`): for a
  construct with a letter outside `ATUGCYRSWKMBDHVNZ` the hash is the empty string, so all such
  constructs share one key (`Key.invalid`) and only the first to arrive is kept.  For a valid
  construct the hash is `"v1_DCD_" ++ hex (blake3 d)` where `d = Seqhash.canon …` is the canonical
  form; the model key is `d` itself (`key_hashSpec` in Props/C09 states the relation to the hash
  model; equal canonical forms give equal hashes, the converse is BLAKE3 collision-freeness).
-/
namespace PolyVerif.Ligate
open PolyVerif PolyVerif.Transform

/-- `clone.Fragment` -/
structure Fragment where
  seq : Str
  fwd : Str
  rev : Str
deriving DecidableEq, Repr

/-- `clone.Part` -/
structure Part where
  seq : Str
  circular : Bool
deriving DecidableEq, Repr

/-- residual program of one `recurseLigate` goroutine (its spawn tree) -/
inductive Work where
  | done                               -- only the deferred `wg.Done()` is left
  | send (s : Str)                     -- `c <- s`, then `wg.Done()`
  | spawn (child rest : Work)          -- `wg.Add(1); go child`, then continue with `rest`
  | stuck                              -- model artefact: fuel exhausted (never reached)
deriving Repr

/-- the inner loop `for _, usedFragment := range usedFragments { if usedFragment == newFragment … }` -/
def alreadyUsed (used : List Fragment) (n : Fragment) : Bool := used.any (fun u => u == n)

/-- new seed of the forward ligation -/
def extendFwd (seed n : Fragment) : Fragment :=
  ⟨seed.seq ++ seed.rev ++ n.seq, seed.fwd, n.rev⟩

/-- new seed of the ligation of `n` in its reverse direction -/
def extendRev (seed n : Fragment) : Fragment :=
  ⟨seed.seq ++ seed.rev ++ revComp n.seq, seed.fwd, revComp n.fwd⟩

/-- the goroutines started by one pass of the `for` loop, in program order, each with its
`newUsedFragments` -/
def children (pool : List Fragment) (seed : Fragment) (used : List Fragment) : List (Fragment × List Fragment) :=
  pool.flatMap fun n =>
    if alreadyUsed used n then [] else
      (if seed.rev = n.fwd then [(extendFwd seed n, used ++ [n])] else []) ++
      (if seed.rev = revComp n.rev ∧ seed.rev ≠ revComp seed.rev then [(extendRev seed n, used ++ [n])] else [])

/-- `recurseLigate(wg, c, seed, fragmentList = pool, usedFragments = used)` -/
def recurseLigate (pool : List Fragment) : Nat → Fragment → List Fragment → Work
  | 0, _, _ => .stuck
  | fuel + 1, seed, used =>
    if seed.fwd = seed.rev then .send (seed.fwd ++ seed.seq)
    else (children pool seed used).foldr (fun ch rest => .spawn (recurseLigate pool fuel ch.1 ch.2) rest) .done

/-- the sends of a spawn tree, depth first -/
def emits : Work → List Str
  | .done => []
  | .send s => [s]
  | .spawn c r => emits c ++ emits r
  | .stuck => []

/-- no fuel-exhausted call anywhere in the tree -/
def noStuck : Work → Bool
  | .done => true
  | .send _ => true
  | .spawn c r => noStuck c && noStuck r
  | .stuck => false

/-- nesting depth of `go` statements (a goroutine that spawns nothing has depth 1) -/
def depth : Work → Nat
  | .spawn c r => max (depth c + 1) (depth r)
  | .stuck => 0
  | _ => 1

/-- number of atomic steps a goroutine tree takes (spawn, send, Done) -/
def size : Work → Nat
  | .done => 1
  | .send _ => 2
  | .spawn c r => size c + size r + 1
  | .stuck => 1

/-- the goroutines `CircularLigate` starts in its `for _, fragment := range fragments` loop -/
def seedWorks (pool : List Fragment) : List Work :=
  pool.map fun f => recurseLigate pool pool.length f [f]

/-- everything that is ever sent on the construct channel, in depth-first order (the multiset is
what matters: the arrival order is any permutation of it) -/
def emitted (pool : List Fragment) : List Str := (seedWorks pool).flatMap emits

/-! ### the collector -/

inductive Key where
  | invalid             -- `Hash` returned ("", err); the error is dropped by `getConstructs`
  | canon (d : Str)     -- the deterministic sequence that is hashed
deriving DecidableEq, Repr

/-- the key with the rotation function as a parameter -/
def keyWith (rot : Str → Str) (s : Str) : Key :=
  -- `Hash` first rejects every non-ASCII rune, then upper-cases and checks the alphabet
  if s.any (fun c => c.toNat > 127) then .invalid else
  let u := upper s
  if u.all (fun c => Seqhash.nucleotideLetters.contains c) then
    match Seqhash.canon (fun x => some (rot x)) u true true with
    | some d => .canon d
    | none => .invalid
  else .invalid

/-- model of `seqhashConstruct, _ := seqhash.Hash(construct, "DNA", true, true)` (up to the digest),
over the arg-min least rotation (i.e. modulo C12) -/
def key : Str → Key := keyWith Spec.leastRotation

/-- `getConstructs`: the receive loop over the arrival order; state = (constructs, existingSeqhashes) -/
def collect (key : Str → Key) : List Str → List Str → List Key → List Str
  | [], constructs, _ => constructs
  | c :: rest, constructs, existing =>
    let k := key c
    if existing.any (fun e => e == k) then collect key rest constructs existing
    else collect key rest (constructs ++ [c]) (existing ++ [k])

def getConstructsWith (key : Str → Key) (arrivals : List Str) : List Str := collect key arrivals [] []

def getConstructs (arrivals : List Str) : List Str := getConstructsWith key arrivals

/-- `CircularLigate(pool)` when the constructs arrive in the order `arrivals` (some permutation of
`emitted pool`, chosen by the scheduler; the pool enters only through that list) -/
def circularLigate (_pool : List Fragment) (arrivals : List Str) : List Str := getConstructs arrivals

/-- `CircularLigate` under the depth-first schedule -/
def circularLigateDFS (pool : List Fragment) : List Str := circularLigate pool (emitted pool)

/-- the fragments `GoldenGate` hands to `CircularLigate`; `cut part` stands for
`CutWithEnzymeByName(part, true, enzyme)` (C10; here a parameter) -/
def goldenGatePool (cut : Part → List Fragment) (parts : List Part) : List Fragment := parts.flatMap cut

def goldenGate (cut : Part → List Fragment) (parts : List Part) (arrivals : List Str) : List Str :=
  circularLigate (goldenGatePool cut parts) arrivals

/-! ### the goroutine system of `CircularLigate`

Processes: `main` (launch loop, `wg.Wait()`, `close(c)`, receive the result), the `recurseLigate`
goroutines, the collector `getConstructs`.  The channel `c` is unbuffered: a send is a rendezvous
with the collector, which is started after the launch loop and from then on is always ready to
receive.  `wg.Add(1)` is executed by the parent BEFORE the `go` statement, `wg.Done()` is the
child's last action. -/

/-- What the goroutine system below assumes about clone.go, as far as syntax can show it (compared with the facts
`Gen.clone…` that harness/cmd/extract-clone regenerates from the source on every run; Props/C09 `clone_structure_pinned`).
Coarse on purpose — a vocabulary, not a layout: within the functions reachable from `CircularLigate`
* the only synchronisation mechanisms are `go`, a `chan string` for the constructs, a `chan []Part` for the result,
  `close`, and a `sync.WaitGroup` (no mutex, no semaphore channel, no `select`, no atomics, no `sync.Map` …);
* of the watched method names only `Add`, `Done`, `Wait` are called;
* exactly one function receives from a `chan string` (one collector), and something sends on one.
* order (each about the statements of ONE statement list): every `go` that starts a worker (a body that calls `Done`) is
  immediately preceded by `….Add(…)` (Step.launch / Step.spawn increment `wg` in the same step that adds the process);
  the first statement of a worker body is `defer ….Done()` (Step.done is the last step of every process, also after a send);
  every `close` of a `chan string` comes after a waiting statement (Step.close requires `wg = 0`); the `go` that starts the
  collector comes before the waiting statement (Step.send needs the collector; otherwise `wg.Wait()` would never return).
How many goroutines there are, whether the construct channel is buffered, whether the collector ranges over the channel —
the Step system fixes one such layout (the one transcribed from clone.go 264-343), the pin does not: a buffered construct
channel in particular is indistinguishable, at this level, from the harmless rewrite seeded-harmless/C09-h3. -/
def expectedCloneFacts : List String × List String × Nat × Bool × Bool × Bool × Bool × Bool :=
  (["chan:[]Part", "chan:string", "close", "go", "sync.WaitGroup"], ["Add", "Done", "Wait"], 1, true, true, true, true, true)

structure Sys where
  seeds : List Work            -- main's launch loop: goroutines still to be started
  procs : List Work            -- live `recurseLigate` goroutines (residual programs)
  wg : Nat                     -- the WaitGroup counter
  closed : Bool                -- `close(c)` has been executed
  recvd : List Str             -- what the collector has received so far, in arrival order
  result : Option (List Str)   -- set when the collector saw the closed channel and handed over
  panicked : Bool              -- send on a closed channel / negative WaitGroup counter

def Sys.init (seeds : List Work) : Sys :=
  { seeds := seeds, procs := [], wg := 0, closed := false, recvd := [], result := none, panicked := false }

inductive Step : Sys → Sys → Prop where
  /-- main: `wg.Add(1); go recurseLigate(seed …)` -/
  | launch {s : Sys} {t : Work} {ts : List Work} :
      s.panicked = false → s.seeds = t :: ts →
      Step s { s with seeds := ts, procs := t :: s.procs, wg := s.wg + 1 }
  /-- a goroutine executes `wg.Add(1); go child` -/
  | spawn {s : Sys} {l r : List Work} {c k : Work} :
      s.panicked = false → s.procs = l ++ Work.spawn c k :: r →
      Step s { s with procs := l ++ k :: r ++ [c], wg := s.wg + 1 }
  /-- rendezvous on the open channel with the (running) collector -/
  | send {s : Sys} {l r : List Work} {x : Str} :
      s.panicked = false → s.procs = l ++ Work.send x :: r → s.seeds = [] → s.closed = false →
      Step s { s with procs := l ++ Work.done :: r, recvd := s.recvd ++ [x] }
  /-- send on a closed channel: Go panics -/
  | sendClosed {s : Sys} {l r : List Work} {x : Str} :
      s.panicked = false → s.procs = l ++ Work.send x :: r → s.closed = true →
      Step s { s with panicked := true }
  /-- deferred `wg.Done()`; the goroutine ends -/
  | done {s : Sys} {l r : List Work} :
      s.panicked = false → s.procs = l ++ Work.done :: r → 0 < s.wg →
      Step s { s with procs := l ++ r, wg := s.wg - 1 }
  /-- `wg.Done()` on a zero counter: Go panics ("negative WaitGroup counter") -/
  | doneNegative {s : Sys} {l r : List Work} :
      s.panicked = false → s.procs = l ++ Work.done :: r → s.wg = 0 →
      Step s { s with panicked := true }
  /-- main: `wg.Wait()` returns (counter zero) and `close(c)` -/
  | close {s : Sys} :
      s.panicked = false → s.seeds = [] → s.wg = 0 → s.closed = false →
      Step s { s with closed := true }
  /-- collector: receive on the closed channel gives `more = false`; the list goes to main -/
  | deliver {s : Sys} :
      s.panicked = false → s.closed = true → s.result = none →
      Step s { s with result := some s.recvd }

/-- reachability -/
inductive Reach (s₀ : Sys) : Sys → Prop where
  | refl : Reach s₀ s₀
  | step {s s' : Sys} : Reach s₀ s → Step s s' → Reach s₀ s'

end PolyVerif.Ligate
