import PolyVerif.Spec.Nucleotide
import PolyVerif.Spec.Rotation
/-
Independent spec of directional Type IIS digestion (property C10).

Shape: the plasmid is a CYCLIC word, read by index modulo its length (no doubling, no
sorting, no pairing loop).  A recognition site occurring at `p` (read clockwise) cuts
`|site| + skip` letters further on; the reverse complement of the site occurring at `q`
(a site pointing counter-clockwise) cuts `skip` letters before `q`.  From every forward cut we
walk clockwise: the digestion yields the stretch up to the NEXT cut exactly when that cut
belongs to a backward-pointing site; the stretch is reported as (first `oh` letters,
interior, last `oh` letters).  The result is a multiset (lists compared up to `List.Perm`).

A linear part is read the same way on the linear word (no wrap-around): all cuts and
stretches lie inside it.

Enzyme geometry is pinned from REBASE (`GGTCTC(1/5)` = cut 1 after the site on the top strand,
5 on the bottom strand: skip 1, overhang 5 - 1 = 4).
-/
namespace PolyVerif.DigestSpec
open PolyVerif PolyVerif.Spec

/-- recognition site (upper-case ACGT), letters skipped before the cut, overhang length -/
structure Geometry where
  site : Str
  skip : Nat
  oh : Nat
deriving DecidableEq, Repr

/-- REBASE notation `SITE(a/b)` -/
def ofRebase (site : String) (a b : Nat) : Geometry := ⟨site.toList, a, b - a⟩

/-- the three built-in enzymes, from REBASE: BsaI GGTCTC(1/5), BbsI GAAGAC(2/6), BtgZI GCGATG(10/14) -/
def builtin : List (String × Geometry) :=
  [("BsaI", ofRebase "GGTCTC" 1 5), ("BbsI", ofRebase "GAAGAC" 2 6), ("BtgZI", ofRebase "GCGATG" 10 14)]

/-- the site as read on the opposite strand: reversed, each base complemented (code sets of Spec/Nucleotide) -/
def rcSite (site : Str) : Str := site.reverse.map complCode

def isUpperAcgt (c : Char) : Bool := c == 'A' || c == 'C' || c == 'G' || c == 'T'

/-! ### the cyclic word

A cyclic word of length `n` is its reading function `w : Nat → Char`, `w i` = the letter `i`
steps clockwise from the stored origin (so `w (i + n) = w i`).  Everything below is written
over `(w, n)`; for a stored sequence `u` the reading function is `letter u`. -/

/-- letter at index `i` of the cyclic word stored as `u` -/
def letter (u : Str) (i : Nat) : Char := u.getD (i % u.length) 'N'

/-- the `len` letters read clockwise from index `p` -/
def window (w : Nat → Char) (p len : Nat) : Str := (List.range len).map fun j => w (p + j)

/-- `x` is read clockwise at `p` (letter by letter, so that a mismatch is noticed at once) -/
def occurs (w : Nat → Char) (x : Str) (p : Nat) : Bool :=
  (List.range x.length).all fun j => w (p + j) == x.getD j 'N'

/-- all positions `0 ≤ p < n` at which `x` is read -/
def sites (w : Nat → Char) (n : Nat) (x : Str) : List Nat := (List.range n).filter (occurs w x)

/-- representative in `[0, n)` of an integer position -/
def wrap (n : Nat) (x : Int) : Nat := (x % (n : Int)).toNat

/-- clockwise distance from position `a` to position `b` (both `< n`) -/
def dist (n a b : Nat) : Nat := (b + n - a) % n

/-- cut of a forward site at `p`: `|site| + skip` letters further on -/
def fwdCut (g : Geometry) (n p : Nat) : Nat := (p + g.site.length + g.skip) % n

/-- cut of a backward-pointing site whose reverse complement is read at `q`: `skip` letters before `q` -/
def revCut (g : Geometry) (n q : Nat) : Nat := wrap n ((q : Int) - (g.skip : Int))

def fwdCuts (g : Geometry) (w : Nat → Char) (n : Nat) : List Nat := (sites w n g.site).map (fwdCut g n)
def revCuts (g : Geometry) (w : Nat → Char) (n : Nat) : List Nat := (sites w n (rcSite g.site)).map (revCut g n)

/-- length of the stretch from the forward cut `c` to the next cut, when that cut is a reverse cut:
the nearest reverse cut lies at distance `d`, and every other forward cut is further away. -/
def stretch (n : Nat) (fs rs : List Nat) (c : Nat) : Option Nat :=
  match (rs.map (dist n c)).min? with
  | none => none
  | some d => if (fs.filter (· != c)).all (fun c' => d < dist n c c') then some d else none

/-- (first `oh` letters, interior, last `oh` letters) -/
def triple (oh : Nat) (x : Str) : Str × Str × Str :=
  (x.take oh, (x.drop oh).take (x.length - 2 * oh), x.drop (x.length - oh))

/-- digestion of the cyclic word `(w, n)` -/
def digestW (g : Geometry) (w : Nat → Char) (n : Nat) : List (Str × Str × Str) :=
  let fs := fwdCuts g w n
  let rs := revCuts g w n
  fs.filterMap fun c => (stretch n fs rs c).map fun d => triple g.oh (window w c d)

/-- digestion of the upper-case cyclic word stored as `u` -/
def digestU (g : Geometry) (u : Str) : List (Str × Str × Str) := digestW g (letter u) u.length

/-- digestion of a circular part (letter case is irrelevant) -/
def digest (g : Geometry) (s : Str) : List (Str × Str × Str) := digestU g (s.map Char.toUpper)

/-! ### well-formed layouts (the property's quantifier) -/

/-- a non-empty, non-palindromic site over upper-case ACGT; any skip, any overhang length
(0 = a blunt cutter such as MlyI `GAGTC(5/5)`) -/
def wfGeometry (g : Geometry) : Bool :=
  g.site.length ≥ 1 && g.site.all isUpperAcgt && g.site != rcSite g.site

/-- site occurrences (either orientation) do not overlap one another around the circle -/
def noOverlap (g : Geometry) (w : Nat → Char) (n : Nat) : Bool :=
  let occ := sites w n g.site ++ sites w n (rcSite g.site)
  occ.all fun p => occ.all fun p' => p == p' || g.site.length ≤ dist n p p'

/-- paired cuts are at least two overhang lengths apart -/
def pairedApart (g : Geometry) (w : Nat → Char) (n : Nat) : Bool :=
  let fs := fwdCuts g w n
  let rs := revCuts g w n
  fs.all fun c => match stretch n fs rs c with
    | none => true
    | some d => 2 * g.oh ≤ d

def wfLayoutW (g : Geometry) (w : Nat → Char) (n : Nat) : Bool :=
  wfGeometry g && g.site.length ≤ n && noOverlap g w n && pairedApart g w n

def wfLayoutU (g : Geometry) (u : Str) : Bool := wfLayoutW g (letter u) u.length

/-- the layouts the theorems cover for a circular part -/
def wfLayout (g : Geometry) (s : Str) : Bool := wfLayoutU g (s.map Char.toUpper)

/-! ### coincident cuts (blunt cutters only)

With overhang length 0 a forward and a backward-pointing site can cut at the SAME bond.  The property
statement ("the stretches lying between the cut of a forward-pointing site and the cut of the next
backward-pointing site", "paired cuts at least two overhang lengths APART") does not say what the
digestion returns there: whether the empty stretch counts as a fragment, and whether a bond cut from
both sides ends the stretch of an earlier forward cut.  `stretch` above resolves both ties one way
(the empty stretch is reported; a forward cut at the same distance as the nearest reverse cut cancels
the stretch); `stretchAlt` resolves both the other way.  The PROPERTY'S QUANTIFIER is `wfLayout` minus
the layouts with a coincident forward/reverse cut (`noCoincident`): there the two resolutions agree
(`tie_free` in Props/C10), so nothing judged depends on the choice.  On layouts with coincident cuts
the theorems still hold for the stated resolution, but they are not judged against the code. -/

/-- no forward cut shares its bond with a reverse cut -/
def noCoincident (g : Geometry) (w : Nat → Char) (n : Nat) : Bool :=
  (fwdCuts g w n).all fun c => !(revCuts g w n).contains c

/-- the other resolution of both ties: a reverse cut at the same bond is not "the next" cut, and a
forward cut at the same distance as the nearest reverse cut does not cancel the stretch -/
def stretchAlt (n : Nat) (fs rs : List Nat) (c : Nat) : Option Nat :=
  match (rs.map (dist n c)).min? with
  | none => none
  | some d => if d == 0 then none
              else if (fs.filter (· != c)).all (fun c' => d ≤ dist n c c') then some d else none

def digestAltW (g : Geometry) (w : Nat → Char) (n : Nat) : List (Str × Str × Str) :=
  let fs := fwdCuts g w n
  let rs := revCuts g w n
  fs.filterMap fun c => (stretchAlt n fs rs c).map fun d => triple g.oh (window w c d)

/-- the property's quantifier for a circular part (upper-cased word) -/
def inQuantifierW (g : Geometry) (w : Nat → Char) (n : Nat) : Bool := wfLayoutW g w n && noCoincident g w n

/-! ### linear parts: the same reading without wrap-around (`w` is only consulted below `n`) -/

def linSites (w : Nat → Char) (n : Nat) (x : Str) : List Nat :=
  (List.range (n + 1 - x.length)).filter (occurs w x)

def linFwdCuts (g : Geometry) (w : Nat → Char) (n : Nat) : List Int :=
  (linSites w n g.site).map fun p => ((p + g.site.length + g.skip : Nat) : Int)

def linRevCuts (g : Geometry) (w : Nat → Char) (n : Nat) : List Int :=
  (linSites w n (rcSite g.site)).map fun (q : Nat) => (q : Int) - (g.skip : Int)

/-- stretch from the forward cut `c` to the next cut to its right, when that is a reverse cut -/
def linStretch (fs rs : List Int) (c : Int) : Option Nat :=
  match ((rs.filter (c ≤ ·)).map fun r => (r - c).toNat).min? with
  | none => none
  | some d => if (fs.filter (c < ·)).all (fun c' => (d : Int) < c' - c) then some d else none

def digestLinW (g : Geometry) (w : Nat → Char) (n : Nat) : List (Str × Str × Str) :=
  let fs := linFwdCuts g w n
  let rs := linRevCuts g w n
  fs.filterMap fun c => (linStretch fs rs c).map fun d => triple g.oh (window w c.toNat d)

def digestLinU (g : Geometry) (u : Str) : List (Str × Str × Str) := digestLinW g (letter u) u.length

def digestLin (g : Geometry) (s : Str) : List (Str × Str × Str) := digestLinU g (s.map Char.toUpper)

def noOverlapLin (g : Geometry) (w : Nat → Char) (n : Nat) : Bool :=
  let occ := linSites w n g.site ++ linSites w n (rcSite g.site)
  occ.all fun p => occ.all fun p' => p == p' || p + g.site.length ≤ p' || p' + g.site.length ≤ p

def pairedApartLin (g : Geometry) (w : Nat → Char) (n : Nat) : Bool :=
  let fs := linFwdCuts g w n
  let rs := linRevCuts g w n
  fs.all fun c => match linStretch fs rs c with
    | none => true
    | some d => 2 * g.oh ≤ d

def wfLinearW (g : Geometry) (w : Nat → Char) (n : Nat) : Bool :=
  wfGeometry g && noOverlapLin g w n && pairedApartLin g w n

def noCoincidentLin (g : Geometry) (w : Nat → Char) (n : Nat) : Bool :=
  (linFwdCuts g w n).all fun c => !(linRevCuts g w n).contains c

def linStretchAlt (fs rs : List Int) (c : Int) : Option Nat :=
  match ((rs.filter (c < ·)).map fun r => (r - c).toNat).min? with
  | none => none
  | some d => if (fs.filter (c < ·)).all (fun c' => (d : Int) ≤ c' - c) then some d else none

def digestLinAltW (g : Geometry) (w : Nat → Char) (n : Nat) : List (Str × Str × Str) :=
  let fs := linFwdCuts g w n
  let rs := linRevCuts g w n
  fs.filterMap fun c => (linStretchAlt fs rs c).map fun d => triple g.oh (window w c.toNat d)

/-- the property's quantifier for a linear part (upper-cased word) -/
def inQuantifierLinW (g : Geometry) (w : Nat → Char) (n : Nat) : Bool := wfLinearW g w n && noCoincidentLin g w n

def wfLinear (g : Geometry) (s : Str) : Bool :=
  let u := s.map Char.toUpper
  wfLinearW g (letter u) u.length

/-! ### fast reading function for the compiled judge (array-backed; `letterA_eq` in
Lemmas/Digest.lean proves it equal to `letter`) -/

def letterA (a : Array Char) (i : Nat) : Char := a.getD (i % a.size) 'N'

end PolyVerif.DigestSpec
