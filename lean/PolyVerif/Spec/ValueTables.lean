import PolyVerif.Model.CodonOps
/-
VALUE semantics of codon tables (spec side of C08 and C18).  Nothing here mentions memory: a table is an
immutable value, every operation returns a new value, a default table requested by id is always the
pristine one.  Independent of Model/CodonTables.lean (it imports only the shared data types and the vocabulary of
histories, Model/CodonOps.lean):

* `countCodons s c` — number of in-frame triplets of the upper-cased sequence equal to `c`, by cutting the
  sequence into chunks of three and counting (no loop state, no map);
* `reweight t s` — every weight replaced by that count, nothing else touched;
* `runValue` — histories of operations on values; the two combining operations are parameters
  (`addF`, `cmpF`), their own specs are the C18 predicates below;
* `Linear` — the histories on which value semantics and the real (sharing) semantics must agree;
* C18: tables read "as maps" (`weightOf`, `totalOf`, `pairs`) and the predicates the judge evaluates on the
  implementation's output (`isSumOf`, `isCompromiseOf`, `sameCode`).
-/
namespace PolyVerif.Spec.ValueTables
open PolyVerif PolyVerif.Codon PolyVerif.CodonTables

/-! ## counting -/

def chunks3 : Str → List Str
  | a :: b :: c :: rest => [a, b, c] :: chunks3 rest
  | _ => []

def upper (s : Str) : Str := s.map Char.toUpper

def countCodons (s : Str) (c : Str) : Nat := (chunks3 (upper s)).count c

def mapWeights (f : Str → Str → Int → Int) (t : Table) : Table :=
  { t with aminoAcids := t.aminoAcids.map fun a =>
      { a with codons := a.codons.map fun c => { c with weight := f a.letter c.triplet c.weight } } }

/-- re-weighting as a function on values -/
def reweight (t : Table) (s : Str) : Table := mapWeights (fun _ x _ => (countCodons s x : Int)) t

/-- the genetic code of a table: everything but the weights -/
def codeOf (t : Table) : List Str × List Str × List (Str × List Str) :=
  (t.startCodons, t.stopCodons, t.aminoAcids.map fun a => (a.letter, a.codons.map (·.triplet)))

/-- the ids of the NCBI genetic codes the property speaks about (typed from the NCBI list, not regenerated: an id the
code answers in addition, e.g. an alias, is outside the property) -/
def ncbiIds : List Nat := [1, 2, 3, 4, 5, 6, 9, 10, 11, 12, 13, 14, 16, 21, 22, 23, 24, 25, 26, 27, 28, 29, 30, 31, 33]

/-! ## histories on values -/

structure VState where
  handles : List Table
  trace : List Obs

def VState.push (st : VState) (t : Table) (o : Obs) : VState :=
  { handles := st.handles ++ [t], trace := st.trace ++ [o] }

def vstep {κ : Type} (addF : Table → Table → Table) (cmpF : Table → Table → κ → Outcome Table) (defs : List (Nat × Table))
    (st : VState) : Op κ → VState
  | .get id =>
    match defs.lookup id with
    | some t => st.push t (.table t)
    | none => st.push zeroTable (.table zeroTable)
  | .reweight h s =>
    match st.handles[h]? with
    | some t => st.push (reweight t s) (.table (reweight t s))
    | none => st.push zeroTable .fault
  | .add h1 h2 =>
    match st.handles[h1]?, st.handles[h2]? with
    | some t1, some t2 => st.push (addF t1 t2) (.table (addF t1 t2))
    | _, _ => st.push zeroTable .fault
  | .compromise h1 h2 cut =>
    match st.handles[h1]?, st.handles[h2]? with
    | some t1, some t2 =>
      match cmpF t1 t2 cut with
      | .ok r => st.push r (.table r)
      | .err => st.push zeroTable .err
      | .panic => st.push zeroTable .panic
    | _, _ => st.push zeroTable .fault
  | .json h =>
    match st.handles[h]? with
    | some t => st.push t (.table t)
    | none => st.push zeroTable .fault
  | .observe h =>
    match st.handles[h]? with
    | some t => st.push zeroTable (.table t)
    | none => st.push zeroTable .fault

def runValue {κ : Type} (addF : Table → Table → Table) (cmpF : Table → Table → κ → Outcome Table) (defs : List (Nat × Table))
    (hist : List (Op κ)) : List Obs :=
  (hist.foldl (vstep addF cmpF defs) { handles := [], trace := [] }).trace

/-! ## Linear histories

Every handle belongs to a REGION (the table it was ultimately copied from without a deep copy): the k-th
default table is region k; `add`, `compromise`, `json`, `observe` and a `get` of an unknown id open a new
region; `reweight h _` stays in the region of `h`.  A region that has been re-weighted has an OWNER, the
handle returned by the most recent re-weighting; every other handle of that region is STALE.
A history is `Linear` when
  * no stale handle is READ (as an operand of add / compromise / json / observe), and
  * no default id is requested again after a handle to it was re-weighted.
Re-weighting THROUGH a stale handle is allowed: it overwrites every weight and reads none, so its result
is the same in both semantics.  This is weaker than "a handle is never used again after it was
re-weighted"; dropping either remaining condition is refuted by the witnesses in Props/C08. -/

structure LState where
  regions : List Nat             -- region of handle k
  next : Nat                     -- next fresh region
  owners : List (Nat × Nat)      -- region ↦ owning handle (only re-weighted regions have an entry)

def indexOfId : List (Nat × Table) → Nat → Option Nat
  | [], _ => none
  | (i, _) :: rest, id => if i = id then some 0 else (indexOfId rest id).map (· + 1)

/-- handle `k` may be read -/
def LState.readable (st : LState) (k : Nat) : Bool :=
  match st.regions[k]? with
  | none => true                       -- no such handle: both semantics answer `fault`
  | some r => match st.owners.lookup r with
    | none => true
    | some j => j == k

def LState.fresh (st : LState) : LState := { st with regions := st.regions ++ [st.next], next := st.next + 1 }

/-- one step: `none` = the step breaks linearity -/
def lstep {κ : Type} (defs : List (Nat × Table)) (st : LState) : Op κ → Option LState
  | .get id =>
    match indexOfId defs id with
    | none => some st.fresh
    | some r => if (st.owners.lookup r).isNone then some { st with regions := st.regions ++ [r] } else none
  | .reweight h _ =>
    match st.regions[h]? with
    | none => some st.fresh
    | some r => some { st with regions := st.regions ++ [r], owners := (r, st.regions.length) :: st.owners }
  | .add h1 h2 => if st.readable h1 && st.readable h2 then some st.fresh else none
  | .compromise h1 h2 _ => if st.readable h1 && st.readable h2 then some st.fresh else none
  | .json h => if st.readable h then some st.fresh else none
  | .observe h => if st.readable h then some st.fresh else none

def linearFrom {κ : Type} (defs : List (Nat × Table)) : LState → List (Op κ) → Bool
  | _, [] => true
  | st, op :: rest => match lstep defs st op with
    | none => false
    | some st' => linearFrom defs st' rest

def LState.init (defs : List (Nat × Table)) : LState := { regions := [], next := defs.length, owners := [] }

def Linear {κ : Type} (defs : List (Nat × Table)) (hist : List (Op κ)) : Bool := linearFrom defs (LState.init defs) hist

/-! ### which sharing a non-Linear history exposes

`lforce` is `lstep` made total: when the step breaks linearity it still advances (as the heap semantics
does) and names the REGION whose sharing the step exposes.  A region below `defs.length` is a package-level
default table (known finding C08-alias-default); any other region is a table built by add / compromise /
json whose receiver was re-weighted in place (known finding C08-receiver-mutated). -/

def regionOf (st : LState) (h : Nat) : Nat := (st.regions[h]?).getD 0

def lforce {κ : Type} (defs : List (Nat × Table)) (st : LState) (op : Op κ) : LState × Option Nat :=
  match lstep defs st op with
  | some st' => (st', none)
  | none =>
    match op with
    | .get id => match indexOfId defs id with
      | some r => ({ st with regions := st.regions ++ [r] }, some r)
      | none => (st.fresh, none)
    | .reweight _ _ => (st.fresh, none)
    | .add h1 h2 => (st.fresh, some (if st.readable h1 then regionOf st h2 else regionOf st h1))
    | .compromise h1 h2 _ => (st.fresh, some (if st.readable h1 then regionOf st h2 else regionOf st h1))
    | .json h => (st.fresh, some (regionOf st h))
    | .observe h => (st.fresh, some (regionOf st h))

/-- the regions exposed by the linearity breaks of a history, in order -/
def breaksFrom {κ : Type} (defs : List (Nat × Table)) : LState → List (Op κ) → List Nat
  | _, [] => []
  | st, op :: rest =>
    match (lforce defs st op).2 with
    | some r => r :: breaksFrom defs (lforce defs st op).1 rest
    | none => breaksFrom defs (lforce defs st op).1 rest

def breaks {κ : Type} (defs : List (Nat × Table)) (hist : List (Op κ)) : List Nat := breaksFrom defs (LState.init defs) hist

/-! ## C18: tables as maps -/

/-- all (letter, triplet, weight) entries in table order -/
def entries (t : Table) : List (Str × Str × Int) :=
  t.aminoAcids.flatMap fun a => a.codons.map fun c => (a.letter, c.triplet, c.weight)

/-- weight of the first entry with this triplet (0 when absent) -/
def weightOfE (E : List (Str × Str × Int)) (x : Str) : Int :=
  match E.find? (fun e => e.2.1 == x) with
  | some e => e.2.2
  | none => 0

/-- weight of triplet `x` under letter `l` -/
def weightAtE (E : List (Str × Str × Int)) (l x : Str) : Int :=
  match E.find? (fun e => e.1 == l && e.2.1 == x) with
  | some e => e.2.2
  | none => 0

def sumInts (l : List Int) : Int := l.foldr (· + ·) 0

/-- total weight of the entries under letter `l` -/
def totalOfE (E : List (Str × Str × Int)) (l : Str) : Int :=
  sumInts ((E.filter fun e => e.1 == l).map (·.2.2))

/-- weight of the first codon with this triplet (0 when absent) -/
def weightOf (t : Table) (x : Str) : Int := weightOfE (entries t) x

/-- weight of triplet `x` under letter `l` -/
def weightAt (t : Table) (l x : Str) : Int := weightAtE (entries t) l x

/-- total weight of the codons listed under letter `l` -/
def totalOf (t : Table) (l : Str) : Int := totalOfE (entries t) l

/-- (letter, triplet) assignment -/
def pairs (t : Table) : List (Str × Str) := (entries t).map fun e => (e.1, e.2.1)

/-- well-formed code: no letter listed twice, no triplet listed twice -/
def WFCode (t : Table) : Bool :=
  decide (t.aminoAcids.map (·.letter)).Nodup && decide ((entries t).map (·.2.1)).Nodup

/-- same genetic code as maps (order-insensitive) -/
def sameCode (t1 t2 : Table) : Bool :=
  let p1 := pairs t1
  let p2 := pairs t2
  p1.all (fun p => p2.contains p) && p2.all (fun p => p1.contains p)

/-- two well-formed tables over the same genetic code (any order of amino acids and codons) -/
def Compatible (t1 t2 : Table) : Bool := WFCode t1 && WFCode t2 && sameCode t1 t2

/-- every amino acid occurs -/
def posTotals (t : Table) : Bool := t.aminoAcids.all fun a => decide (0 < sumInts (a.codons.map (·.weight)))

/-- every weight is at most its amino acid's total, and totals stay below 2^38 (the float64 bridge of Props/C18F64
needs `10000·(2·2⁻⁵³ + 2⁻¹⁰⁶)·total < 1`); sequences of 10^5 letters give totals below 2^17 -/
def boundedShares (t : Table) : Bool :=
  let E := entries t
  E.all fun e => decide (e.2.2 ≤ totalOfE E e.1 ∧ totalOfE E e.1 ≤ 2 ^ 38)

def nonNeg (t : Table) : Bool := (entries t).all fun e => decide (0 ≤ e.2.2)

/-- `r` keeps `t1`'s assignment, order, start and stop codons -/
def keepsCode (t1 r : Table) : Bool := decide (codeOf r = codeOf t1)

/-- judge predicate for AddCodonTable -/
def isSumOf (t1 t2 r : Table) : Bool :=
  let e1 := entries t1
  let e2 := entries t2
  keepsCode t1 r && (entries r).all fun e => decide (e.2.2 = weightAtE e1 e.1 e.2.1 + weightOfE e2 e.2.1)

/-- exact share on the 10000 scale -/
def shareFloor (w total : Int) : Int := (10000 * w) / total

/-! The float64 reading (`rne`, `shareF64`, `cutF64`: IEEE binary64 round-to-nearest-even over `Nat`, independent of
Lean's `Float`) lives in Model/CodonOps.lean, shared with the model instance `f64Arith`. -/

/-- the rule of one codon for given integer shares and cut-off weight (exact in float64 once they are integers) -/
def ruleInt (cw f s : Int) : Int := if f < cw ∨ s < cw then 0 else (f + s) / 2

/-- The weights the statement allows for one codon with weights `w1`/`tot1`, `w2`/`tot2` and cut-off `q`.
There is no tolerance band; there are three named readings of "mean of the two shares scaled to 10000, or
zero if either share is below the cut-off" that can differ by rounding, and each is accepted:
  (a) float64 arithmetic as written in the statement's scale (`shareF64`, `cutF64`, truncated comparison);
  (b) exact arithmetic truncated first (`shareFloor`, `⌊10000q⌋`) — the model the theorems are about;
  (c) exact arithmetic compared BEFORE truncation (share `< q` as real numbers), mean of the truncated shares.
Where the three agree — everywhere except within rounding of the cut-off or of an integer share — the verdict is exact. -/
def compromiseReadings (q : Rat) (cwF cwE : Int) (w1 tot1 w2 tot2 : Int) (fa sa fb sb : Int) : List Int :=
  -- w/tot < q as real numbers, cross-multiplied (tot > 0, q.den > 0)
  let belowReal := decide (w1 * q.den < q.num * tot1) || decide (w2 * q.den < q.num * tot2)
  [ruleInt cwF fa sa, ruleInt cwE fb sb, if belowReal then 0 else (fb + sb) / 2]

/-- what the readings need per codon of the first table (in table order), independent of the cut-off so that a
driver computes it once per pair: letter, triplet, (w1, tot1, w2, tot2), float64 shares, exact shares -/
structure PrepCodon where
  letter : Str
  triplet : Str
  w1 : Int
  tot1 : Int
  w2 : Int
  tot2 : Int
  fa : Int
  sa : Int
  fb : Int
  sb : Int

def prepPair (t1 t2 : Table) : List PrepCodon :=
  let e1 := entries t1
  let e2 := entries t2
  e1.map fun e =>
    let tot1 := totalOfE e1 e.1
    let w2 := weightAtE e2 e.1 e.2.1
    let tot2 := totalOfE e2 e.1
    { letter := e.1, triplet := e.2.1, w1 := e.2.2, tot1, w2, tot2,
      fa := shareF64 e.2.2 tot1, sa := shareF64 w2 tot2, fb := shareFloor e.2.2 tot1, sb := shareFloor w2 tot2 }

/-- judge predicate for CompromiseCodonTable with cut-off `q` (the exact value of the float64 cut-off, `0 ≤ q ≤ 1`);
`P = prepPair t1 t2`.  `keepsCode` makes the result list the first table's codons in the same order. -/
def isCompromiseOfP (q : Rat) (P : List PrepCodon) (t1 r : Table) : Bool :=
  let cwF := cutF64 q
  let cwE := (10000 * q).floor
  let er := entries r
  keepsCode t1 r && er.length == P.length && (er.zip P).all fun ep =>
    let e := ep.1
    let p := ep.2
    e.1 == p.letter && e.2.1 == p.triplet &&
      (compromiseReadings q cwF cwE p.w1 p.tot1 p.w2 p.tot2 p.fa p.sa p.fb p.sb).contains e.2.2

def isCompromiseOf (q : Rat) (t1 t2 r : Table) : Bool := isCompromiseOfP q (prepPair t1 t2) t1 r

/-- "never rarer than the cut-off in either organism", on the 10000 scale with the statement's ±1: codon `x`
under letter `l` has `10000·share + 1 ≥ 10000·q` in both tables -/
def notRare (q : Rat) (t1 t2 : Table) (l x : Str) : Bool :=
  -- 10000·w/tot + 1 ≥ 10000·q, cross-multiplied (tot > 0, q.den > 0)
  let ok := fun (t : Table) => decide ((10000 * weightAt t l x + totalOf t l) * q.den ≥ 10000 * q.num * totalOf t l)
  ok t1 && ok t2

/-- codon.Optimize can encode residue `l` with table `t`: some codon listed under `l` has more than a 10 % share
(`float64(w)/float64(Σ) > 0.10`, i.e. `10·w > Σ`) -/
def encodable (t : Table) (l : Str) : Bool :=
  let E := entries t
  let tot := totalOfE E l
  E.any fun e => e.1 == l && decide (10 * e.2.2 > tot)

/-- symmetry as maps -/
def sameWeights (r12 r21 : Table) : Bool :=
  let e2 := entries r21
  sameCode r12 r21 && (entries r12).all fun e => decide (e.2.2 = weightAtE e2 e.1 e.2.1)

end PolyVerif.Spec.ValueTables
