import PolyVerif.Model.CodonOps
/-
VALUE semantics of codon tables (spec side of C08 and C18).  Nothing here mentions memory: a table is an
immutable value, every operation returns a new value, a default table requested by id is always the
pristine one.  Independent of Model/CodonTables.lean (it imports only the shared data types and the vocabulary of
histories, Model/CodonOps.lean):

* `countCodons s c` — number of in-frame triplets of the upper-cased sequence equal to `c`, by cutting the
  sequence into chunks of three and counting (no loop state, no map);
* `reweight t s` — every weight replaced by that count, nothing else touched;
* `runValue` — histories of operations on values; the two combining operations are parameters
  (`addF`, `cmpF`), their own specs are the C18 predicates below;
* `Linear` — the histories on which value semantics and the real (sharing) semantics must agree;
* C18: tables read "as maps" (`weightOf`, `totalOf`, `pairs`) and the predicates the judge evaluates on the
  implementation's output (`isSumOf`, `isCompromiseOf`, `sameCode`).
-/
namespace PolyVerif.Spec.ValueTables
open PolyVerif PolyVerif.Codon PolyVerif.CodonTables

/-! ## counting -/

def chunks3 : Str → List Str
  | a :: b :: c :: rest => [a, b, c] :: chunks3 rest
  | _ => []

def upper (s : Str) : Str := s.map Char.toUpper

def countCodons (s : Str) (c : Str) : Nat := (chunks3 (upper s)).count c

def mapWeights (f : Str → Str → Int → Int) (t : Table) : Table :=
  { t with aminoAcids := t.aminoAcids.map fun a =>
      { a with codons := a.codons.map fun c => { c with weight := f a.letter c.triplet c.weight } } }

/-- re-weighting as a function on values -/
def reweight (t : Table) (s : Str) : Table := mapWeights (fun _ x _ => (countCodons s x : Int)) t

/-- the genetic code of a table: everything but the weights -/
def codeOf (t : Table) : List Str × List Str × List (Str × List Str) :=
  (t.startCodons, t.stopCodons, t.aminoAcids.map fun a => (a.letter, a.codons.map (·.triplet)))

/-! ## histories on values -/

structure VState where
  handles : List Table
  trace : List Obs

def VState.push (st : VState) (t : Table) (o : Obs) : VState :=
  { handles := st.handles ++ [t], trace := st.trace ++ [o] }

def vstep {κ : Type} (addF : Table → Table → Table) (cmpF : Table → Table → κ → Outcome Table) (defs : List (Nat × Table))
    (st : VState) : Op κ → VState
  | .get id =>
    match defs.lookup id with
    | some t => st.push t (.table t)
    | none => st.push zeroTable (.table zeroTable)
  | .reweight h s =>
    match st.handles[h]? with
    | some t => st.push (reweight t s) (.table (reweight t s))
    | none => st.push zeroTable .fault
  | .add h1 h2 =>
    match st.handles[h1]?, st.handles[h2]? with
    | some t1, some t2 => st.push (addF t1 t2) (.table (addF t1 t2))
    | _, _ => st.push zeroTable .fault
  | .compromise h1 h2 cut =>
    match st.handles[h1]?, st.handles[h2]? with
    | some t1, some t2 =>
      match cmpF t1 t2 cut with
      | .ok r => st.push r (.table r)
      | .err => st.push zeroTable .err
      | .panic => st.push zeroTable .panic
    | _, _ => st.push zeroTable .fault
  | .json h =>
    match st.handles[h]? with
    | some t => st.push t (.table t)
    | none => st.push zeroTable .fault
  | .observe h =>
    match st.handles[h]? with
    | some t => st.push zeroTable (.table t)
    | none => st.push zeroTable .fault

def runValue {κ : Type} (addF : Table → Table → Table) (cmpF : Table → Table → κ → Outcome Table) (defs : List (Nat × Table))
    (hist : List (Op κ)) : List Obs :=
  (hist.foldl (vstep addF cmpF defs) { handles := [], trace := [] }).trace

/-! ## Linear histories

Every handle belongs to a REGION (the table it was ultimately copied from without a deep copy): the k-th
default table is region k; `add`, `compromise`, `json`, `observe` and a `get` of an unknown id open a new
region; `reweight h _` stays in the region of `h`.  A region that has been re-weighted has an OWNER, the
handle returned by the most recent re-weighting; every other handle of that region is STALE.
A history is `Linear` when
  * no stale handle is READ (as an operand of add / compromise / json / observe), and
  * no default id is requested again after a handle to it was re-weighted.
Re-weighting THROUGH a stale handle is allowed: it overwrites every weight and reads none, so its result
is the same in both semantics.  This is weaker than "a handle is never used again after it was
re-weighted"; dropping either remaining condition is refuted by the witnesses in Props/C08. -/

structure LState where
  regions : List Nat             -- region of handle k
  next : Nat                     -- next fresh region
  owners : List (Nat × Nat)      -- region ↦ owning handle (only re-weighted regions have an entry)

def indexOfId : List (Nat × Table) → Nat → Option Nat
  | [], _ => none
  | (i, _) :: rest, id => if i = id then some 0 else (indexOfId rest id).map (· + 1)

/-- handle `k` may be read -/
def LState.readable (st : LState) (k : Nat) : Bool :=
  match st.regions[k]? with
  | none => true                       -- no such handle: both semantics answer `fault`
  | some r => match st.owners.lookup r with
    | none => true
    | some j => j == k

def LState.fresh (st : LState) : LState := { st with regions := st.regions ++ [st.next], next := st.next + 1 }

/-- one step: `none` = the step breaks linearity -/
def lstep {κ : Type} (defs : List (Nat × Table)) (st : LState) : Op κ → Option LState
  | .get id =>
    match indexOfId defs id with
    | none => some st.fresh
    | some r => if (st.owners.lookup r).isNone then some { st with regions := st.regions ++ [r] } else none
  | .reweight h _ =>
    match st.regions[h]? with
    | none => some st.fresh
    | some r => some { st with regions := st.regions ++ [r], owners := (r, st.regions.length) :: st.owners }
  | .add h1 h2 => if st.readable h1 && st.readable h2 then some st.fresh else none
  | .compromise h1 h2 _ => if st.readable h1 && st.readable h2 then some st.fresh else none
  | .json h => if st.readable h then some st.fresh else none
  | .observe h => if st.readable h then some st.fresh else none

def linearFrom {κ : Type} (defs : List (Nat × Table)) : LState → List (Op κ) → Bool
  | _, [] => true
  | st, op :: rest => match lstep defs st op with
    | none => false
    | some st' => linearFrom defs st' rest

def LState.init (defs : List (Nat × Table)) : LState := { regions := [], next := defs.length, owners := [] }

def Linear {κ : Type} (defs : List (Nat × Table)) (hist : List (Op κ)) : Bool := linearFrom defs (LState.init defs) hist

/-! ## C18: tables as maps -/

/-- all (letter, triplet, weight) entries in table order -/
def entries (t : Table) : List (Str × Str × Int) :=
  t.aminoAcids.flatMap fun a => a.codons.map fun c => (a.letter, c.triplet, c.weight)

/-- weight of the first entry with this triplet (0 when absent) -/
def weightOfE (E : List (Str × Str × Int)) (x : Str) : Int :=
  match E.find? (fun e => e.2.1 == x) with
  | some e => e.2.2
  | none => 0

/-- weight of triplet `x` under letter `l` -/
def weightAtE (E : List (Str × Str × Int)) (l x : Str) : Int :=
  match E.find? (fun e => e.1 == l && e.2.1 == x) with
  | some e => e.2.2
  | none => 0

def sumInts (l : List Int) : Int := l.foldr (· + ·) 0

/-- total weight of the entries under letter `l` -/
def totalOfE (E : List (Str × Str × Int)) (l : Str) : Int :=
  sumInts ((E.filter fun e => e.1 == l).map (·.2.2))

/-- weight of the first codon with this triplet (0 when absent) -/
def weightOf (t : Table) (x : Str) : Int := weightOfE (entries t) x

/-- weight of triplet `x` under letter `l` -/
def weightAt (t : Table) (l x : Str) : Int := weightAtE (entries t) l x

/-- total weight of the codons listed under letter `l` -/
def totalOf (t : Table) (l : Str) : Int := totalOfE (entries t) l

/-- (letter, triplet) assignment -/
def pairs (t : Table) : List (Str × Str) := (entries t).map fun e => (e.1, e.2.1)

/-- well-formed code: no letter listed twice, no triplet listed twice -/
def WFCode (t : Table) : Bool :=
  decide (t.aminoAcids.map (·.letter)).Nodup && decide ((entries t).map (·.2.1)).Nodup

/-- same genetic code as maps (order-insensitive) -/
def sameCode (t1 t2 : Table) : Bool :=
  let p1 := pairs t1
  let p2 := pairs t2
  p1.all (fun p => p2.contains p) && p2.all (fun p => p1.contains p)

/-- two well-formed tables over the same genetic code (any order of amino acids and codons) -/
def Compatible (t1 t2 : Table) : Bool := WFCode t1 && WFCode t2 && sameCode t1 t2

/-- every amino acid occurs -/
def posTotals (t : Table) : Bool := t.aminoAcids.all fun a => decide (0 < sumInts (a.codons.map (·.weight)))

def nonNeg (t : Table) : Bool := (entries t).all fun e => decide (0 ≤ e.2.2)

/-- `r` keeps `t1`'s assignment, order, start and stop codons -/
def keepsCode (t1 r : Table) : Bool := decide (codeOf r = codeOf t1)

/-- judge predicate for AddCodonTable -/
def isSumOf (t1 t2 r : Table) : Bool :=
  let e1 := entries t1
  let e2 := entries t2
  keepsCode t1 r && (entries r).all fun e => decide (e.2.2 = weightAtE e1 e.1 e.2.1 + weightOfE e2 e.2.1)

/-- exact share on the 10000 scale -/
def shareFloor (w total : Int) : Int := (10000 * w) / total

/-- what the compromise weight of one codon may be: `f`, `s` the two exact shares, cut-off weight known to lie
in `[cwLo, cwHi]`, rounding tolerance `tol` on the 10000 scale: 0 when a share is below the cut-off, the mean
otherwise; a share within the tolerance of the cut-off may go either way -/
def compromiseWeightOk (tol cwLo cwHi f s w : Int) : Bool :=
  let lo := min f s
  let mean := (f + s) / 2
  let okMean := decide (mean - tol ≤ w ∧ w ≤ mean + tol)
  if lo + tol < cwLo then w == 0
  else if lo - tol ≥ cwHi then okMean
  else w == 0 || okMean

/-- judge predicate for CompromiseCodonTable -/
def isCompromiseOf (tol cwLo cwHi : Int) (t1 t2 r : Table) : Bool :=
  let e1 := entries t1
  let e2 := entries t2
  keepsCode t1 r && (entries r).all fun e =>
    compromiseWeightOk tol cwLo cwHi
      (shareFloor (weightAtE e1 e.1 e.2.1) (totalOfE e1 e.1)) (shareFloor (weightAtE e2 e.1 e.2.1) (totalOfE e2 e.1)) e.2.2

/-- "never rarer than the cut-off in either organism": codon `x` under letter `l` -/
def notRare (tol cwLo : Int) (t1 t2 : Table) (l x : Str) : Bool :=
  decide (shareFloor (weightAt t1 l x) (totalOf t1 l) + tol ≥ cwLo) && decide (shareFloor (weightAt t2 l x) (totalOf t2 l) + tol ≥ cwLo)

/-- symmetry as maps -/
def sameWeights (r12 r21 : Table) : Bool :=
  let e2 := entries r21
  sameCode r12 r21 && (entries r12).all fun e => decide (e.2.2 = weightAtE e2 e.1 e.2.1)

end PolyVerif.Spec.ValueTables
