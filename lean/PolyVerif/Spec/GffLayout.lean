import PolyVerif.Model.Gff
/-
Independent spec for C14.

1. `GffDoc` — what a GFF3 file with an embedded FASTA section *says*: version, the
   `##sequence-region` name and 1-based inclusive bounds, feature lines with their nine columns
   (coordinates as written: 1-based, inclusive), the FASTA definition line and the sequence.
2. `layout d ℓ` — an independent GFF3 writer: it assembles a list of lines and joins them
   (a different shape from `gff.Build`'s buffer appends), with free layout choices `ℓ`:
   any number of skip lines (blank, `#` comment, `##` directive, `###`) before every feature,
   after the last feature and between the lines of the FASTA section, arbitrary FASTA line
   widths (each line its own width, zero = a blank line), final newline or not; directives
   before `##sequence-region`, a `;` at the end of column 9, CR LF line ends (the last three
   made `gff.Parse` panic until fixes aac6dbd, 244ec83, 4e5b18b).
3. `denote d` — the in-memory value such a file denotes (0-based half-open coordinates).
4. `bases seq s e` — "bases s..e of the sequence", 1-based inclusive, by enumeration of positions
   (the coordinate law is stated against this, not against a slice expression).
5. The decidable well-formedness predicates used as theorem hypotheses and as the domain
   test of the judge.
-/
namespace PolyVerif.Spec.GffLayout
open PolyVerif PolyVerif.LineText PolyVerif.Gff

/-- one feature line as written: nine columns, coordinates 1-based inclusive -/
structure FeatLine where
  seqid : Str
  source : Str
  type : Str
  first : Int          -- column 4
  last : Int           -- column 5
  score : Str
  strand : Str
  phase : Str
  attrs : List (Str × Str)
  deriving Repr, DecidableEq

structure GffDoc where
  version : Str
  region : Str
  regionFirst : Int
  regionLast : Int
  feats : List FeatLine
  defline : Str        -- text after '>' on the FASTA definition line
  seq : Str
  deriving Repr, DecidableEq

structure Layout where
  between : List (List Str) := []       -- skip lines (blank, `#` comment, `##` directive, `###`) before feature i
  after : List Str := []                -- skip lines after the last feature, before `##FASTA`
  fastaBetween : List (List Str) := []  -- skip lines before the i-th line of sequence letters
  widths : List Nat := []               -- widths of the successive FASTA lines; the rest goes on one line
  finalNewline : Bool := true
  preRegion : List Str := []            -- directive lines between `##gff-version` and `##sequence-region`
  trailingSemi : Bool := false          -- column 9 ends with `;`
  crlf : Bool := false                  -- lines end with CR LF
  deriving Repr, DecidableEq

/-! ### the writer -/

def attrText (a : List (Str × Str)) : Str := joinSep ';' (a.map fun kv => kv.1 ++ '=' :: kv.2)

def featText (semi : Bool) (f : FeatLine) : Str :=
  joinSep '\t' [f.seqid, f.source, f.type, itoa f.first, itoa f.last, f.score, f.strand, f.phase,
    attrText f.attrs ++ (if semi then [';'] else [])]

/-- cut `s` into lines of the given widths; what is left goes on a last line -/
def chunks : List Nat → Str → List Str
  | [], s => [s]
  | w :: ws, s => s.take w :: chunks ws (s.drop w)

/-- `items` one per line, `skips[i]` before item i -/
def interleave : List Str → List (List Str) → List Str
  | [], _ => []
  | x :: xs, [] => x :: interleave xs []
  | x :: xs, g :: gs => g ++ x :: interleave xs gs

def layoutLines (d : GffDoc) (ℓ : Layout) : List Str :=
  [ joinSep ' ' [sGffVersion, d.version] ] ++ ℓ.preRegion
  ++ [ joinSep ' ' [sSeqRegion, d.region, itoa d.regionFirst, itoa d.regionLast] ]
  ++ interleave (d.feats.map (featText ℓ.trailingSemi)) ℓ.between
  ++ ℓ.after
  ++ [ sFasta, '>' :: d.defline ]
  ++ interleave (chunks ℓ.widths d.seq) ℓ.fastaBetween

def joinLines (eol : Str) : List Str → Str
  | [] => []
  | [l] => l
  | l :: ls => l ++ eol ++ joinLines eol ls

def layout (d : GffDoc) (ℓ : Layout) : Str :=
  let eol : Str := if ℓ.crlf then ['\r', '\n'] else ['\n']
  joinLines eol (layoutLines d ℓ) ++ (if ℓ.finalNewline then eol else [])

/-! ### what the file denotes -/

def denoteFeat (f : FeatLine) : Feature :=
  { name := f.seqid, source := f.source, type := f.type, start := f.first - 1, stop := f.last,
    score := f.score, strand := f.strand, phase := f.phase, attrs := f.attrs }

def denote (d : GffDoc) : Gff :=
  { name := d.region, gffVersion := d.version, regionStart := d.regionFirst, regionEnd := d.regionLast,
    size := d.regionLast - d.regionFirst, description := '>' :: d.defline, seq := d.seq,
    features := d.feats.map denoteFeat }

/-- bases number `s..e` (1-based, inclusive) of `seq`, position by position -/
def bases (seq : Str) (s e : Nat) : Str :=
  (List.range' s (e + 1 - s)).filterMap fun i => if i = 0 then none else seq[i - 1]?

/-! ### well-formedness (decidable; hypotheses of the theorems, domain test of the judge) -/

def free (bad : List Char) (s : Str) : Bool := s.all fun c => !bad.contains c

def inInt (v : Int) : Bool := decide (minInt ≤ v ∧ v ≤ maxInt)

/-- a letter that may occur in the sequence: ASCII (Go slices bytes, the model characters), not a
newline, and not one of the two characters that give a FASTA line another meaning (`>` definition
line, `#` comment / directive) -/
def seqChar (c : Char) : Bool := c != '\n' && c != '>' && c != '#' && decide (c.toNat < 128) && c != '\r'

def keysNodup : List (Str × Str) → Bool
  | [] => true
  | kv :: r => !(r.map (·.1)).contains kv.1 && keysNodup r

/-- attributes: distinct keys, text free of tab, newline (LF and CR), `;`, `=`.  The list may be
empty: since fix 244ec83 an empty ninth column reads back as no attributes. -/
def wfAttrs (a : List (Str × Str)) : Bool :=
  keysNodup a && a.all fun kv => free ['\t', '\n', '\r', ';', '='] kv.1 && free ['\t', '\n', '\r', ';', '='] kv.2

/-- a column: free of tab and newline (LF and CR: `gff.Parse` drops a CR at the end of a line) -/
def wfCol (s : Str) : Bool := free ['\t', '\n', '\r'] s

/-- a feature of a record given to `gff.Build` (`locus` = Meta.Locus.Name, used for an empty seqid) -/
def wfFeature (locus : Str) (f : Feature) : Bool :=
  wfCol f.name && wfCol locus && !hasPrefix sHash1 (if f.name ≠ [] then f.name else locus)
  && wfCol f.source && wfCol f.type && wfCol f.score && wfCol f.strand && wfCol f.phase
  && inInt f.start && inInt (f.start + 1) && inInt f.stop && wfAttrs f.attrs

/-- hypothesis of `parse_build` -/
def wfBuild (x : Gff) : Bool :=
  free [' ', '\n', '\r'] (regionName x) && free ['\n', '\r'] x.name && free [' ', '\n', '\r'] x.gffVersion
  && inInt x.regionStart && inInt x.regionEnd
  && x.seq.all seqChar
  && x.features.all (wfFeature x.locusName)

/-- the property's quantifier for a record given to `gff.Build`, as worded ("seqids free of white
space"): `wfFeature` / `wfBuild` WITHOUT the clause that a seqid does not begin with `#`.  On such
a seqid the round trip loses the feature (known finding C14-hash-seqid); `parse_build` is proved
under `wfBuild`, the judge's domain is `wfBuildQ`. -/
def wfFeatureQ (locus : Str) (f : Feature) : Bool :=
  wfCol f.name && wfCol locus
  && wfCol f.source && wfCol f.type && wfCol f.score && wfCol f.strand && wfCol f.phase
  && inInt f.start && inInt (f.start + 1) && inInt f.stop && wfAttrs f.attrs

def wfBuildQ (x : Gff) : Bool :=
  free [' ', '\n', '\r'] (regionName x) && free ['\n', '\r'] x.name && free [' ', '\n', '\r'] x.gffVersion
  && inInt x.regionStart && inInt x.regionEnd
  && x.seq.all seqChar
  && x.features.all (wfFeatureQ x.locusName)

/-- the record without the features whose written seqid (for an empty seqid: Locus.Name) begins with
`#` — what survives a Build round trip (known finding C14-hash-seqid) -/
def dropHash (x : Gff) : Gff :=
  { x with features := x.features.filter fun f => !hasPrefix sHash1 (if f.name ≠ [] then f.name else x.locusName) }

/-- some feature is written with a seqid (for an empty seqid: Locus.Name) that begins with `#` -/
def hashSeqid (x : Gff) : Bool :=
  x.features.any fun f => hasPrefix sHash1 (if f.name ≠ [] then f.name else x.locusName)

/-- a feature line of a document given to the independent writer -/
def wfFeatLine (f : FeatLine) : Bool :=
  wfCol f.seqid && !hasPrefix sHash1 f.seqid
  && wfCol f.source && wfCol f.type && wfCol f.score && wfCol f.strand && wfCol f.phase
  && inInt f.first && inInt f.last && wfAttrs f.attrs

def wfDoc (d : GffDoc) : Bool :=
  free [' ', '\n', '\r'] d.version && free [' ', '\n', '\r'] d.region && inInt d.regionFirst && inInt d.regionLast
  && d.feats.all wfFeatLine && free ['\n', '\r'] d.defline && d.seq.all seqChar

/-- a line a GFF3 reader skips: blank, or a `#` comment / `##` directive (also `###`) other than the
`##FASTA` mark; no newline inside -/
def wfSkip (l : Str) : Bool := l.isEmpty || (hasPrefix sHash1 l && l != sFasta && free ['\n', '\r'] l)

/-- a directive that may stand before the region line: a skip line that is not itself a
`##sequence-region…` line -/
def wfPreRegion (l : Str) : Bool := wfSkip l && !hasPrefix sSeqRegion l

def wfLayout (ℓ : Layout) : Bool :=
  ℓ.between.all (·.all wfSkip) && ℓ.after.all wfSkip && ℓ.fastaBetween.all (·.all wfSkip) && ℓ.preRegion.all wfPreRegion

/-! ### the corresponding record for a `gff.Build` round trip -/

/-- attributes as `Build` writes and `Parse` re-reads them: in `sort.Strings` order of the keys -/
def canonAttrs (a : List (Str × Str)) : List (Str × Str) := sortedEntries [] a

def expectedFeature (locus : Str) (f : Feature) : Feature :=
  { f with
    name := if f.name ≠ [] then f.name else locus
    source := if f.source ≠ [] then f.source else sFeature
    type := if f.type ≠ [] then f.type else sUnknown
    attrs := canonAttrs f.attrs }

/-- the value `Parse (Build x)` returns: every field that is set is kept; an unset field comes back
as the default `Build` wrote for it -/
def expected (x : Gff) : Gff :=
  let rs : Int := if x.regionStart ≠ 0 then x.regionStart else 1
  let re : Int := if x.regionEnd ≠ 0 then x.regionEnd
                  else if x.locusSeqLen ≠ [] then atoi (digitsOnly x.locusSeqLen) else 1
  { name := regionName x
    gffVersion := if x.gffVersion ≠ [] then x.gffVersion else ['3']
    regionStart := rs, regionEnd := re, size := re - rs
    description := '>' :: x.name
    seq := x.seq
    features := x.features.map (expectedFeature x.locusName) }

end PolyVerif.Spec.GffLayout
