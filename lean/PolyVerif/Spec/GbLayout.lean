import PolyVerif.Model.Genbank
/-
Independent spec for property C01: an abstract GenBank record `GbRec` and an independent WRITER
`layout : GbRec → RecLayout → List Str` (lines) / `layoutFile` (text) in the shape of the NCBI
flat-file definition (GenBank release notes §3.4, INSDC feature table definition §4):

  * keyword in columns 1-10, text from column 13, continuation lines with 12 blanks;
  * sub-keywords indented 2 (ORGANISM; AUTHORS, TITLE, JOURNAL, PUBMED, REMARK);
  * feature key at column 6, location at column 22, continuation of a location at column 22;
  * qualifiers `/key="value"` at column 22, continuation at column 22;
  * `ORIGIN`, sequence lines with a 9-column right-justified counter and blank-separated blocks;
  * `//`.

A `RecLayout` holds the writer's free choices: which empty standard blocks are left out, where the
extra keyword blocks (DBLINK, COMMENT, …) stand between LOCUS and FEATURES, whether a qualifier value
is quoted, unquoted (`/codon_start=1`) or absent (`/pseudo`), the six gaps of the LOCUS line, where each text block
is wrapped (a set of positions; a break happens only at a blank both of whose neighbours are not
blank — the format cannot represent any other break), where a `/translation` value is cut (anywhere between two non-blank characters), where a
location is cut (only after a comma), block length and blocks per line of the sequence, and whether
`ORIGIN` carries trailing blanks.  A `FileLayout` adds the number of records, the final newline and
the 10-line flat-file header.  Choosing the break positions of a greedy word wrap at width w gives
every wrap width; the theorems hold for every set of positions.

`wf r` is the decidable domain predicate (the property's quantifier text); `toSequence r` is what
the record states.  Nothing here is derived from genbank.go: the keyword spellings, molecule types,
division codes and month names are typed from the NCBI documents.  Core Lean only.
-/
namespace PolyVerif.GbLayout
open PolyVerif PolyVerif.Str

/-! ### abstract record -/

inductive MolType | dna | mrna | trna | rrna
  deriving DecidableEq, Repr

def MolType.text : MolType → Str
  | .dna => c!"DNA" | .mrna => c!"mRNA" | .trna => c!"tRNA" | .rrna => c!"rRNA"

inductive Topology | circular | linear
  deriving DecidableEq, Repr

def Topology.text : Topology → Str
  | .circular => c!"circular" | .linear => c!"linear"

/-- the 18 GenBank divisions (release notes §3.4.4) -/
def divisionCodes : List Str :=
  [c!"PRI", c!"ROD", c!"MAM", c!"VRT", c!"INV", c!"PLN", c!"BCT", c!"VRL", c!"PHG", c!"SYN",
   c!"UNA", c!"EST", c!"PAT", c!"STS", c!"GSS", c!"HTG", c!"HTC", c!"ENV"]

def monthNames : List Str :=
  [c!"JAN", c!"FEB", c!"MAR", c!"APR", c!"MAY", c!"JUN", c!"JUL", c!"AUG", c!"SEP", c!"OCT", c!"NOV", c!"DEC"]

/-- the molecule types of the LOCUS line (INSDC /mol_type vocabulary as GenBank uses it) -/
def molTypes : List Str :=
  [c!"DNA", c!"genomic DNA", c!"genomic RNA", c!"mRNA", c!"tRNA", c!"rRNA", c!"other RNA", c!"other DNA",
   c!"transcribed RNA", c!"viral cRNA", c!"unassigned DNA", c!"unassigned RNA"]

/-- what a LOCUS line states.  Every field but the name may be absent (empty / `none`): a record
assembled by a program need not have them, and a writer then leaves the field out. -/
structure RLocus where
  name : Str
  len : Str := []                    -- the declared length: digits (not tied to the sequence), or absent
  mol : Str := []                    -- one of `molTypes`, or absent
  topo : Option Topology := none
  division : Str := []               -- one of `divisionCodes`, or absent
  date : Str := []                   -- dd-MON-yyyy, or absent
  deriving DecidableEq, Repr

structure RRef where
  number : Str := []                 -- the reference's own number (any blank-free token); absent: its position
  range : Str := []
  authors : Str := []
  title : Str := []
  journal : Str := []
  pubmed : Str := []
  remark : Str := []
  deriving DecidableEq, Repr

structure RFeature where
  key : Str
  loc : Str
  quals : List (Str × Str) := []
  deriving DecidableEq, Repr

structure GbRec where
  locus : RLocus
  definition : Str := []
  accession : Str := []
  version : Str := []
  keywords : Str := []
  source : Str := []
  organism : Str := []
  refs : List RRef := []
  extras : List (Str × Str) := []
  features : List RFeature := []
  seq : Str := []
  deriving DecidableEq, Repr

/-! ### the writer's choices -/

structure RefLayout where
  range : List Nat := []         -- the REFERENCE line itself (number, two blanks, range) may be wrapped
  trailGap : Bool := false       -- an empty range written as the number followed by the two blanks (`REFERENCE   1  `)
  authors : List Nat := []
  title : List Nat := []
  journal : List Nat := []
  pubmed : List Nat := []
  remark : List Nat := []
  deriving Repr, Inhabited

structure FeatLayout where
  loc : List Nat := []
  quals : List (List Nat) := []
  styles : List Nat := []        -- per qualifier: 0 `/k="v"`, 1 `/k=v` (unquoted), 2 `/k` (no value)
  deriving Repr, Inhabited

structure RecLayout where
  pads : List Nat := []          -- additional blanks (beyond one) in the six gaps of the LOCUS line
  locusTrail : Nat := 0          -- blanks after the last field of the LOCUS line
  definition : List Nat := []
  accession : List Nat := []
  version : List Nat := []
  keywords : List Nat := []
  source : List Nat := []
  organism : List Nat := []
  refs : List RefLayout := []
  extras : List (List Nat) := []
  extraCuts : List Nat := []     -- how many extra blocks go before DEFINITION, ACCESSION, VERSION, KEYWORDS,
                                 -- SOURCE, the first REFERENCE; [6]: how many of the remaining ones stand after the feature table
                                 -- (the others follow the references)
  omitDefinition : Bool := false -- an empty DEFINITION / ACCESSION / VERSION / KEYWORDS / SOURCE+ORGANISM block is
  omitAccession : Bool := false  -- left out altogether instead of being written as the bare keyword
  omitVersion : Bool := false
  omitKeywords : Bool := false
  omitSource : Bool := false
  omitOrganism : Bool := false      -- an empty ORGANISM line left out under a SOURCE block that is written
  feats : List FeatLayout := []
  originTrail : Bool := false    -- `ORIGIN` followed by six blanks, as NCBI writes it
  blockLen : Nat := 9            -- letters per block minus one
  perLine : Nat := 5             -- blocks per line minus one
  deriving Repr, Inhabited

structure FileLayout where
  recs : List RecLayout := []
  finalNewline : Bool := true
  header : Option (List Str) := none   -- the 10 lines of a flat-file header
  deriving Repr, Inhabited

/-! ### wrapping -/

/-- break `t` at the chosen blanks: position `i` (0-based) is used when `t[i]` is a blank, both
neighbours exist and are not blank, and `i ∈ bs`; the blank itself is replaced by the line break.
`p` is the previous character. -/
def wrapAux (bs : List Nat) : Nat → Char → Str → List Str
  | _, _, [] => [[]]
  | _, _, [c] => [[c]]
  | i, p, c :: n :: rest =>
    if c = ' ' ∧ p ≠ ' ' ∧ n ≠ ' ' ∧ i ∈ bs then [] :: wrapAux bs (i + 1) c (n :: rest)
    else consHead c (wrapAux bs (i + 1) c (n :: rest))

def wrapText (bs : List Nat) (t : Str) : List Str := wrapAux bs 0 ' ' t

/-- cut `t` between two non-blank characters: before position `i` when `i ∈ bs` and `t[i-1]`, `t[i]`
are not blank -/
def cutAux (bs : List Nat) : Nat → Char → Str → List Str
  | _, _, [] => [[]]
  | i, p, c :: rest =>
    if p ≠ ' ' ∧ c ≠ ' ' ∧ i ∈ bs then [] :: consHead c (cutAux bs (i + 1) c rest)
    else consHead c (cutAux bs (i + 1) c rest)

def cutText (bs : List Nat) (t : Str) : List Str := cutAux bs 0 ' ' t

/-- `wrapAux` for qualifier values, which may hold quotation marks: in addition no break between a
quotation mark and a '/' (a line ending in `"` followed by a line beginning with `/` reads as the end of the
value to every reader) -/
def wrapAuxV (bs : List Nat) : Nat → Char → Str → List Str
  | _, _, [] => [[]]
  | _, _, [c] => [[c]]
  | i, p, c :: n :: rest =>
    if c = ' ' ∧ p ≠ ' ' ∧ n ≠ ' ' ∧ ¬ (p = '"' ∧ n = '/') ∧ i ∈ bs then [] :: wrapAuxV bs (i + 1) c (n :: rest)
    else consHead c (wrapAuxV bs (i + 1) c (n :: rest))

def wrapTextV (bs : List Nat) (t : Str) : List Str := wrapAuxV bs 0 ' ' t

/-- `cutAux` for qualifier values: no cut between a quotation mark and a '/' -/
def cutAuxV (bs : List Nat) : Nat → Char → Str → List Str
  | _, _, [] => [[]]
  | i, p, c :: rest =>
    if p ≠ ' ' ∧ c ≠ ' ' ∧ ¬ (p = '"' ∧ c = '/') ∧ i ∈ bs then [] :: consHead c (cutAuxV bs (i + 1) c rest)
    else consHead c (cutAuxV bs (i + 1) c rest)

def cutTextV (bs : List Nat) (t : Str) : List Str := cutAuxV bs 0 ' ' t

/-- cut a location after the comma at position `i` when `i ∈ bs`, something follows and what follows
does not begin with '/' (a continuation line beginning with '/' is a qualifier line) -/
def cutLocAux (bs : List Nat) : Nat → Str → List Str
  | _, [] => [[]]
  | i, c :: rest =>
    if c = ',' ∧ rest ≠ [] ∧ rest.head? ≠ some '/' ∧ i ∈ bs then [c] :: cutLocAux bs (i + 1) rest
    else consHead c (cutLocAux bs (i + 1) rest)

def cutLoc (bs : List Nat) (t : Str) : List Str := cutLocAux bs 0 t

/-! ### lines -/

def padRight (s : Str) (n : Nat) : Str := s ++ spaces (n - s.length)
def padLeft (s : Str) (n : Nat) : Str := spaces (n - s.length) ++ s

/-- first line = `head ++ first chunk`, the others = `indent` blanks ++ chunk -/
def hang (head : Str) (indent : Nat) : List Str → List Str
  | [] => [head]
  | c :: cs => (head ++ c) :: cs.map (spaces indent ++ ·)

/-- a keyword block: keyword padded to column 12, text wrapped, continuation with 12 blanks -/
def block (kw : Str) (t : Str) (bs : List Nat) : List Str :=
  hang (padRight kw 12) 12 (wrapText bs t)

/-- an optional sub-keyword block (omitted when the text is empty) -/
def optBlock (kw : Str) (t : Str) (bs : List Nat) : List Str :=
  if t = [] then [] else block kw t bs

def gap (ℓ : RecLayout) (i : Nat) : Str := spaces (ℓ.pads.getD i 0 + 1)

/-- a token of the LOCUS line with the number of additional blanks before it; nothing when absent -/
def optTok (pad : Nat) (t : Str) : List (Nat × Str) := if t = [] then [] else [(pad, t)]

/-- the words of a molecule type, the first after the gap, the others after one blank -/
def molToks (pad : Nat) (mol : Str) : List (Nat × Str) :=
  if mol = [] then [] else
  match splitC ' ' mol with
  | [] => []
  | w :: ws => (pad, w) :: ws.map fun x => (0, x)

def topoText (t : Option Topology) : Str := match t with | some x => x.text | none => []

/-- the tokens of the LOCUS line after the keyword, each with the additional blanks before it: name,
length (when stated) and `bp`, molecule type, topology, division, date -/
def locusToks (l : RLocus) (ℓ : RecLayout) : List (Nat × Str) :=
  [(ℓ.pads.getD 0 0, l.name)]
    ++ (if l.len = [] then [(ℓ.pads.getD 1 0, c!"bp")] else [(ℓ.pads.getD 1 0, l.len), (0, c!"bp")])
    ++ molToks (ℓ.pads.getD 2 0) l.mol
    ++ optTok (ℓ.pads.getD 3 0) (topoText l.topo)
    ++ optTok (ℓ.pads.getD 4 0) l.division
    ++ optTok (ℓ.pads.getD 5 0) l.date

/-- `gap token gap token …` -/
def gapped (ps : List (Nat × Str)) : Str := (ps.map fun p => spaces (p.1 + 1) ++ p.2).flatten

def locusLine (l : RLocus) (ℓ : RecLayout) : Str :=
  c!"LOCUS" ++ gapped (locusToks l ℓ) ++ spaces ℓ.locusTrail

/-- the number written for the reference at position `i`: its own when it states one, else the position -/
def refNumber (i : Nat) (r : RRef) : Str := if r.number = [] then ofNat (i + 1) else r.number

/-- text of the REFERENCE line: the number and, after two blanks, the range -/
def refHead (i : Nat) (r : RRef) : Str :=
  refNumber i r ++ (if r.range = [] then [] else c!"  " ++ r.range)

/-- the REFERENCE line (with its continuation lines when the range is wrapped) -/
def refHeadLines (i : Nat) (r : RRef) (ℓ : RefLayout) : List Str :=
  if ℓ.trailGap = true ∧ r.range = [] then [padRight c!"REFERENCE" 12 ++ refNumber i r ++ c!"  "]
  else block c!"REFERENCE" (refHead i r) ℓ.range

def refLines (i : Nat) (r : RRef) (ℓ : RefLayout) : List Str :=
  refHeadLines i r ℓ
    ++ (optBlock c!"  AUTHORS" r.authors ℓ.authors ++ optBlock c!"  TITLE" r.title ℓ.title
        ++ optBlock c!"  JOURNAL" r.journal ℓ.journal ++ optBlock c!"  PUBMED" r.pubmed ℓ.pubmed
        ++ optBlock c!"  REMARK" r.remark ℓ.remark)

def refsLines : Nat → List RRef → List RefLayout → List Str
  | _, [], _ => []
  | i, r :: rs, ls => refLines i r (ls.headD {}) ++ refsLines (i + 1) rs ls.tail

def extrasLines : List (Str × Str) → List (List Nat) → List Str
  | [], _ => []
  | (k, t) :: es, ls => block k t (ls.headD []) ++ extrasLines es ls.tail

/-- the chunks of a qualifier value: `/translation` values are cut between letters, every other
value is wrapped at blanks -/
def valueChunks (k v : Str) (bs : List Nat) : List Str :=
  if k = c!"translation" then cutTextV bs v else wrapTextV bs v

def closeLast : List Str → List Str
  | [] => []
  | [c] => [c ++ c!"\""]
  | c :: cs => c :: closeLast cs

/-- a value may be written without quotes when it is not empty and holds no blank and no quotation
mark (`/codon_start=1`) -/
def canUnquote (v : Str) : Bool := v != [] && !List.elem ' ' v && !List.elem '"' v

/-- the lines of one qualifier.  `style` 2 and an empty value: `/key`; `style` 1 and a value that
`canUnquote`: `/key=value` on one line; otherwise `/key="value"`, wrapped -/
def qualLines (k v : Str) (bs : List Nat) (style : Nat) : List Str :=
  if style = 2 ∧ v = [] then [spaces 21 ++ c!"/" ++ k]
  else if style = 1 ∧ canUnquote v = true then [spaces 21 ++ c!"/" ++ k ++ c!"=" ++ v]
  else hang (spaces 21 ++ c!"/" ++ k ++ c!"=\"") 21 (closeLast (valueChunks k v bs))

def qualsLines : List (Str × Str) → List (List Nat) → List Nat → List Str
  | [], _, _ => []
  | (k, v) :: qs, ls, sts => qualLines k v (ls.headD []) (sts.headD 0) ++ qualsLines qs ls.tail sts.tail

def featLines (f : RFeature) (ℓ : FeatLayout) : List Str :=
  hang (padRight (spaces 5 ++ f.key) 21) 21 (cutLoc ℓ.loc f.loc) ++ qualsLines f.quals ℓ.quals ℓ.styles

def featsLines : List RFeature → List FeatLayout → List Str
  | [], _ => []
  | f :: fs, ls => featLines f (ls.headD {}) ++ featsLines fs ls.tail

/-- pieces of `n + 1` characters -/
def chunk (n : Nat) : Nat → Str → List Str
  | 0, _ => []
  | f + 1, s => if s = [] then [] else s.take (n + 1) :: chunk n f (s.drop (n + 1))

def chunks (n : Nat) (s : Str) : List Str := chunk n s.length s

/-- one sequence line: counter right-justified in 9 columns, then the blocks, each after a blank -/
def originLine (blockLen : Nat) (start : Nat) (letters : Str) : Str :=
  padLeft (ofNat (start + 1)) 9 ++ ((chunks blockLen letters).map (' ' :: ·)).flatten

def originLinesAux (blockLen lineLen : Nat) : Nat → List Str → List Str
  | _, [] => []
  | start, l :: ls => originLine blockLen start l :: originLinesAux blockLen lineLen (start + lineLen) ls

def originLines (seq : Str) (blockLen perLine : Nat) : List Str :=
  let lineLen := (blockLen + 1) * (perLine + 1)
  originLinesAux blockLen lineLen 0 (chunks (lineLen - 1) seq)

/-- the header line of the feature table -/
def featuresHeader : Str := c!"FEATURES             Location/Qualifiers"

/-- a standard keyword block that may be left out when its text is empty -/
def mblock (om : Bool) (kw t : Str) (bs : List Nat) : List Str :=
  if om = true ∧ t = [] then [] else block kw t bs

/-- SOURCE with its sub-keyword ORGANISM; both left out together when both are empty (`om`), or — like every
other block without text — the ORGANISM line alone when the organism is empty (`oo`) -/
def sourceBlock (om oo : Bool) (src org : Str) (bs bo : List Nat) : List Str :=
  if om = true ∧ src = [] ∧ org = [] then []
  else block c!"SOURCE" src bs ++ (if oo = true ∧ org = [] then [] else block c!"  ORGANISM" org bo)

/-- where slot `k` of the extra keyword blocks starts -/
def off (cs : List Nat) : Nat → Nat
  | 0 => 0
  | k + 1 => off cs k + cs.getD k 0

/-- the extra keyword blocks written in slot `k` (0: after LOCUS … 5: before the first REFERENCE);
the blocks keep the order of the record -/
def extraSlot (r : GbRec) (ℓ : RecLayout) (k : Nat) : List Str :=
  extrasLines ((r.extras.drop (off ℓ.extraCuts k)).take (ℓ.extraCuts.getD k 0)) (ℓ.extras.drop (off ℓ.extraCuts k))

/-- how many of the remaining extra keyword blocks follow the references; the last `extraCuts[6]` of
them (none by default) stand after the feature table, where NCBI writes `CONTIG` -/
def afterRefsCount (r : GbRec) (ℓ : RecLayout) : Nat :=
  (r.extras.length - off ℓ.extraCuts 6) - min (ℓ.extraCuts.getD 6 0) (r.extras.length - off ℓ.extraCuts 6)

/-- the extra keyword blocks after the references -/
def extraRest (r : GbRec) (ℓ : RecLayout) : List Str :=
  extrasLines ((r.extras.drop (off ℓ.extraCuts 6)).take (afterRefsCount r ℓ)) (ℓ.extras.drop (off ℓ.extraCuts 6))

/-- the extra keyword blocks between the feature table and ORIGIN: all that are left -/
def extraAfterFeat (r : GbRec) (ℓ : RecLayout) : List Str :=
  extrasLines (r.extras.drop (off ℓ.extraCuts 6 + afterRefsCount r ℓ)) (ℓ.extras.drop (off ℓ.extraCuts 6 + afterRefsCount r ℓ))

/-- the lines of one record, `//` included -/
def layout (r : GbRec) (ℓ : RecLayout) : List Str :=
  [locusLine r.locus ℓ]
  ++ extraSlot r ℓ 0
  ++ mblock ℓ.omitDefinition c!"DEFINITION" r.definition ℓ.definition
  ++ extraSlot r ℓ 1
  ++ mblock ℓ.omitAccession c!"ACCESSION" r.accession ℓ.accession
  ++ extraSlot r ℓ 2
  ++ mblock ℓ.omitVersion c!"VERSION" r.version ℓ.version
  ++ extraSlot r ℓ 3
  ++ mblock ℓ.omitKeywords c!"KEYWORDS" r.keywords ℓ.keywords
  ++ extraSlot r ℓ 4
  ++ sourceBlock ℓ.omitSource ℓ.omitOrganism r.source r.organism ℓ.source ℓ.organism
  ++ extraSlot r ℓ 5
  ++ refsLines 0 r.refs ℓ.refs
  ++ extraRest r ℓ
  ++ [featuresHeader]
  ++ featsLines r.features ℓ.feats
  ++ extraAfterFeat r ℓ
  ++ [if ℓ.originTrail then c!"ORIGIN      " else c!"ORIGIN"]
  ++ originLines r.seq ℓ.blockLen ℓ.perLine
  ++ [c!"//"]

def recordsLines : List GbRec → List RecLayout → List Str
  | [], _ => []
  | r :: rs, ls => layout r (ls.headD {}) ++ recordsLines rs ls.tail

/-- the text of one record alone -/
def layoutText (r : GbRec) (ℓ : RecLayout) (finalNewline : Bool) : Str :=
  join c!"\n" (layout r ℓ) ++ (if finalNewline then c!"\n" else [])

/-- the text of a file of records -/
def layoutFile (rs : List GbRec) (ℓ : FileLayout) : Str :=
  join c!"\n" ((ℓ.header.getD []) ++ recordsLines rs ℓ.recs) ++ (if ℓ.finalNewline then c!"\n" else [])

/-! ### what the record states -/

def toLocus (l : RLocus) : Genbank.Locus :=
  { name := l.name, seqLength := l.len, molType := l.mol
    division := l.division, date := l.date, coding := if l.len = [] then [] else c!"bp"
    circular := l.topo == some .circular, linear := l.topo == some .linear }

def toRefs : Nat → List RRef → List Genbank.Reference
  | _, [] => []
  | i, r :: rs => { index := refNumber i r, authors := r.authors, title := r.title, journal := r.journal
                    pubmed := r.pubmed, remark := r.remark, range := r.range } :: toRefs (i + 1) rs

def toFeature (f : RFeature) : Genbank.Feature := { type := f.key, gbkLoc := f.loc, attrs := f.quals }

def toSequence (r : GbRec) : Genbank.Sequence :=
  { md := { locus := toLocus r.locus
            definition := r.definition, accession := r.accession, version := r.version
            keywords := r.keywords, organism := r.organism, source := r.source
            references := toRefs 0 r.refs, other := r.extras }
    seq := r.seq
    features := r.features.map toFeature }

/-- what a `map[string]string` keeps of a feature's qualifiers: of several qualifiers with one key the
LAST value survives, in the place of the first (known finding C01-repeated-qualifier-key).  With pairwise
distinct keys this is `toFeature`. -/
def toFeatureM (f : RFeature) : Genbank.Feature :=
  { type := f.key, gbkLoc := f.loc, attrs := f.quals.foldl (fun m q => Genbank.mapInsert m q.1 q.2) [] }

/-- `toSequence` with `toFeatureM` for the features -/
def toSequenceM (r : GbRec) : Genbank.Sequence := { toSequence r with features := r.features.map toFeatureM }

/-! ### the domain -/

/-- printable ASCII text that neither starts nor ends with a blank -/
def isText (t : Str) : Bool :=
  t.all isPrint && t.head? != some ' ' && t.getLast? != some ' '

/-- a locus name: a non-empty printable token without blanks (the property's lower-case names are
among these; the parser takes the name by position, so its spelling does not matter) -/
def isLocusName (s : Str) : Bool := s != [] && s.all (fun c => isPrint c && c != ' ')

def isDateText (d : Str) : Bool :=
  match d with
  | [d1, d2, '-', m1, m2, m3, '-', y1, y2, y3, y4] =>
    isDigit d1 && isDigit d2 && monthNames.contains [m1, m2, m3] && isDigit y1 && isDigit y2 && isDigit y3 && isDigit y4
  | _ => false

def wfLocus (l : RLocus) : Bool :=
  isLocusName l.name && l.len.all isDigit && (l.mol == [] || molTypes.contains l.mol)
    && (l.division == [] || divisionCodes.contains l.division) && (l.date == [] || isDateText l.date)

/-- printable and not blank -/
def isVisible (c : Char) : Bool := isPrint c && c != ' '

/-- the reference's own number, when stated, is any blank-free printable token (the parser keeps the first
word of the REFERENCE line as text: gaps, repeats, `0`, letters are all read back as written) -/
def wfRef (r : RRef) : Bool :=
  r.number.all isVisible && isText r.range && isText r.authors && isText r.title && isText r.journal && isText r.pubmed && isText r.remark

def reservedKeys : List Str :=
  [c!"LOCUS", c!"DEFINITION", c!"ACCESSION", c!"VERSION", c!"KEYWORDS", c!"SOURCE", c!"REFERENCE",
   c!"FEATURES", c!"ORIGIN", c!"ORGANISM", c!"AUTHORS", c!"TITLE", c!"JOURNAL", c!"PUBMED", c!"REMARK"]

/-- an extra keyword: a blank-free word of at most 11 columns that begins with a letter and is none of
the keywords the format reserves -/
def isExtraKey (k : Str) : Bool :=
  k.length ≤ 11 && k.all isVisible && (match k with | c :: _ => isLetter c | [] => false) && !reservedKeys.contains k

def distinct : List Str → Bool
  | [] => true
  | k :: ks => !ks.contains k && distinct ks

/-- feature keys and location texts: any visible characters -/
def isFeatKeyChar (c : Char) : Bool := isVisible c
def isLocChar (c : Char) : Bool := isVisible c
/-- qualifier keys: any visible character except '=' (ends the key), '/' (starts it) and the quotation mark -/
def isQualKeyChar (c : Char) : Bool := isVisible c && c != '=' && c != '/' && c != '"'

/-- qualifier values: printable; quotation marks may stand inside, not at either end (the enclosing
quotes are stripped as a set of characters) -/
def wfQual (q : Str × Str) : Bool :=
  q.1 != [] && q.1.all isQualKeyChar && q.2.all isPrint && q.2.head? != some '"' && q.2.getLast? != some '"'

/-! Location texts: one INSDC-shaped expression — an atom (`12`, `1..5`, `<1..>9`, `102.110`, `1^2`,
`J00194.1:100..202`) or `operator(loc,loc,…)` for any operator word (`join`, `order`, `bond`, `gap`, …),
`complement` taking exactly one operand.  Texts with unbalanced or stray parentheses are outside the domain. -/

def isAtomChar (c : Char) : Bool := isLocChar c && c != '(' && c != ')' && c != ','

mutual
/-- consume one location expression, return what follows it -/
def locRest : Nat → Str → Option Str
  | 0, _ => none
  | f + 1, s =>
    let w := s.takeWhile isAtomChar
    match s.dropWhile isAtomChar with
    | '(' :: r1 =>
      match argsRest f r1 with
      | some (n, ')' :: r2) => if w = c!"complement" ∧ n ≠ 1 then none else some r2
      | _ => none
    | r => if w = [] then none else some r
/-- consume `loc (, loc)*`, return the number of operands and what follows -/
def argsRest : Nat → Str → Option (Nat × Str)
  | 0, _ => none
  | f + 1, s =>
    match locRest f s with
    | some (',' :: r) => (argsRest f r).map fun p => (p.1 + 1, p.2)
    | some r => some (1, r)
    | none => none
end

def isLocText (s : Str) : Bool := s.all isLocChar && locRest (s.length + 1) s == some []

/-- no run of digits longer than `n` (from a run of `k` digits already read) -/
def digitRunsLe (n : Nat) : Nat → Str → Bool
  | _, [] => true
  | k, c :: cs => if isDigit c then decide (k + 1 ≤ n) && digitRunsLe n (k + 1) cs else digitRunsLe n 0 cs

/-- the location texts of the domain: INSDC-shaped (`isLocText`) with every numeral of at most 18 digits, so
below 10^18 < 2^63 — `strconv.Atoi` in `parseLocation` clamps a larger one to MaxInt64 (and poly drops the range
error), coordinates that large are no positions of a sequence below 10^8 bases -/
def isLocTextB (s : Str) : Bool := isLocText s && digitRunsLe 18 0 s

/-- a feature, except that its qualifier keys need not be distinct -/
def wfFeatureLoose (f : RFeature) : Bool :=
  f.key != [] && f.key.length ≤ 15 && f.key.all isFeatKeyChar
    && f.loc != [] && f.loc.all isLocChar
    && f.quals.all wfQual && isLocTextB f.loc

/-- `poly.Feature.Attributes` is a `map[string]string`: of several qualifiers with the same key only
the last survives (known finding C01-repeated-qualifier-key), so the theorems ask for distinct keys -/
def wfFeature (f : RFeature) : Bool :=
  f.key != [] && f.key.length ≤ 15 && f.key.all isFeatKeyChar
    && f.loc != [] && f.loc.all isLocChar
    && f.quals.all wfQual && distinct (f.quals.map (·.1)) && isLocTextB f.loc

/-- kf C01-repeated-qualifier-key: some feature repeats a qualifier key -/
def repeatedQualKey (r : GbRec) : Bool := r.features.any (fun f => !distinct (f.quals.map (·.1)))

/-- the layout writes a SOURCE block and leaves its (empty) ORGANISM line out (the class of the repaired defect
C01-source-without-organism, 6ccbb58; kept as a class label of the judge) -/
def orgOmitted (r : GbRec) (ℓ : RecLayout) : Bool :=
  ℓ.omitOrganism && r.organism == [] && !(ℓ.omitSource && r.source == [])

/-- the property's quantifier as a decidable predicate on abstract records -/
def wf (r : GbRec) : Bool :=
  wfLocus r.locus
    && isText r.definition && isText r.accession && isText r.version && isText r.keywords
    && isText r.source && isText r.organism
    && r.refs.all wfRef
    && r.extras.all (fun e => isExtraKey e.1 && isText e.2) && distinct (r.extras.map (·.1))
    && r.features.all wfFeature
    && r.seq.all isLetter && r.seq.length < 100000000

/-- the property's quantifier including features with repeated qualifier keys (what the check judges) -/
def wfLoose (r : GbRec) : Bool :=
  wfLocus r.locus
    && isText r.definition && isText r.accession && isText r.version && isText r.keywords
    && isText r.source && isText r.organism
    && r.refs.all wfRef
    && r.extras.all (fun e => isExtraKey e.1 && isText e.2) && distinct (r.extras.map (·.1))
    && r.features.all wfFeatureLoose
    && r.seq.all isLetter && r.seq.length < 100000000

def WF (r : GbRec) : Prop := wf r = true
instance (r : GbRec) : Decidable (WF r) := inferInstanceAs (Decidable (_ = _))

/-- the property's quantifier speaks of "qualifier values over printable ASCII other than the double quote": no
qualifier value of the record holds a quotation mark.  (`wfQual` — and with it the theorems — also admits quotation marks
INSIDE a value, for property C03's round trip; such records are outside C01's quantifier and are not judged: what a
`""` inside a quoted value states, one `"` by the INSDC escape or two, is not something this property decides.) -/
def quoteFreeValues (r : GbRec) : Bool :=
  r.features.all fun f => f.quals.all fun q => !(List.elem '"' q.2)

/-- "no line other than a record terminator ends in //" -/
def noSlashEnd (r : GbRec) (ℓ : RecLayout) : Bool :=
  ((layout r ℓ).dropLast).all (fun l => !hasSuffix l c!"//")

end PolyVerif.GbLayout
