import PolyVerif.Model.Genbank
/-
Independent spec for property C01: an abstract GenBank record `GbRec` and an independent WRITER
`layout : GbRec → RecLayout → List Str` (lines) / `layoutFile` (text) in the shape of the NCBI
flat-file definition (GenBank release notes §3.4, INSDC feature table definition §4):

  * keyword in columns 1-10, text from column 13, continuation lines with 12 blanks;
  * sub-keywords indented 2 (ORGANISM; AUTHORS, TITLE, JOURNAL, PUBMED, REMARK);
  * feature key at column 6, location at column 22, continuation of a location at column 22;
  * qualifiers `/key="value"` at column 22, continuation at column 22;
  * `ORIGIN`, sequence lines with a 9-column right-justified counter and blank-separated blocks;
  * `//`.

A `RecLayout` holds the writer's free choices: the six gaps of the LOCUS line, where each text block
is wrapped (a set of positions; a break happens only at a blank both of whose neighbours are not
blank — the format cannot represent any other break), where a `/translation` value is cut (anywhere between two non-blank characters), where a
location is cut (only after a comma), block length and blocks per line of the sequence, and whether
`ORIGIN` carries trailing blanks.  A `FileLayout` adds the number of records, the final newline and
the 10-line flat-file header.  Choosing the break positions of a greedy word wrap at width w gives
every wrap width; the theorems hold for every set of positions.

`wf r` is the decidable domain predicate (the property's quantifier text); `toSequence r` is what
the record states.  Nothing here is derived from genbank.go: the keyword spellings, molecule types,
division codes and month names are typed from the NCBI documents.  Core Lean only.
-/
namespace PolyVerif.GbLayout
open PolyVerif PolyVerif.Str

/-! ### abstract record -/

inductive MolType | dna | mrna | trna | rrna
  deriving DecidableEq, Repr

def MolType.text : MolType → Str
  | .dna => c!"DNA" | .mrna => c!"mRNA" | .trna => c!"tRNA" | .rrna => c!"rRNA"

inductive Topology | circular | linear
  deriving DecidableEq, Repr

def Topology.text : Topology → Str
  | .circular => c!"circular" | .linear => c!"linear"

/-- the 18 GenBank divisions (release notes §3.4.4) -/
def divisionCodes : List Str :=
  [c!"PRI", c!"ROD", c!"MAM", c!"VRT", c!"INV", c!"PLN", c!"BCT", c!"VRL", c!"PHG", c!"SYN",
   c!"UNA", c!"EST", c!"PAT", c!"STS", c!"GSS", c!"HTG", c!"HTC", c!"ENV"]

def monthNames : List Str :=
  [c!"JAN", c!"FEB", c!"MAR", c!"APR", c!"MAY", c!"JUN", c!"JUL", c!"AUG", c!"SEP", c!"OCT", c!"NOV", c!"DEC"]

structure RLocus where
  name : Str
  mol : MolType
  topo : Topology
  division : Nat            -- index into `divisionCodes`
  date : Str                -- dd-MON-yyyy
  deriving DecidableEq, Repr

structure RRef where
  range : Str := []
  authors : Str := []
  title : Str := []
  journal : Str := []
  pubmed : Str := []
  remark : Str := []
  deriving DecidableEq, Repr

structure RFeature where
  key : Str
  loc : Str
  quals : List (Str × Str) := []
  deriving DecidableEq, Repr

structure GbRec where
  locus : RLocus
  definition : Str := []
  accession : Str := []
  version : Str := []
  keywords : Str := []
  source : Str := []
  organism : Str := []
  refs : List RRef := []
  extras : List (Str × Str) := []
  features : List RFeature := []
  seq : Str := []
  deriving DecidableEq, Repr

/-! ### the writer's choices -/

structure RefLayout where
  range : List Nat := []         -- the REFERENCE line itself (number, two blanks, range) may be wrapped
  authors : List Nat := []
  title : List Nat := []
  journal : List Nat := []
  pubmed : List Nat := []
  remark : List Nat := []
  deriving Repr, Inhabited

structure FeatLayout where
  loc : List Nat := []
  quals : List (List Nat) := []
  deriving Repr, Inhabited

structure RecLayout where
  pads : List Nat := []          -- additional blanks (beyond one) in the six gaps of the LOCUS line
  definition : List Nat := []
  accession : List Nat := []
  version : List Nat := []
  keywords : List Nat := []
  source : List Nat := []
  organism : List Nat := []
  refs : List RefLayout := []
  extras : List (List Nat) := []
  feats : List FeatLayout := []
  originTrail : Bool := false    -- `ORIGIN` followed by six blanks, as NCBI writes it
  blockLen : Nat := 9            -- letters per block minus one
  perLine : Nat := 5             -- blocks per line minus one
  deriving Repr, Inhabited

structure FileLayout where
  recs : List RecLayout := []
  finalNewline : Bool := true
  header : Option (List Str) := none   -- the 10 lines of a flat-file header
  deriving Repr, Inhabited

/-! ### wrapping -/

/-- break `t` at the chosen blanks: position `i` (0-based) is used when `t[i]` is a blank, both
neighbours exist and are not blank, and `i ∈ bs`; the blank itself is replaced by the line break.
`p` is the previous character. -/
def wrapAux (bs : List Nat) : Nat → Char → Str → List Str
  | _, _, [] => [[]]
  | _, _, [c] => [[c]]
  | i, p, c :: n :: rest =>
    if c = ' ' ∧ p ≠ ' ' ∧ n ≠ ' ' ∧ i ∈ bs then [] :: wrapAux bs (i + 1) c (n :: rest)
    else consHead c (wrapAux bs (i + 1) c (n :: rest))

def wrapText (bs : List Nat) (t : Str) : List Str := wrapAux bs 0 ' ' t

/-- cut `t` between two non-blank characters: before position `i` when `i ∈ bs` and `t[i-1]`, `t[i]`
are not blank -/
def cutAux (bs : List Nat) : Nat → Char → Str → List Str
  | _, _, [] => [[]]
  | i, p, c :: rest =>
    if p ≠ ' ' ∧ c ≠ ' ' ∧ i ∈ bs then [] :: consHead c (cutAux bs (i + 1) c rest)
    else consHead c (cutAux bs (i + 1) c rest)

def cutText (bs : List Nat) (t : Str) : List Str := cutAux bs 0 ' ' t

/-- cut a location after the comma at position `i` when `i ∈ bs` and something follows -/
def cutLocAux (bs : List Nat) : Nat → Str → List Str
  | _, [] => [[]]
  | i, c :: rest =>
    if c = ',' ∧ rest ≠ [] ∧ i ∈ bs then [c] :: cutLocAux bs (i + 1) rest
    else consHead c (cutLocAux bs (i + 1) rest)

def cutLoc (bs : List Nat) (t : Str) : List Str := cutLocAux bs 0 t

/-! ### lines -/

def padRight (s : Str) (n : Nat) : Str := s ++ spaces (n - s.length)
def padLeft (s : Str) (n : Nat) : Str := spaces (n - s.length) ++ s

/-- first line = `head ++ first chunk`, the others = `indent` blanks ++ chunk -/
def hang (head : Str) (indent : Nat) : List Str → List Str
  | [] => [head]
  | c :: cs => (head ++ c) :: cs.map (spaces indent ++ ·)

/-- a keyword block: keyword padded to column 12, text wrapped, continuation with 12 blanks -/
def block (kw : Str) (t : Str) (bs : List Nat) : List Str :=
  hang (padRight kw 12) 12 (wrapText bs t)

/-- an optional sub-keyword block (omitted when the text is empty) -/
def optBlock (kw : Str) (t : Str) (bs : List Nat) : List Str :=
  if t = [] then [] else block kw t bs

def gap (ℓ : RecLayout) (i : Nat) : Str := spaces (ℓ.pads.getD i 0 + 1)

def locusLine (l : RLocus) (n : Nat) (ℓ : RecLayout) : Str :=
  c!"LOCUS" ++ gap ℓ 0 ++ l.name ++ gap ℓ 1 ++ ofNat n ++ c!" bp" ++ gap ℓ 2 ++ l.mol.text ++ gap ℓ 3
    ++ l.topo.text ++ gap ℓ 4 ++ divisionCodes.getD l.division [] ++ gap ℓ 5 ++ l.date

/-- text of the REFERENCE line: the number and, after two blanks, the range -/
def refHead (i : Nat) (r : RRef) : Str :=
  ofNat (i + 1) ++ (if r.range = [] then [] else c!"  " ++ r.range)

def refLines (i : Nat) (r : RRef) (ℓ : RefLayout) : List Str :=
  block c!"REFERENCE" (refHead i r) ℓ.range
    ++ (optBlock c!"  AUTHORS" r.authors ℓ.authors ++ optBlock c!"  TITLE" r.title ℓ.title
        ++ optBlock c!"  JOURNAL" r.journal ℓ.journal ++ optBlock c!"  PUBMED" r.pubmed ℓ.pubmed
        ++ optBlock c!"  REMARK" r.remark ℓ.remark)

def refsLines : Nat → List RRef → List RefLayout → List Str
  | _, [], _ => []
  | i, r :: rs, ls => refLines i r (ls.headD {}) ++ refsLines (i + 1) rs ls.tail

def extrasLines : List (Str × Str) → List (List Nat) → List Str
  | [], _ => []
  | (k, t) :: es, ls => block k t (ls.headD []) ++ extrasLines es ls.tail

/-- the chunks of a qualifier value: `/translation` values are cut between letters, every other
value is wrapped at blanks -/
def valueChunks (k v : Str) (bs : List Nat) : List Str :=
  if k = c!"translation" then cutText bs v else wrapText bs v

def closeLast : List Str → List Str
  | [] => []
  | [c] => [c ++ c!"\""]
  | c :: cs => c :: closeLast cs

def qualLines (k v : Str) (bs : List Nat) : List Str :=
  hang (spaces 21 ++ c!"/" ++ k ++ c!"=\"") 21 (closeLast (valueChunks k v bs))

def qualsLines : List (Str × Str) → List (List Nat) → List Str
  | [], _ => []
  | (k, v) :: qs, ls => qualLines k v (ls.headD []) ++ qualsLines qs ls.tail

def featLines (f : RFeature) (ℓ : FeatLayout) : List Str :=
  hang (padRight (spaces 5 ++ f.key) 21) 21 (cutLoc ℓ.loc f.loc) ++ qualsLines f.quals ℓ.quals

def featsLines : List RFeature → List FeatLayout → List Str
  | [], _ => []
  | f :: fs, ls => featLines f (ls.headD {}) ++ featsLines fs ls.tail

/-- pieces of `n + 1` characters -/
def chunk (n : Nat) : Nat → Str → List Str
  | 0, _ => []
  | f + 1, s => if s = [] then [] else s.take (n + 1) :: chunk n f (s.drop (n + 1))

def chunks (n : Nat) (s : Str) : List Str := chunk n s.length s

/-- one sequence line: counter right-justified in 9 columns, then the blocks, each after a blank -/
def originLine (blockLen : Nat) (start : Nat) (letters : Str) : Str :=
  padLeft (ofNat (start + 1)) 9 ++ ((chunks blockLen letters).map (' ' :: ·)).flatten

def originLinesAux (blockLen lineLen : Nat) : Nat → List Str → List Str
  | _, [] => []
  | start, l :: ls => originLine blockLen start l :: originLinesAux blockLen lineLen (start + lineLen) ls

def originLines (seq : Str) (blockLen perLine : Nat) : List Str :=
  let lineLen := (blockLen + 1) * (perLine + 1)
  originLinesAux blockLen lineLen 0 (chunks (lineLen - 1) seq)

/-- the header line of the feature table -/
def featuresHeader : Str := c!"FEATURES             Location/Qualifiers"

/-- the lines of one record, `//` included -/
def layout (r : GbRec) (ℓ : RecLayout) : List Str :=
  [locusLine r.locus r.seq.length ℓ]
  ++ block c!"DEFINITION" r.definition ℓ.definition
  ++ block c!"ACCESSION" r.accession ℓ.accession
  ++ block c!"VERSION" r.version ℓ.version
  ++ block c!"KEYWORDS" r.keywords ℓ.keywords
  ++ block c!"SOURCE" r.source ℓ.source
  ++ block c!"  ORGANISM" r.organism ℓ.organism
  ++ refsLines 0 r.refs ℓ.refs
  ++ extrasLines r.extras ℓ.extras
  ++ [featuresHeader]
  ++ featsLines r.features ℓ.feats
  ++ [if ℓ.originTrail then c!"ORIGIN      " else c!"ORIGIN"]
  ++ originLines r.seq ℓ.blockLen ℓ.perLine
  ++ [c!"//"]

def recordsLines : List GbRec → List RecLayout → List Str
  | [], _ => []
  | r :: rs, ls => layout r (ls.headD {}) ++ recordsLines rs ls.tail

/-- the text of one record alone -/
def layoutText (r : GbRec) (ℓ : RecLayout) (finalNewline : Bool) : Str :=
  join c!"\n" (layout r ℓ) ++ (if finalNewline then c!"\n" else [])

/-- the text of a file of records -/
def layoutFile (rs : List GbRec) (ℓ : FileLayout) : Str :=
  join c!"\n" ((ℓ.header.getD []) ++ recordsLines rs ℓ.recs) ++ (if ℓ.finalNewline then c!"\n" else [])

/-! ### what the record states -/

def toLocus (l : RLocus) (n : Nat) : Genbank.Locus :=
  { name := l.name, seqLength := ofNat n, molType := l.mol.text
    division := divisionCodes.getD l.division [], date := l.date, coding := c!"bp"
    circular := l.topo == .circular, linear := l.topo == .linear }

def toRefs : Nat → List RRef → List Genbank.Reference
  | _, [] => []
  | i, r :: rs => { index := ofNat (i + 1), authors := r.authors, title := r.title, journal := r.journal
                    pubmed := r.pubmed, remark := r.remark, range := r.range } :: toRefs (i + 1) rs

def toFeature (f : RFeature) : Genbank.Feature := { type := f.key, gbkLoc := f.loc, attrs := f.quals }

def toSequence (r : GbRec) : Genbank.Sequence :=
  { md := { locus := toLocus r.locus r.seq.length
            definition := r.definition, accession := r.accession, version := r.version
            keywords := r.keywords, organism := r.organism, source := r.source
            references := toRefs 0 r.refs, other := r.extras }
    seq := r.seq
    features := r.features.map toFeature }

/-! ### the domain -/

/-- printable ASCII text that neither starts nor ends with a blank -/
def isText (t : Str) : Bool :=
  t.all isPrint && t.head? != some ' ' && t.getLast? != some ' '

/-- a locus name: a non-empty printable token without blanks (the property's lower-case names are
among these; the parser takes the name by position, so its spelling does not matter) -/
def isLocusName (s : Str) : Bool := s != [] && s.all (fun c => isPrint c && c != ' ')

def isDateText (d : Str) : Bool :=
  match d with
  | [d1, d2, '-', m1, m2, m3, '-', y1, y2, y3, y4] =>
    isDigit d1 && isDigit d2 && monthNames.contains [m1, m2, m3] && isDigit y1 && isDigit y2 && isDigit y3 && isDigit y4
  | _ => false

def wfLocus (l : RLocus) : Bool :=
  isLocusName l.name && l.division < divisionCodes.length && isDateText l.date

def wfRef (r : RRef) : Bool :=
  isText r.range && isText r.authors && isText r.title && isText r.journal && isText r.pubmed && isText r.remark

def reservedKeys : List Str :=
  [c!"LOCUS", c!"DEFINITION", c!"ACCESSION", c!"VERSION", c!"KEYWORDS", c!"SOURCE", c!"REFERENCE",
   c!"FEATURES", c!"ORIGIN", c!"ORGANISM", c!"AUTHORS", c!"TITLE", c!"JOURNAL", c!"PUBMED", c!"REMARK"]

def isExtraKey (k : Str) : Bool :=
  k != [] && k.length ≤ 10 && k.all isUpper && !reservedKeys.contains k

def distinct : List Str → Bool
  | [] => true
  | k :: ks => !ks.contains k && distinct ks

def isFeatKeyChar (c : Char) : Bool := isLetter c || isDigit c || c == '_' || c == '-' || c == '\''
def isLocChar (c : Char) : Bool :=
  isLetter c || isDigit c || c == '.' || c == ',' || c == '(' || c == ')' || c == '<' || c == '>' || c == '^' || c == ':'
def isQualKeyChar (c : Char) : Bool := isLower c || isDigit c || c == '_'

def wfQual (q : Str × Str) : Bool :=
  q.1 != [] && q.1.all isQualKeyChar && q.2.all (fun c => isPrint c && c != '"')

def wfFeature (f : RFeature) : Bool :=
  f.key != [] && f.key.length ≤ 15 && f.key.all isFeatKeyChar
    && f.loc != [] && f.loc.all isLocChar
    && f.quals.all wfQual && distinct (f.quals.map (·.1))

/-- the property's quantifier as a decidable predicate on abstract records -/
def wf (r : GbRec) : Bool :=
  wfLocus r.locus
    && isText r.definition && isText r.accession && isText r.version && isText r.keywords
    && isText r.source && isText r.organism
    && r.refs.all wfRef
    && r.extras.all (fun e => isExtraKey e.1 && isText e.2) && distinct (r.extras.map (·.1))
    && r.features.all wfFeature
    && r.seq.all isLetter && r.seq.length < 100000000

def WF (r : GbRec) : Prop := wf r = true
instance (r : GbRec) : Decidable (WF r) := inferInstanceAs (Decidable (_ = _))

/-- "no line other than a record terminator ends in //" -/
def noSlashEnd (r : GbRec) (ℓ : RecLayout) : Bool :=
  ((layout r ℓ).dropLast).all (fun l => !hasSuffix l c!"//")

end PolyVerif.GbLayout
