import PolyVerif.Model.GenbankBuild
/-
An INDEPENDENT, strict, column-oriented reader of the GenBank flat-file layout (property C03:
"the text follows the GenBank flat-file layout closely enough that an independent reader
recovers the same record").  It shares no code with the parser model (`Model/Genbank.lean`) and
reads by COLUMNS, where poly's parser splits on blanks:

  keyword lines     keyword = columns 1-12 (trailing blanks dropped), data from column 13;
                    sub-keyword (`  ORGANISM`, `  AUTHORS`, ...) = blank columns 1-2, keyword in
                    columns 3-12; continuation line ⇔ columns 1-12 blank; the lines of one
                    block are joined with single blanks
  LOCUS             columns 1-12 = `LOCUS`, then blank-separated tokens: name, [length] `bp`,
                    molecule type words, [topology], [division], [date]
  REFERENCE         data = number, blanks, range
  feature table     feature key in columns 6-20, column 21 blank, location from column 22 (one
                    line); qualifier = 21 blanks then `/key="value"` on one line, the value being
                    what stands between the first `="` and the final `"`
  ORIGIN            per line: columns 1-9 right-justified number of the first base of the line,
                    column 10 blank, then at most 6 groups of letters separated by single blanks,
                    every group but the last of the line 10 long, every line but the last 60 bases
  terminator        `//`, end of text (one final newline tolerated)

Anything else is rejected (`none`).  `abs` states what the reader must recover from `build x`.
Core Lean only.
-/
namespace PolyVerif.Spec.GbStrict
open PolyVerif
open PolyVerif.GenbankBuild (Sequence Feature Reference Locus)

/-! ### lines, columns, tokens -/

def lineStep (c : Char) (acc : List Str) : List Str :=
  if c = '\n' then [] :: acc
  else match acc with
    | [] => [[c]]
    | l :: ls => (c :: l) :: ls

/-- the lines of a text (a final newline yields a final empty line) -/
def lines (s : Str) : List Str := s.foldr lineStep [[]]

def blanks (n : Nat) : Str := List.replicate n ' '

def trimRight (s : Str) : Str := (s.reverse.dropWhile (· == ' ')).reverse

def trimLeft (s : Str) : Str := s.dropWhile (· == ' ')

/-- join with single blanks -/
def joinSp : List Str → Str
  | [] => []
  | [l] => l
  | l :: ls => l ++ ' ' :: joinSp ls

def tokStep (c : Char) (st : Str × List Str) : Str × List Str :=
  if c = ' ' then ([], if st.1 = [] then st.2 else st.1 :: st.2) else (c :: st.1, st.2)

def tokFinish (st : Str × List Str) : List Str := if st.1 = [] then st.2 else st.1 :: st.2

/-- the maximal blank-free pieces of a line -/
def tokens (s : Str) : List Str := tokFinish (s.foldr tokStep ([], []))

/-- split at single blanks (two adjacent blanks give an empty field) -/
def fieldStep (c : Char) (acc : List Str) : List Str :=
  if c = ' ' then [] :: acc
  else match acc with
    | [] => [[c]]
    | l :: ls => (c :: l) :: ls

def fields (s : Str) : List Str := s.foldr fieldStep [[]]

/-- the lines before the first line satisfying `p`, and the lines after it -/
def cutAt (p : Str → Bool) : List Str → Option (List Str × List Str)
  | [] => none
  | l :: ls =>
    if p l then some ([], ls)
    else match cutAt p ls with
      | some (a, b) => some (l :: a, b)
      | none => none

def isDigit (c : Char) : Bool := 48 ≤ c.toNat && c.toNat ≤ 57
def isUpper (c : Char) : Bool := 65 ≤ c.toNat && c.toNat ≤ 90
def isLetter (c : Char) : Bool := isUpper c || (97 ≤ c.toNat && c.toNat ≤ 122)

/-- value of a string of decimal digits -/
def natOfDigits (s : Str) : Nat := s.foldl (fun acc c => acc * 10 + (c.toNat - 48)) 0

/-! ### the abstract record -/

structure SLocus where
  name : Str
  length : Str
  moleculeType : Str
  topology : Str
  division : Str
  date : Str
  deriving DecidableEq, Repr

/-- a keyword block: for `REFERENCE`, `num` is the reference number and `text` the range -/
structure SBlock where
  key : Str
  num : Str := []
  text : Str
  subs : List (Str × Str) := []
  deriving DecidableEq, Repr

structure SFeat where
  key : Str
  loc : Str
  quals : List (Str × Str)
  deriving DecidableEq, Repr

structure Rec where
  locus : SLocus
  blocks : List SBlock
  feats : List SFeat
  origin : Str
  deriving DecidableEq, Repr

/-! ### LOCUS -/

def divisions : List Str :=
  ["PRI", "ROD", "MAM", "VRT", "INV", "PLN", "BCT", "VRL", "PHG", "SYN", "UNA", "EST", "PAT", "STS",
   "GSS", "HTG", "HTC", "ENV"].map String.toList

def topologies : List Str := ["circular", "linear"].map String.toList

def months : List Str :=
  ["JAN", "FEB", "MAR", "APR", "MAY", "JUN", "JUL", "AUG", "SEP", "OCT", "NOV", "DEC"].map String.toList

/-- `dd-MMM-yyyy` with a real month.  (A "date" such as `01-PRI-2020` is not one — and poly's parser
would read its middle as a division code: it searches the codes in the whole rest of the LOCUS line.) -/
def isDate (s : Str) : Bool :=
  match s with
  | [d1, d2, m1, a, b, c, m2, y1, y2, y3, y4] =>
    isDigit d1 && isDigit d2 && m1 == '-' && isUpper a && isUpper b && isUpper c && m2 == '-'
      && isDigit y1 && isDigit y2 && isDigit y3 && isDigit y4 && months.contains [a, b, c]
  | _ => false

/-- take the last token off a reversed token list if it satisfies `p` -/
def takeIf (p : Str → Bool) : List Str → Str × List Str
  | t :: ts => if p t then (t, ts) else ([], t :: ts)
  | [] => ([], [])

/-- `[length] bp` at the head of the tokens that follow the name -/
def splitLength (rest : List Str) : Option (Str × List Str) :=
  match rest with
  | n :: u :: r =>
    if n.all isDigit ∧ n ≠ [] ∧ u = "bp".toList then some (n, r)
    else if n = "bp".toList then some ([], u :: r) else none
  | [n] => if n = "bp".toList then some ([], []) else none
  | [] => none

/-- the tokens after the name: [length] `bp`, molecule type words, [topology] [division] [date] -/
def classifyLocus (name : Str) (rest : List Str) : Option SLocus :=
  match splitLength rest with
  | none => none
  | some (len, r) =>
    let (date, r1) := takeIf isDate r.reverse
    let (division, r2) := takeIf (fun t => divisions.contains t) r1
    let (topology, r3) := takeIf (fun t => topologies.contains t) r2
    some { name := name, length := len, moleculeType := joinSp r3.reverse, topology := topology,
           division := division, date := date }

def readLocus (l : Str) : Option SLocus :=
  if trimRight (l.take 12) = "LOCUS".toList then
    match tokens (l.drop 12) with
    | name :: rest => classifyLocus name rest
    | [] => none
  else none

/-! ### keyword blocks -/

def isCont (l : Str) : Bool := l.take 12 == blanks 12

def isSubKey (l : Str) : Bool :=
  match l with
  | ' ' :: ' ' :: c :: _ => c != ' '
  | _ => false

def isKeyLine (l : Str) : Bool :=
  match l with
  | c :: _ => c != ' '
  | [] => false

def textOf (ds : List Str) : Str := trimRight (joinSp ds)

def mkBlock (key text : Str) (subs : List (Str × Str)) : SBlock :=
  if key = "REFERENCE".toList then
    { key := key, num := text.takeWhile (· != ' '), text := trimLeft (text.dropWhile (· != ' ')), subs := subs }
  else { key := key, text := text, subs := subs }

structure HState where
  conts : List Str := []
  subs : List (Str × Str) := []
  blocks : List SBlock := []
  ok : Bool := true

/-- one line of the header section, read from the LAST line to the first: a continuation line is
kept until its (sub-)keyword line comes, a sub-keyword block until its keyword line comes -/
def headerStep (l : Str) (st : HState) : HState :=
  if isCont l then { st with conts := l.drop 12 :: st.conts }
  else if isSubKey l then
    { st with conts := [], subs := (trimRight ((l.take 12).drop 2), textOf (l.drop 12 :: st.conts)) :: st.subs }
  else if isKeyLine l then
    { st with conts := [], subs := [],
              blocks := mkBlock (trimRight (l.take 12)) (textOf (l.drop 12 :: st.conts)) st.subs :: st.blocks }
  else { st with ok := false }

def readHeader (ls : List Str) : Option (List SBlock) :=
  let st := ls.foldr headerStep {}
  if st.ok ∧ st.conts = [] ∧ st.subs = [] then some st.blocks else none

/-! ### feature table -/

/-- 21 blanks, then `/key="value"` -/
def readQual (l : Str) : Option (Str × Str) :=
  if l.take 21 = blanks 21 then
    match l.drop 21 with
    | '/' :: r =>
      match r.dropWhile (· != '=') with
      | '=' :: '"' :: v =>
        match v.reverse with
        | '"' :: vr => some (r.takeWhile (· != '='), vr.reverse)
        | _ => none
      | _ => none
    | _ => none
  else none

/-- 5 blanks, key in columns 6-20, column 21 blank, location from column 22 -/
def readFeatLine (l : Str) : Option (Str × Str) :=
  if l.take 5 = blanks 5 then
    match l.drop 5 with
    | c :: r =>
      if c ≠ ' ' ∧ ((c :: r).drop 15).head? = some ' ' ∧ (c :: r).drop 16 ≠ [] then
        some (trimRight ((c :: r).take 15), (c :: r).drop 16)
      else none
    | [] => none
  else none

structure FState where
  quals : List (Str × Str) := []
  feats : List SFeat := []
  ok : Bool := true

def featStep (l : Str) (st : FState) : FState :=
  match readQual l with
  | some q => { st with quals := q :: st.quals }
  | none =>
    match readFeatLine l with
    | some (k, loc) => { st with quals := [], feats := { key := k, loc := loc, quals := st.quals } :: st.feats }
    | none => { st with ok := false }

def readFeats (ls : List Str) : Option (List SFeat) :=
  let st := ls.foldr featStep {}
  if st.ok ∧ st.quals = [] then some st.feats else none

/-! ### ORIGIN -/

/-- groups of one line: at most 6, none empty, letters only, all but the last 10 long, the last ≤ 10 -/
def groupsOk : List Str → Bool
  | [] => false
  | [g] => g != [] && g.length ≤ 10 && g.all isLetter
  | g :: gs => g.length == 10 && g.all isLetter && groupsOk gs

/-- one sequence line, `count` bases having been read before it -/
def readOriginLine (count : Nat) (l : Str) : Option Str :=
  let num := trimLeft (l.take 9)
  if (l.take 9).length = 9 ∧ num ≠ [] ∧ num.all isDigit ∧ natOfDigits num = count + 1
      ∧ (l.drop 9).head? = some ' ' then
    let gs := fields (l.drop 10)
    if groupsOk gs ∧ gs.length ≤ 6 then some gs.flatten else none
  else none

def readOrigin : Nat → List Str → Option Str
  | _, [] => none
  | count, [l] => readOriginLine count l
  | count, l :: ls =>
    match readOriginLine count l with
    | some g =>
      if g.length = 60 then
        match readOrigin (count + 60) ls with
        | some rest => some (g ++ rest)
        | none => none
      else none
    | none => none

/-! ### the reader -/

def keywordIs (k : String) (l : Str) : Bool := trimRight (l.take 12) == k.toList

def strictRead (s : Str) : Option Rec :=
  match lines s with
  | [] => none
  | l0 :: rest =>
    match cutAt (keywordIs "FEATURES") rest with
    | none => none
    | some (hdr, rest1) =>
      match cutAt (keywordIs "ORIGIN") rest1 with
      | none => none
      | some (fts, rest2) =>
        match cutAt (fun l => l == "//".toList) rest2 with
        | none => none
        | some (org, tail) =>
          if tail = [] ∨ tail = [[]] then
            match readLocus l0, readHeader hdr, readFeats fts, readOrigin 0 org with
            | some locus, some blocks, some feats, some origin =>
              some { locus := locus, blocks := blocks, feats := feats, origin := origin }
            | _, _, _, _ => none
          else none

/-! ### what must be recovered from `build x` -/

def absLocus (l : Locus) : SLocus :=
  { name := l.name, length := l.sequenceLength, moleculeType := l.moleculeType,
    topology := if l.circular then "circular".toList else if l.linear then "linear".toList else [],
    division := l.genbankDivision, date := l.modificationDate }

def optSub (k : String) (v : Str) : List (Str × Str) := if v ≠ [] then [(k.toList, v)] else []

/-- the number of the reference at position `i`: its own `Index` when set, else the position -/
def refNum (i : Nat) (r : Reference) : Str := if r.index = [] then Location.itoa (i + 1) else r.index

/-- a reference carries its own number when it has one, else its position (from `i + 1`) -/
def absRefs : Nat → List Reference → List SBlock
  | _, [] => []
  | i, r :: rs =>
    { key := "REFERENCE".toList, num := refNum i r, text := r.range,
      subs := optSub "AUTHORS" r.authors ++ optSub "TITLE" r.title ++ optSub "JOURNAL" r.journal
              ++ optSub "PUBMED" r.pubMed ++ optSub "REMARK" r.remark } :: absRefs (i + 1) rs

/-- the entries of a map in ascending key order -/
def sortedEntries (m : List (Str × Str)) : List (Str × Str) :=
  (StrBuild.sortStrings (m.map Prod.fst)).map fun k => (k, StrBuild.lookupD m k)

def absFeat (f : Feature) : SFeat :=
  { key := f.type,
    loc := if f.gbkLocationString ≠ [] then f.gbkLocationString else Location.buildLoc f.sequenceLocation,
    quals := sortedEntries f.attributes }

def abs (x : Sequence) : Rec :=
  let m := x.metadata
  { locus := absLocus m.locus,
    blocks :=
      [ { key := "DEFINITION".toList, text := m.definition },
        { key := "ACCESSION".toList, text := m.accession },
        { key := "VERSION".toList, text := m.version },
        { key := "KEYWORDS".toList, text := m.keywords },
        { key := "SOURCE".toList, text := m.source, subs := [("ORGANISM".toList, m.organism)] } ]
      ++ absRefs 0 m.references
      ++ (sortedEntries m.other).map fun kv => { key := kv.1, text := kv.2 },
    feats := x.features.map absFeat,
    origin := x.sequence }

/-! ### the domain of the property (decidable), and the equality `≈` its round-trip clause speaks of -/

def visible (c : Char) : Bool := 33 ≤ c.toNat && c.toNat ≤ 126
def printable (c : Char) : Bool := 32 ≤ c.toNat && c.toNat ≤ 126

/-- a non-empty run of printable, non-blank ASCII -/
def isWord (w : Str) : Bool := w != [] && w.all visible

/-- `b` = "a word has just been read": a blank may only follow a word and must be followed by one -/
def spacedFrom : Bool → Str → Bool
  | b, [] => b
  | b, c :: r => if c = ' ' then b && spacedFrom false r else visible c && spacedFrom true r

/-- metadata text: empty, or ASCII words separated by SINGLE blanks (no blank at either end) -/
def singleSpaced (t : Str) : Bool := t == [] || spacedFrom false t

def molTypes : List Str :=
  ["DNA", "genomic DNA", "genomic RNA", "mRNA", "tRNA", "rRNA", "other RNA", "other DNA",
   "transcribed RNA", "viral cRNA", "unassigned DNA", "unassigned RNA"].map String.toList

/-- the keywords `Build` writes itself: an extra keyword block has another name -/
def reservedKeys : List Str :=
  ["LOCUS", "DEFINITION", "ACCESSION", "VERSION", "KEYWORDS", "SOURCE", "ORGANISM", "REFERENCE",
   "AUTHORS", "TITLE", "JOURNAL", "PUBMED", "REMARK", "FEATURES", "ORIGIN"].map String.toList

def wfLocus (l : Locus) : Bool :=
  isWord l.name && l.sequenceLength.all isDigit
    && (l.moleculeType == [] || molTypes.contains l.moleculeType)
    && (l.genbankDivision == [] || divisions.contains l.genbankDivision)
    && (l.modificationDate == [] || isDate l.modificationDate)

def wfRef (r : Reference) : Bool :=
  singleSpaced r.range && singleSpaced r.authors && singleSpaced r.title && singleSpaced r.journal
    && singleSpaced r.pubMed && singleSpaced r.remark && (r.index == [] || isWord r.index)

/-- `maxKey` columns for the keyword of an extra block -/
def wfOther (maxKey : Nat) (kv : Str × Str) : Bool :=
  isWord kv.1 && (match kv.1 with | c :: _ => isLetter c | [] => false) && kv.1.length ≤ maxKey
    && !reservedKeys.contains kv.1 && singleSpaced kv.2

def nodupKeys (m : List (Str × Str)) : Bool :=
  match m with
  | [] => true
  | kv :: r => !(r.map Prod.fst).contains kv.1 && nodupKeys r

def wfQual (kv : Str × Str) : Bool := isWord kv.1 && !kv.1.contains '=' && kv.2.all printable

def wfFeature (f : Feature) : Bool :=
  isWord f.type && f.type.length ≤ 15 && f.gbkLocationString.all visible
    && nodupKeys f.attributes && f.attributes.all wfQual

/-- LAYOUT domain: every text fits the field of the flat file it is written into -/
def wfLayout (x : Sequence) : Bool :=
  let m := x.metadata
  wfLocus m.locus
    && singleSpaced m.definition && singleSpaced m.accession && singleSpaced m.version
    && singleSpaced m.keywords && singleSpaced m.source && singleSpaced m.organism
    && m.references.all wfRef
    && nodupKeys m.other && m.other.all (wfOther 12)
    && x.features.all wfFeature
    && x.sequence != [] && x.sequence.all isLetter && x.sequence.length < 1000000000

/-! #### additional conditions of the write-then-read clause -/

mutual
/-- a location the writer can express (as `BuildLocationString` is since ec3cbb7 / 1650bb9):
a span (any two integers, `{0,0}` of a feature assembled without location included), or a node with
operands that carries no span of its own (poly never reads `Start/End` of such a node): several
operands (written `join(…)` whether or not `Join` is set), one operand under `Join`, or the
complement of a complement; either possibly complemented.  `Join` without operands is not a location. -/
def wfLoc : Location.PLoc → Bool
  | ⟨start, stop, c, join, _, _, subs⟩ =>
    match subs with
    | [] => !join
    | [s] => start == 0 && stop == 0 && (join || (c && s.complement)) && wfLoc s
    | s :: t :: ss => start == 0 && stop == 0 && wfLocs (s :: t :: ss)
def wfLocs : List Location.PLoc → Bool
  | [] => true
  | l :: ls => wfLoc l && wfLocs ls
end

mutual
/-- the part of `wfLoc` on which the location STRUCTURE read back is a theorem (it is C02's domain:
`Insdc.Rep` with `InRange`, `Arity`): every span lies forward on a sequence (`0 ≤ Start < End`) and no
node with ONE operand carries the `Join` flag (INSDC joins have two operands or more).  Outside it —
negative / `{0,0}` / reversed coordinates below an operator, `join(x)` — the structure is tested only. -/
def locR : Location.PLoc → Bool
  | ⟨start, stop, _, join, _, _, subs⟩ =>
    match subs with
    | [] => decide (0 ≤ start) && decide (start < stop)
    | [s] => !join && locR s
    | s :: t :: ss => locsR (s :: t :: ss)
def locsR : List Location.PLoc → Bool
  | [] => true
  | l :: ls => locR l && locsR ls
end

/-- … and a single span with ANY integers (C02 `read_write_leaf`) -/
def plainLeaf (p : Location.PLoc) : Bool := p.subs.isEmpty && !p.complement && !p.join

/-- the structural locations for which `parseLocation (buildLoc p) ≈ p` is proved -/
def locProved (p : Location.PLoc) : Bool := wfLoc p && (locR p || plainLeaf p)

mutual
/-- partial markers belong to spans; on a node with operands they are derived (set iff set
somewhere below), and so is `Join` of a node with several operands (`BuildLocationString` and
`getFeatureSequence` treat it as a join whatever the flag says): both are recomputed before two
locations are compared -/
def normLoc : Location.PLoc → Location.PLoc
  | ⟨start, stop, c, join, five, three, subs⟩ =>
    match subs with
    | [] => ⟨start, stop, c, join, five, three, []⟩
    | s :: ss =>
      let n := normLocs (s :: ss)
      ⟨start, stop, c, join || !ss.isEmpty, n.any (·.five), n.any (·.three), n⟩
def normLocs : List Location.PLoc → List Location.PLoc
  | [] => []
  | l :: ls => normLoc l :: normLocs ls
end

mutual
def locBeq : Location.PLoc → Location.PLoc → Bool
  | ⟨s1, e1, c1, j1, f1, t1, subs1⟩, ⟨s2, e2, c2, j2, f2, t2, subs2⟩ =>
    s1 == s2 && e1 == e2 && c1 == c2 && j1 == j2 && f1 == f2 && t1 == t2 && locsBeq subs1 subs2
def locsBeq : List Location.PLoc → List Location.PLoc → Bool
  | [], [] => true
  | a :: as, b :: bs => locBeq a b && locsBeq as bs
  | _, _ => false
end

/-- a qualifier key without `/` (the parser would cut the key there).  Since f2612ce the parser strips only the
enclosing pair of quotation marks, so a VALUE may begin with, end with and contain quotation marks (`Build` writes
a value on one line, the continuation-line logic of the parser is not involved) -/
def wfQualRT (kv : Str × Str) : Bool := !kv.1.contains '/'

/-- reference numbers are the positions -/
def wfRefIndex : Nat → List Reference → Bool
  | _, [] => true
  | i, r :: rs => r.index == Location.itoa (i + 1) && wfRefIndex (i + 1) rs

/-- a cached location text denotes the feature's location (as `parseLocation`, property C02, reads it) -/
def cacheConsistent (f : Feature) : Bool :=
  match Location.parseLocation f.gbkLocationString with
  | .ok l => locBeq (normLoc l) (normLoc f.sequenceLocation)
  | _ => false

def wfFeatureRT (f : Feature) : Bool :=
  f.attributes.all wfQualRT && (if f.gbkLocationString != [] then cacheConsistent f else wfLoc f.sequenceLocation)

/-- the feature's location structure is inside the proved part: written from a cached text
(`cacheConsistent`), or a structure of `locProved` -/
def wfFeatureLoc (f : Feature) : Bool := f.gbkLocationString != [] || locProved f.sequenceLocation

/-- ROUND-TRIP domain -/
def wfSeq (x : Sequence) : Bool :=
  let m := x.metadata
  wfLayout x && !(m.locus.circular && m.locus.linear) && wfRefIndex 0 m.references
    && m.other.all (wfOther 11) && x.features.all wfFeatureRT

/-! #### `≈` -/

def refBeq (a b : Reference) : Bool :=
  a.index == b.index && a.authors == b.authors && a.title == b.title && a.journal == b.journal
    && a.pubMed == b.pubMed && a.remark == b.remark && a.range == b.range

def listBeq {α : Type} (f : α → α → Bool) : List α → List α → Bool
  | [], [] => true
  | a :: as, b :: bs => f a b && listBeq f as bs
  | _, _ => false

def featBeq (a b : Feature) : Bool :=
  a.type == b.type && locBeq (normLoc a.sequenceLocation) (normLoc b.sequenceLocation)
    && sortedEntries a.attributes == sortedEntries b.attributes

/-- the equality of the round-trip clause: sequence, locus, metadata, references, features' key /
location / qualifier map; the cached location text and `SequenceCoding` are not compared -/
def seqEquiv (x y : Sequence) : Bool :=
  let a := x.metadata
  let b := y.metadata
  x.sequence == y.sequence
    && a.locus.name == b.locus.name && a.locus.sequenceLength == b.locus.sequenceLength
    && a.locus.moleculeType == b.locus.moleculeType && a.locus.genbankDivision == b.locus.genbankDivision
    && a.locus.modificationDate == b.locus.modificationDate
    && a.locus.circular == b.locus.circular && a.locus.linear == b.locus.linear
    && a.definition == b.definition && a.accession == b.accession && a.version == b.version
    && a.keywords == b.keywords && a.source == b.source && a.organism == b.organism
    && listBeq refBeq a.references b.references
    && sortedEntries a.other == sortedEntries b.other
    && listBeq featBeq x.features y.features

/-! ### the domains the JUDGE uses

The theorems keep `wfLayout` / `wfSeq`.  The judge admits more, because two classes of records that
the property's quantifier contains are KNOWN FINDINGS (they fail, are tagged, and are not hidden):

* `C03-blank-run-at-wrap`: metadata with runs of blanks (the parser's image has them) — `textJ`
  instead of `singleSpaced`;
* `C03-nameless-locus`: a record assembled without a locus name;

Still excluded, with the reason (the flat-file layout has no place for the datum, or poly never reads it):
a blank at either END of a metadata value (the keyword line cannot delimit it; the parser's
`TrimSpace` never produces one, so the parser's image has none); tabs / newlines / non-ASCII in text;
a locus name with a blank; a length that is not a number; a molecule type outside poly's list;
keywords that do not fit or collide with the writer's own; `Circular && Linear`; a qualifier value
beginning or ending with a quotation mark, a qualifier key with `/`; a cached location text that does
not denote the structure; `Start/End` on a node with operands, `Join` without operands, a
one-operand node that is neither a join nor a double complement; a sequence with non-letters. -/

/-- printable ASCII without a blank at either end; runs of blanks inside are allowed -/
def textJ (t : Str) : Bool := t.all printable && t.head? != some ' ' && t.getLast? != some ' '

def wfLocusJ (l : Locus) : Bool :=
  (l.name == [] || isWord l.name) && l.sequenceLength.all isDigit
    && (l.moleculeType == [] || molTypes.contains l.moleculeType)
    && (l.genbankDivision == [] || divisions.contains l.genbankDivision)
    && (l.modificationDate == [] || isDate l.modificationDate)

def wfRefJ (r : Reference) : Bool :=
  textJ r.range && textJ r.authors && textJ r.title && textJ r.journal && textJ r.pubMed && textJ r.remark
    && (r.index == [] || isWord r.index)

def wfOtherJ (maxKey : Nat) (kv : Str × Str) : Bool :=
  isWord kv.1 && (match kv.1 with | c :: _ => isLetter c | [] => false) && kv.1.length ≤ maxKey
    && !reservedKeys.contains kv.1 && textJ kv.2

/-- a feature without cached location text carries a structure that IS a location (`wfLoc`): a `Join`
node without operands, `Start/End` on a node with operands, a one-operand node that is neither a join nor a
double complement are not locations, the property demands nothing of what `Build` writes for them -/
def wfFeatureLocJ (f : Feature) : Bool := f.gbkLocationString != [] || wfLoc f.sequenceLocation

/-- the judge's layout domain.  An extra keyword has at most 11 letters: the flat-file layout sets a keyword
off from its text by at least one blank (12-column keyword field), as a feature key (≤ 15 in its 16 columns) -/
def wfLayoutJ (x : Sequence) : Bool :=
  let m := x.metadata
  wfLocusJ m.locus
    && textJ m.definition && textJ m.accession && textJ m.version
    && textJ m.keywords && textJ m.source && textJ m.organism
    && m.references.all wfRefJ
    && nodupKeys m.other && m.other.all (wfOtherJ 11)
    && x.features.all wfFeature
    && x.sequence != [] && x.sequence.all isLetter && x.sequence.length < 1000000000
    && x.features.all wfFeatureLocJ

def wfSeqJ (x : Sequence) : Bool :=
  let m := x.metadata
  wfLayoutJ x && !(m.locus.circular && m.locus.linear)
    && m.other.all (wfOtherJ 11) && x.features.all wfFeatureRT
    -- from base 10^8 on the ORIGIN counter fills its nine columns, the sequence line begins with a digit and
    -- genbank.Parse takes it for a keyword line: a limit of the reader far beyond the property's 10^5
    && x.sequence.length < 100000000

/-! #### what the known findings predict -/

/-- what is read back from a wrapped block holding `t` -/
def readBack (t : Str) : Str := textOf (lines (StrBuild.wrapString t 68))

/-- the range read back from the REFERENCE line with number `num` -/
def readBackRange (num range : Str) : Str :=
  (mkBlock "REFERENCE".toList (readBack (num ++ "  ".toList ++ range)) []).text

/-- a reference as it is read back: its number set, every text as its wrapped lines re-join -/
def lossyRef (i : Nat) (r : Reference) : Reference :=
  { r with index := refNum i r, range := readBackRange (refNum i r) r.range, authors := readBack r.authors,
           title := readBack r.title, journal := readBack r.journal, pubMed := readBack r.pubMed,
           remark := readBack r.remark }

def lossyRefs : Nat → List Reference → List Reference
  | _, [] => []
  | i, r :: rs => lossyRef i r :: lossyRefs (i + 1) rs

/-- the record that the two known findings predict to come back: blank runs at wrap points become
one blank and the LOCUS line of a name-less record is read one token to the left; besides, an UNSET
`Reference.Index` comes back as the position (be39eee: preserved when set, defaulted when not) -/
def expectedBack (x : Sequence) : Sequence :=
  let m := x.metadata
  let l := m.locus
  let locus : Locus :=
    if l.name == [] then
      (if l.sequenceLength == [] then { l with name := "bp".toList, sequenceCoding := [] }
       else { l with name := l.sequenceLength, sequenceLength := [], sequenceCoding := [] })
    else l
  { x with metadata := { m with
      locus := locus,
      definition := readBack m.definition, accession := readBack m.accession, version := readBack m.version,
      keywords := readBack m.keywords, source := readBack m.source, organism := readBack m.organism,
      references := lossyRefs 0 m.references,
      other := m.other.map fun kv => (kv.1, readBack kv.2) } }

/-- `WrapString(t, 68)` writes fewer characters than `t` has.  Every line break it makes stands for ONE
blank unless a run of two or more blanks falls on the wrap point (Lemmas/GbWrapRel.lean: `WrappedS`), so
this says: a run of blanks of `t` falls on a wrap point.  Computed from the value and the writer's wrap
columns only — no reader is involved. -/
def losesBlanks (t : Str) : Bool := (StrBuild.wrapString t 68).length != t.length

/-- the range of a REFERENCE line as `WrapString` writes it at its column, i.e. behind the number and the
line's own two blanks (which are written, or replaced by one newline) -/
def rangeWrapped (num range : Str) : Str :=
  match StrBuild.wrapGo 68 num.length [] [' ', ' '] range with
  | '\n' :: o => o
  | o => o.drop 2

def rangeLosesBlanks (num range : Str) : Bool := range != [] && (rangeWrapped num range).length != range.length

def refsLoseBlanks : Nat → List Reference → Bool
  | _, [] => false
  | i, r :: rs =>
    rangeLosesBlanks (refNum i r) r.range || losesBlanks r.authors || losesBlanks r.title || losesBlanks r.journal
      || losesBlanks r.pubMed || losesBlanks r.remark || refsLoseBlanks (i + 1) rs

/-- class C03-blank-run-at-wrap (syntactic): the record has a locus name (name-less records are the
other class) and in some metadata value a run of two or more blanks falls on a wrap point of the line
`Build` writes it on -/
def clsBlankRun (x : Sequence) : Bool :=
  let m := x.metadata
  m.locus.name != [] &&
    (losesBlanks m.definition || losesBlanks m.accession || losesBlanks m.version || losesBlanks m.keywords
      || losesBlanks m.source || losesBlanks m.organism
      || m.other.any (fun kv => losesBlanks kv.2) || refsLoseBlanks 0 m.references)

/-- the text holds two adjacent blanks -/
def hasBlankRun : Str → Bool
  | ' ' :: ' ' :: _ => true
  | _ :: r => hasBlankRun r
  | [] => false

def refTexts (r : Reference) : List Str := [r.range, r.authors, r.title, r.journal, r.pubMed, r.remark]

/-- every metadata text of a record that `Build` passes through `WrapString` -/
def metaTexts (x : Sequence) : List Str :=
  let m := x.metadata
  [m.definition, m.accession, m.version, m.keywords, m.source, m.organism] ++ m.other.map Prod.snd
    ++ m.references.flatMap refTexts

/-- the judge's layout domain MINUS the two known findings: the domain of the layout theorem.  Metadata
may hold runs of blanks as long as none of them falls on a wrap point of `WrapString(_, 68)`. -/
def wfLayoutG (x : Sequence) : Bool := wfLayoutJ x && x.metadata.locus.name != [] && !clsBlankRun x

/-- class C03-nameless-locus -/
def clsNameless (x : Sequence) : Bool := x.metadata.locus.name == []

/-- an unset `Reference.Index` is defaulted to the position; everything else as given -/
def withDefaultIndex (x : Sequence) : Sequence :=
  let rec go : Nat → List Reference → List Reference
    | _, [] => []
    | i, r :: rs => { r with index := refNum i r } :: go (i + 1) rs
  { x with metadata := { x.metadata with references := go 0 x.metadata.references } }

/-- `SequenceCoding` is compared when the record says `bp` and has a length (`Build` writes the
constant ` bp`, the parser reads the unit only next to a number); any other unit is outside the
comparison: the writer has no parameter for it -/
def codingOk (x y : Sequence) : Bool :=
  let l := x.metadata.locus
  !(l.sequenceCoding == "bp".toList && l.sequenceLength != []) || y.metadata.locus.sequenceCoding == "bp".toList

end PolyVerif.Spec.GbStrict
