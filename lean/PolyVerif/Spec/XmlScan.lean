import PolyVerif.Model.Uniprot
/-
An independent, document-level reading of a Uniprot XML stream for C20: a small XML reader for the
subset the documents of Spec/UniprotDoc are written in (XML declaration / processing instructions,
comments, start tags with quoted attributes, empty-element tags, end tags, character data with the five
predefined entities only), followed by what `encoding/xml` + `DecodeElement(&Entry)` make of the tokens:

  text ──lexAll──▶ tokens (+ "the text stopped being XML here") ──scanToks──▶ Trace

OUTSIDE THE READER (it answers `err`, or differs from encoding/xml, there — nothing is claimed for such
texts): carriage returns; `]` in text; CDATA sections; character references `&#…;`; directives with quoted `>` or nested brackets (DOCTYPE); entities other than the
five predefined ones, entities in attribute values; DOCTYPE; namespace prefixes (`x:entry`) and a missing or
overridden `xmlns` (the reader matches element names literally); non-ASCII element names; the typed
attribute VALUES of Entry / SequenceType (dates, integers: the reader does not look at attribute values at
all); declarations other than `version="1.0" encoding="UTF-8"`.  The five predefined entities are accepted in
character data but not decoded (the documents of Spec/UniprotDoc have them between entries only, where the
text is dropped).  Offsets are CHARACTER offsets (= byte offsets for ASCII texts).

`scanToks` is a state machine over tokens (nesting check with a stack of open elements; an `<entry>`
start tag opens a decoding of that element which collects the character data of its direct children
`accession`, `name`, `sequence` — a child counts only when it is complete — and skips everything else,
however nested; the first error is final).  It shares nothing with Spec/UniprotDoc's `docTrace`, which is
the trace of a document BY CONSTRUCTION; `Props.C20.scan_document` proves that the two agree on every
document, and the driver compares `scanDoc` of every generated text, damaged ones included, with the
trace the real decoder produces.  Core Lean only.
-/
namespace PolyVerif.Spec.XmlScan
open PolyVerif PolyVerif.Uniprot

inductive Tok where
  | pi (body : Str)                                              -- `<?body?>`
  | comment (body : Str)                                         -- `<!--body-->`
  | start (name : Str) (attrs : List (Str × Str)) (selfClose : Bool)   -- `<name k="v" …>` / `<name …/>`
  | close (name : Str)                                           -- `</name>`
  | chars (text : Str)                                           -- character data
  deriving DecidableEq, Repr

inductive LexRes where
  | eof
  | err
  | tok (t : Tok) (rest : Str)
  deriving Repr

/-! ### characters -/

def nameStart (c : Char) : Bool := c.isAlpha || c == '_' || c == ':'
def nameChar (c : Char) : Bool := c.isAlphanum || c == '_' || c == ':' || c == '.' || c == '-'
def isWs (c : Char) : Bool := c == ' ' || c == '\t' || c == '\n' || c == '\r'
/-- characters of the subset: those XML 1.0 allows in a document, WITHOUT the carriage return (the decoder
normalises CR and CR LF to LF, which the reader does not model) and without U+FFFE / U+FFFF (illegal) -/
def legalChar (c : Char) : Bool :=
  (32 ≤ c.toNat && c.toNat != 0xFFFE && c.toNat != 0xFFFF) || c == '\t' || c == '\n'
/-- character data of the subset: legal characters, no markup start, no entity or CDATA-end -/
def textChar (c : Char) : Bool := legalChar c && c != '<' && c != '&' && c != ']'
def valueChar (q c : Char) : Bool := legalChar c && c != '<' && c != '&' && c != q

/-- the predefined entities (the only ones a strict decoder without an entity table knows) -/
def entityNames : List Str := [['a', 'm', 'p'], ['l', 't'], ['g', 't'], ['q', 'u', 'o', 't'], ['a', 'p', 'o', 's']]

/-- character data: legal characters without `<` and `]`; every `&` starts one of the predefined entities
`&name;` (the second argument is the entity name read so far, in reverse, while inside one) -/
def validTextAux : Option Str → Str → Bool
  | none, [] => true
  | some _, [] => false
  | none, c :: r => if c = '&' then validTextAux (some []) r else (legalChar c && c != '<' && c != ']') && validTextAux none r
  | some n, c :: r =>
    if c = ';' then entityNames.contains n.reverse && validTextAux none r
    else c.isAlpha && validTextAux (some (c :: n)) r

def validText (t : Str) : Bool := validTextAux none t

/-! ### the lexer -/

/-- body of a processing instruction: up to the first `?>` -/
def untilPiEnd : Str → Option (Str × Str)
  | [] => none
  | c :: r =>
    if c = '?' ∧ r.head? = some '>' then some ([], r.tail)
    else (untilPiEnd r).map (fun x => (c :: x.1, x.2))

/-- body of a comment: up to the first `--`, which must be followed by `>` -/
def untilCommentEnd : Str → Option (Str × Str)
  | [] => none
  | c :: r =>
    if c = '-' ∧ r.head? = some '-' then (if r.tail.head? = some '>' then some ([], r.tail.tail) else none)
    else (untilCommentEnd r).map (fun x => (c :: x.1, x.2))

/-- attributes and the end of a start tag: `none` = not a tag of the subset; the Bool = empty-element tag -/
def lexAttrs : Nat → Str → Option (List (Str × Str) × Bool × Str)
  | 0, _ => none
  | fuel + 1, s =>
    match s.dropWhile isWs with
    | '>' :: r => some ([], false, r)
    | '/' :: '>' :: r => some ([], true, r)
    | r =>
      let k := r.takeWhile nameChar
      if k.isEmpty || !(k.head?.map nameStart).getD false then none else
      match ((r.dropWhile nameChar).dropWhile isWs) with
      | '=' :: r2 =>
        match r2.dropWhile isWs with
        | q :: r3 =>
          if q == '"' || q == '\'' then
            let v := r3.takeWhile (valueChar q)
            match r3.dropWhile (valueChar q) with
            | q' :: r4 => if q' == q then (lexAttrs fuel r4).map (fun x => ((k, v) :: x.1, x.2.1, x.2.2)) else none
            | [] => none
          else none
        | [] => none
      | _ => none

def nextTok : Str → LexRes
  | [] => .eof
  | '<' :: r =>
    match r with
    | '?' :: r1 => match untilPiEnd r1 with
      | some (b, rest) => .tok (.pi b) rest
      | none => .err
    | '!' :: r1 =>
      (match r1 with
       | '-' :: '-' :: r2 => (match untilCommentEnd r2 with
         | some (b, rest) => .tok (.comment b) rest
         | none => .err)
       | _ =>
         -- a directive `<!…>` (what a damaged comment start turns into): passed over up to the first `>`
         -- (quoted `>` and nested `<…>` inside directives, i.e. real DOCTYPEs, are outside the reader)
         -- `<!-` not followed by `-` is an error; `<![` (CDATA) is outside the reader
         (if r1.head? != some '-' && r1.head? != some '[' && r1.contains '>' then
            .tok (.pi ('!' :: r1.takeWhile (fun x => x != '>'))) ((r1.dropWhile (fun x => x != '>')).drop 1)
          else .err))
    | '/' :: r1 =>
      let n := r1.takeWhile nameChar
      if n.isEmpty || !(n.head?.map nameStart).getD false then .err else
      (match (r1.dropWhile nameChar).dropWhile isWs with
       | '>' :: rest => .tok (.close n) rest
       | _ => .err)
    | _ =>
      let n := r.takeWhile nameChar
      if n.isEmpty || !(n.head?.map nameStart).getD false then .err else
      (match lexAttrs (r.length + 1) (r.dropWhile nameChar) with
       | some (as, sc, rest) => .tok (.start n as sc) rest
       | none => .err)
  | c :: r =>
    let t := (c :: r).takeWhile (fun x => x != '<')
    if validText t then .tok (.chars t) ((c :: r).dropWhile (fun x => x != '<')) else .err

/-- all tokens up to the end of the text or the first place where it stops being XML of the subset
(`true` = stopped with an error); `fuel` = an upper bound on the number of tokens -/
def lexFuel : Nat → Str → List Tok × Bool
  | 0, _ => ([], true)
  | fuel + 1, s =>
    match nextTok s with
    | .eof => ([], false)
    | .err => ([], true)
    | .tok t rest => let x := lexFuel fuel rest; (t :: x.1, x.2)

def lexAll (s : Str) : List Tok × Bool := lexFuel (s.length + 1) s

/-! ### the reader: nesting, the Parse loop, DecodeElement(&Entry) -/

/-- a DecodeElement(&Entry) in progress -/
structure EntSt where
  e : Entry            -- the children completed so far
  inner : List Str     -- open elements below `<entry>`, innermost first
  text : Str           -- character data of the open direct child (collected while `inner` has one element)
  deriving Repr, DecidableEq

structure St where
  saw : Bool                 -- sawElement
  stack : List Str           -- open elements (outside any entry being decoded), innermost first
  ent : Option EntSt
  evs : List Ev              -- events so far, in REVERSE order
  dead : Bool                -- a syntax error was met: the decoder's error is sticky, nothing more is read
  deriving Repr, DecidableEq

def St.init : St := { saw := false, stack := [], ent := none, evs := [], dead := false }

def strEq (a : Str) (b : String) : Bool := a == b.toList

/-- a direct child of `<entry>` is complete -/
def recordChild (e : Entry) (name text : Str) : Entry :=
  if strEq name "accession" then { e with accessions := e.accessions ++ [text] }
  else if strEq name "name" then { e with names := e.names ++ [text] }
  else if strEq name "sequence" then { e with seq := text }
  else e

/-- DecodeElement fails: the error is forwarded, the partial entry is still sent, the decoder is dead -/
def St.failEntry (s : St) (es : EntSt) : St := { s with ent := none, evs := .entryErr es.e :: s.evs, dead := true }

def stepEntry (s : St) (es : EntSt) : Tok → St
  | .pi _ => s
  | .comment _ => s
  | .chars t => if es.inner.length = 1 then { s with ent := some { es with text := es.text ++ t } } else s
  | .start n _ sc =>
    if sc then
      (if es.inner.isEmpty then { s with ent := some { es with e := recordChild es.e n [] } } else s)
    else { s with ent := some { es with inner := n :: es.inner, text := if es.inner.isEmpty then [] else es.text } }
  | .close n =>
    match es.inner with
    | top :: rest =>
      if top = n then
        { s with ent := some { e := if rest.isEmpty then recordChild es.e top es.text else es.e, inner := rest,
                               text := if rest.isEmpty then [] else es.text } }
      else s.failEntry es
    | [] =>
      if strEq n "entry" then { s with ent := none, evs := .entry es.e :: s.evs }
      else s.failEntry es

def step (s : St) (t : Tok) : St :=
  if s.dead then s else
  match s.ent with
  | some es => stepEntry s es t
  | none =>
    match t with
    | .pi _ => { s with evs := .other :: s.evs }
    | .comment _ => { s with evs := .other :: s.evs }
    | .chars _ => { s with evs := .other :: s.evs }
    | .close n =>
      (match s.stack with
       | top :: rest => if top = n then { s with stack := rest, evs := .other :: s.evs } else { s with dead := true }
       | [] => { s with dead := true })
    | .start n _ sc =>
      if strEq n "entry" then
        (if sc then { s with saw := true, evs := .entry ⟨[], [], []⟩ :: s.evs }
         else { s with saw := true, ent := some { e := ⟨[], [], []⟩, inner := [], text := [] } })
      else if sc then { s with saw := true, evs := .other :: .start :: s.evs }
      else { s with saw := true, stack := n :: s.stack, evs := .start :: s.evs }

def run (s : St) (ts : List Tok) : St := ts.foldl step s

/-- the end of the token stream: `lexErr` = the text stopped being XML; otherwise the end of input -/
def finish (s : St) (lexErr : Bool) : Trace :=
  if s.dead then ⟨s.evs.reverse, .err⟩ else
  match s.ent with
  | some es => ⟨(.entryErr es.e :: s.evs).reverse, .err⟩      -- DecodeElement hits the error / unexpected EOF
  | none => ⟨s.evs.reverse, if lexErr || !s.stack.isEmpty then .err else .eof⟩

def scanToks (ts : List Tok) (lexErr : Bool) : Trace := finish (run St.init ts) lexErr

/-- the trace of a text -/
def scanDoc (s : Str) : Trace := scanToks (lexAll s).1 (lexAll s).2

/-- what the Parse loop's behaviour depends on: the entries (complete or failed) in order, whether any start
element was seen, and how the stream ends — tokens that are neither are invisible to it -/
def essence (t : Trace) : List Ev × Bool × End :=
  (t.evs.filter (fun ev => match ev with | .entry _ => true | .entryErr _ => true | _ => false),
   t.evs.any isStartEv, t.fin)

/-! ### writing tokens -/

def renderAttrs : List (Str × Str) → Str
  | [] => []
  | (k, v) :: as => ' ' :: k ++ '=' :: '"' :: v ++ '"' :: renderAttrs as

def renderTok : Tok → Str
  | .pi b => '<' :: '?' :: b ++ ['?', '>']
  | .comment b => '<' :: '!' :: '-' :: '-' :: b ++ ['-', '-', '>']
  | .start n as sc => '<' :: n ++ renderAttrs as ++ (if sc then ['/', '>'] else ['>'])
  | .close n => '<' :: '/' :: n ++ ['>']
  | .chars t => t

def renderToks (ts : List Tok) : Str := (ts.map renderTok).flatten

end PolyVerif.Spec.XmlScan
