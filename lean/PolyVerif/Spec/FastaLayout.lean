import PolyVerif.Model.Fasta
/-
Independent FASTA writer for C13: every way of laying out a list of records that the property says
must not matter.  `layoutFasta rs ℓ` writes, for each record, optional blank / `;` comment lines, the
header `>name`, optional blank / whitespace-only / comment lines, and the sequence cut into lines of arbitrary lengths
(a list of individual line lengths, then a uniform width), optionally with blank / comment lines after
every sequence line; each record chooses `\n` or `\r\n` line ends; the newline after the very last
line may be missing.  A record with an empty sequence has no sequence line at all.

This shares nothing with `Fasta.build` (which writes exactly two lines per record) nor with the
parser; it only uses the record type.  Core Lean only (the driver renders the test inputs with it).
-/
namespace PolyVerif.Spec.FastaSpec
open PolyVerif PolyVerif.Fasta

/-- a line the parser must ignore -/
inductive Junk where
  | blank
  | comment (t : Str)
  | spaces (t : Str)      -- a line of blanks and tabs
  deriving Repr, DecidableEq

def Junk.line : Junk → Str
  | .blank => []
  | .comment t => ';' :: t
  | .spaces t => t

structure RecLayout where
  before : List Junk := []     -- lines before the header
  after : List Junk := []      -- lines between the header and the first sequence line
  between : List Junk := []    -- lines after every sequence line
  widths : List Nat := []      -- lengths (minus one) of the first sequence lines
  width : Nat := 59            -- length (minus one) of all further sequence lines
  crlf : Bool := false         -- line ends of this record: `\r\n` instead of `\n`
  deriving Repr

structure FastaLayout where
  recs : List RecLayout := []  -- per record, in order; records beyond the list use the default layout
  finalNewline : Bool := true

/-- cut into lines of `w + 1` letters (`fuel` ≥ length suffices) -/
def chunkUniform (w : Nat) : Nat → Str → List Str
  | 0, _ => []
  | fuel + 1, s => if s = [] then [] else s.take (w + 1) :: chunkUniform w fuel (s.drop (w + 1))

/-- cut into lines of lengths `ws[0]+1, ws[1]+1, …`, then `w + 1` -/
def chunks : List Nat → Nat → Str → List Str
  | [], w, s => chunkUniform w s.length s
  | x :: ws, w, s => if s = [] then [] else s.take (x + 1) :: chunks ws w (s.drop (x + 1))

/-- the text lines of one record -/
def recLines (r : Rec) (l : RecLayout) : List Str :=
  l.before.map Junk.line ++ ('>' :: r.name) :: (l.after.map Junk.line ++
    (chunks l.widths l.width r.seq).flatMap (fun c => c :: l.between.map Junk.line))

/-- a line and whether it ends in CRLF -/
abbrev Line := Str × Bool

def renderLine (l : Line) : Str := l.1 ++ (if l.2 then ['\r', '\n'] else ['\n'])

/-- all lines with their line ends; with `finalNl = false` the last line has no line end -/
def renderLines : List Line → Bool → Str
  | [], _ => []
  | l :: ls, f => if ls.isEmpty && !f then l.1 else renderLine l ++ renderLines ls f

def allLines : List Rec → List RecLayout → List Line
  | [], _ => []
  | r :: rs, ls =>
    let l := ls.headD {}
    (recLines r l).map (fun t => (t, l.crlf)) ++ allLines rs ls.tail

def layoutFasta (rs : List Rec) (ℓ : FastaLayout) : Str :=
  renderLines (allLines rs ℓ.recs) ℓ.finalNewline

/-! ### the domain of the property -/

/-- printable: ASCII 32..126, and every character from U+00A0 on (the theorems need only that it is neither
LF nor CR; Go works on the UTF-8 bytes, none of which is LF, CR, `>` or `;` inside a multi-byte character) -/
def printable (c : Char) : Bool := (32 ≤ c.toNat && c.toNat ≤ 126) || 160 ≤ c.toNat

/-- sequences are letters -/
def letter (c : Char) : Bool := c.isAlpha

/-- record lists of the property's quantifier: at least one record, names of printable characters,
sequences of letters (of any length, including none) -/
def WFRecs (rs : List Rec) : Prop :=
  rs ≠ [] ∧ ∀ r ∈ rs, (∀ c ∈ r.name, printable c = true) ∧ (∀ c ∈ r.seq, letter c = true)

instance (rs : List Rec) : Decidable (WFRecs rs) := by unfold WFRecs; infer_instance

def Junk.ok : Junk → Bool
  | .blank => true
  | .comment t => t.all (fun c => printable c || c == '\t')
  | .spaces t => t.all (fun c => c == ' ' || c == '\t')

/-- comment lines consist of printable characters and tabs, whitespace lines of blanks and tabs -/
def WFLayout (ℓ : FastaLayout) : Prop :=
  ∀ l ∈ ℓ.recs, ∀ j ∈ l.before ++ l.after ++ l.between, j.ok = true

instance (ℓ : FastaLayout) : Decidable (WFLayout ℓ) := by unfold WFLayout; infer_instance

/-- every line of the text fits the scanner's buffer -/
def LinesFit (maxToken : Nat) (text : Str) : Prop := ∀ l ∈ rawLines text, l.length + 1 < maxToken

instance (m : Nat) (t : Str) : Decidable (LinesFit m t) := by unfold LinesFit; infer_instance

end PolyVerif.Spec.FastaSpec
