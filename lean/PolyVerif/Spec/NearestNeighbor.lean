import PolyVerif.Spec.Nucleotide
/-
Independent spec of the nearest-neighbour melting-temperature calculation (property C19).

Shape (different from the code's 16-key string map and accumulating loop): a DNA duplex has TEN
distinct Watson–Crick nearest-neighbour steps — a step `5'-XY-3'` on one strand is the step
`5'-Y'X'-3'` read on the other (X' = complement of X) — so the parameters are typed once per
duplex step and the value of an ordered pair is looked up modulo that strand symmetry.  Sums are
indexed sums `Σ_{i < N-1}`, self-complementarity is position-wise pairing `s[i] = s[N-1-i]'`.
All thermodynamic values are exact integers in TENTHS (dH: 0.1 kcal/mol, dS: 0.1 cal/(mol·K)).

Parameter set: the unified nearest-neighbour parameters in 1 M NaCl with initiation +0.2 / −5.7,
terminal A·T +2.2 / +6.9 and symmetry 0 / −1.4 (the set tabulated in SantaLucia & Hicks 2004 and on the
oligo-melting-temperature reference page the source links), typed here per duplex step.  Note: the
PNAS 1998 table the source comment cites lists AA/TT as −7.9 / −22.2 and splits initiation by terminal
pair; the code uses the later set throughout, and so does this spec.  What the spec adds over the
code's table is the strand symmetry: the 16 ordered pairs must collapse to these ten duplex steps.

Which terminal rule.  The property statement names "the initiation, terminal-A/T, self-complementarity
and salt terms" without saying to which duplex end(s) the terminal-A/T term applies.  The parameter
set above, as published, charges it once per duplex END closed by an A·T pair, i.e. also when the 5'
base is A or T (0, 1 or 2 times per duplex).  The code applies it at most once, to the 3' end only
(`sequence[len-1] == 'A' || == 'T'`; its comment: "penalty if 3' nucleotides are A or T"), and the
property's anchors point at exactly that code.  `endsInAT` below therefore ADOPTS THE CODE'S 3'-ONLY
RULE: on this point the spec is a restatement of the implementation, not independent evidence; the
theorem `terminal_penalty_iff_last_AT` establishes only that the model's string test coincides with the
spec's notion of "last base".  A repair of the code to the two-ended rule would change observable
results and be reported by this check as a violation of the spec as written; the spec would then have
to be re-decided by a human.  (Recorded as an observation, not as a defect: the property text does
not fix the rule.)
-/
namespace PolyVerif.Spec.NN
open PolyVerif PolyVerif.Spec

/-- the ten duplex steps: top strand 5'→3', (dH, dS) in tenths -/
def duplexSteps : List ((Base × Base) × (Int × Int)) :=
  [ ((.A, .A), (-76, -213)),    -- AA/TT
    ((.A, .T), (-72, -204)),    -- AT/TA
    ((.T, .A), (-72, -213)),    -- TA/AT
    ((.C, .A), (-85, -227)),    -- CA/GT
    ((.G, .T), (-84, -224)),    -- GT/CA
    ((.C, .T), (-78, -210)),    -- CT/GA
    ((.G, .A), (-82, -222)),    -- GA/CT
    ((.C, .G), (-106, -272)),   -- CG/GC
    ((.G, .C), (-98, -244)),    -- GC/CG
    ((.G, .G), (-80, -199)) ]   -- GG/CC

/-- value of the ordered pair `xy`: the duplex step it belongs to, read from either strand -/
def step (x y : Base) : Int × Int :=
  match duplexSteps.lookup (x, y) with
  | some p => p
  | none =>
    match duplexSteps.lookup (y.compl, x.compl) with
    | some p => p
    | none => (0, 0)      -- unreachable: `step_total` in Props/C19

def initiation : Int × Int := (2, -57)
def symmetry : Int × Int := (0, -14)
def terminalAT : Int × Int := (22, 69)

/-- a letter in either case as a base -/
def baseOf? (c : Char) : Option Base :=
  match c.toUpper with
  | 'A' => some .A | 'C' => some .C | 'G' => some .G | 'T' => some .T | _ => none

/-- the oligo as bases; `none` if some letter is not A/C/G/T (either case) -/
def basesOf? : Str → Option (List Base)
  | [] => some []
  | c :: cs =>
    match baseOf? c, basesOf? cs with
    | some b, some bs => some (b :: bs)
    | _, _ => none

/-- position-wise: base `i` pairs with base `N-1-i` -/
def selfComplementary (b : List Base) : Bool :=
  (List.range b.length).all fun i => b[i]? == (b[b.length - 1 - i]?).map Base.compl

/-- the last (3') base is A or T -/
def endsInAT (b : List Base) : Bool :=
  match b.getLast? with
  | some .A => true
  | some .T => true
  | _ => false

/-- `Σ_{i < N-1} step(b[i], b[i+1])`, both components -/
def stepSum (b : List Base) : Int × Int :=
  let terms := (List.range (b.length - 1)).map fun i => step (b.getD i .A) (b.getD (i + 1) .A)
  ((terms.map (·.1)).sum, (terms.map (·.2)).sum)

def cond (p : Bool) (v : Int × Int) : Int × Int := if p then v else (0, 0)

/-- enthalpy in tenths of kcal/mol -/
def dH10 (b : List Base) : Int :=
  initiation.1 + (cond (selfComplementary b) symmetry).1 + (cond (endsInAT b) terminalAT).1 + (stepSum b).1

/-- entropy at 1 M sodium (before the salt correction) in tenths of cal/(mol·K) -/
def dS10 (b : List Base) : Int :=
  initiation.2 + (cond (selfComplementary b) symmetry).2 + (cond (endsInAT b) terminalAT).2 + (stepSum b).2

/-- `f` of the formula: 1 for a self-complementary oligo, else 4 -/
def symmetryFactor (b : List Base) : Int := if selfComplementary b then 1 else 4

/-- Marmur–Doty: 2 °C per A/T, 4 °C per G/C, minus 7 -/
def mdWeight : Base → Int
  | .A => 2 | .T => 2 | .C => 4 | .G => 4

def marmurDoty (b : List Base) : Int := (b.map mdWeight).sum - 7

/-! Float evaluation of the spec formula, used by the judge on the implementation's output
(tolerances are the judge's). -/

def dHF (b : List Base) : Float := Float.ofInt (dH10 b) / 10

def dSF (b : List Base) (na mg : Float) : Float :=
  Float.ofInt (dS10 b) / 10 + 0.368 * Float.ofNat (b.length - 1) * Float.log (na + 140 * mg)

def tmF (b : List Base) (c na mg : Float) : Float :=
  1000 * dHF b / (dSF b na mg + 1.9872 * Float.log (c / Float.ofInt (symmetryFactor b))) - 273.15

end PolyVerif.Spec.NN
