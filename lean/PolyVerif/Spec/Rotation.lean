import PolyVerif.Base.Proto
/-
Independent spec of "lexicographically least rotation": the arg-min over all rotations,
written as a fold over `List.range n` — a different shape from Booth's failure-function scan.
Order = Go's string comparison = lexicographic on bytes (here: on `Char` code points; the
property's inputs are ASCII / single bytes mapped to code points < 256).
-/
namespace PolyVerif.Spec
open PolyVerif

/-- rotate left by `k` (any `k`; taken modulo the length) -/
def rotl (k : Nat) (s : List α) : List α :=
  s.drop (k % s.length) ++ s.take (k % s.length)

/-- strict lexicographic order on strings by code point, as a Bool -/
def lexLt : Str → Str → Bool
  | [], [] => false
  | [], _ :: _ => true
  | _ :: _, [] => false
  | a :: as, b :: bs => a.toNat < b.toNat || (a == b && lexLt as bs)

def lexLe (a b : Str) : Bool := !lexLt b a

def lexMin (a b : Str) : Str := if lexLt b a then b else a

/-- all rotations `rotl 0 s, …, rotl (n-1) s` (for the empty string: none) -/
def rotations (s : Str) : List Str := (List.range s.length).map fun k => rotl k s

/-- the least rotation: minimum of all rotations (the empty string is its own least rotation) -/
def leastRotation (s : Str) : Str := (rotations s).foldl lexMin s

/-- first index whose rotation is least -/
def leastIndex (s : Str) : Nat :=
  ((List.range s.length).find? fun k => rotl k s == leastRotation s).getD 0

/-- `a` is a rotation of `b` -/
def IsRotation (a b : Str) : Prop := ∃ k, a = rotl k b

end PolyVerif.Spec

namespace PolyVerif.Spec
/-- An independent LINEAR-time least-rotation algorithm (the classical two-pointer method),
used only to judge inputs too long for the quadratic arg-min spec; it is compared with
`leastRotation` on every short input by the driver. -/
def leastIndexFast (s : Str) : Nat :=
  let a := s.toArray
  let n := a.size
  if n = 0 then 0 else
  let rec go (fuel i j k : Nat) : Nat :=
    match fuel with
    | 0 => min i j
    | fuel + 1 =>
      if i < n ∧ j < n ∧ k < n then
        let x := (a[(i + k) % n]!).toNat
        let y := (a[(j + k) % n]!).toNat
        if x = y then go fuel i j (k + 1)
        else
          let i' := if x > y then i + k + 1 else i
          let j' := if x > y then j else j + k + 1
          let j'' := if i' = j' then j' + 1 else j'
          go fuel i' j'' 0
      else min i j
  go (4 * n + 4) 0 1 0

def leastRotationFast (s : Str) : Str := rotl (leastIndexFast s) s
end PolyVerif.Spec
