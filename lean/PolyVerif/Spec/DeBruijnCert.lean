import PolyVerif.Base.Proto
/-
C17, orders 9 and up: a CERTIFICATE checker for "all n-letter windows of a sequence are different",
written for the kernel's evaluator.

The sequence is given as packed data: `chunks : List Nat`, each chunk holding `C` symbols of 2 bits,
least significant first (0,1,2,3 = A,T,G,C, the index into the code's alphabet "ATGC").  The
certificate is ANY function `lk : Nat → Nat` ("which position does this window value claim?"):
the checker walks the sequence once, keeps the base-4 value `w` of the last n symbols (modulo
M = 4ⁿ), and demands `lk w = p - (n-1)` for the position `p` it is at.  If that holds everywhere,
the map position ↦ window value has a left inverse, hence is injective: all windows differ
(`Lemmas/DeBruijnCert.run_windows_nodup`; nothing has to be proved about `lk`).  With the length
test and the pigeonhole lemma of the search-based checker this gives `IsDeBruijn`.

The extractor writes, from the output of the RUNNING code, the chunks, a table `lk` (a static
decision tree over packed position tables — generated definitions) and the loop state at the
segment borders; the sequence is processed in segments (one theorem each) because the kernel keeps
every intermediate term of one declaration in its caches (≈ 20 kB per symbol).

Kernel-evaluator notes (measured): recursors are applied directly (`Nat.rec`, `List.rec`,
`Bool.rec`) and `Nat` primitives by name — a compiled structural recursion or an operator written
with notation costs 3–10× more reduction steps; loop variables are handed on through `force`,
which makes the recursor match on the VALUE, otherwise they grow into chains of 10⁵ pending
additions and evaluation turns quadratic; `Nat.succ` is avoided for the same reason.
-/
namespace PolyVerif.Spec
open PolyVerif

/-- loop state: symbols still to read, rolling window value, position -/
abbrev CertSt := Nat × Nat × Nat

/-- hand the value of `x` to `k` (the recursor has matched on it, so `k` receives a literal) -/
noncomputable def force {α : Sort _} (x : Nat) (k : Nat → α) : α :=
  Nat.rec (motive := fun _ => α) (k 0) (fun y _ => k (Nat.add y 1)) x

/-- read `cnt` symbols of chunk `x`; at every position `p ≥ n1` (= n-1) the certificate must return
`p - n1` for the window value; then continue with `k` -/
noncomputable def stepChunk (lk : Nat → Nat) (M n1 : Nat) (cnt : Nat) :
    (x w p : Nat) → (Nat → Nat → Option CertSt) → Option CertSt :=
  Nat.rec (motive := fun _ => Nat → Nat → Nat → (Nat → Nat → Option CertSt) → Option CertSt)
    (fun _ w p k => k w p)
    (fun _ ih x w p k =>
      force (Nat.mod (Nat.add (Nat.mul w 4) (Nat.mod x 4)) M) fun w' =>
      force (Nat.add p 1) fun p' =>
        @Bool.rec (fun _ => Option CertSt)
          (ih (Nat.div x 4) w' p' k)
          (@Bool.rec (fun _ => Option CertSt) none
            (ih (Nat.div x 4) w' p' k)
            (Nat.beq (lk w') (Nat.sub p n1)))
          (Nat.ble n1 p)) cnt

/-- read the chunks of a segment: `min C rem` symbols of each; the result is the state after the segment -/
noncomputable def certRun (lk : Nat → Nat) (M n1 C : Nat) (cs : List Nat) : (rem w p : Nat) → Option CertSt :=
  List.rec (motive := fun _ => Nat → Nat → Nat → Option CertSt)
    (fun rem w p => some (rem, w, p))
    (fun x _ ih rem w p =>
      force (@Bool.rec (fun _ => Nat) rem C (Nat.ble C rem)) fun cnt =>
      force (Nat.sub rem cnt) fun rem' =>
      stepChunk lk M n1 cnt x w p (ih rem')) cs

/-- segment `j` takes the recorded state `j` to the recorded state `j+1` -/
noncomputable def segCheck (lk : Nat → Nat) (M n1 C : Nat) (segs : List (List Nat)) (states : List CertSt) (j : Nat) : Bool :=
  match segs[j]?, states[j]?, states[j + 1]? with
  | some seg, some st, some st' => decide (certRun lk M n1 C seg st.1 st.2.1 st.2.2 = some st')
  | _, _, _ => false

/-! ### the sequence the packed data stands for (plain definitions; also run by the correspondence driver) -/

/-- the first `cnt` symbols of a chunk -/
def unpack : Nat → Nat → List Nat
  | 0, _ => []
  | cnt + 1, x => x % 4 :: unpack cnt (x / 4)

/-- the first `rem` symbols of a list of chunks of `C` symbols -/
def seqDigits (C : Nat) : List Nat → Nat → List Nat
  | [], _ => []
  | x :: xs, rem => unpack (min C rem) x ++ seqDigits C xs (rem - min C rem)

/-- `alphabet[i]` of the code, alphabet = "ATGC" -/
def letterOf (d : Nat) : Char :=
  match d with
  | 0 => 'A' | 1 => 'T' | 2 => 'G' | _ => 'C'

/-- the sequence as text -/
def seqStr (C : Nat) (chunks : List Nat) (len : Nat) : Str := (seqDigits C chunks len).map letterOf

end PolyVerif.Spec
