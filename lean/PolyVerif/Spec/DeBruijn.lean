import PolyVerif.Base.Proto
/-
Specification side of C17, independent of the Lyndon-word construction in the code:

* `windows n s` — every contiguous length-`n` piece of `s`, by position;
* `IsDeBruijn n s` — `s` has length 4ⁿ+n−1 and every `n`-letter word over A,T,G,C occurs exactly
  once among its windows;
* `check n s` — an executable CHECKER for that (length test, letters test, rolling base-4 code of
  every window, test-and-set on a `Nat` bitmask).  `Props/C17.windowsDistinct_sound` proves
  `check n s = true → IsDeBruijn n s` for every `n` and `s`; the checker is then run by the kernel
  on the model's output (orders 1..8), by compiled code under `native_decide` (orders 9..11) and
  by the correspondence judge on the REAL output of the Go function (orders 1..11).

The checker is written for the kernel's evaluator: only `Nat` primitives the kernel computes with
GMP (`+ * / % ^ <<< ||| testBit beq blt`), tail calls or lazily consumed list producers, no
`List.length` of a long list.  `checkWith k` does the distinctness test in 4ᵏ passes over 4ⁿ⁻ᵏ-bit
masks (compiled code copies the mask on every update, so orders 10-11 want small masks; the kernel
wants few steps, i.e. `k = 0`).  All `k` are proved sound.
-/
namespace PolyVerif.Spec
open PolyVerif

/-- the alphabet of the property: A, T, G, C -/
def dbAlphabet : List Char := ['A', 'T', 'G', 'C']

/-- all contiguous pieces of length `n`, by start position `0 … |s|-n` -/
def windows (n : Nat) (s : Str) : List Str :=
  (List.range (s.length + 1 - n)).map fun i => (s.drop i).take n

/-- the property's first sentence for a given string -/
def IsDeBruijn (n : Nat) (s : Str) : Prop :=
  s.length = 4 ^ n + n - 1 ∧
  ∀ w : Str, w.length = n → (∀ c ∈ w, c ∈ dbAlphabet) → (windows n s).count w = 1

/-! ### the checker -/

/-- base-4 digit of a letter; 4 = not a letter of the alphabet -/
def digitOf (c : Char) : Nat :=
  let v := c.toNat
  bif v.beq 65 then 0 else bif v.beq 84 then 1 else bif v.beq 71 then 2 else bif v.beq 67 then 3 else 4

/-- `s.length = k`, counting down -/
def hasLength : Str → Nat → Bool
  | [], 0 => true
  | _ :: cs, k + 1 => hasLength cs k
  | _, _ => false

/-- value of a digit string, most significant digit first -/
def val (ds : List Nat) : Nat := ds.foldl (fun a d => a * 4 + d) 0

/-- rolling code: after each further digit, the value of the digits read so far modulo `M` -/
def roll (M : Nat) : Nat → List Nat → List Nat
  | _, [] => []
  | c, d :: ds => ((c * 4 + d) % M) :: roll M ((c * 4 + d) % M) ds

/-- test-and-set on a bitmask: `true` iff no number of the list is in the mask or occurs twice -/
def distinctMask : Nat → List Nat → Bool
  | _, [] => true
  | m, c :: cs => bif m.testBit c then false else distinctMask (m ||| (1 <<< c)) cs

/-- one pass of the checker over the letters after the first n-1, fused into a single tail-recursive
loop: every letter is in the alphabet; the rolling window code (modulo `M` = 4ⁿ) is updated; the
codes whose quotient by `B` is `h` are tested-and-set (modulo `B`) in the mask.
(`Lemmas/DeBruijn.scan_eq`: this is `all letters ∧ distinctMask mask (bucket h of (roll …))`.) -/
def scan (M B h : Nat) : (code mask : Nat) → Str → Bool
  | _, _, [] => true
  | c, m, ch :: cs =>
    bif (digitOf ch).blt 4 then
      bif (((c * 4 + digitOf ch) % M) / B).beq h then
        bif m.testBit (((c * 4 + digitOf ch) % M) % B) then false
        else scan M B h ((c * 4 + digitOf ch) % M) (m ||| (1 <<< (((c * 4 + digitOf ch) % M) % B))) cs
      else scan M B h ((c * 4 + digitOf ch) % M) m cs
    else false

/-- the checker with the distinctness test done in 4ᵏ passes; pass `h` looks at the window codes
whose quotient by 4ⁿ⁻ᵏ is `h` -/
def checkWith (k n : Nat) (s : Str) : Bool :=
  Nat.blt 0 n && hasLength s (4 ^ n + n - 1) && (s.take (n - 1)).all (fun c => (digitOf c).blt 4) &&
    (List.range (4 ^ k)).all fun h =>
      scan (4 ^ n) (4 ^ (n - k)) h (val ((s.take (n - 1)).map digitOf)) 0 (s.drop (n - 1))

/-- the checker in the form the kernel evaluates (one pass, one mask) -/
def check (n : Nat) (s : Str) : Bool := checkWith 0 n s

/-- the checker applied to the outcome of a call (`none` = the call did not return a string) -/
def checkOptWith (k n : Nat) : Option Str → Bool
  | some s => checkWith k n s
  | none => false

end PolyVerif.Spec
