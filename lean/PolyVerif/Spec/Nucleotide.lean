import PolyVerif.Base.Proto
import PolyVerif.Spec.Rotation
/-
Independent spec of IUPAC nucleotide codes: each code is a SET of bases
(written here as a Boolean 4-tuple membership function, a different shape from the
code's two lookup maps).  Typed from the IUPAC-IUB 1984 nomenclature.
-/
namespace PolyVerif.Spec
open PolyVerif

inductive Base | A | C | G | T deriving DecidableEq, Repr

def Base.compl : Base → Base
  | .A => .T | .T => .A | .C => .G | .G => .C

def Base.toChar : Base → Char
  | .A => 'A' | .C => 'C' | .G => 'G' | .T => 'T'

def allBases : List Base := [.A, .C, .G, .T]

/-- which bases an (upper-case) IUPAC code stands for; `none` for a non-code -/
def codeHas? (c : Char) : Option (Base → Bool) :=
  match c with
  | 'A' => some fun b => b == .A
  | 'C' => some fun b => b == .C
  | 'G' => some fun b => b == .G
  | 'T' => some fun b => b == .T
  | 'R' => some fun b => b == .A || b == .G          -- puRine
  | 'Y' => some fun b => b == .C || b == .T          -- pYrimidine
  | 'S' => some fun b => b == .G || b == .C          -- Strong
  | 'W' => some fun b => b == .A || b == .T          -- Weak
  | 'K' => some fun b => b == .G || b == .T          -- Keto
  | 'M' => some fun b => b == .A || b == .C          -- aMino
  | 'B' => some fun b => b != .A                     -- not A
  | 'D' => some fun b => b != .C                     -- not C
  | 'H' => some fun b => b != .G                     -- not G
  | 'V' => some fun b => b != .T                     -- not T
  | 'N' => some fun _ => true
  | _ => none

def upperCodes : List Char := ['A','C','G','T','R','Y','S','W','K','M','B','D','H','V','N']

/-- the 15 IUPAC DNA codes in either case -/
def isIupac15 (c : Char) : Bool := upperCodes.contains c.toUpper && (c.isUpper || c.isLower)

def isAcgt (c : Char) : Bool := ['A','C','G','T'].contains c.toUpper && (c.isUpper || c.isLower)

/-- the code (upper case) whose base set is exactly `p`, if any -/
def codeOfSet (p : Base → Bool) : Option Char :=
  upperCodes.find? fun c =>
    match codeHas? c with
    | some q => allBases.all fun b => q b == p b
    | none => false

/-- complement of a code = the code for the complementary base set; case preserved.
For a non-code the value is irrelevant (judged only on codes). -/
def complCode (c : Char) : Char :=
  match codeHas? c.toUpper with
  | some p =>
    match codeOfSet (fun b => p b.compl) with
    | some u => if c.isLower then u.toLower else u
    | none => c
  | none => c

/-- bases of a code in either case, as characters -/
def basesOf (c : Char) : List Char :=
  match codeHas? c.toUpper with
  | some p => (allBases.filter p).map Base.toChar
  | none => []

/-- `w` is a concrete reading of the ambiguous string `s` -/
def reads (s w : Str) : Bool :=
  s.length == w.length && (s.zip w).all fun (c, x) => (basesOf c).contains x

/-- number of concrete readings -/
def readingCount (s : Str) : Nat := (s.map fun c => (basesOf c).length).foldl (· * ·) 1

/-- no two ADJACENT entries are equal -/
def adjDistinct : List Str → Bool
  | a :: b :: rest => a != b && adjDistinct (b :: rest)
  | _ => true

/-- no two equal entries: merge sort by the byte-lexicographic order `lexLe` (a total order, proved
in Lemmas/RotationSpec), then compare neighbours.  n log n: expansions can have 10^6 entries.
`Lemmas/Expansion.allDistinct_iff_nodup` proves `allDistinct l = true ↔ l.Nodup` from core's
`List.pairwise_mergeSort` / `List.mergeSort_perm`. -/
def allDistinct (got : List Str) : Bool := adjDistinct (got.mergeSort lexLe)

/-- `got` is exactly the set of readings of `s`, each once: every entry is a reading, no entry is
repeated, and there are as many entries as readings (`Props.C11.isExpansion_iff` proves this equivalent
to `got.Nodup ∧ ∀ w, w ∈ got ↔ Reads s w`, the statement of `variants_exact`). -/
def isExpansion (s : Str) (got : List Str) : Bool :=
  got.all (reads s) && allDistinct got && got.length == readingCount s

end PolyVerif.Spec
