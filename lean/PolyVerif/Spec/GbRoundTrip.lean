import PolyVerif.Spec.GbStrict
import PolyVerif.Spec.GbLayout
/-
Write-then-read over the PARSER MODEL (`Genbank.parse`, property C01): the abstract record
(`GbLayout.GbRec`, C01's spec) that a `Sequence` states, the layout choices `Build` makes
(`polyLayout`), the part of the round-trip domain that C01's composition theorem covers
(`covered`), and the equality `≈` between a written record and a parsed one (`approx`).
Core Lean only.
-/
namespace PolyVerif.Spec.GbRoundTrip
open PolyVerif PolyVerif.StrBuild PolyVerif.Spec.GbStrict
open PolyVerif.GenbankBuild (Sequence Feature Reference Locus)

/-- the positions of the newlines of `o`, counted from `i` -/
def nlPositions : Nat → Str → List Nat
  | _, [] => []
  | i, c :: o => (if c = '\n' then [i] else []) ++ nlPositions (i + 1) o

/-- where `WrapString(t, 68)` breaks a text -/
def breaks (t : Str) : List Nat := nlPositions 0 (wrapString t 68)

def toRRef (r : Reference) : GbLayout.RRef :=
  { number := r.index, range := r.range, authors := r.authors, title := r.title, journal := r.journal, pubmed := r.pubMed, remark := r.remark }

def toRFeature (f : Feature) : GbLayout.RFeature :=
  { key := f.type, loc := (absFeat f).loc, quals := sortedEntries f.attributes }

/-- the abstract record a `Sequence` states (C01's spec type) -/
def toRec (x : Sequence) : GbLayout.GbRec :=
  let m := x.metadata
  { locus := { name := m.locus.name, len := m.locus.sequenceLength, mol := m.locus.moleculeType,
               topo := if m.locus.circular then some .circular else if m.locus.linear then some .linear else none,
               division := m.locus.genbankDivision, date := m.locus.modificationDate },
    definition := m.definition, accession := m.accession, version := m.version, keywords := m.keywords,
    source := m.source, organism := m.organism,
    refs := m.references.map toRRef,
    extras := sortedEntries m.other,
    features := x.features.map toRFeature,
    seq := x.sequence }

/-- the text of the REFERENCE line at position `i`: the reference's own number when set, else `i + 1` (be39eee) -/
def refHeadText (i : Nat) (r : Reference) : Str := refNum i r ++ "  ".toList ++ r.range

def refLayout (i : Nat) (r : Reference) : GbLayout.RefLayout :=
  { range := if r.range = [] then [] else breaks (refHeadText i r), trailGap := true, authors := breaks r.authors, title := breaks r.title, journal := breaks r.journal,
    pubmed := breaks r.pubMed, remark := breaks r.remark }

def refLayouts : Nat → List Reference → List GbLayout.RefLayout
  | _, [] => []
  | i, r :: rs => refLayout i r :: refLayouts (i + 1) rs

/-- `Build` writes five blanks before every LOCUS field and nothing for an empty field, so the gap
before a present field is `5 · (1 + number of empty fields directly before it)`; `absent` = that
number.  The C01 layout wants `pad + 1` blanks. -/
def padAfter (absent : Nat) : Nat := 5 * (absent + 1) - 1

/-- the layout choices `genbank.Build` makes: five blanks before every LOCUS field (an empty field
is written as nothing, so the gaps add up and end up as trailing blanks), every block broken where
`WrapString(_, 68)` breaks it, locations and qualifier values on one line, 6 × 10 -/
def polyLayout (x : Sequence) : GbLayout.RecLayout :=
  let m := x.metadata
  let l := m.locus
  let e (t : Str) : Nat := if t = [] then 1 else 0
  let shape : Str := if l.circular then "circular".toList else if l.linear then "linear".toList else []
  let aMol := e l.moleculeType
  let aShape := if shape = [] then aMol + 1 else 0
  let aDiv := if l.genbankDivision = [] then aShape + 1 else 0
  let aDate := if l.modificationDate = [] then aDiv + 1 else 0
  { pads := [6, if l.sequenceLength = [] then 5 else 4, 4, padAfter aMol, padAfter aShape, padAfter aDiv],
    locusTrail := 5 * aDate,
    definition := breaks m.definition, accession := breaks m.accession, version := breaks m.version,
    keywords := breaks m.keywords, source := breaks m.source, organism := breaks m.organism,
    refs := refLayouts 0 m.references,
    extras := (sortedEntries m.other).map fun kv => breaks kv.2,
    feats := [], originTrail := false, blockLen := 9, perLine := 5 }

/-- the REFERENCE line (number, two blanks, range) is wrapped WITHOUT LOSS: its own two blanks do not
fall on a wrap point (a line `REFERENCE   1` followed by the range on the next line is read back
correctly by the real parser, but property C01's layouts never break next to a blank); with an empty
range the line `REFERENCE   n  ` fits -/
def refsFit : Nat → List Reference → Bool
  | _, [] => true
  | i, r :: rs =>
    (if r.range = [] then decide ((refHeadText i r).length ≤ 68)
     else (wrapString (refHeadText i r) 68).length == (refHeadText i r).length) && refsFit (i + 1) rs

/-- the part of the round-trip domain covered by the theorem `parse_build_partial`: the judge's
round-trip domain minus the two known findings (`wfLayoutG`: metadata may hold runs of blanks none of
which falls on a wrap point; any reference numbers), REFERENCE lines wrapped without loss, and
the record as C01's abstract record type expresses it lies in C01's domain (`GbLayout.wf (toRec x)`) -/
def covered (x : Sequence) : Bool :=
  let m := x.metadata
  wfLayoutG x && !(m.locus.circular && m.locus.linear)
    && m.other.all (wfOtherJ 11) && x.features.all wfFeatureRT
    && refsFit 0 m.references && GbLayout.wf (toRec x)
    && x.features.all wfFeatureLoc

def refApprox (a : Reference) (b : Genbank.Reference) : Bool :=
  a.index == b.index && a.authors == b.authors && a.title == b.title && a.journal == b.journal
    && a.pubMed == b.pubmed && a.remark == b.remark && a.range == b.range

/-- the location STRUCTURE that `parseLocation` (property C02's model of what `Parse` does with the
location text) derives from the text read back is the feature's `SequenceLocation` (modulo `normLoc`) —
for a feature written from a cached text AND for a structurally assembled one (then the text is what
`BuildLocationString` writes: `Lemmas/GbLocStruct.lean`, `parse_buildLoc_struct`, over C02's
`parseLocation_tprint`) -/
def locStructOk (a : Feature) (b : Genbank.Feature) : Bool :=
  match Location.parseLocation b.gbkLoc with
  | .ok q => locBeq (normLoc q) (normLoc a.sequenceLocation)
  | _ => false

/-- type, location text (the cached text, else what `BuildLocationString` prints), location structure
(`locStructOk`) and the qualifier map -/
def featApprox (a : Feature) (b : Genbank.Feature) : Bool :=
  a.type == b.type && (absFeat a).loc == b.gbkLoc && locStructOk a b && b.attrs == sortedEntries a.attributes

def listApprox {α β : Type} (f : α → β → Bool) : List α → List β → Bool
  | [], [] => true
  | a :: as, b :: bs => f a b && listApprox f as bs
  | _, _ => false

/-- `≈` between the record given to the writer and the record the parser model returns: sequence,
locus (without `SequenceCoding`), metadata, references (a set `Index` as given, an unset one as the position), extra blocks (as a map: the parser returns
them in file order, which is ascending key order), features -/
def approx (x : Sequence) (y : Genbank.Sequence) : Bool :=
  let a := x.metadata
  let b := y.md
  x.sequence == y.seq
    && a.locus.name == b.locus.name && a.locus.sequenceLength == b.locus.seqLength
    && a.locus.moleculeType == b.locus.molType && a.locus.genbankDivision == b.locus.division
    && a.locus.modificationDate == b.locus.date
    && a.locus.circular == b.locus.circular && a.locus.linear == b.locus.linear
    && a.definition == b.definition && a.accession == b.accession && a.version == b.version
    && a.keywords == b.keywords && a.source == b.source && a.organism == b.organism
    && listApprox refApprox (withDefaultIndex x).metadata.references b.references
    && b.other == sortedEntries a.other
    && listApprox featApprox x.features y.features

end PolyVerif.Spec.GbRoundTrip
