import PolyVerif.Spec.GbStrict
import PolyVerif.Spec.GbLayout
/-
Write-then-read over the PARSER MODEL (`Genbank.parse`, property C01): the abstract record
(`GbLayout.GbRec`, C01's spec) that a `Sequence` states, the layout choices `Build` makes
(`polyLayout`), the part of the round-trip domain that C01's composition theorem covers
(`covered`), and the equality `≈` between a written record and a parsed one (`approx`).
Core Lean only.
-/
namespace PolyVerif.Spec.GbRoundTrip
open PolyVerif PolyVerif.StrBuild PolyVerif.Spec.GbStrict
open PolyVerif.GenbankBuild (Sequence Feature Reference Locus)

/-- the positions of the newlines of `o`, counted from `i` -/
def nlPositions : Nat → Str → List Nat
  | _, [] => []
  | i, c :: o => (if c = '\n' then [i] else []) ++ nlPositions (i + 1) o

/-- where `WrapString(t, 68)` breaks a text -/
def breaks (t : Str) : List Nat := nlPositions 0 (wrapString t 68)

def molOf (s : Str) : GbLayout.MolType :=
  if s = GbLayout.MolType.mrna.text then .mrna
  else if s = GbLayout.MolType.trna.text then .trna
  else if s = GbLayout.MolType.rrna.text then .rrna
  else .dna

def toRRef (r : Reference) : GbLayout.RRef :=
  { range := r.range, authors := r.authors, title := r.title, journal := r.journal, pubmed := r.pubMed, remark := r.remark }

def toRFeature (f : Feature) : GbLayout.RFeature :=
  { key := f.type, loc := (absFeat f).loc, quals := sortedEntries f.attributes }

/-- the abstract record a `Sequence` states (C01's spec type) -/
def toRec (x : Sequence) : GbLayout.GbRec :=
  let m := x.metadata
  { locus := { name := m.locus.name, len := m.locus.sequenceLength, mol := m.locus.moleculeType,
               topo := if m.locus.circular then some .circular else some .linear,
               division := m.locus.genbankDivision, date := m.locus.modificationDate },
    definition := m.definition, accession := m.accession, version := m.version, keywords := m.keywords,
    source := m.source, organism := m.organism,
    refs := m.references.map toRRef,
    extras := sortedEntries m.other,
    features := x.features.map toRFeature,
    seq := x.sequence }

def refLayout (r : Reference) : GbLayout.RefLayout :=
  { range := [], authors := breaks r.authors, title := breaks r.title, journal := breaks r.journal,
    pubmed := breaks r.pubMed, remark := breaks r.remark }

/-- the layout choices `genbank.Build` makes: five blanks between the LOCUS fields, every block
broken where `WrapString(_, 68)` breaks it, locations and qualifier values on one line, 6 × 10 -/
def polyLayout (x : Sequence) : GbLayout.RecLayout :=
  let m := x.metadata
  { pads := [6, 4, 4, 4, 4, 4],
    definition := breaks m.definition, accession := breaks m.accession, version := breaks m.version,
    keywords := breaks m.keywords, source := breaks m.source, organism := breaks m.organism,
    refs := m.references.map refLayout,
    extras := (sortedEntries m.other).map fun kv => breaks kv.2,
    feats := [], originTrail := false, blockLen := 9, perLine := 5 }

/-- the REFERENCE line has a range and is not wrapped -/
def refsFit : Nat → List Reference → Bool
  | _, [] => true
  | i, r :: rs => r.range != [] && decide ((Location.itoa (i + 1)).length + 2 + r.range.length ≤ 68) && refsFit (i + 1) rs

/-- the part of the round-trip domain covered by the theorem `parse_build_partial`: records that
C01's abstract record type can express (one of its four molecule types, a topology, a division, a
date, the length field equal to the number of bases, …: `GbLayout.wf`), whose REFERENCE lines have
a range and fit on one line -/
def covered (x : Sequence) : Bool :=
  let l := x.metadata.locus
  wfSeq x
    && (molOf l.moleculeType).text == l.moleculeType
    && l.circular != l.linear
    && GbLayout.divisionCodes.getD (GbLayout.divisionCodes.idxOf l.genbankDivision) [] == l.genbankDivision
    && l.sequenceLength == Str.ofNat x.sequence.length
    -- (w-gbparse, C01 widening: C01's `wfLocus` now admits absent fields; the two conjuncts keep `covered` what it was)
    && l.genbankDivision != [] && l.modificationDate != []
    && refsFit 0 x.metadata.references
    && GbLayout.wf (toRec x)

def refApprox (a : Reference) (b : Genbank.Reference) : Bool :=
  a.index == b.index && a.authors == b.authors && a.title == b.title && a.journal == b.journal
    && a.pubMed == b.pubmed && a.remark == b.remark && a.range == b.range

/-- type, location TEXT (the cached text, else what `BuildLocationString` prints: the structure the
parser derives from it is property C02's subject) and the qualifier map -/
def featApprox (a : Feature) (b : Genbank.Feature) : Bool :=
  a.type == b.type && (absFeat a).loc == b.gbkLoc && b.attrs == sortedEntries a.attributes

def listApprox {α β : Type} (f : α → β → Bool) : List α → List β → Bool
  | [], [] => true
  | a :: as, b :: bs => f a b && listApprox f as bs
  | _, _ => false

/-- `≈` between the record given to the writer and the record the parser model returns: sequence,
locus (without `SequenceCoding`), metadata, references, extra blocks (as a map: the parser returns
them in file order, which is ascending key order), features -/
def approx (x : Sequence) (y : Genbank.Sequence) : Bool :=
  let a := x.metadata
  let b := y.md
  x.sequence == y.seq
    && a.locus.name == b.locus.name && a.locus.sequenceLength == b.locus.seqLength
    && a.locus.moleculeType == b.locus.molType && a.locus.genbankDivision == b.locus.division
    && a.locus.modificationDate == b.locus.date
    && a.locus.circular == b.locus.circular && a.locus.linear == b.locus.linear
    && a.definition == b.definition && a.accession == b.accession && a.version == b.version
    && a.keywords == b.keywords && a.source == b.source && a.organism == b.organism
    && listApprox refApprox a.references b.references
    && b.other == sortedEntries a.other
    && listApprox featApprox x.features y.features

end PolyVerif.Spec.GbRoundTrip
