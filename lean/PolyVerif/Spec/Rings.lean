import PolyVerif.Model.Ligate
import PolyVerif.Spec.Rotation
/-
Independent spec of "the plasmids the overhangs allow" (C09), in a different shape from the code:
no seed, no recursion, no channel — a RING is a cyclic arrangement of oriented pool fragments
whose neighbouring overhangs agree, and its MOLECULE is the concatenation around the ring, read
up to rotation and strand.  Only the record type `Fragment` is shared with the model.

Decisions taken from the property text and the code (documented in notes/findings/C09.md):

* The pool is a set of fragment SPECIES: a ring uses pairwise distinct fragment VALUES (a second
  copy of the same value in the input adds nothing; a ring that would need one species twice is
  not a ring of the spec — without that restriction the set of rings of `a→b, b→a` is infinite).
* `Ring` alone (a closed chain) is what "not spurious" means: every construct returned must be the
  molecule of a ring.
* "None missing" is claimed for SIMPLE rings: junction overhangs pairwise distinct and none of
  them its own reverse complement (a palindromic overhang also pairs with itself, so the designed
  order is no longer forced; the code never attaches a flipped fragment to a palindromic end).
* What the code returns EXACTLY is the class `OneLap`: rings that, started at a fragment in its
  supplied orientation, do not come back to that fragment's forward overhang before they close
  (Props/C09 `ligate_exact`).  A designed assembly (`designed`, the property's quantifier) also has
  rings that are NOT simple — with two alternatives in every slot the chain can lap the design
  twice (a strict 2 × 2 design has 6 rings, 4 of them simple) — but on a designed pool the one-lap
  rings are precisely the simple rings (`designed_oneLap_simple`), i.e. the designed plasmids; the
  multi-lap concatemers are rings of this spec that the code does not return and that the judge
  forbids on designed pools.
-/
namespace PolyVerif.Spec.Rings
open PolyVerif PolyVerif.Ligate PolyVerif.Transform

/-- the same double-stranded fragment read from the other strand -/
def flip (f : Fragment) : Fragment := ⟨revComp f.seq, revComp f.rev, revComp f.fwd⟩

/-- a pool fragment together with the strand it is read from -/
structure Oriented where
  frag : Fragment
  flipped : Bool
deriving DecidableEq, Repr

def Oriented.get (o : Oriented) : Fragment := if o.flipped then flip o.frag else o.frag

/-- every fragment's reverse overhang is the next fragment's forward overhang -/
def linked : List Fragment → Bool
  | a :: b :: rest => (a.rev == b.fwd) && linked (b :: rest)
  | _ => true

/-- the last fragment's reverse overhang is the first fragment's forward overhang -/
def closes (l : List Fragment) : Bool :=
  match l.head?, l.getLast? with
  | some h, some t => t.rev == h.fwd
  | _, _ => false

/-- a ring of the pool: non-empty, over distinct pool fragments, linked all the way round -/
structure Ring (pool : List Fragment) (os : List Oriented) : Prop where
  nonempty : os ≠ []
  mem : ∀ o ∈ os, o.frag ∈ pool
  distinct : (os.map (·.frag)).Nodup
  linked : linked (os.map (·.get)) = true
  closes : closes (os.map (·.get)) = true

instance (pool : List Fragment) (os : List Oriented) : Decidable (Ring pool os) :=
  decidable_of_iff (os ≠ [] ∧ (∀ o ∈ os, o.frag ∈ pool) ∧ (os.map (·.frag)).Nodup ∧
      linked (os.map (·.get)) = true ∧ closes (os.map (·.get)) = true)
    ⟨fun ⟨a, b, c, d, e⟩ => ⟨a, b, c, d, e⟩, fun ⟨a, b, c, d, e⟩ => ⟨a, b, c, d, e⟩⟩

/-- the overhang at which `o` is joined to its predecessor -/
def Oriented.junction (o : Oriented) : Str := o.get.fwd

/-- junction overhangs pairwise distinct and not self-complementary -/
def Simple (os : List Oriented) : Prop :=
  (os.map (·.junction)).Nodup ∧ ∀ o ∈ os, revComp o.junction ≠ o.junction

instance (os : List Oriented) : Decidable (Simple os) := by unfold Simple; infer_instance

/-- the fragments joined through their shared overhangs (each junction overhang written once) -/
def molecule (os : List Oriented) : Str := (os.map (·.get)).flatMap fun f => f.fwd ++ f.seq

/-- the same circular double-stranded molecule: a rotation of the sequence or of its reverse complement -/
def SameMolecule (a b : Str) : Prop := IsRotation a b ∨ IsRotation (revComp a) b

/-- upper-case `ACGT` only (the property's inputs) -/
def isDna (s : Str) : Bool := s.all fun c => c == 'A' || c == 'C' || c == 'G' || c == 'T'

def dnaFragment (f : Fragment) : Bool := isDna f.seq && isDna f.fwd && isDna f.rev

def dnaPool (pool : List Fragment) : Bool := pool.all dnaFragment

/-- the class of rings the code closes: the first fragment in its supplied orientation, no later
junction overhang equal to the first one ("first return to the seed's forward overhang"), flipped
fragments attached only at non-self-complementary overhangs -/
def OneLap (f : Fragment) (suf : List Oriented) : Prop :=
  (∀ o ∈ suf, o.junction ≠ f.fwd) ∧ (∀ o ∈ suf, o.flipped = true → revComp o.junction ≠ o.junction)

instance (f : Fragment) (suf : List Oriented) : Decidable (OneLap f suf) := by unfold OneLap; infer_instance

/-! ### designed assemblies (the property's quantifier), decided on the pool -/

/-- both orientations of every pool fragment -/
def orientations (pool : List Fragment) : List Oriented := pool.flatMap fun f => [⟨f, false⟩, ⟨f, true⟩]

/-- one round of dead-end pruning: keep the oriented fragments that have, within the set, something to be ligated
to their reverse end AND something their forward end can be ligated to — another fragment species, or (a fragment
that closes on itself) the very same oriented fragment; never the other strand of the same species -/
def pruneStep (S : List Oriented) : List Oriented :=
  S.filter fun o =>
    (S.any fun o' => (o'.frag != o.frag || o' == o) && o'.get.fwd == o.get.rev) &&
    (S.any fun o' => (o'.frag != o.frag || o' == o) && o'.get.rev == o.get.fwd)

def pruneN : Nat → List Oriented → List Oriented
  | 0, S => S
  | n + 1, S => pruneN n (pruneStep S)

/-- the oriented fragments that survive pruning of dead ends to the fixpoint (every fragment of every ring does;
decoys — single, chained, sharing their dead end or their lead-in overhang, palindromic or not — and by-products of
the digest with stray overhangs do not) -/
def core (pool : List Fragment) : List Oriented := pruneN (2 * pool.length) (orientations pool)

/-- A designed assembly: upper-case ACGT, and among the oriented fragments that are not (transitively) dead ends
no junction overhang is its own reverse complement and the forward overhang determines the reverse overhang — the
alternatives of a slot share both junction overhangs, different slots have different ones, a fragment fits in one
place and one orientation only; decoys of any shape dead-end. -/
def designed (pool : List Fragment) : Bool :=
  dnaPool pool &&
  ((core pool).all fun o => revComp o.junction != o.junction) &&
  ((core pool).all fun a => (core pool).all fun b => !(a.get.fwd == b.get.fwd) || a.get.rev == b.get.rev)

/-! ### enumeration (used by the judge; brute force for small pools, graph walk otherwise) -/

/-- every element with the list of the others -/
def pick : List α → List (α × List α)
  | [] => []
  | x :: xs => (x, xs) :: (pick xs).map fun (y, ys) => (y, x :: ys)

/-- all sequences (also the empty one) of distinct elements of `l`, each element in either orientation -/
def arrangements : Nat → List Fragment → List (List Oriented)
  | 0, _ => [[]]
  | fuel + 1, l =>
    [] :: (pick l).flatMap fun (x, rest) =>
      (arrangements fuel rest).flatMap fun t => [⟨x, false⟩ :: t, ⟨x, true⟩ :: t]

/-- brute force: every oriented arrangement of distinct fragment values, filtered by `Ring` -/
def ringsBrute (pool : List Fragment) : List (List Oriented) :=
  let vals := pool.eraseDups
  (arrangements vals.length vals).filter fun os => decide (Ring pool os)

/-- walk in the overhang graph: extend the path (kept reversed) by any unused oriented fragment
whose forward overhang is the path's open reverse overhang; report the path whenever it closes.
With `simpleOnly` a path whose open overhang already occurs as one of its junctions is not extended
(such a path can only grow into rings with a repeated junction overhang). -/
def walks (simpleOnly : Bool) (vals : List Fragment) (start : Fragment) : Nat → List Oriented → Fragment → List (List Oriented)
  | 0, _, _ => []
  | fuel + 1, path, last =>
    (if last.rev == start.fwd then [path.reverse] else []) ++
    (if simpleOnly && path.any (fun o => o.get.fwd == last.rev) then [] else
      vals.flatMap fun n =>
        if path.any (fun o => o.frag == n) then [] else
          [false, true].flatMap fun b =>
            let o : Oriented := ⟨n, b⟩
            if last.rev == o.get.fwd then walks simpleOnly vals start fuel (o :: path) o.get else [])

/-- all rings (or, with `simpleOnly`, at least all simple rings) by graph walk from every oriented start -/
def ringsWalk (simpleOnly : Bool) (pool : List Fragment) : List (List Oriented) :=
  let vals := pool.eraseDups
  vals.flatMap fun n => [false, true].flatMap fun b =>
    let o : Oriented := ⟨n, b⟩
    walks simpleOnly vals o.get (vals.length + 1) [o] o.get

/-- the rings of class `OneLap` by graph walk (Props/C09 `ligate_exact`: exactly what is sent): start at a fragment
as supplied, stop at the first return to its forward overhang, flip only onto non-self-complementary overhangs -/
def walksOneLap (vals : List Fragment) (start : Fragment) : Nat → List Oriented → Fragment → List (List Oriented)
  | 0, _, _ => []
  | fuel + 1, path, last =>
    if last.rev == start.fwd then [path.reverse] else
      vals.flatMap fun n =>
        if path.any (fun o => o.frag == n) then [] else
          [false, true].flatMap fun b =>
            let o : Oriented := ⟨n, b⟩
            if last.rev == o.get.fwd && (!b || revComp last.rev != last.rev) then walksOneLap vals start fuel (o :: path) o.get else []

def ringsOneLap (pool : List Fragment) : List (List Oriented) :=
  let vals := pool.eraseDups
  vals.flatMap fun n => walksOneLap vals n (vals.length + 1) [⟨n, false⟩] n

end PolyVerif.Spec.Rings
