import PolyVerif.Model.Rebase
/-
Independent spec for C16: what a REBASE format-31 listing ("withrefm") *says*, and an
independent writer of that format.

  `Supplier`, `Rec`   the content: the supplier table (code letter, name) and the enzyme records
  `listing`           the writer: header prose, the heading line, blank line(s), one line per
                      supplier `<indent><letter><8 blanks><name>`, blank line(s), then for every
                      record the eight lines `<1>`..`<8>`, any further references one per line, and
                      blank line(s); assembled as a
                      list of lines and joined (the parser under test is a state machine over lines)
  `expectedMap`       the map the listing denotes: one entry per record, keyed by the name,
                      supplier letters decoded through the listing's own table
  `unlayout`          a recogniser that recovers content and layout from a text, so that a given
                      file (the distributed sample) can be shown to BE `listing …` by re-rendering

"Exactly as written": the text after the tag, unchanged (blanks included).  For `<2>` the written
text is the comma-joined isoschizomer list and the entry holds that list: `expectedMap` demands
`r.isos`, in particular NO isoschizomers for an empty `<2>` line (nil and the empty list are
identified, as for the suppliers of an empty `<7>`; the export writes `null` for both).  Until fix
a3fb5a0 rebase.Parse returned the one-element list `[""]` there (`strings.Split("", ",")`).
`wfRec` forbids the one list that cannot be written, `[""]` (its text is the empty line, which denotes
no isoschizomers); empty names next to others (`X,,Y`) are kept as written.

A `<7>` letter that no line of the table names is NOT CONSTRAINED BY THE PROPERTY ("decoded to the
supplier named for that letter in the file's own supplier table" says nothing about it).  The code
writes the empty name for it, one list entry per letter; `supplierOf` / `expectedMap` and the theorem
state exactly that, as a fact about the code.  The judge demands only the names of the letters the
table names, in order; for an unnamed letter it accepts any one string or no entry.  Letters need not
be ASCII.
-/
namespace PolyVerif.Spec.RebaseListing
open PolyVerif PolyVerif.LineText PolyVerif.Rebase

structure Supplier where
  code : Char
  name : Str
  deriving Repr, DecidableEq

structure Rec where
  name : Str
  isos : List Str
  recog : Str
  meth : Str
  org : Str
  src : Str
  codes : List Char
  refs : Str                    -- the first literature reference (on the `<8>` line)
  moreRefs : List Str := []     -- further references, one per line after the `<8>` line
  deriving Repr, DecidableEq

structure Layout where
  prose : List Str := []        -- header lines before the heading
  blank : Str := []             -- what a blank line looks like (blanks and tabs only)
  indent : Str := []            -- indentation of the supplier lines (blanks and tabs only)
  afterHeading : Nat := 0       -- blank lines after the heading beyond the one the format has
  tableGaps : List Nat := []    -- blank lines before supplier i (missing = 0)
  afterTable : Nat := 1         -- blank lines after the table
  gaps : List Nat := []         -- blank lines after record i (missing = 1)
  finalNewline : Bool := true
  deriving Repr, DecidableEq

/-! ### the writer -/

def supplierLine (indent : Str) (s : Supplier) : Str := indent ++ s.code :: List.replicate 8 ' ' ++ s.name

def supplierBlock (blank indent : Str) : List Supplier → List Nat → List Str
  | [], _ => []
  | s :: ss, [] => supplierLine indent s :: supplierBlock blank indent ss []
  | s :: ss, g :: gs => List.replicate g blank ++ supplierLine indent s :: supplierBlock blank indent ss gs

def recLines (r : Rec) : List Str :=
  [tag 1 ++ r.name, tag 2 ++ joinSep ',' r.isos, tag 3 ++ r.recog, tag 4 ++ r.meth, tag 5 ++ r.org,
   tag 6 ++ r.src, tag 7 ++ r.codes, tag 8 ++ r.refs] ++ r.moreRefs

def recBlock (blank : Str) : List Rec → List Nat → List Str
  | [], _ => []
  | r :: rs, [] => recLines r ++ blank :: recBlock blank rs []
  | r :: rs, g :: gs => recLines r ++ List.replicate g blank ++ recBlock blank rs gs

def listingLines (sups : List Supplier) (recs : List Rec) (ℓ : Layout) : List Str :=
  ℓ.prose ++ [trigger] ++ List.replicate (1 + ℓ.afterHeading) ℓ.blank
  ++ supplierBlock ℓ.blank ℓ.indent sups ℓ.tableGaps
  ++ List.replicate ℓ.afterTable ℓ.blank
  ++ recBlock ℓ.blank recs ℓ.gaps

def listing (sups : List Supplier) (recs : List Rec) (ℓ : Layout) : Str :=
  joinSep '\n' (listingLines sups recs ℓ) ++ (if ℓ.finalNewline then ['\n'] else [])

/-! ### what the listing denotes -/

/-- the supplier named for a letter in the table -/
def supplierOf (sups : List Supplier) (c : Char) : Str :=
  match sups.find? (fun s => s.code == c) with
  | some s => s.name
  | none => []

def enzymeOf (sups : List Supplier) (r : Rec) : Enzyme :=
  { name := r.name
    isoschizomers := r.isos
    recognitionSequence := r.recog, methylationSite := r.meth, microOrganism := r.org, source := r.src
    commercialAvailability := r.codes.map (supplierOf sups)
    references := r.refs }

/-- one entry per record, keyed by the name (a repeated name keeps its first position and the
last record's content, as a Go map store does) -/
def expectedMap (sups : List Supplier) (recs : List Rec) : List (Str × Enzyme) :=
  recs.foldl (fun m r => mapInsert m r.name (enzymeOf sups r)) []

/-! ### well-formedness (decidable) -/

def isBlank (c : Char) : Bool := c == ' ' || c == '\t'

def noNl (s : Str) : Bool := !s.contains '\n'

/-- no record tag `<1>`..`<8>` anywhere in the line -/
def noTags (line : Str) : Bool := (List.range' 1 8).all fun n => !hasSub (tag n) line

/-- the line `<k>value` is dispatched as field `k`: no earlier tag occurs in it -/
def dispatches (k : Nat) (value : Str) : Bool :=
  (List.range' 1 (k - 1)).all fun j => !hasSub (tag j) (tag k ++ value)

def codesNodup : List Supplier → Bool
  | [] => true
  | s :: r => !(r.map (·.code)).contains s.code && codesNodup r

/-- a supplier line: the code letter is a non-blank ASCII character (Go stores the first BYTE of the
trimmed line as the code and cuts the name at byte 9) -/
def wfSupplier (indent : Str) (s : Supplier) : Bool :=
  !isBlank s.code && s.code != '\n' && noNl s.name && noTags (supplierLine indent s) && decide (s.code.toNat < 128)

def wfRec (sups : List Supplier) (r : Rec) : Bool :=
  noNl r.name && r.isos.all (fun i => noNl i && !i.contains ',') && noNl r.recog && noNl r.meth
  && noNl r.org && noNl r.src && noNl r.codes && noNl r.refs
  && dispatches 2 (joinSep ',' r.isos) && dispatches 3 r.recog && dispatches 4 r.meth && dispatches 5 r.org
  && dispatches 6 r.src && dispatches 7 r.codes && dispatches 8 r.refs
  && r.moreRefs.all (fun l => noNl l && noTags l && l != trigger)
  && r.isos != [[]]

def wfLayout (ℓ : Layout) : Bool :=
  ℓ.prose.all (fun l => noNl l && noTags l && l != trigger) && ℓ.blank.all isBlank && ℓ.indent.all isBlank

/-- hypothesis of `parse_listing` -/
def wfListing (sups : List Supplier) (recs : List Rec) (ℓ : Layout) : Bool :=
  wfLayout ℓ && sups.all (wfSupplier ℓ.indent) && codesNodup sups && recs.all (wfRec sups)

def namesNodup : List Rec → Bool
  | [] => true
  | r :: rs => !(rs.map (·.name)).contains r.name && namesNodup rs

/-! ### recogniser (for showing that a given file is a listing; validated by re-rendering) -/

def stripTag (n : Nat) (line : Str) : Option Str :=
  if hasPrefix (tag n) line then some (line.drop 3) else none

/-- read records and the blank-line counts after each from the lines following the table -/
def readRecs (fuel : Nat) (lines : List Str) : Option (List Rec × List Nat) :=
  match fuel, lines with
  | _, [] => some ([], [])
  | 0, _ => none
  | fuel + 1, l1 :: l2 :: l3 :: l4 :: l5 :: l6 :: l7 :: l8 :: rest =>
    match stripTag 1 l1, stripTag 2 l2, stripTag 3 l3, stripTag 4 l4, stripTag 5 l5, stripTag 6 l6, stripTag 7 l7, stripTag 8 l8 with
    | some n, some i, some r, some me, some o, some s, some c, some re =>
      let isMore := fun (l : Str) => l != [] && !hasPrefix (tag 1) l
      let more := rest.takeWhile isMore
      let rest := rest.dropWhile isMore
      let blanks := rest.takeWhile (· == [])
      let rest' := rest.dropWhile (· == [])
      match readRecs fuel rest' with
      | some (rs, gs) =>
        some ({ name := n, isos := if i.isEmpty then [] else split ',' i, recog := r, meth := me, org := o, src := s,
                codes := c, refs := re, moreRefs := more } :: rs, blanks.length :: gs)
      | none => none
    | _, _, _, _, _, _, _, _ => none
  | _, _ => none

/-- the supplier lines: `<indent><code><8 blanks><name>`; stops at the first blank line -/
def readSuppliers (lines : List Str) : List (Str × Supplier) × List Str :=
  let tbl := lines.takeWhile (· != [])
  (tbl.filterMap fun l =>
      let ind := l.takeWhile isBlank
      match l.dropWhile isBlank with
      | c :: r => some (ind, { code := c, name := r.drop 8 })
      | [] => none,
   lines.dropWhile (· != []))

/-- content and layout of a text in the distributed shape (empty blank lines, one indentation,
no blank lines inside the table, final newline) -/
def unlayout (text : Str) : Option (List Supplier × List Rec × Layout) :=
  let lines := split '\n' text
  let prose := lines.takeWhile (· != trigger)
  match lines.dropWhile (· != trigger) with
  | _ :: rest =>
    let nblank := (rest.takeWhile (· == [])).length
    let (sups, rest2) := readSuppliers (rest.dropWhile (· == []))
    let nafter := (rest2.takeWhile (· == [])).length
    let body := rest2.dropWhile (· == [])
    -- the text ends with a newline: drop the empty last field of the split
    let body' := if body.getLast? == some [] then body.dropLast else body
    match readRecs (body'.length + 1) body' with
    | some (recs, gaps) =>
      some (sups.map (·.2), recs,
            { prose := prose, blank := [], indent := (sups.head?.map (·.1)).getD [], afterHeading := nblank - 1,
              tableGaps := [], afterTable := nafter, gaps := gaps, finalNewline := body.getLast? == some [] })
    | none => none
  | [] => none

end PolyVerif.Spec.RebaseListing
