import PolyVerif.Model.Location
/-
INSDC feature-table locations (The DDBJ/ENA/GenBank Feature Table Definition, §3.4), as an
abstract syntax with a denotation — the independent spec of property C02.

  `Loc`         abstract syntax: span `a..b` with optional partial markers, single base `n`,
                `join(l1,…,lk)`, `complement(l)`
  `denote`      the INSDC reading of a location on a parent sequence: 1-based inclusive spans,
                a single base is one letter, join concatenates in the order written, complement
                is the reverse complement of the operand, markers do not change the bases
  `ends`        the partial ends: for each span / base in the order written, its (5′, 3′) markers
  `print`       the canonical INSDC text (`<a..b`, `a..>b`)
  `insdcParse`  a STRICT recogniser of that grammar (recursive descent, nothing else accepted:
                `a..b>` is rejected, a join needs at least two operands, positions are ≥ 1 and
                a ≤ b); used only to judge the text poly writes
  `embed`       the location assembled as a `poly.Location` structure (property clause
                "assembled as a structure"); the structure has no constructor for "complement",
                only a flag, so the complement of a complement is a wrapper node
                `{Complement, SubLocations:[operand]}` (what parseLocation builds since ec3cbb7)
  `InRange`, `Arity`   well-formedness: positions within the parent; joins have ≥ 2 operands

The reverse complement is `Transform.revComp`, whose agreement with the IUPAC reading is C11.
Core Lean only.
-/
namespace PolyVerif.Insdc
open PolyVerif PolyVerif.Location

inductive Loc
  | span (a b : Nat) (lt gt : Bool)
  | base (n : Nat)
  | join (xs : List Loc)
  | compl (x : Loc)
  deriving Repr

/-! ### denotation -/

mutual
def denote : Loc → Str → Str
  | .span a b _ _, p => (p.take b).drop (a - 1)      -- letters a … b, counted from 1
  | .base n, p => (p.take n).drop (n - 1)            -- letter n
  | .join xs, p => denoteList xs p
  | .compl x, p => Transform.revComp (denote x p)
def denoteList : List Loc → Str → Str
  | [], _ => []
  | x :: xs, p => denote x p ++ denoteList xs p
end

mutual
/-- partial ends, leaf by leaf in the order written -/
def ends : Loc → List (Bool × Bool)
  | .span _ _ lt gt => [(lt, gt)]
  | .base _ => [(false, false)]
  | .join xs => endsList xs
  | .compl x => ends x
def endsList : List Loc → List (Bool × Bool)
  | [] => []
  | x :: xs => ends x ++ endsList xs
end

/-! ### well-formedness -/

mutual
def inRange : Loc → Nat → Bool
  | .span a b _ _, n => decide (1 ≤ a) && decide (a ≤ b) && decide (b ≤ n)
  | .base k, n => decide (1 ≤ k) && decide (k ≤ n)
  | .join xs, n => inRangeList xs n
  | .compl x, n => inRange x n
def inRangeList : List Loc → Nat → Bool
  | [], _ => true
  | x :: xs, n => inRange x n && inRangeList xs n
end

/-- every position lies on the parent of length `n`, spans are non-empty and forward -/
def InRange (l : Loc) (n : Nat) : Prop := inRange l n = true

mutual
def arity : Loc → Bool
  | .span _ _ _ _ => true
  | .base _ => true
  | .join xs => decide (2 ≤ xs.length) && arityList xs
  | .compl x => arity x
def arityList : List Loc → Bool
  | [] => true
  | x :: xs => arity x && arityList xs
end

/-- every join has at least two operands (INSDC: `join(location,location,…)`) -/
def Arity (l : Loc) : Prop := arity l = true

mutual
/-- some span carries a 3′ partial marker -/
def hasGt : Loc → Bool
  | .span _ _ _ gt => gt
  | .base _ => false
  | .join xs => hasGtList xs
  | .compl x => hasGt x
def hasGtList : List Loc → Bool
  | [] => false
  | x :: xs => hasGt x || hasGtList xs
end

def isCompl : Loc → Bool
  | .compl _ => true
  | _ => false

mutual
/-- somewhere a complement is applied directly to a complement -/
def hasDoubleCompl : Loc → Bool
  | .span _ _ _ _ => false
  | .base _ => false
  | .join xs => hasDoubleComplList xs
  | .compl x => isCompl x || hasDoubleCompl x
def hasDoubleComplList : List Loc → Bool
  | [] => false
  | x :: xs => hasDoubleCompl x || hasDoubleComplList xs
end

/-! ### canonical text -/

/-- decimal digits of `n > 0`, least significant first (fuel `f ≥ n`) -/
def digitsRev : Nat → Nat → List Nat
  | 0, _ => []
  | f + 1, n => if n = 0 then [] else (n % 10) :: digitsRev f (n / 10)

/-- decimal numeral -/
def decimal (n : Nat) : Str :=
  if n = 0 then ['0'] else (digitsRev n n).reverse.map fun d => Char.ofNat (48 + d)

/-- `join(` and `complement(` -/
def txtJoin : Str := ['j', 'o', 'i', 'n', '(']
def txtCompl : Str := ['c', 'o', 'm', 'p', 'l', 'e', 'm', 'e', 'n', 't', '(']

mutual
def print : Loc → Str
  | .span a b lt gt =>
    (if lt then ['<'] else []) ++ (decimal a ++ ['.', '.'] ++ ((if gt then ['>'] else []) ++ decimal b))
  | .base n => decimal n
  | .join [] => txtJoin ++ [')']
  | .join (x :: xs) => txtJoin ++ (print x ++ (printTail xs ++ [')']))
  | .compl x => txtCompl ++ (print x ++ [')'])
/-- the operands after the first, each preceded by its comma -/
def printTail : List Loc → Str
  | [] => []
  | x :: xs => ',' :: (print x ++ printTail xs)
end

/-! ### strict recogniser -/

def isDig (c : Char) : Bool := decide (48 ≤ c.toNat) && decide (c.toNat ≤ 57)

/-- read the maximal run of digits, Horner value -/
def readDigits : Str → Nat → Nat × Str
  | [], acc => (acc, [])
  | c :: cs, acc => if isDig c then readDigits cs (acc * 10 + (c.toNat - 48)) else (acc, c :: cs)

/-- one or more digits -/
def readNat (s : Str) : Option (Nat × Str) :=
  match s with
  | [] => none
  | c :: _ => if isDig c then some (readDigits s 0) else none

/-- `s` starts with `pre`: the rest -/
def stripPrefix : Str → Str → Option Str
  | [], s => some s
  | _ :: _, [] => none
  | p :: ps, c :: cs => if p = c then stripPrefix ps cs else none

/-- a span or a single base:  `[<] nat .. [>] nat`  |  `nat` -/
def readLeaf (s : Str) : Option (Loc × Str) :=
  let lt := s.head? == some '<'
  let s1 := if lt then s.drop 1 else s
  match readNat s1 with
  | none => none
  | some (a, s2) =>
    match stripPrefix ['.', '.'] s2 with
    | none => if lt then none else if 1 ≤ a then some (.base a, s2) else none
    | some s3 =>
      let gt := s3.head? == some '>'
      let s4 := if gt then s3.drop 1 else s3
      match readNat s4 with
      | none => none
      | some (b, s5) => if 1 ≤ a ∧ a ≤ b then some (.span a b lt gt, s5) else none

mutual
/-- one location at the head of the input; the unread rest is returned -/
def readLoc : Nat → Str → Option (Loc × Str)
  | 0, _ => none
  | f + 1, s =>
    match stripPrefix txtCompl s with
    | some r =>
      match readLoc f r with
      | some (x, ')' :: r') => some (.compl x, r')
      | _ => none
    | none =>
      match stripPrefix txtJoin s with
      | some r =>
        match readLoc f r with
        | some (x, r1) =>
          match readTail f r1 with
          | some (y :: ys, ')' :: r2) => some (.join (x :: y :: ys), r2)
          | _ => none
        | none => none
      | none => readLeaf s
/-- zero or more `, location` -/
def readTail : Nat → Str → Option (List Loc × Str)
  | 0, _ => none
  | f + 1, s =>
    match s with
    | ',' :: r =>
      match readLoc f r with
      | some (x, r1) =>
        match readTail f r1 with
        | some (xs, r2) => some (x :: xs, r2)
        | none => none
      | none => none
    | _ => some ([], s)
end

/-- the whole text is exactly one INSDC location -/
def insdcParse (s : Str) : Option Loc :=
  match readLoc (s.length + 1) s with
  | some (l, []) => some l
  | _ => none

/-! ### the location as a poly.Location structure -/

mutual
def embed : Loc → PLoc
  | .span a b lt gt => { start := (a : Int) - 1, stop := b, five := lt, three := gt }
  | .base n => { start := (n : Int) - 1, stop := n }
  | .join xs => { join := true, subs := embedList xs }
  | .compl x =>
    let p := embed x
    if p.complement then { complement := true, subs := [p] } else { p with complement := true }
def embedList : List Loc → List PLoc
  | [] => []
  | x :: xs => embed x :: embedList xs
end

mutual
/-- the partial ends recorded in a structure: the flags of its leaves, in order -/
def pends : PLoc → List (Bool × Bool)
  | ⟨_, _, _, _, five, three, subs⟩ =>
    match subs with
    | [] => [(five, three)]
    | x :: xs => pendsList (x :: xs)
def pendsList : List PLoc → List (Bool × Bool)
  | [] => []
  | x :: xs => pends x ++ pendsList xs
end

end PolyVerif.Insdc
