import PolyVerif.Model.Location
/-
INSDC feature-table locations (The DDBJ/ENA/GenBank Feature Table Definition, §3.4), as an
abstract syntax with a denotation — the independent spec of property C02.

  `Loc`         abstract syntax: span `a..b` with optional partial markers, single base `n`,
                `join(l1,…,lk)`, `complement(l)`
  `denote`      the INSDC reading of a location on a parent sequence: 1-based inclusive spans,
                a single base is one letter, join concatenates in the order written, complement
                is the reverse complement of the operand, markers do not change the bases
  `ends`        the partial ends: for each span / base in the order written, its (5′, 3′) markers
  `print`       the canonical INSDC text (`<a..b`, `a..>b`)
  `insdcParse`  a STRICT recogniser of that grammar (recursive descent, nothing else accepted:
                `a..b>` is rejected, a join needs at least two operands, positions are ≥ 1
                without leading zeros and a ≤ b); used only to judge the text poly writes
  `insdcLenient` the same recogniser, except that it also reads the non-INSDC `a..b>` as
                `a..>b` — used to judge everything ELSE about a written text whose only defect is
                the recorded placement of the 3′ marker (known finding C02-writer-3prime)
  `Rep p l`     "the structure `p` is the location `l` assembled as a poly.Location": the family
                of structures the library's users build — a join node may or may not carry the
                `Join` flag when it has ≥ 2 sublocations (poly_test.go builds its two-part feature
                with `Join == false`), a complement is either the `Complement` flag merged into
                the operand's node or a wrapper node `{Complement, SubLocations:[operand]}` (what
                parseLocation builds for a complement of a complement since ec3cbb7), and a node
                that only wraps one sublocation stands for that sublocation
  `embed`, `embedV`   concrete members of that family (the canonical one; and the variants with
                `Join == false` on joins / wrapper nodes for every complement), sent to AddFeature
  `InRange`, `Arity`   well-formedness: positions within the parent; joins have ≥ 2 operands

Partial markers: INSDC introduces `<` and `>` as qualifiers of the end points of a span (§3.4.3:
`<345..500`, `<1..888`, `1..>888`: "the exact lower boundary point of a feature is unknown");
the location descriptors of §3.4.2.1 list "a single base number" without them.  So `Loc.base`
carries no markers, `<5` / `>5` are outside this grammar and outside property C02 as read here
(some readers, e.g. Biopython, tolerate `[<>]n`; poly parses `<5` to {Start:-1, End:0} and
GetSequence panics — recorded as an assumption and kept as a correspondence-only probe).

The reverse complement is `Transform.revComp`, whose agreement with the IUPAC reading is C11.
Core Lean only.
-/
namespace PolyVerif.Insdc
open PolyVerif PolyVerif.Location

inductive Loc
  | span (a b : Nat) (lt gt : Bool)
  | base (n : Nat)
  | join (xs : List Loc)
  | compl (x : Loc)
  deriving Repr

/-! ### denotation -/

mutual
def denote : Loc → Str → Str
  | .span a b _ _, p => (p.take b).drop (a - 1)      -- letters a … b, counted from 1
  | .base n, p => (p.take n).drop (n - 1)            -- letter n
  | .join xs, p => denoteList xs p
  | .compl x, p => Transform.revComp (denote x p)
def denoteList : List Loc → Str → Str
  | [], _ => []
  | x :: xs, p => denote x p ++ denoteList xs p
end

mutual
/-- partial ends, leaf by leaf in the order written -/
def ends : Loc → List (Bool × Bool)
  | .span _ _ lt gt => [(lt, gt)]
  | .base _ => [(false, false)]
  | .join xs => endsList xs
  | .compl x => ends x
def endsList : List Loc → List (Bool × Bool)
  | [] => []
  | x :: xs => ends x ++ endsList xs
end

/-! ### well-formedness -/

mutual
def inRange : Loc → Nat → Bool
  | .span a b _ _, n => decide (1 ≤ a) && decide (a ≤ b) && decide (b ≤ n)
  | .base k, n => decide (1 ≤ k) && decide (k ≤ n)
  | .join xs, n => inRangeList xs n
  | .compl x, n => inRange x n
def inRangeList : List Loc → Nat → Bool
  | [], _ => true
  | x :: xs, n => inRange x n && inRangeList xs n
end

/-- every position lies on the parent of length `n`, spans are non-empty and forward -/
def InRange (l : Loc) (n : Nat) : Prop := inRange l n = true

mutual
def arity : Loc → Bool
  | .span _ _ _ _ => true
  | .base _ => true
  | .join xs => decide (2 ≤ xs.length) && arityList xs
  | .compl x => arity x
def arityList : List Loc → Bool
  | [] => true
  | x :: xs => arity x && arityList xs
end

/-- every join has at least two operands (INSDC: `join(location,location,…)`) -/
def Arity (l : Loc) : Prop := arity l = true

mutual
/-- some span carries a 3′ partial marker -/
def hasGt : Loc → Bool
  | .span _ _ _ gt => gt
  | .base _ => false
  | .join xs => hasGtList xs
  | .compl x => hasGt x
def hasGtList : List Loc → Bool
  | [] => false
  | x :: xs => hasGt x || hasGtList xs
end

def isCompl : Loc → Bool
  | .compl _ => true
  | _ => false

mutual
/-- somewhere a complement is applied directly to a complement -/
def hasDoubleCompl : Loc → Bool
  | .span _ _ _ _ => false
  | .base _ => false
  | .join xs => hasDoubleComplList xs
  | .compl x => isCompl x || hasDoubleCompl x
def hasDoubleComplList : List Loc → Bool
  | [] => false
  | x :: xs => hasDoubleCompl x || hasDoubleComplList xs
end

/-! ### canonical text -/

/-- decimal digits of `n > 0`, least significant first (fuel `f ≥ n`) -/
def digitsRev : Nat → Nat → List Nat
  | 0, _ => []
  | f + 1, n => if n = 0 then [] else (n % 10) :: digitsRev f (n / 10)

/-- decimal numeral -/
def decimal (n : Nat) : Str :=
  if n = 0 then ['0'] else (digitsRev n n).reverse.map fun d => Char.ofNat (48 + d)

/-- `join(` and `complement(` -/
def txtJoin : Str := ['j', 'o', 'i', 'n', '(']
def txtCompl : Str := ['c', 'o', 'm', 'p', 'l', 'e', 'm', 'e', 'n', 't', '(']

mutual
def print : Loc → Str
  | .span a b lt gt =>
    (if lt then ['<'] else []) ++ (decimal a ++ ['.', '.'] ++ ((if gt then ['>'] else []) ++ decimal b))
  | .base n => decimal n
  | .join [] => txtJoin ++ [')']
  | .join (x :: xs) => txtJoin ++ (print x ++ (printTail xs ++ [')']))
  | .compl x => txtCompl ++ (print x ++ [')'])
/-- the operands after the first, each preceded by its comma -/
def printTail : List Loc → Str
  | [] => []
  | x :: xs => ',' :: (print x ++ printTail xs)
end

/-! ### strict recogniser -/

def isDig (c : Char) : Bool := decide (48 ≤ c.toNat) && decide (c.toNat ≤ 57)

/-- read the maximal run of digits, Horner value -/
def readDigits : Str → Nat → Nat × Str
  | [], acc => (acc, [])
  | c :: cs, acc => if isDig c then readDigits cs (acc * 10 + (c.toNat - 48)) else (acc, c :: cs)

/-- one or more digits, no leading zero (so the value is ≥ 1) -/
def readNat (s : Str) : Option (Nat × Str) :=
  match s with
  | [] => none
  | c :: _ => if isDig c && c != '0' then some (readDigits s 0) else none

/-- `s` starts with `pre`: the rest -/
def stripPrefix : Str → Str → Option Str
  | [], s => some s
  | _ :: _, [] => none
  | p :: ps, c :: cs => if p = c then stripPrefix ps cs else none

/-- a span or a single base:  `[<] nat .. [>] nat`  |  `nat`.
With `len` (lenient) also `[<] nat .. nat >`, read as `[<] nat .. > nat`. -/
def readLeaf (len : Bool) (s : Str) : Option (Loc × Str) :=
  let lt := s.head? == some '<'
  let s1 := if lt then s.drop 1 else s
  match readNat s1 with
  | none => none
  | some (a, s2) =>
    match stripPrefix ['.', '.'] s2 with
    | none => if lt then none else if 1 ≤ a then some (.base a, s2) else none
    | some s3 =>
      let gt := s3.head? == some '>'
      let s4 := if gt then s3.drop 1 else s3
      match readNat s4 with
      | none => none
      | some (b, s5) =>
        if 1 ≤ a ∧ a ≤ b then
          if len && !gt && s5.head? == some '>' then some (.span a b lt true, s5.drop 1)
          else some (.span a b lt gt, s5)
        else none

mutual
/-- one location at the head of the input; the unread rest is returned -/
def readLoc (len : Bool) : Nat → Str → Option (Loc × Str)
  | 0, _ => none
  | f + 1, s =>
    match stripPrefix txtCompl s with
    | some r =>
      match readLoc len f r with
      | some (x, ')' :: r') => some (.compl x, r')
      | _ => none
    | none =>
      match stripPrefix txtJoin s with
      | some r =>
        match readLoc len f r with
        | some (x, r1) =>
          match readTail len f r1 with
          | some (y :: ys, ')' :: r2) => some (.join (x :: y :: ys), r2)
          | _ => none
        | none => none
      | none => readLeaf len s
/-- zero or more `, location` -/
def readTail (len : Bool) : Nat → Str → Option (List Loc × Str)
  | 0, _ => none
  | f + 1, s =>
    match s with
    | ',' :: r =>
      match readLoc len f r with
      | some (x, r1) =>
        match readTail len f r1 with
        | some (xs, r2) => some (x :: xs, r2)
        | none => none
      | none => none
    | _ => some ([], s)
end

def parseWith (len : Bool) (s : Str) : Option Loc :=
  match readLoc len (s.length + 1) s with
  | some (l, []) => some l
  | _ => none

/-- the whole text is exactly one INSDC location -/
def insdcParse (s : Str) : Option Loc := parseWith false s

/-- … or one INSDC location in which 3′ markers may also stand after the end position -/
def insdcLenient (s : Str) : Option Loc := parseWith true s

/-! ### the location as a poly.Location structure -/

mutual
def embed : Loc → PLoc
  | .span a b lt gt => { start := (a : Int) - 1, stop := b, five := lt, three := gt }
  | .base n => { start := (n : Int) - 1, stop := n }
  | .join xs => { join := true, subs := embedList xs }
  | .compl x =>
    let p := embed x
    if p.complement then { complement := true, subs := [p] } else { p with complement := true }
def embedList : List Loc → List PLoc
  | [] => []
  | x :: xs => embed x :: embedList xs
end

mutual
/-- variants of `embed`: `joinFlag` = the `Join` flag of join nodes (when false, a join is only a
node with several sublocations, as in poly_test.go); `wrap` = every complement is a wrapper node
instead of a flag merged into the operand's node -/
def embedV (joinFlag wrap : Bool) : Loc → PLoc
  | .span a b lt gt => { start := (a : Int) - 1, stop := b, five := lt, three := gt }
  | .base n => { start := (n : Int) - 1, stop := n }
  | .join xs => { join := joinFlag, subs := embedVList joinFlag wrap xs }
  | .compl x =>
    let p := embedV joinFlag wrap x
    if wrap || p.complement then { complement := true, subs := [p] } else { p with complement := true }
def embedVList (joinFlag wrap : Bool) : List Loc → List PLoc
  | [] => []
  | x :: xs => embedV joinFlag wrap x :: embedVList joinFlag wrap xs
end

mutual
/-- `Rep p l`: the structure `p` is the location `l` assembled as a poly.Location.  Fields that
the library does not read on a node of that kind (coordinates and partial flags of inner nodes)
are free. -/
inductive Rep : PLoc → Loc → Prop
  | span (a b : Nat) (lt gt : Bool) :
      Rep ⟨(a : Int) - 1, b, false, false, lt, gt, []⟩ (.span a b lt gt)
  | base (n : Nat) :
      Rep ⟨(n : Int) - 1, n, false, false, false, false, []⟩ (.base n)
  | join (s e : Int) (j f t : Bool) (ps : List PLoc) (xs : List Loc) :
      (j = true ∨ 2 ≤ ps.length) → RepList ps xs → Rep ⟨s, e, false, j, f, t, ps⟩ (.join xs)
  | merged (s e : Int) (j f t : Bool) (ps : List PLoc) (x : Loc) :
      Rep ⟨s, e, false, j, f, t, ps⟩ x → Rep ⟨s, e, true, j, f, t, ps⟩ (.compl x)
  | wrapper (s e : Int) (f t : Bool) (q : PLoc) (x : Loc) :
      Rep q x → Rep ⟨s, e, true, false, f, t, [q]⟩ (.compl x)
  | pass (s e : Int) (f t : Bool) (q : PLoc) (l : Loc) :
      Rep q l → Rep ⟨s, e, false, false, f, t, [q]⟩ l
inductive RepList : List PLoc → List Loc → Prop
  | nil : RepList [] []
  | cons (p : PLoc) (ps : List PLoc) (x : Loc) (xs : List Loc) :
      Rep p x → RepList ps xs → RepList (p :: ps) (x :: xs)
end

mutual
/-- the partial ends recorded in a structure: the flags of its leaves, in order -/
def pends : PLoc → List (Bool × Bool)
  | ⟨_, _, _, _, five, three, subs⟩ =>
    match subs with
    | [] => [(five, three)]
    | x :: xs => pendsList (x :: xs)
def pendsList : List PLoc → List (Bool × Bool)
  | [] => []
  | x :: xs => pends x ++ pendsList xs
end

end PolyVerif.Insdc
