import PolyVerif.Spec.XmlScan
/-
Independent document writer for C20: Uniprot XML documents with k entries (accessions, names, sequence
text, optionally the usual attributes and other child elements, optional material between entries) as a
sequence of XML tokens (`docToks`) whose rendering is the text (`renderDoc`), the byte offsets at which the root element starts and ends and each entry ends, the ways of damaging such a
document that the property names (truncation at a byte offset, overwriting a byte), and a CONSERVATIVE
classification of a damaged text: `wellformed` / `damagedAt p` are claimed only where that is certain
from the construction; everything else is `unknown` and is not judged.  Core Lean only.
-/
namespace PolyVerif.Spec.UniprotSpec
open PolyVerif PolyVerif.Uniprot PolyVerif.Spec.XmlScan

structure DocEntry where
  accessions : List Str
  names : List Str
  seq : Str
  attrs : Nat     -- 0: no attributes; 1: dataset/created/modified/version and the sequence's attributes;
                  -- ≥ 2: as 1 but `version="x"` — or, for 3, the impossible date `created="2000-45-30"` — (well-formed XML, invalid against the Uniprot schema)
  extra : Bool    -- protein and organism children (the organism has `name` children of its own)
  filler : Nat    -- after the entry: 0 newline; 1 a copyright element; 2 a comment; 3 nothing;
                  -- 4 a copyright element whose text holds the entity `&amp;`
  deriving Repr

structure Doc where
  prolog : Nat    -- 0 none; 1 XML declaration; 2 declaration and a comment
  entries : List DocEntry
  trailingNl : Bool
  deriving Repr

def DocEntry.toEntry (d : DocEntry) : Entry := ⟨d.accessions, d.names, d.seq⟩

def s (x : String) : Str := x.toList

/-! ### a document as a sequence of XML tokens, and its text -/

def nl : Tok := .chars ['\n']

def prologToks : Nat → List Tok
  | 0 => []
  | 1 => [.pi (s "xml version=\"1.0\" encoding=\"UTF-8\""), nl]
  | _ => [.pi (s "xml version=\"1.0\" encoding=\"UTF-8\""), nl, .comment (s " Uniprot test document "), nl]

def rootOpenToks : List Tok := [.start (s "uniprot") [(s "xmlns", s "http://uniprot.org/uniprot")] false, nl]

/-- `<tag>text</tag>` and a newline; an empty text gives no character data token -/
def elemToks (tag : String) (text : Str) : List Tok :=
  .start (s tag) [] false :: (if text.isEmpty then [] else [.chars text]) ++ [.close (s tag), nl]

def entryAttrs : Nat → List (Str × Str)
  | 0 => []
  | 1 => [(s "dataset", s "Swiss-Prot"), (s "created", s "2000-05-30"), (s "modified", s "2019-07-03"), (s "version", s "106")]
  | 3 => [(s "dataset", s "Swiss-Prot"), (s "created", s "2000-45-30"), (s "modified", s "2019-07-03"), (s "version", s "106")]
  | _ => [(s "dataset", s "Swiss-Prot"), (s "created", s "2000-05-30"), (s "modified", s "2019-07-03"), (s "version", s "x")]

def seqAttrs (d : DocEntry) : List (Str × Str) :=
  if d.attrs = 0 then [] else
    [(s "length", Nat.toDigits 10 d.seq.length), (s "mass", s "29735"), (s "checksum", s "B4840739BF7D4121"),
     (s "modified", s "2004-10-11"), (s "version", s "1")]

/-- other children of an entry: a protein and an organism, the latter with `name` children of its own -/
def extraToks : List Tok :=
  [.start (s "protein") [] false, .start (s "recommendedName") [] false, .start (s "fullName") [] false,
   .chars (s "Putative transcription factor 001R"), .close (s "fullName"), .close (s "recommendedName"),
   .close (s "protein"), nl,
   .start (s "organism") [] false, .start (s "name") [(s "type", s "scientific")] false, .chars (s "Frog virus 3"),
   .close (s "name"), .start (s "name") [(s "type", s "common")] false, .chars (s "FV3"), .close (s "name"),
   .start (s "dbReference") [(s "type", s "NCBI Taxonomy"), (s "id", s "654924")] true, .close (s "organism"), nl]

/-- the children of an entry, after `<entry …>` and its newline, up to and including `</entry>` -/
def entryBodyToks (d : DocEntry) : List Tok :=
  d.accessions.flatMap (elemToks "accession") ++ d.names.flatMap (elemToks "name") ++
  (if d.extra then extraToks else []) ++
  .start (s "sequence") (seqAttrs d) false :: (if d.seq.isEmpty then [] else [.chars d.seq]) ++
  [.close (s "sequence"), nl, .close (s "entry")]

def entryToks (d : DocEntry) : List Tok := .start (s "entry") (entryAttrs d.attrs) false :: nl :: entryBodyToks d

def fillerToks : Nat → List Tok
  | 0 => [nl]
  | 1 => [nl, .start (s "copyright") [] false, .chars (s "Copyrighted by the UniProt Consortium"), .close (s "copyright"), nl]
  | 2 => [nl, .comment (s " between entries "), nl]
  | 4 => [nl, .start (s "copyright") [] false, .chars (s "Copyrighted by the UniProt Consortium &amp; others"),
          .close (s "copyright"), nl]
  | _ => []

def entriesToks (ds : List DocEntry) : List Tok := ds.flatMap (fun d => entryToks d ++ fillerToks d.filler)

def docToks (d : Doc) : List Tok :=
  prologToks d.prolog ++ rootOpenToks ++ entriesToks d.entries ++ [.close (s "uniprot")] ++
    (if d.trailingNl then [nl] else [])

/-- offsets just after each `</entry>`, for entries written from offset `start` on -/
def entryEndsFrom : Nat → List DocEntry → List Nat
  | _, [] => []
  | start, d :: ds =>
    let e := start + (renderToks (entryToks d)).length
    e :: entryEndsFrom (e + (renderToks (fillerToks d.filler)).length) ds

structure Rendered where
  text : Str
  rootStart : Nat          -- offset of the `<` of the root element
  rootEnd : Nat            -- offset just after the `>` of `</uniprot>`
  entryEnds : List Nat     -- offset just after each `</entry>`

def renderDoc (d : Doc) : Rendered :=
  let p := renderToks (prologToks d.prolog)
  let head := p ++ renderToks rootOpenToks
  let body := renderToks (entriesToks d.entries)
  { text := renderToks (docToks d), rootStart := p.length,
    rootEnd := head.length + body.length + (renderTok (.close (s "uniprot"))).length,
    entryEnds := entryEndsFrom head.length d.entries }

/-! ### what the decoder's loop sees of a well-formed document (by construction of the text) -/

def prologEvs : Nat → List Ev
  | 0 => []
  | 1 => [.other, .other]                     -- declaration, newline
  | _ => [.other, .other, .other, .other]     -- declaration, newline, comment, newline

def fillerEvs : Nat → List Ev
  | 0 => [.other]                                      -- newline
  | 1 => [.other, .start, .other, .other, .other]      -- newline, <copyright>, text, </copyright>, newline
  | 2 => [.other, .other, .other]                      -- newline, comment, newline
  | 4 => [.other, .start, .other, .other, .other]      -- as 1, the text holds an entity
  | _ => []

/-- The token trace of `renderDoc d` for a document whose entries are valid against the schema: the
prolog, the root start tag and its newline, per entry one `entry` event carrying exactly the accessions,
names and sequence text written into it (DecodeElement consumes the whole element, including the
organism's own `name` children), the material between entries, the root end tag, the final newline.
That encoding/xml + the Entry unmarshalling really produce this trace for the rendered text is checked by
the driver on every undamaged case. -/
def docTrace (d : Doc) : Trace :=
  ⟨prologEvs d.prolog ++ [.start, .other] ++
     d.entries.flatMap (fun e => .entry e.toEntry :: fillerEvs e.filler) ++
     [.other] ++ (if d.trailingNl then [.other] else []), .eof⟩

/-- valid against the schema: no entry carries the non-numeric `version` (`attrs ≥ 2`) -/
def Doc.valid (d : Doc) : Bool := d.entries.all (fun e => decide (e.attrs ≤ 1))

/-! ### damage -/

inductive Damage where
  | none
  | trunc (n : Nat)                -- keep the first `n` bytes
  | set (p : Nat) (c : Char)       -- overwrite byte `p`
  | gz (kind : String) (arg : Nat)   -- applied by the harness to the gzip stream: `trunc` / `flip` (position
                                    -- in permille of the stream length) / `truncabs` (keep `arg` bytes)
  | hset (p : Nat) (b : Nat)       -- applied by the harness to the plain bytes: byte `p` := `b` (`b ≥ 128`:
                                    -- a lone high byte, which no Lean string can carry)
  deriving Repr

def applyDamage (dm : Damage) (t : Str) : Str :=
  match dm with
  | .trunc n => t.take n
  | .set p c => if p < t.length then t.take p ++ c :: t.drop (p + 1) else t
  | _ => t

inductive DClass where
  | wellformed                -- certainly a well-formed document with the same entries
  | damagedAt (p : Nat)       -- certainly not well-formed; the first `p` bytes are intact
  | beforeRoot (p : Nat)      -- truncated before the root element starts (nothing but prolog is left):
                              -- the decoder itself reports nothing there, the parser must (fix 5298f45)
  | unknown
  deriving Repr, DecidableEq

def isWordChar (c : Char) : Bool := c.isAlphanum || c == '_'

/-- position `p` lies in a run of word characters that is the whole text between a `>` and a `<` -/
def inLeafText (t : Str) (p : Nat) : Bool :=
  let left := (t.take p).reverse.dropWhile isWordChar
  let right := (t.drop p).dropWhile isWordChar
  (match t[p]? with | some c => isWordChar c | none => false) &&
    left.head? == some '>' && right.head? == some '<'

/-- position `p` is the first letter of the name in an end tag `</name…` -/
def isEndTagName (t : Str) (p : Nat) : Bool :=
  2 ≤ p && t[p - 2]? == some '<' && t[p - 1]? == some '/' &&
    (match t[p]? with | some c => c.isAlpha | none => false)

/-- position `p` holds the quote that opens an attribute value (`="`) -/
def isOpeningQuote (t : Str) (p : Nat) : Bool :=
  let back := (t.take p).reverse.takeWhile (fun c => c != '<')     -- the text since the last `<`
  1 ≤ p && t[p]? == some '"' && t[p - 1]? == some '=' &&
    back.length < p && !back.contains '>' && back.count '"' % 2 == 0   -- inside a tag, not inside a value

/-- position `p` lies in an entity `&name;` (on a letter of the name or on the `;`) and putting the letter `c`
there leaves no predefined entity: the `;` is gone, or the name is no longer one of the five -/
def breaksEntity (t : Str) (p : Nat) (c : Char) : Bool :=
  let left := (t.take p).reverse.takeWhile Char.isAlpha          -- letters before p, nearest first
  let afterLeft := (t.take p).reverse.dropWhile Char.isAlpha
  match t[p]? with
  | some ';' => afterLeft.head? == some '&' && !left.isEmpty
  | some x =>
    let right := (t.drop (p + 1)).takeWhile Char.isAlpha
    let afterRight := (t.drop (p + 1)).dropWhile Char.isAlpha
    x.isAlpha && afterLeft.head? == some '&' && afterRight.head? == some ';' &&
      !(entityNames.contains (left.reverse ++ c :: right))
  | none => false

/-- position `p` lies inside a quoted attribute value of a tag (the reader does not look at attribute values;
Entry / SequenceType unmarshalling types some of them) -/
def inAttrValue (t : Str) (p : Nat) : Bool :=
  let back := (t.take p).reverse.takeWhile (fun c => c != '<')     -- the text since the last `<`, nearest first
  back.length < p && !back.contains '>' && back.count '"' % 2 == 1

/-- number of leading characters of `t` that fit completely into the first `n` bytes of its UTF-8 encoding -/
def charsWithin : Nat → Str → Nat
  | _, [] => 0
  | n, c :: r => if c.utf8Size ≤ n then 1 + charsWithin (n - c.utf8Size) r else 0

def isAscii (t : Str) : Bool := t.all (fun c => c.toNat < 128)

def classify (d : Doc) (r : Rendered) (dm : Damage) : DClass :=
  let valid := d.valid
  match dm with
  | .none =>
    if valid then .wellformed
    else
      -- an entry whose `version` attribute is not a number: DecodeElement must fail there; the entries before
      -- it are intact (`p` = end of the last valid entry before the first invalid one)
      let firstBad := (d.entries.takeWhile (fun e => decide (e.attrs ≤ 1))).length
      .damagedAt ((r.entryEnds.take firstBad).getLast?.getD (r.rootStart + 1))
  | .trunc n =>
    if n ≥ r.rootEnd then (if valid then .wellformed else .unknown)
    else if n ≤ r.rootStart then .beforeRoot n
    else .damagedAt n
  | .set p c =>
    if p ≥ r.text.length || r.text[p]? == some c then (if valid then .wellformed else .unknown)
    else if p < r.rootStart || p ≥ r.rootEnd then .unknown
    else if c == Char.ofNat 1 && d.entries.all (fun e => e.filler != 2) then .damagedAt p
    else if c == '<' && inLeafText r.text p then .damagedAt p
    else if c.isAlpha && isEndTagName r.text p then .damagedAt p
    else if c == '&' && inLeafText r.text p then .damagedAt p          -- a bare `&` (no `;` before the next `<`)
    else if c.isAlpha && isOpeningQuote r.text p then .damagedAt p      -- an attribute value that lost its quote
    else if c.isAlpha && breaksEntity r.text p c then .damagedAt p      -- `&amp;` with a damaged name or no `;`
    else .unknown
  | .hset p b =>
    -- a lone byte ≥ 0x80 between ASCII bytes is invalid UTF-8 wherever it stands inside the root element
    -- (byte offset = character offset: ASCII documents only)
    if b ≥ 128 && b < 256 && r.rootStart ≤ p && p < r.rootEnd && d.entries.all (fun e => e.filler != 2) && isAscii r.text then .damagedAt p
    else .unknown
  | .gz _ _ => .unknown   -- decided from what the harness's own gzip reader reports

/-- entries that lie completely within the first `p` bytes -/
def entriesBefore (d : Doc) (r : Rendered) (p : Nat) : List Entry :=
  ((d.entries.zip r.entryEnds).filter (fun x => x.2 ≤ p)).map (fun x => x.1.toEntry)

end PolyVerif.Spec.UniprotSpec
