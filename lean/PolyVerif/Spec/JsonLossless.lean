import PolyVerif.Model.PolyJson
/-
Independent reading of property C15's "an equal value in every field … and re-links every
feature to its parent": a direct, pairwise comparison of two annotated sequences (no
normal form, no codec): slices are compared by length and position, nil = empty; maps are
compared as finite functions (mutual inclusion by lookup, so entry order is irrelevant);
parent pointers are not part of the value and are judged separately (`relinkedOK`).
This is the predicate the judge evaluates on the implementation's outputs.
-/
namespace PolyVerif.Spec.Lossless
open PolyVerif PolyVerif.PolyJson

def sameList {α : Type} (eq : α → α → Bool) : List α → List α → Bool
  | [], [] => true
  | x :: xs, y :: ys => eq x y && sameList eq xs ys
  | _, _ => false

def sameSlice {α : Type} (eq : α → α → Bool) (a b : Option (List α)) : Bool :=
  sameList eq (a.getD []) (b.getD [])

def lookupS (k : S) : List (S × S) → Option S
  | [] => none
  | (k', v) :: rest => if k == k' then some v else lookupS k rest

def subMap (a b : List (S × S)) : Bool := a.all fun p => lookupS p.1 b == some p.2

/-- equal as finite maps; a nil map equals an empty one -/
def sameMap (a b : SMap) : Bool := subMap (a.getD []) (b.getD []) && subMap (b.getD []) (a.getD [])

mutual
def sameLoc : Location → Location → Bool
  | .mk s e c j f t subs, .mk s' e' c' j' f' t' subs' =>
    s == s' && e == e' && c == c' && j == j' && f == f' && t == t' && sameSubs subs subs'
def sameSubs : Option (List Location) → Option (List Location) → Bool
  | none, b => (b.getD []).isEmpty
  | some xs, b => sameLocs xs (b.getD [])
def sameLocs : List Location → List Location → Bool
  | [], ys => ys.isEmpty
  | _ :: _, [] => false
  | x :: xs, y :: ys => sameLoc x y && sameLocs xs ys
end

def sameFeature (a b : Feature) : Bool :=
  a.name == b.name && a.source == b.source && a.type == b.type && a.score == b.score
  && a.strand == b.strand && a.phase == b.phase && sameMap a.attributes b.attributes
  && a.gbkLocationString == b.gbkLocationString && a.sequence == b.sequence
  && sameLoc a.sequenceLocation b.sequenceLocation && a.sequenceHash == b.sequenceHash
  && a.description == b.description && a.sequenceHashFunction == b.sequenceHashFunction

def sameMeta (a b : Meta) : Bool :=
  a.name == b.name && a.gffVersion == b.gffVersion && a.regionStart == b.regionStart
  && a.regionEnd == b.regionEnd && a.size == b.size && a.type == b.type && a.date == b.date
  && a.definition == b.definition && a.accession == b.accession && a.version == b.version
  && a.keywords == b.keywords && a.organism == b.organism && a.source == b.source
  && a.origin == b.origin && a.locus == b.locus
  && sameSlice (fun r r' => r == r') a.references b.references && sameMap a.other b.other

/-- every field of `a` equals the corresponding field of `b` -/
def sameSeq (a b : Sequence) : Bool :=
  sameMeta a.metadata b.metadata && a.description == b.description && a.sequenceHash == b.sequenceHash
  && a.sequenceHashFunction == b.sequenceHashFunction && a.sequence == b.sequence
  && sameSlice sameFeature a.features b.features

/-- every feature's parent pointer leads to the sequence text of the value it sits in -/
def relinkedOK (r : Sequence) : Bool :=
  (r.features.getD []).all fun f => f.parent == some r.sequence

end PolyVerif.Spec.Lossless
