import PolyVerif.Base.Proto
/-
The NCBI genetic codes (https://www.ncbi.nlm.nih.gov/Taxonomy/Utils/wprintgc.cgi), typed by hand from the
published descriptions ("differences from the standard code", "alternative initiation codons"), in a shape
different from codon.go's 64-letter strings:

* the standard code per amino acid,
* every other code as its list of reassignments relative to the standard code,
* start and stop codons as codon lists.

Codes 27, 28 and 31 have context-dependent codons (a triplet that is read as an amino acid inside a gene and as
a stop at its end).  NCBI prints the amino acid in the `AAs` line and the `*` in the `Starts` line; so here
the reassignment goes to the amino acid and the triplet is ALSO listed among the stop codons.

No network was available: this file is the independent statement the regenerated tables are compared to
(Props/C06 `codon_by_codon`, `starts_eq`, `stops_eq`); it is part of the trusted base.
-/
namespace PolyVerif.Spec.Ncbi
open PolyVerif

/-- `c!"TTT"` is the letter list `['T', 'T', 'T']` (expanded when the file is elaborated, so that the kernel
never has to decode a string literal) -/
macro "c!" s:str : term => do
  let cs := s.getString.toList.map fun c => Lean.Syntax.mkCharLit c
  `([$(cs.toArray),*])

/-- translation table 1, by amino acid ('*' = termination) -/
def standard : List (Char × List (List Char)) := [
  ('F', [c!"TTT", c!"TTC"]),
  ('L', [c!"TTA", c!"TTG", c!"CTT", c!"CTC", c!"CTA", c!"CTG"]),
  ('I', [c!"ATT", c!"ATC", c!"ATA"]),
  ('M', [c!"ATG"]),
  ('V', [c!"GTT", c!"GTC", c!"GTA", c!"GTG"]),
  ('S', [c!"TCT", c!"TCC", c!"TCA", c!"TCG", c!"AGT", c!"AGC"]),
  ('P', [c!"CCT", c!"CCC", c!"CCA", c!"CCG"]),
  ('T', [c!"ACT", c!"ACC", c!"ACA", c!"ACG"]),
  ('A', [c!"GCT", c!"GCC", c!"GCA", c!"GCG"]),
  ('Y', [c!"TAT", c!"TAC"]),
  ('H', [c!"CAT", c!"CAC"]),
  ('Q', [c!"CAA", c!"CAG"]),
  ('N', [c!"AAT", c!"AAC"]),
  ('K', [c!"AAA", c!"AAG"]),
  ('D', [c!"GAT", c!"GAC"]),
  ('E', [c!"GAA", c!"GAG"]),
  ('C', [c!"TGT", c!"TGC"]),
  ('W', [c!"TGG"]),
  ('R', [c!"CGT", c!"CGC", c!"CGA", c!"CGG", c!"AGA", c!"AGG"]),
  ('G', [c!"GGT", c!"GGC", c!"GGA", c!"GGG"]),
  ('*', [c!"TAA", c!"TAG", c!"TGA"])]

structure Code where
  id : Nat
  name : String
  /-- differences from the standard code -/
  reassigned : List (List Char × Char)
  starts : List (List Char)
  stops : List (List Char)

def codes : List Code := [
  { id := 1, name := "Standard",
    reassigned := [],
    starts := [c!"ATG", c!"TTG", c!"CTG"], stops := [c!"TAA", c!"TAG", c!"TGA"] },
  { id := 2, name := "Vertebrate Mitochondrial",
    reassigned := [(c!"AGA", '*'), (c!"AGG", '*'), (c!"ATA", 'M'), (c!"TGA", 'W')],
    starts := [c!"ATG", c!"ATA", c!"ATT", c!"ATC", c!"GTG"], stops := [c!"TAA", c!"TAG", c!"AGA", c!"AGG"] },
  { id := 3, name := "Yeast Mitochondrial",
    reassigned := [(c!"ATA", 'M'), (c!"CTT", 'T'), (c!"CTC", 'T'), (c!"CTA", 'T'), (c!"CTG", 'T'), (c!"TGA", 'W')],
    starts := [c!"ATG", c!"ATA", c!"GTG"], stops := [c!"TAA", c!"TAG"] },
  { id := 4, name := "Mold, Protozoan, Coelenterate Mitochondrial; Mycoplasma; Spiroplasma",
    reassigned := [(c!"TGA", 'W')],
    starts := [c!"ATG", c!"ATA", c!"ATT", c!"ATC", c!"GTG", c!"TTG", c!"TTA", c!"CTG"], stops := [c!"TAA", c!"TAG"] },
  { id := 5, name := "Invertebrate Mitochondrial",
    reassigned := [(c!"AGA", 'S'), (c!"AGG", 'S'), (c!"ATA", 'M'), (c!"TGA", 'W')],
    starts := [c!"ATG", c!"ATA", c!"ATT", c!"ATC", c!"GTG", c!"TTG"], stops := [c!"TAA", c!"TAG"] },
  { id := 6, name := "Ciliate, Dasycladacean and Hexamita Nuclear",
    reassigned := [(c!"TAA", 'Q'), (c!"TAG", 'Q')],
    starts := [c!"ATG"], stops := [c!"TGA"] },
  { id := 9, name := "Echinoderm and Flatworm Mitochondrial",
    reassigned := [(c!"AAA", 'N'), (c!"AGA", 'S'), (c!"AGG", 'S'), (c!"TGA", 'W')],
    starts := [c!"ATG", c!"GTG"], stops := [c!"TAA", c!"TAG"] },
  { id := 10, name := "Euplotid Nuclear",
    reassigned := [(c!"TGA", 'C')],
    starts := [c!"ATG"], stops := [c!"TAA", c!"TAG"] },
  { id := 11, name := "Bacterial, Archaeal and Plant Plastid",
    reassigned := [],
    starts := [c!"ATG", c!"GTG", c!"TTG", c!"CTG", c!"ATT", c!"ATC", c!"ATA"], stops := [c!"TAA", c!"TAG", c!"TGA"] },
  { id := 12, name := "Alternative Yeast Nuclear",
    reassigned := [(c!"CTG", 'S')],
    starts := [c!"ATG", c!"CTG"], stops := [c!"TAA", c!"TAG", c!"TGA"] },
  { id := 13, name := "Ascidian Mitochondrial",
    reassigned := [(c!"AGA", 'G'), (c!"AGG", 'G'), (c!"ATA", 'M'), (c!"TGA", 'W')],
    starts := [c!"ATG", c!"ATA", c!"GTG", c!"TTG"], stops := [c!"TAA", c!"TAG"] },
  { id := 14, name := "Alternative Flatworm Mitochondrial",
    reassigned := [(c!"AAA", 'N'), (c!"AGA", 'S'), (c!"AGG", 'S'), (c!"TAA", 'Y'), (c!"TGA", 'W')],
    starts := [c!"ATG"], stops := [c!"TAG"] },
  { id := 16, name := "Chlorophycean Mitochondrial",
    reassigned := [(c!"TAG", 'L')],
    starts := [c!"ATG"], stops := [c!"TAA", c!"TGA"] },
  { id := 21, name := "Trematode Mitochondrial",
    reassigned := [(c!"TGA", 'W'), (c!"ATA", 'M'), (c!"AGA", 'S'), (c!"AGG", 'S'), (c!"AAA", 'N')],
    starts := [c!"ATG", c!"GTG"], stops := [c!"TAA", c!"TAG"] },
  { id := 22, name := "Scenedesmus obliquus Mitochondrial",
    reassigned := [(c!"TCA", '*'), (c!"TAG", 'L')],
    starts := [c!"ATG"], stops := [c!"TCA", c!"TAA", c!"TGA"] },
  { id := 23, name := "Thraustochytrium Mitochondrial",
    reassigned := [(c!"TTA", '*')],
    starts := [c!"ATG", c!"ATT", c!"GTG"], stops := [c!"TTA", c!"TAA", c!"TAG", c!"TGA"] },
  { id := 24, name := "Rhabdopleuridae Mitochondrial",
    reassigned := [(c!"AGA", 'S'), (c!"AGG", 'K'), (c!"TGA", 'W')],
    starts := [c!"ATG", c!"GTG", c!"CTG", c!"TTG"], stops := [c!"TAA", c!"TAG"] },
  { id := 25, name := "Candidate Division SR1 and Gracilibacteria",
    reassigned := [(c!"TGA", 'G')],
    starts := [c!"ATG", c!"GTG", c!"TTG"], stops := [c!"TAA", c!"TAG"] },
  { id := 26, name := "Pachysolen tannophilus Nuclear",
    reassigned := [(c!"CTG", 'A')],
    starts := [c!"ATG", c!"CTG"], stops := [c!"TAA", c!"TAG", c!"TGA"] },
  { id := 27, name := "Karyorelict Nuclear",
    reassigned := [(c!"TAA", 'Q'), (c!"TAG", 'Q'), (c!"TGA", 'W')],      -- TGA: W or stop
    starts := [c!"ATG"], stops := [c!"TGA"] },
  { id := 28, name := "Condylostoma Nuclear",
    reassigned := [(c!"TAA", 'Q'), (c!"TAG", 'Q'), (c!"TGA", 'W')],      -- all three: amino acid or stop
    starts := [c!"ATG"], stops := [c!"TAA", c!"TAG", c!"TGA"] },
  { id := 29, name := "Mesodinium Nuclear",
    reassigned := [(c!"TAA", 'Y'), (c!"TAG", 'Y')],
    starts := [c!"ATG"], stops := [c!"TGA"] },
  { id := 30, name := "Peritrich Nuclear",
    reassigned := [(c!"TAA", 'E'), (c!"TAG", 'E')],
    starts := [c!"ATG"], stops := [c!"TGA"] },
  { id := 31, name := "Blastocrithidia Nuclear",
    reassigned := [(c!"TGA", 'W'), (c!"TAA", 'E'), (c!"TAG", 'E')],      -- TAA, TAG: E or stop
    starts := [c!"ATG"], stops := [c!"TAA", c!"TAG"] },
  { id := 33, name := "Cephalodiscidae Mitochondrial UAA-Tyr",
    reassigned := [(c!"TAA", 'Y'), (c!"TGA", 'W'), (c!"AGA", 'S'), (c!"AGG", 'K')],
    starts := [c!"ATG", c!"GTG", c!"CTG", c!"TTG"], stops := [c!"TAG"] }]

def ids : List Nat := codes.map (·.id)

def code? (id : Nat) : Option Code := codes.find? (·.id == id)

/-- residue of an upper-case DNA codon (as a letter list) under the standard code -/
def standardAA (codon : List Char) : Option Char :=
  (standard.find? fun e => e.2.contains codon).map (·.1)

/-- residue of an upper-case DNA codon under code `id`: the reassignment if there is one, else the standard code -/
def aa (id : Nat) (codon : List Char) : Option Char :=
  match code? id with
  | none => none
  | some c =>
    match c.reassigned.find? (fun r => r.1 == codon) with
    | some r => some r.2
    | none => standardAA codon

/-- complete in-frame codons of a string, upper-cased -/
def codonsOf : List Char → List (List Char)
  | a :: b :: c :: rest => [a.toUpper, b.toUpper, c.toUpper] :: codonsOf rest
  | _ => []

/-- the protein NCBI's code `id` assigns to a DNA string: one residue per complete in-frame codon
(`none` if a codon is not an A/C/G/T triplet or the id is unknown) -/
def translation (id : Nat) (s : List Char) : Option (List Char) :=
  (codonsOf s).mapM (aa id)

/-- for a string over arbitrary letters: the complete in-frame triplets of LETTERS that are A/C/G/T codons give
their residue; a complete triplet that holds any other letter (N, U, a gap, a letter outside ASCII) gives nothing -/
def translationAny (id : Nat) (s : List Char) : List Char :=
  (codonsOf s).filterMap (aa id)

def starts (id : Nat) : List (List Char) := match code? id with | some c => c.starts | none => []
def stops (id : Nat) : List (List Char) := match code? id with | some c => c.stops | none => []

end PolyVerif.Spec.Ncbi
