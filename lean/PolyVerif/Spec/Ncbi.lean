import PolyVerif.Base.Proto
/-
The NCBI genetic codes (https://www.ncbi.nlm.nih.gov/Taxonomy/Utils/wprintgc.cgi), typed by hand from the
published descriptions ("differences from the standard code", "alternative initiation codons"), in a shape
different from codon.go's 64-letter strings:

* the standard code per amino acid,
* every other code as its list of reassignments relative to the standard code,
* start and stop codons as codon lists.

Codes 27, 28 and 31 have context-dependent codons (a triplet that is read as an amino acid inside a gene and as
a stop at its end).  NCBI prints the amino acid in the `AAs` line and the `*` in the `Starts` line; so here
the reassignment goes to the amino acid and the triplet is ALSO listed among the stop codons.

No network was available: this file is the independent statement the regenerated tables are compared to
(Props/C06 `codon_by_codon`, `starts_eq`, `stops_eq`); it is part of the trusted base.
-/
namespace PolyVerif.Spec.Ncbi
open PolyVerif

/-- translation table 1, by amino acid ('*' = termination) -/
def standard : List (Char × List String) := [
  ('F', ["TTT", "TTC"]),
  ('L', ["TTA", "TTG", "CTT", "CTC", "CTA", "CTG"]),
  ('I', ["ATT", "ATC", "ATA"]),
  ('M', ["ATG"]),
  ('V', ["GTT", "GTC", "GTA", "GTG"]),
  ('S', ["TCT", "TCC", "TCA", "TCG", "AGT", "AGC"]),
  ('P', ["CCT", "CCC", "CCA", "CCG"]),
  ('T', ["ACT", "ACC", "ACA", "ACG"]),
  ('A', ["GCT", "GCC", "GCA", "GCG"]),
  ('Y', ["TAT", "TAC"]),
  ('H', ["CAT", "CAC"]),
  ('Q', ["CAA", "CAG"]),
  ('N', ["AAT", "AAC"]),
  ('K', ["AAA", "AAG"]),
  ('D', ["GAT", "GAC"]),
  ('E', ["GAA", "GAG"]),
  ('C', ["TGT", "TGC"]),
  ('W', ["TGG"]),
  ('R', ["CGT", "CGC", "CGA", "CGG", "AGA", "AGG"]),
  ('G', ["GGT", "GGC", "GGA", "GGG"]),
  ('*', ["TAA", "TAG", "TGA"])]

structure Code where
  id : Nat
  name : String
  /-- differences from the standard code -/
  reassigned : List (String × Char)
  starts : List String
  stops : List String

def codes : List Code := [
  { id := 1, name := "Standard",
    reassigned := [],
    starts := ["ATG", "TTG", "CTG"], stops := ["TAA", "TAG", "TGA"] },
  { id := 2, name := "Vertebrate Mitochondrial",
    reassigned := [("AGA", '*'), ("AGG", '*'), ("ATA", 'M'), ("TGA", 'W')],
    starts := ["ATG", "ATA", "ATT", "ATC", "GTG"], stops := ["TAA", "TAG", "AGA", "AGG"] },
  { id := 3, name := "Yeast Mitochondrial",
    reassigned := [("ATA", 'M'), ("CTT", 'T'), ("CTC", 'T'), ("CTA", 'T'), ("CTG", 'T'), ("TGA", 'W')],
    starts := ["ATG", "ATA", "GTG"], stops := ["TAA", "TAG"] },
  { id := 4, name := "Mold, Protozoan, Coelenterate Mitochondrial; Mycoplasma; Spiroplasma",
    reassigned := [("TGA", 'W')],
    starts := ["ATG", "ATA", "ATT", "ATC", "GTG", "TTG", "TTA", "CTG"], stops := ["TAA", "TAG"] },
  { id := 5, name := "Invertebrate Mitochondrial",
    reassigned := [("AGA", 'S'), ("AGG", 'S'), ("ATA", 'M'), ("TGA", 'W')],
    starts := ["ATG", "ATA", "ATT", "ATC", "GTG", "TTG"], stops := ["TAA", "TAG"] },
  { id := 6, name := "Ciliate, Dasycladacean and Hexamita Nuclear",
    reassigned := [("TAA", 'Q'), ("TAG", 'Q')],
    starts := ["ATG"], stops := ["TGA"] },
  { id := 9, name := "Echinoderm and Flatworm Mitochondrial",
    reassigned := [("AAA", 'N'), ("AGA", 'S'), ("AGG", 'S'), ("TGA", 'W')],
    starts := ["ATG", "GTG"], stops := ["TAA", "TAG"] },
  { id := 10, name := "Euplotid Nuclear",
    reassigned := [("TGA", 'C')],
    starts := ["ATG"], stops := ["TAA", "TAG"] },
  { id := 11, name := "Bacterial, Archaeal and Plant Plastid",
    reassigned := [],
    starts := ["ATG", "GTG", "TTG", "CTG", "ATT", "ATC", "ATA"], stops := ["TAA", "TAG", "TGA"] },
  { id := 12, name := "Alternative Yeast Nuclear",
    reassigned := [("CTG", 'S')],
    starts := ["ATG", "CTG"], stops := ["TAA", "TAG", "TGA"] },
  { id := 13, name := "Ascidian Mitochondrial",
    reassigned := [("AGA", 'G'), ("AGG", 'G'), ("ATA", 'M'), ("TGA", 'W')],
    starts := ["ATG", "ATA", "GTG", "TTG"], stops := ["TAA", "TAG"] },
  { id := 14, name := "Alternative Flatworm Mitochondrial",
    reassigned := [("AAA", 'N'), ("AGA", 'S'), ("AGG", 'S'), ("TAA", 'Y'), ("TGA", 'W')],
    starts := ["ATG"], stops := ["TAG"] },
  { id := 16, name := "Chlorophycean Mitochondrial",
    reassigned := [("TAG", 'L')],
    starts := ["ATG"], stops := ["TAA", "TGA"] },
  { id := 21, name := "Trematode Mitochondrial",
    reassigned := [("TGA", 'W'), ("ATA", 'M'), ("AGA", 'S'), ("AGG", 'S'), ("AAA", 'N')],
    starts := ["ATG", "GTG"], stops := ["TAA", "TAG"] },
  { id := 22, name := "Scenedesmus obliquus Mitochondrial",
    reassigned := [("TCA", '*'), ("TAG", 'L')],
    starts := ["ATG"], stops := ["TCA", "TAA", "TGA"] },
  { id := 23, name := "Thraustochytrium Mitochondrial",
    reassigned := [("TTA", '*')],
    starts := ["ATG", "ATT", "GTG"], stops := ["TTA", "TAA", "TAG", "TGA"] },
  { id := 24, name := "Rhabdopleuridae Mitochondrial",
    reassigned := [("AGA", 'S'), ("AGG", 'K'), ("TGA", 'W')],
    starts := ["ATG", "GTG", "CTG", "TTG"], stops := ["TAA", "TAG"] },
  { id := 25, name := "Candidate Division SR1 and Gracilibacteria",
    reassigned := [("TGA", 'G')],
    starts := ["ATG", "GTG", "TTG"], stops := ["TAA", "TAG"] },
  { id := 26, name := "Pachysolen tannophilus Nuclear",
    reassigned := [("CTG", 'A')],
    starts := ["ATG", "CTG"], stops := ["TAA", "TAG", "TGA"] },
  { id := 27, name := "Karyorelict Nuclear",
    reassigned := [("TAA", 'Q'), ("TAG", 'Q'), ("TGA", 'W')],      -- TGA: W or stop
    starts := ["ATG"], stops := ["TGA"] },
  { id := 28, name := "Condylostoma Nuclear",
    reassigned := [("TAA", 'Q'), ("TAG", 'Q'), ("TGA", 'W')],      -- all three: amino acid or stop
    starts := ["ATG"], stops := ["TAA", "TAG", "TGA"] },
  { id := 29, name := "Mesodinium Nuclear",
    reassigned := [("TAA", 'Y'), ("TAG", 'Y')],
    starts := ["ATG"], stops := ["TGA"] },
  { id := 30, name := "Peritrich Nuclear",
    reassigned := [("TAA", 'E'), ("TAG", 'E')],
    starts := ["ATG"], stops := ["TGA"] },
  { id := 31, name := "Blastocrithidia Nuclear",
    reassigned := [("TGA", 'W'), ("TAA", 'E'), ("TAG", 'E')],      -- TAA, TAG: E or stop
    starts := ["ATG"], stops := ["TAA", "TAG"] },
  { id := 33, name := "Cephalodiscidae Mitochondrial UAA-Tyr",
    reassigned := [("TAA", 'Y'), ("TGA", 'W'), ("AGA", 'S'), ("AGG", 'K')],
    starts := ["ATG", "GTG", "CTG", "TTG"], stops := ["TAG"] }]

def ids : List Nat := codes.map (·.id)

def code? (id : Nat) : Option Code := codes.find? (·.id == id)

/-- residue of an upper-case DNA codon under the standard code -/
def standardAA (codon : String) : Option Char :=
  (standard.find? fun e => e.2.contains codon).map (·.1)

/-- residue of an upper-case DNA codon under code `id`: the reassignment if there is one, else the standard code -/
def aa (id : Nat) (codon : String) : Option Char :=
  match code? id with
  | none => none
  | some c =>
    match c.reassigned.find? (·.1 == codon) with
    | some r => some r.2
    | none => standardAA codon

/-- complete in-frame codons of a string, upper-cased, as strings -/
def codonsOf : List Char → List String
  | a :: b :: c :: rest => String.ofList [a.toUpper, b.toUpper, c.toUpper] :: codonsOf rest
  | _ => []

/-- the protein NCBI's code `id` assigns to a DNA string: one residue per complete in-frame codon
(`none` if a codon is not an A/C/G/T triplet or the id is unknown) -/
def translation (id : Nat) (s : List Char) : Option (List Char) :=
  (codonsOf s).mapM (aa id)

end PolyVerif.Spec.Ncbi
