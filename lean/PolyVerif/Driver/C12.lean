import PolyVerif.Model.Seqhash
namespace PolyVerif.Driver.C12
open PolyVerif PolyVerif.Seqhash

def hexVal (c : Char) : Nat :=
  if c.isDigit then c.toNat - 48 else if 'a' ≤ c && c ≤ 'f' then c.toNat - 87 else if 'A' ≤ c && c ≤ 'F' then c.toNat - 55 else 0

/-- decode a hex string into bytes, each byte represented as the code point of the same value
(the model compares code points, Go compares bytes: the same order) -/
def unhex : List Char → List Char
  | a :: b :: rest => Char.ofNat (16 * hexVal a + hexVal b) :: unhex rest
  | _ => []

def hexOf (s : Str) : String :=
  String.ofList (s.flatMap fun c => [Seqhash.hexDigit (c.toNat / 16), Seqhash.hexDigit (c.toNat % 16)])

/-- cases: `rotate s` (text) | `rotatehex h` (arbitrary bytes, hex encoded; the harness op `rotatehex`
decodes, calls RotateSequence on the raw bytes and replies in hex) -/
def render (f : List String) : List String := f

def judgeBytes (cs : Str) (out : List String) (dec : String → Str) (enc : Str → String) : Verdict :=
    let m := match rotateSequence cs with
      | some r => ["ok", enc r]
      | none => ["panic"]
    let outN := match out with | "panic" :: _ => ["panic"] | o => o
    let short := cs.length ≤ 1500
    -- spec: the arg-min over all rotations (short inputs) / the independent two-pointer algorithm (long inputs)
    let expect := if short then Spec.leastRotation cs else Spec.leastRotationFast cs
    let fastOk := !short || Spec.leastRotationFast cs == expect
    let j := match out with
      | ["ok", r] => dec r == expect && fastOk
      | _ => false
    let allSame := match cs with | [] => true | c :: rest => rest.all (· == c)
    { corr := outN == m, judge := some j,
      cls := (if cs.length < 2 || allSame then "triv:" else "") ++ (if short then "argmin" else "twoptr") ++
             (if expect == cs then "/already-least" else "/moved"),
      detail := if outN == m && j then "" else lineOf (m ++ ["spec", enc expect]) }

def judge (f out : List String) : Verdict :=
  match f with
  | ["rotate", s] => judgeBytes s.toList out String.toList String.ofList
  | ["rotatehex", h] =>
    let v := judgeBytes (unhex h.toList) out (fun r => unhex r.toList) hexOf
    { v with cls := v.cls ++ "/bytes" }
  | _ => { corr := false, judge := none, cls := "bad-case", detail := "bad case" }

def driver : PropDriver := { render, judge }
end PolyVerif.Driver.C12
