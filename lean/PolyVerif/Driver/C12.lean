import PolyVerif.Model.Seqhash
namespace PolyVerif.Driver.C12
open PolyVerif PolyVerif.Seqhash

/-- cases: `rotate s` -/
def render (f : List String) : List String := f

def judge (f out : List String) : Verdict :=
  match f with
  | ["rotate", s] =>
    let cs := s.toList
    let m := match rotateSequence cs with
      | some r => ["ok", String.ofList r]
      | none => ["panic"]
    let outN := match out with | "panic" :: _ => ["panic"] | o => o
    let short := cs.length ≤ 1500
    -- spec: the arg-min over all rotations (short inputs) / the independent two-pointer algorithm (long inputs)
    let expect := if short then Spec.leastRotation cs else Spec.leastRotationFast cs
    let fastOk := !short || Spec.leastRotationFast cs == expect
    let j := match out with
      | ["ok", r] => r.toList == expect && fastOk
      | _ => false
    let allSame := match cs with | [] => true | c :: rest => rest.all (· == c)
    { corr := outN == m, judge := some j,
      cls := (if cs.length < 2 || allSame then "triv:" else "") ++ (if short then "argmin" else "twoptr") ++
             (if expect == cs then "/already-least" else "/moved"),
      detail := if outN == m && j then "" else lineOf (m ++ ["spec", String.ofList expect]) }
  | _ => { corr := false, judge := none, cls := "bad-case", detail := "bad case" }

def driver : PropDriver := { render, judge }
end PolyVerif.Driver.C12
