import PolyVerif.Model.Seqhash
namespace PolyVerif.Driver.C12
open PolyVerif PolyVerif.Seqhash

def hexVal (c : Char) : Nat :=
  if c.isDigit then c.toNat - 48 else c.toNat - 87

/-- well-formed hex as the harness writes it and the generator emits it: lower-case digits, even length -/
def isHexStr (s : String) : Bool :=
  let cs := s.toList
  cs.length % 2 == 0 && cs.all fun c => c.isDigit || ('a' ≤ c && c ≤ 'f')

/-- decode a well-formed hex string into bytes, each byte represented as the code point of the same
value (the model compares code points, Go compares bytes: the same order) -/
def unhexL : List Char → List Char
  | a :: b :: rest => Char.ofNat (16 * hexVal a + hexVal b) :: unhexL rest
  | _ => []

/-- `none` for anything that is not well-formed hex (a malformed reply is a FAIL, never decoded) -/
def unhex (s : String) : Option Str := if isHexStr s then some (unhexL s.toList) else none

def hexOf (s : Str) : String :=
  String.ofList (s.flatMap fun c => [Seqhash.hexDigit (c.toNat / 16), Seqhash.hexDigit (c.toNat % 16)])

/-- cases: `rotate s` (text) | `rotatehex h` (arbitrary bytes, hex encoded; the harness op `rotatehex`
decodes, calls RotateSequence on the raw bytes and replies in hex) -/
def render (f : List String) : List String := f

def judgeBytes (cs : Str) (out : List String) (dec : String → Option Str) (enc : Str → String) : Verdict :=
    let model := rotateSequence cs
    let m := match model with
      | some r => ["ok", enc r]
      | none => ["panic"]
    let outN := match out with | "panic" :: _ => ["panic"] | o => o
    let short := cs.length ≤ 1500
    -- the property's spec value.  Short inputs: the arg-min over all rotations, evaluated directly.
    -- Long inputs (the quadratic arg-min is infeasible): the model's value, which
    -- `Props.C12Booth.booth_least` proves equal to the arg-min for every string.
    let expect : Option Str := if short then some (Spec.leastRotation cs) else model
    -- property verdict: the reply is well-formed and decodes to the least rotation
    let j := match out, expect with
      | ["ok", r], some e => dec r == some e
      | _, _ => false
    -- self-test of the check's own helpers, NOT part of the property verdict: the independent
    -- two-pointer algorithm must agree with the spec value (arg-min / proved model) on every input.
    -- A disagreement is reported through `corr` (a broken obligation of the check), class `selftest-fail`.
    let selfOk := match expect with
      | some e => Spec.leastRotationFast cs == e
      | none => false
    let allSame := match cs with | [] => true | c :: rest => rest.all (· == c)
    { corr := outN == m && selfOk, judge := some j,
      cls := (if selfOk then "" else "selftest-fail:") ++
             (if cs.length < 2 || allSame then "triv:" else "") ++ (if short then "argmin" else "long") ++
             (if expect == some cs then "/already-least" else "/moved"),
      detail := if outN == m && j && selfOk then "" else
        lineOf (m ++ ["spec", (expect.map enc).getD "?", "twoptr", enc (Spec.leastRotationFast cs)]) }

def judge (f out : List String) : Verdict :=
  match f with
  | ["rotate", s] => judgeBytes s.toList out (fun r => some r.toList) String.ofList
  | ["rotatehex", h] =>
    match unhex h with
    | some cs =>
      let v := judgeBytes cs out unhex hexOf
      { v with cls := v.cls ++ "/bytes" }
    | none => { corr := false, judge := none, cls := "bad-case", detail := "case is not lower-case hex" }
  | _ => { corr := false, judge := none, cls := "bad-case", detail := "bad case" }

def driver : PropDriver := { render, judge }
end PolyVerif.Driver.C12
