import PolyVerif.Model.Fasta
import PolyVerif.Spec.FastaLayout
/-
Driver for C13.  Abstract cases (fields):

  layout  mode finalNl n (name seq crlf width widths before after between)×n
          → the text `layoutFasta rs ℓ` is parsed by the real code (mode plain: Parse on a reader;
            file: Read on a temp file; gz: gzip with Go's writer, ReadGz)
  build   mode n (name seq)×n
          → Build (plain) / Write→Read (file) / Write→gzip→ReadGz (gz); the text of Build is HELD while Build is
            called again on other lists (sequentially and from two goroutines) and parsed only afterwards;
            the reply says whether the held bytes stayed the same (`stable`)
  stream  src cap seed stall finalNl n (…8 fields…)×n
          → ParseConcurrent / ReadConcurrent / ReadGzConcurrent into a channel of capacity `cap`,
            consumer stalling at random
  raw     text            → Parse on arbitrary text (correspondence only, never judged)

modes: plain | file | gz | gz2 (gzip stream of two members).  A reply `race` / `crash` / `timeout` / `panic` (the
harness process died, a library call never returned, the op panicked) is a failure for every case, `raw` included.

junk lists (before/after/between) are encoded as items separated by `\n`: `b` = blank line,
`c<text>` = comment line `;<text>`, `s<text>` = the whitespace-only line `<text>`.
-/
namespace PolyVerif.Driver.C13
open PolyVerif PolyVerif.Fasta PolyVerif.Spec.FastaSpec

def parseJunks (s : String) : List Junk :=
  if s.isEmpty then [] else
    (s.splitOn "\n").map fun it => match it.toList with
      | 'c' :: t => Junk.comment t
      | 's' :: t => Junk.spaces t
      | _ => Junk.blank

def parseNats (s : String) : List Nat :=
  if s.isEmpty then [] else (s.splitOn ",").map natOfStr

/-- `n` records with layouts from 8 fields each -/
def recsLayouts : Nat → List String → Option (List Rec × List RecLayout)
  | 0, [] => some ([], [])
  | 0, _ => none
  | n + 1, name :: seq :: crlf :: width :: widths :: before :: after :: between :: rest =>
    (recsLayouts n rest).map fun (rs, ls) =>
      (⟨name.toList, seq.toList⟩ :: rs,
       { before := parseJunks before, after := parseJunks after, between := parseJunks between,
         widths := parseNats widths, width := natOfStr width, crlf := crlf == "1" } :: ls)
  | _ + 1, _ => none

def recsPlain : Nat → List String → Option (List Rec)
  | 0, [] => some []
  | 0, _ => none
  | n + 1, name :: seq :: rest => (recsPlain n rest).map (⟨name.toList, seq.toList⟩ :: ·)
  | _ + 1, _ => none

def recFields (rs : List Rec) : List String :=
  toString rs.length :: rs.flatMap (fun r => [String.ofList r.name, String.ofList r.seq])

/-- the abstract case's records, layout and text -/
def layoutCase (finalNl n : String) (rest : List String) : Option (List Rec × FastaLayout × Str) :=
  (recsLayouts (natOfStr n) rest).map fun (rs, ls) =>
    let ℓ : FastaLayout := { recs := ls, finalNewline := finalNl == "1" }
    (rs, ℓ, layoutFasta rs ℓ)

def render (f : List String) : List String :=
  match f with
  | "layout" :: mode :: finalNl :: n :: rest =>
    match layoutCase finalNl n rest with
    | some (_, _, text) => ["c13.parse", mode, String.ofList text]
    | none => ["bad-case"]
  | "build" :: mode :: n :: rest => "c13.build" :: mode :: n :: rest
  | "stream" :: src :: cap :: seed :: stall :: finalNl :: n :: rest =>
    match layoutCase finalNl n rest with
    | some (_, _, text) => ["c13.stream", src, cap, seed, stall, String.ofList text]
    | none => ["bad-case"]
  | ["raw", text] => ["c13.parse", "plain", text]
  | _ => ["bad-case"]

def short (s : String) : String := String.ofList (s.toList.take 200)

def sizeClass (rs : List Rec) : String :=
  let mx := rs.foldl (fun a r => max a r.seq.length) 0
  (if rs.length ≤ 1 then "n1" else if rs.length ≤ 10 then "n<=10" else "n>10") ++ "/" ++
  (if mx = 0 then "len0" else if mx < 100 then "len<100" else if mx < 65536 then "len<64K" else "len>=64K")

def trivial (rs : List Rec) : Bool := rs.all (fun r => r.seq.isEmpty)

/-- replies that no model predicts, for any input: the process died (race detector, crash), a library call
never returned (`timeout`; ended by the runner or by the op's own deadline), the op panicked -/
def died (out : List String) : Bool :=
  out.head? == some "race" || out.head? == some "crash" || out.head? == some "timeout" || out.head? == some "panic"

def judge (f out : List String) : Verdict :=
  if died out then
    { corr := false, judge := some false,
      cls := "harness-died/" ++ out.headD "" ++ (if out.head? == some "timeout" then "-" ++ (out.drop 1).headD "" else ""),
      detail := short (lineOf out) }
  else
  match f with
  | "layout" :: mode :: finalNl :: n :: rest =>
    match layoutCase finalNl n rest with
    | none => { corr := false, judge := none, cls := "bad-case", detail := "bad case" }
    | some (rs, ℓ, text) =>
      let m := "ok" :: recFields (parseNow text)
      let inDom := decide (WFRecs rs) && decide (WFLayout ℓ) && decide (LinesFit maxInt32 text)
      let j := out == "ok" :: recFields rs
      { corr := out == m, judge := if inDom then some j else none,
        cls := (if trivial rs then "triv:" else "") ++ "layout/" ++ mode ++ "/" ++ sizeClass rs ++
               (if ℓ.recs.any (·.crlf) then "/crlf" else "") ++
               (if ℓ.recs.any (fun l => !(l.before ++ l.after ++ l.between).isEmpty) then "/junk" else "") ++
               (if ℓ.recs.any (fun l => (l.before ++ l.after ++ l.between).any
                   (fun j => match j with | .spaces _ => true | _ => false)) then "/ws" else "") ++
               (if ℓ.finalNewline then "" else "/nofinalnl"),
        detail := if out == m && (j || !inDom) then "" else
          "model: " ++ lineOf (m.map short) ++ " expected: " ++ lineOf ((recFields rs).map short) }
  | "build" :: mode :: n :: rest =>
    match recsPlain (natOfStr n) rest with
    | none => { corr := false, judge := none, cls := "bad-case", detail := "bad case" }
    | some rs =>
      let text := build rs
      let m := "ok" :: String.ofList text :: "1" :: recFields (parseNow text)
      let inDom := decide (WFRecs rs) && decide (LinesFit maxInt32 text)
      -- the text must survive later Build calls, and parse back to the records
      let j := match out with
        | "ok" :: _ :: stable :: got => stable == "1" && got == recFields rs
        | _ => false
      { corr := out == m, judge := if inDom then some j else none,
        cls := (if trivial rs then "triv:" else "") ++ "build/" ++ mode ++ "/" ++ sizeClass rs,
        detail := if out == m && (j || !inDom) then "" else
          "model: " ++ lineOf (m.map short) ++ " expected: " ++ lineOf ((recFields rs).map short) }
  | "stream" :: src :: cap :: seed :: _stall :: finalNl :: n :: rest =>
    match layoutCase finalNl n rest with
    | none => { corr := false, judge := none, cls := "bad-case", detail := "bad case" }
    | some (rs, ℓ, text) =>
      let c := natOfStr cap
      -- one maximal run of the model (all maximal runs agree: Props.C13.stream_complete)
      let fin := streamRun c (natOfStr seed % 2 == 0) text
      let closedOnce := fin.prog.isEmpty && !fin.panicked && (fin.chans 0).closes == 1 && Chan.seen fin.hist 0
      let m := "ok" :: (if closedOnce then "1" else "0") :: recFields (Chan.recvd 0 fin.hist)
      let inDom := decide (WFRecs rs) && decide (WFLayout ℓ) && decide (LinesFit maxInt32 text)
      let j := out == "ok" :: "1" :: recFields rs
      { corr := out == m, judge := if inDom then some j else none,
        cls := (if trivial rs then "triv:" else "") ++ "stream/" ++ src ++ "/" ++
               (if c = 0 then "cap0" else if c < rs.length then "cap<n" else "cap>=n") ++ "/" ++ sizeClass rs,
        detail := if out == m && (j || !inDom) then "" else
          "model: " ++ lineOf (m.map short) ++ " expected: " ++ lineOf ((recFields rs).map short) }
  | ["raw", text] =>
    let m := "ok" :: recFields (parseNow text.toList)
    { corr := out == m, judge := none, cls := "raw", detail := if out == m then "" else "model: " ++ lineOf (m.map short) }
  | _ => { corr := false, judge := none, cls := "bad-case", detail := "bad case" }

def driver : PropDriver := { render, judge }
end PolyVerif.Driver.C13
