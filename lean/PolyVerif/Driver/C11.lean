import PolyVerif.Model.Transform
import PolyVerif.Spec.Nucleotide
namespace PolyVerif.Driver.C11
open PolyVerif PolyVerif.Transform

/-- cases: `revcomp s` | `variants s` -/
def render (f : List String) : List String := f

def judge (f out : List String) : Verdict :=
  match f with
  | ["revcomp", s] =>
    let cs := s.toList
    let m := ["ok", String.ofList (revComp cs), String.ofList (complement cs),
              String.ofList (reverse cs), boolStr (isPalindromic cs)]
    let inDom := cs.all Spec.isIupac15
    -- spec: independent reading (reverse of the per-letter complement given by base sets)
    let specRc := (cs.reverse.map Spec.complCode)
    let j := match out with
      | ["ok", rc, co, re, pal] =>
        rc.toList == specRc && co.toList == cs.map Spec.complCode && re.toList == cs.reverse
          && pal == boolStr (cs == specRc)
      | _ => false
    { corr := out == m, judge := if inDom then some j else none,
      cls := (if cs.length < 2 then "triv:" else "") ++ "revcomp/" ++ (if cs == specRc then "pal" else "nonpal"),
      detail := if out == m then "" else lineOf m }
  | ["variants", s] =>
    let cs := s.toList
    let m := match allVariants cs with
      | some vs => ["ok", ",".intercalate (vs.map String.ofList)]
      | none => ["err"]
    let inDom := cs.all Spec.isIupac15
    let outN := match out with | "err" :: _ => ["err"] | o => o
    let j := match out with
      | ["ok", vs] =>
        let got := if cs.isEmpty then [[]] else (vs.splitOn ",").map String.toList
        Spec.isExpansion cs got
      | _ => false
    { corr := outN == m, judge := if inDom then some j else none,
      cls := (if cs.all Spec.isAcgt then "triv:" else "") ++ "variants",
      detail := if outN == m then "" else lineOf m }
  | _ => { corr := false, judge := none, cls := "bad-case", detail := "bad case" }

def driver : PropDriver := { render, judge }
end PolyVerif.Driver.C11
