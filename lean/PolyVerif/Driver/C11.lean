import PolyVerif.Model.Transform
import PolyVerif.Spec.Nucleotide
namespace PolyVerif.Driver.C11
open PolyVerif PolyVerif.Transform

/-- What this check can enumerate and ship through the line protocol: at most 2·10^6 readings and
5·10^7 letters in total (so 10^4 letters with 4096 readings are enumerated).  A parameter of the CHECK
(not of the code, not of the property — the property states no bound): below it the full expansion is
demanded and judged entry by entry.  The harness op `variants` (harness/cmd/run-seq/ops.go:
`iupacCount`, `regime`) computes the same predicates from its own table of code sizes. -/
def canEnumerate (cs : Str) : Bool :=
  let count := Spec.readingCount cs
  count ≤ 2000000 && count * (cs.length + 1) ≤ 50000000

/-- Beyond `canEnumerate` but within the memory the code needs to build the list (readings × (letters+1)
≤ 2.3·10^8, about 3 GB; e.g. N^11, N^11 R, N^12): the code IS called, and the harness replies with the
COUNT and a sample of the list (entries 0, 10^5, 2·10^5, …, last).  Judged: not refused, the count is
the number of readings, every sampled entry is a reading, sampled entries pairwise distinct.  This is
what makes a lowered overflow guard visible. -/
def sampledBudget : Nat := 230000000

/-- safety parameter of the HARNESS: an input that cannot be enumerated and has at most this many
readings is not submitted to the code (it would try to build up to terabytes); above it the code is
called and must refuse at once.  It sits at the code's present guard so that nothing dangerous is
called.  In the verdict it only separates "not called, so only the harness's `too-large` may come
back" from "called, so only a refusal may come back"; whether the full expansion is demanded is
decided by `canEnumerate` alone. -/
def harnessCallsAbove : Nat := 2147483647

/-- the `i`-th entry of `cart ls` (odometer order, last position fastest), computed directly: the
mixed-radix digits of `i`.  Used only to PREDICT the sampled entries for the correspondence (never in a
verdict, not proved equal to `(cart ls)[i]`; on every enumerated case `cart` itself is compared). -/
def nthVariant (ls : List (List Char)) (i : Nat) : Str :=
  (ls.foldr (fun l (acc : Str × Nat) =>
    let n := l.length
    if n = 0 then acc else (l.getD (acc.2 % n) ' ' :: acc.1, acc.2 / n)) ([], i)).1

/-- cases: `revcomp s` | `variants s` -/
def render (f : List String) : List String := f

def judge (f out : List String) : Verdict :=
  match f with
  | ["revcomp", s] =>
    let cs := s.toList
    let m := ["ok", String.ofList (revComp cs), String.ofList (complement cs),
              String.ofList (reverse cs), boolStr (isPalindromic cs)]
    let inDom := cs.all Spec.isIupac15
    -- spec: independent reading (reverse of the per-letter complement given by base sets)
    let specRc := (cs.reverse.map Spec.complCode)
    let j := match out with
      | ["ok", rc, co, re, pal] =>
        rc.toList == specRc && co.toList == cs.map Spec.complCode && re.toList == cs.reverse
          && pal == boolStr (cs == specRc)
      | _ => false
    { corr := out == m, judge := if inDom then some j else none,
      cls := (if cs.length < 2 then "triv:" else "") ++ "revcomp/" ++ (if cs == specRc then "pal" else "nonpal"),
      detail := if out == m then "" else lineOf m }
  | ["variants", s] =>
    let cs := s.toList
    let inDom := cs.all Spec.isIupac15
    let count := Spec.readingCount cs
    let enumerable := canEnumerate cs
    -- the harness replies `ok <number of variants> <variants joined by ','>`, `err`, or — for an input
    -- it does not submit to the code at all — `ok too-large`
    let parse := fun (o : List String) => match o with
      | ["ok", n, vs] => some (if n == "0" then ([] : List Str) else (vs.splitOn ",").map String.toList)
      | _ => none
    let outN := match out with | "err" :: _ => ["err"] | o => o
    if !inDom then
      -- a letter outside the 15 codes: outside the property (its statement has no rejection clause).
      -- Not judged; the reply is compared with the behaviour RECORDED by the extractor for every
      -- other rune (Gen.iupacOtherRows), and a difference is counted as drift only.
      let m := match allVariantsAny cs with
        | some vs => ["ok", toString vs.length, ",".intercalate (vs.map String.ofList)]
        | none => ["err"]
      { corr := outN == m, judge := none, cls := "variants/out-of-domain",
        detail := if outN == m then "" else lineOf (m.take 2) }
    else if enumerable then
      -- the property: the expansion, every reading once and nothing else.  A refusal (`err`), an
      -- empty or partial list, a panic … is a FAIL whatever the number of readings (no threshold
      -- is taken from the code here)
      let m := match allVariants cs with
        | some vs => ["ok", toString vs.length, ",".intercalate (vs.map String.ofList)]
        | none => ["err"]
      let j := match parse out with
        | some got => Spec.isExpansion cs got
        | none => false
      { corr := outN == m, judge := if inDom then some j else none,
        cls := (if cs.all Spec.isAcgt then "triv:" else "") ++ "variants",
        detail := if outN == m && j then "" else lineOf (m.take 2) }
    else if count ≤ harnessCallsAbove && count * (cs.length + 1) ≤ sampledBudget then
      -- sampled regime: the code is called; the reply is `ok sampled <count> <sample>`
      let idxs := (List.range ((count + 99999) / 100000)).map (· * 100000) ++
                  (if count > 0 && (count - 1) % 100000 != 0 then [count - 1] else [])
      let m := match variantLists cs with
        | some ls => if countGuard ls 1 then
            ["ok", "sampled", toString count, ",".intercalate (idxs.map fun i => String.ofList (nthVariant ls i))]
          else ["err"]
        | none => ["err"]
      let j := match out with
        | ["ok", "sampled", n, smp] =>
          let got := (smp.splitOn ",").map String.toList
          n == toString count && got.length == idxs.length && got.all (Spec.reads cs) && Spec.allDistinct got
        | _ => false        -- a refusal here is a FAIL: the full expansion is due and the code can build it
      { corr := outN == m, judge := some j, cls := "variants/sampled",
        detail := if outN == m && j then "" else lineOf (m.take 3) }
    else
      -- the expansion is too large for this check to receive (and, far beyond, for any machine to
      -- build).  The only replies that do not contradict the property are a refusal and the harness's
      -- own `too-large` (code not called: nothing observed, not judged).  Anything else — `ok 0`,
      -- a partial list, panic, timeout, crash, garbage — is a FAIL.
      -- corr: the harness does not call the code up to `harnessCallsAbove` readings; above, the model
      -- (guard `countGuard`, proved ⇔ product ≤ MaxInt32) says whether the code refuses.
      let m := if count ≤ harnessCallsAbove then ["ok", "too-large"] else
        match variantLists cs with
        | some ls => if countGuard ls 1 then ["ok", "model-would-enumerate"] else ["err"]
        | none => ["err"]
      let tooLarge := out == ["ok", "too-large"]
      let called := count > harnessCallsAbove
      -- not called: only `too-large` can come back (not judged); called: only a refusal passes
      let j := if called then some (outN == ["err"]) else (if tooLarge then none else some false)
      { corr := outN == m, judge := if inDom then j else none,
        cls := if tooLarge then "too-large" else "variants/too-many",
        detail := if outN == m then "" else lineOf m }
  | _ => { corr := false, judge := none, cls := "bad-case", detail := "bad case" }

def driver : PropDriver := { render, judge }
end PolyVerif.Driver.C11
