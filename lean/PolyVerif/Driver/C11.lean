import PolyVerif.Model.Transform
import PolyVerif.Spec.Nucleotide
namespace PolyVerif.Driver.C11
open PolyVerif PolyVerif.Transform

/-- cases: `revcomp s` | `variants s` -/
def render (f : List String) : List String := f

def judge (f out : List String) : Verdict :=
  match f with
  | ["revcomp", s] =>
    let cs := s.toList
    let m := ["ok", String.ofList (revComp cs), String.ofList (complement cs),
              String.ofList (reverse cs), boolStr (isPalindromic cs)]
    let inDom := cs.all Spec.isIupac15
    -- spec: independent reading (reverse of the per-letter complement given by base sets)
    let specRc := (cs.reverse.map Spec.complCode)
    let j := match out with
      | ["ok", rc, co, re, pal] =>
        rc.toList == specRc && co.toList == cs.map Spec.complCode && re.toList == cs.reverse
          && pal == boolStr (cs == specRc)
      | _ => false
    { corr := out == m, judge := if inDom then some j else none,
      cls := (if cs.length < 2 then "triv:" else "") ++ "revcomp/" ++ (if cs == specRc then "pal" else "nonpal"),
      detail := if out == m then "" else lineOf m }
  | ["variants", s] =>
    let cs := s.toList
    let inDom := cs.all Spec.isIupac15
    let count := Spec.readingCount cs
    let tooMany := count > maxInt32
    -- the harness replies `ok <number of variants> <variants joined by ','>`
    let parse := fun (o : List String) => match o with
      | ["ok", n, vs] => some (if n == "0" then ([] : List Str) else (vs.splitOn ",").map String.toList)
      | _ => none
    let outN := match out with | "err" :: _ => ["err"] | o => o
    -- enumerating is only feasible for moderate expansions; beyond MaxInt32 the spec demands an error
    if tooMany || count ≤ 2000000 then
      let m := match allVariants cs with
        | some vs => ["ok", toString vs.length, ",".intercalate (vs.map String.ofList)]
        | none => ["err"]
      let j := if tooMany then outN == ["err"] else
        match parse out with
        | some got => Spec.isExpansion cs got
        | none => false
      { corr := outN == m, judge := if inDom then some j else none,
        cls := (if cs.all Spec.isAcgt then "triv:" else "") ++ (if tooMany then "variants/too-many" else "variants"),
        detail := if outN == m && j then "" else (if tooMany then "err" else lineOf (m.take 2)) }
    else { corr := true, judge := none, cls := "variants/skipped-too-large-to-enumerate" }
  | _ => { corr := false, judge := none, cls := "bad-case", detail := "bad case" }

def driver : PropDriver := { render, judge }
end PolyVerif.Driver.C11
