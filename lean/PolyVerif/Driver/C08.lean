import PolyVerif.Model.CodonTables
import PolyVerif.Spec.ValueTables
/-
Driver of C08.  Abstract cases:

  hist <ids> <tok>…      a history; ids = "11,1,2" (the default tables it may request), tokens
                           g:<id> | w:<h>:<sequence> | a:<h1>:<h2> | c:<h1>:<h2>:<float64 bits, decimal> | j:<h> | o:<h>
                         handle k = result of step k.
  conc <id:s1,s2,…|id:@n>…   one goroutine per field: a writer re-weights ITS default table with s1, s2, … in turn;
                         a reader (id:@n) requests and reads default table id n times meanwhile.

The harness snapshots each named default table at its first use in the process (prefix F) or restores that
snapshot (prefix R), REPORTS it, then runs the steps and shows the result of every step.

corr  : implementation trace == heap model started from the reported tables — on EVERY history, linear or not.
judge : (a) every reported start table has uniform weight 1 and is the regenerated table as a map (C06 ties
        the regenerated tables to the NCBI codes) — "a freshly requested default table is pristine", judged on
        what poly itself built; (b) implementation trace == value-semantics spec from those tables.
kf    : a judged failure carries a known-finding tag ONLY IF the start was pristine, the history is not Linear
        AND the implementation's trace is exactly the heap model's.  The class is exact as far as the heap model
        is: `hstep` and `vstep` apply the same addTable / compromise / re-weighting (Props/C08 `reweight_exact`) to
        table values and differ only in WHICH value a handle denotes, so "implementation = heap model ≠ value spec"
        can only come from sharing; by `history_refines_partial` on the Linear prefix the first difference lies at or
        after the first linearity break.  The id is chosen by the step that FAILS (the first step at which the
        implementation differs from value semantics): C08-alias-default when a deep-copying GetCodonTable would
        remove the failure (the copying-get model `hstepCopyGet` agrees with value semantics at that step),
        C08-receiver-mutated when it would remain.
repair: the implementation may follow any of THREE semantics — the heap model (today), the copying-get model (only
        C08-alias-default repaired), value semantics (both repaired; a copying OptimizeTable is value semantics).
        `corr` = it follows one of them; where that is not the heap model a known finding has been REPAIRED: the
        difference from the heap model is drift (class suffix /kf-repaired), the judge passes where the trace is
        value semantics, and only what still fails is tagged.  A trace that is none of the three is DIFF (+ FAIL).
        Anything else — unclean start, a failure on a Linear history, a non-Linear history on which the code
        also disagrees with the heap model, a malformed reply — is an ordinary FAIL.
taint : the property constrains re-weighting results, their independence from other re-weightings and the pristine
        NCBI default tables; what add / compromise return is constrained (C18) for well-formed tables over the SAME
        code only.  TAINT is tracked per handle (value run) and per cell (heap run), a step is tainted when it is in
        either run:
          level 2 (outside the property, class suffix /ood): the table requested for an id that is not one of the
            regenerated NCBI ids; the result of add / compromise whose operands are not `Compatible` non-empty
            tables (different codes, the empty table of an observe / error slot, duplicate entries); everything
            computed from a level-2 table, INCLUDING its re-weighting (its code is not known).  Level-2 observations
            are not compared at all; a difference from the heap model is reported as `/ood-drift` only.
          level 1 (class suffix /nan): a `compromise` one of whose operands has an amino acid of total weight 0
            yields int(NaN) weights, which Go leaves to the platform; add / compromise / json / observe of such a
            table.  Compared up to the code of the table.  A re-weighting overwrites every weight: clean again.
        Every untainted step of the same history is compared exactly.
Non-ASCII letters are ordinary judged input (framing by letters, /repo 053f18d); class suffix /non-ascii.
What is assumed of strings.ToUpper outside ASCII is stated in Model/CodonTables.lean and gen/c08.py.
-/
namespace PolyVerif.Driver.C08
open PolyVerif PolyVerif.Codon PolyVerif.CodonTables
open PolyVerif.Spec

def floatOfBits (s : String) : Float := Float.ofBits (UInt64.ofNat (natOfStr s))

def parseTok (tok : String) : Option (Op Float) :=
  match tok.splitOn ":" with
  | ["g", id] => id.toNat?.map Op.get
  | "w" :: h :: rest => h.toNat?.map fun n => Op.reweight n (":".intercalate rest).toList
  | ["a", h1, h2] => match h1.toNat?, h2.toNat? with
    | some a, some b => some (Op.add a b)
    | _, _ => none
  | ["c", h1, h2, bits] => match h1.toNat?, h2.toNat?, bits.toNat? with
    | some a, some b, some _ => some (Op.compromise a b (floatOfBits bits))
    | _, _, _ => none
  | ["j", h] => h.toNat?.map Op.json
  | ["o", h] => h.toNat?.map Op.observe
  | _ => none

def parseIds (s : String) : List Nat := (splitNonEmpty s ",").map natOfStr

def render (f : List String) : List String :=
  match f with
  | "hist" :: rest => "c08hist" :: rest
  | "conc" :: rest => "c08conc" :: rest
  | "racectl" :: rest => "c08racectl" :: rest
  | _ => f

def showObs : Obs → String
  | .table t => "T" ++ showTable t
  | .err => "err"
  | .panic => "panic"
  | .fault => "fault"

/-- implementation's step output, parsed (tables compared as values, not as text); anything unexpected or
malformed is `fault`, which equals no model observation of a well-formed history -/
def parseObs (s : String) : Obs :=
  if s == "err" then .err else if s == "panic" then .panic
  else if s.startsWith "T" && validTableText (s.drop 1).toString then .table (parseTable (s.drop 1).toString) else .fault

/-- reported start table: `F…` (fresh in this process) or `R…` (snapshot restored) -/
def parseStart (s : String) : Option Table :=
  if (s.startsWith "F" || s.startsWith "R") && validTableText (s.drop 1).toString then some (parseTable (s.drop 1).toString) else none

def uniform1 (t : Table) : Bool := t.aminoAcids.all fun a => a.codons.all fun c => c.weight == 1

def genTableOf (id : Nat) : Table := (genDefaults.lookup id).getD zeroTable

/-- the reported default table is the regenerated one as a map (the amino-acid order is a Go map's) and has weight 1 everywhere -/
def isPristine (id : Nat) (t : Table) : Bool := uniform1 t && canonTable t == canonTable (genTableOf id)

def cmpFloat : Table → Table → Float → Outcome Table := compromise floatArith

def asciiStr (s : Str) : Bool := s.all fun c => c.val ≤ 127

def hasNaN (t1 t2 : Table) : Bool := !(ValueTables.posTotals t1 && ValueTables.posTotals t2)

/-- operands of add / compromise inside what C18 constrains: non-empty, well-formed, same code as maps -/
def inDomPair (t1 t2 : Table) : Bool := !t1.aminoAcids.isEmpty && !t2.aminoAcids.isEmpty && ValueTables.Compatible t1 t2

def ncbiId (id : Nat) : Bool := ValueTables.ncbiIds.contains id

def valStart : ValueTables.VState := { handles := [], trace := [] }

/-- taint level of every step's observation in the VALUE run (per handle) -/
def valTaints (defs : List (Nat × Table)) (hist : List (Op Float)) : List Nat :=
  let rec go (st : ValueTables.VState) (th : List Nat) : List (Op Float) → List Nat
    | [] => []
    | op :: rest =>
      let t := fun (h : Nat) => (th[h]?).getD 0
      let pairLvl := fun (h1 h2 : Nat) (nan : Bool) => match st.handles[h1]?, st.handles[h2]? with
        | some t1, some t2 => if !inDomPair t1 t2 then 2 else if nan && hasNaN t1 t2 then 1 else 0
        | _, _ => 0
      -- (taint of the new handle, taint of what the step shows)
      let r : Nat × Nat := match op with
        | .get id => if ncbiId id then (0, 0) else (2, 2)
        | .reweight h _ => if t h == 2 then (2, 2) else (0, 0)
        | .add h1 h2 => let x := max (max (t h1) (t h2)) (pairLvl h1 h2 false); (x, x)
        | .compromise h1 h2 _ => let x := max (max (t h1) (t h2)) (pairLvl h1 h2 true); (x, x)
        | .json h => (t h, t h)
        | .observe h => (0, t h)
      r.2 :: go (ValueTables.vstep addTable cmpFloat defs st op) (th ++ [r.1]) rest
  go valStart [] hist

/-- taint level of every step's observation in the HEAP run (per cell: a re-weighting cleans a level-1 cell for all its handles) -/
def heapTaints (step : HState → Op Float → HState) (defs : List (Nat × Table)) (hist : List (Op Float)) : List Nat :=
  let rec go (st : HState) (tc : List Nat) : List (Op Float) → List Nat
    | [] => []
    | op :: rest =>
      let addr := fun (h : Nat) => (st.handles[h]?).map (·.aas)
      let t := fun (h : Nat) => match addr h with
        | some a => (tc[a]?).getD 0
        | none => 0
      let pairLvl := fun (h1 h2 : Nat) (nan : Bool) =>
        match (st.handles[h1]?).bind (deref st.heap), (st.handles[h2]?).bind (deref st.heap) with
        | some t1, some t2 => if !inDomPair t1 t2 then 2 else if nan && hasNaN t1 t2 then 1 else 0
        | _, _ => 0
      let st' := step st op
      let grew := st'.heap.length > st.heap.length
      -- (cells after the step, taint of what the step shows)
      let r : List Nat × Nat := match op with
        | .get id =>
          if grew then (let x := if ncbiId id then 0 else 2; (tc ++ [x], x))
          else (tc, match (st'.handles.getLast?).map (·.aas) with
            | some a => (tc[a]?).getD 0
            | none => 0)
        | .reweight h _ =>
          if grew then (tc ++ [0], 0)
          else (match addr h with
            | some a => if (tc[a]?).getD 0 == 2 then (tc, 2) else (tc.set a 0, 0)
            | none => (tc, 0))
        | .add h1 h2 => let x := max (max (t h1) (t h2)) (pairLvl h1 h2 false); (tc ++ [x], x)
        | .compromise h1 h2 _ => let x := max (max (t h1) (t h2)) (pairLvl h1 h2 true); (tc ++ [x], x)
        | .json h => (tc ++ [t h], t h)
        | .observe h => (tc ++ [0], t h)
      r.2 :: go st' r.1 rest
  go (HState.init defs) (defs.map fun p => if ncbiId p.1 then 0 else 2) hist

def obsEq (level : Nat) (x y : Obs) : Bool :=
  if level == 0 then x == y
  else if level == 1 then match x, y with
    | .table a, .table b => ValueTables.codeOf a == ValueTables.codeOf b
    | a, b => a == b
  else true

/-- traces equal up to the taint level of every step -/
def eqTrace (taint : List Nat) (a b : List Obs) : Bool :=
  a.length == b.length && ((a.zip b).zip taint).all fun p => obsEq p.2 p.1.1 p.1.2

def firstDiff (taint : List Nat) (a b : List Obs) : Nat :=
  (((a.zip b).zip taint).takeWhile fun p => obsEq p.2 p.1.1 p.1.2).length

/-- the known finding that explains a failure at step `d` (the first step at which the implementation differs from
value semantics): C08-alias-default when a deep-copying GetCodonTable would remove it (the copying-get model agrees
with value semantics at that step), C08-receiver-mutated when it would remain -/
def kfId (level : Nat) (copyObs valObs : Option Obs) : String :=
  match copyObs, valObs with
  | some c, some v => if obsEq level c v then "C08-alias-default" else "C08-receiver-mutated"
  | _, _ => "C08-receiver-mutated"

def judgeHist (ids : String) (toks : List String) (out : List String) : Verdict :=
  let idl := parseIds ids
  match toks.mapM parseTok with
  | none => { corr := false, judge := none, cls := "bad-case", detail := "bad token" }
  | some hist =>
    match out with
    | "ok" :: vals =>
      let starts := (vals.take idl.length).map parseStart
      let reported := (idl.zip starts).map fun p => (p.1, p.2.getD zeroTable)
      let impl := (vals.drop idl.length).map parseObs
      let shapeOk := vals.length == idl.length + hist.length && starts.all Option.isSome
      -- (a) pristine start, judged on what poly built (the harness only snapshots / restores)
      let cleanStart := shapeOk && reported.all fun p => isPristine p.1 p.2
      -- THREE semantics the implementation may follow: the heap model (today's sharing), the heap model with a
      -- deep-copying GetCodonTable (a repair of C08-alias-default only), value semantics (both findings repaired)
      let stepH := hstep cmpFloat
      let stepG := hstepCopyGet cmpFloat
      let tH := heapTaints stepH reported hist
      let tG := heapTaints stepG reported hist
      let tV := valTaints reported hist
      let relax := ((tV.zip tH).zip tG).map fun p => max (max p.1.1 p.1.2) p.2
      let heapTrace := runHeap cmpFloat reported hist
      let copyTrace := (hist.foldl stepG (HState.init reported)).trace
      let valTrace := ValueTables.runValue addTable cmpFloat reported hist
      let isHeap := shapeOk && eqTrace relax impl heapTrace
      let isCopy := shapeOk && eqTrace relax impl copyTrace
      let valOk := shapeOk && eqTrace relax impl valTrace
      -- correspondence: the implementation is one of them.  Where it is not the heap model although value semantics
      -- and the heap model differ, a known finding has been repaired: drift (`/kf-repaired`), not a disagreement
      let corr := isHeap || isCopy || valOk
      let repaired := corr && !isHeap
      let badReply := ((impl.zip relax).any fun p => p.1 == Obs.fault && p.2 != 2)
      let exact := relax.map fun l => if l == 2 then 0 else l
      let oodDrift := corr && !(eqTrace exact impl heapTrace || eqTrace exact impl copyTrace || eqTrace exact impl valTrace)
      let pass := cleanStart && valOk
      let lin := ValueTables.Linear reported hist
      let ascii := hist.all fun o => match o with | .reweight _ s => asciiStr s | _ => true
      let nrew := (hist.filter fun o => match o with | .reweight _ _ => true | _ => false).length
      let known := !pass && cleanStart && !lin && (isHeap || isCopy)
      let cls := (if nrew == 0 then "triv:" else "") ++ "hist/"
        ++ (if lin then "linear" else "nonlinear") ++ (if ascii then "" else "/non-ascii")
        ++ (if known then (let d := firstDiff relax impl valTrace
                           "/kf:" ++ kfId ((relax[d]?).getD 0) copyTrace[d]? valTrace[d]?) else "")
        ++ (if repaired then "/kf-repaired" else "")
        ++ (if badReply then "/bad-reply" else "")
        ++ (if !cleanStart then "/start-not-pristine" else "")
        ++ (if relax.any (· == 1) then "/nan" else "") ++ (if relax.any (· == 2) then "/ood" else "")
        ++ (if oodDrift then "/ood-drift" else "")
        ++ "/len" ++ toString hist.length
        ++ (if hist.any fun o => match o with | .reweight _ s => s.length % 3 != 0 | _ => false then "/frame" else "")
      let d := if corr && pass then "" else
        (if !cleanStart then "a reported default table is not the regenerated table with uniform weight 1; " else "") ++
        (if !corr then "none of heap model / copying-get model / value semantics; heap model differs at step " ++ toString (firstDiff relax impl heapTrace) ++ ": " ++
            ((heapTrace[firstDiff relax impl heapTrace]?).map showObs |>.getD "-") ++ " " else "") ++
        (if !valOk then "value spec differs at step " ++ toString (firstDiff relax impl valTrace) ++ ": " ++
            ((valTrace[firstDiff relax impl valTrace]?).map showObs |>.getD "-") else "")
      { corr, judge := some pass, cls, detail := d }
    | st :: _ => { corr := false, judge := some false, cls := "hist/" ++ st, detail := "implementation did not complete the history" }
    | [] => { corr := false, judge := some false, cls := "hist/missing", detail := "no reply" }

/-- a thread: (id, strings to re-weight with; `none` = reader) -/
def parseThread (s : String) : Nat × Option (List Str) :=
  match s.splitOn ":" with
  | id :: rest =>
    let body := ":".intercalate rest
    if body.startsWith "@" then (natOfStr id, none) else (natOfStr id, some ((body.splitOn ",").map String.toList))
  | [] => (0, none)

/-- thread's chain: re-weight handle `h` with the first string, then always the previous result -/
def chainOps (h next : Nat) : List Str → List (Op Float) × Nat × Nat
  | [] => ([], h, next)
  | s :: rest => let r := chainOps next (next + 1) rest; (Op.reweight h s :: r.1, r.2.1, r.2.2)

/-- all chains one after the other; returns (ops, last handle of each thread) -/
def allChains : List ((Nat × Option (List Str)) × Nat) → Nat → List (Op Float) × List Nat
  | [], _ => ([], [])
  | (th, i) :: rest, next =>
    let r := chainOps i next (th.2.getD [])
    let q := allChains rest r.2.2
    (r.1 ++ q.1, r.2.1 :: q.2)

def judgeConc (threads : List String) (out : List String) : Verdict :=
  let ths := threads.map parseThread
  let n := ths.length
  let distinct := decide (ths.map (·.1)).Nodup
  if !distinct then
    -- two goroutines on the same id race only through the known sharing: outside the property, not judged
    { corr := true, judge := none, cls := "triv:conc-same-id/" ++ (out.head?.getD "missing"), detail := "" }
  else
  match out with
  | "ok" :: vals =>
    let starts := (vals.take n).map parseStart
    let reported := ((ths.map (·.1)).zip starts).map fun p => (p.1, p.2.getD zeroTable)
    let finals := ((vals.drop n).take n).map parseObs
    let afters := (vals.drop (2 * n)).map parseObs
    let shapeOk := vals.length == 3 * n && starts.all Option.isSome
    -- heap model: the threads one after the other (Props/C08 `interleavings_agree`: every interleaving gives the same heap)
    let gets : List (Op Float) := ths.map fun th => Op.get th.1
    let chains := allChains ths.zipIdx n
    let full := gets ++ chains.1 ++ chains.2.map Op.observe ++ gets
    let tr := runHeap cmpFloat reported full
    let m := n + chains.1.length
    let modelFinals := (tr.drop m).take n
    let modelAfters := tr.drop (m + n)
    -- what GetCodonTable shows afterwards: the leak (heap model) or, when the sharing has been repaired, the pristine tables
    let pristineAfters := reported.map fun p => Obs.table p.2
    let corr := shapeOk && finals == modelFinals && (afters == modelAfters || afters == pristineAfters)
    let repaired := corr && afters != modelAfters
    -- value spec: a writer's result depends on its own last argument only; a reader always sees the pristine table
    let cleanStart := shapeOk && reported.all fun p => isPristine p.1 p.2
    let want := (ths.zip reported).map fun p =>
      Obs.table (match p.1.2 with
        | some ss => (match ss.getLast? with
          | some s => ValueTables.reweight p.2.2 s
          | none => p.2.2)
        | none => p.2.2)
    let pass := cleanStart && finals == want
    let readers := (ths.filter fun th => th.2.isNone).length
    { corr, judge := some pass, cls := "conc/threads" ++ toString n ++ "/readers" ++ toString readers ++ (if !cleanStart then "/start-not-pristine" else "")
             ++ (if repaired then "/kf-repaired" else ""),
      detail := if corr && pass then "" else "model finals: " ++ " | ".intercalate (modelFinals.map showObs) }
  | st :: _ => { corr := false, judge := some false, cls := "conc/" ++ st, detail := "implementation did not complete (data race report / crash)" }
  | [] => { corr := false, judge := some false, cls := "conc/missing", detail := "no reply" }

def judge (f out : List String) : Verdict :=
  match f with
  | "hist" :: ids :: toks => judgeHist ids toks out
  | "conc" :: threads => judgeConc threads out
  | "racectl" :: _ =>
    -- CONTROL of the check's own machinery, generated only into the runs under the race detector: two goroutines of
    -- the HARNESS write one variable without synchronisation.  The reply MUST be `race` (the detector killed the
    -- process); anything else means the race runs prove nothing, and that is raised as a failure.
    let raced := out.head? == some "race"
    { corr := raced, judge := some raced, cls := "triv:ctl:race/" ++ (out.head?.getD "missing"),
      detail := if raced then "" else "race control did not come back as `race`: the race detector run is not functional" }
  | _ => { corr := false, judge := none, cls := "bad-case", detail := "bad case" }

def driver : PropDriver := { render, judge }
end PolyVerif.Driver.C08
