import PolyVerif.Model.CodonTables
import PolyVerif.Spec.ValueTables
/-
Driver of C08.  Abstract cases:

  hist <ids> <tok>…      a history; ids = "11,1,2" (the default tables it may request), tokens
                           g:<id> | w:<h>:<sequence> | a:<h1>:<h2> | c:<h1>:<h2>:<float64 bits, decimal> | j:<h> | o:<h>
                         handle k = result of step k.
  conc <id:s1,s2,…|id:@n>…   one goroutine per field: a writer re-weights ITS default table with s1, s2, … in turn;
                         a reader (id:@n) requests and reads default table id n times meanwhile.

The harness snapshots each named default table at its first use in the process (prefix F) or restores that
snapshot (prefix R), REPORTS it, then runs the steps and shows the result of every step.

corr  : implementation trace == heap model started from the reported tables — on EVERY history, linear or not.
judge : (a) every reported start table has uniform weight 1 and is the regenerated table as a map (C06 ties
        the regenerated tables to the NCBI codes) — "a freshly requested default table is pristine", judged on
        what poly itself built; (b) implementation trace == value-semantics spec from those tables.
kf    : a judged failure carries a known-finding tag ONLY IF the start was pristine, the history is not Linear
        AND the implementation's trace is exactly the heap model's (the recorded defect IS the heap model's
        sharing).  The id is chosen by the region the first linearity break exposes: a default table
        (C08-alias-default) or a table built by add / compromise / json (C08-receiver-mutated).
        Anything else — unclean start, a failure on a Linear history, a non-Linear history on which the code
        also disagrees with the heap model — is an ordinary FAIL.
nan   : from the first `compromise` step whose operand has an amino acid of total weight 0 onwards the result
        contains int(NaN), which Go leaves to the platform: from there on traces are compared up to the code
        (letters, triplets, start/stop codons) only.
Non-ASCII letters are ordinary judged input (framing by letters, /repo 053f18d); class suffix /non-ascii.
What is assumed of strings.ToUpper outside ASCII is stated in Model/CodonTables.lean and gen/c08.py.
-/
namespace PolyVerif.Driver.C08
open PolyVerif PolyVerif.Codon PolyVerif.CodonTables
open PolyVerif.Spec

def floatOfBits (s : String) : Float := Float.ofBits (UInt64.ofNat (natOfStr s))

def parseTok (tok : String) : Option (Op Float) :=
  match tok.splitOn ":" with
  | ["g", id] => id.toNat?.map Op.get
  | "w" :: h :: rest => h.toNat?.map fun n => Op.reweight n (":".intercalate rest).toList
  | ["a", h1, h2] => match h1.toNat?, h2.toNat? with
    | some a, some b => some (Op.add a b)
    | _, _ => none
  | ["c", h1, h2, bits] => match h1.toNat?, h2.toNat?, bits.toNat? with
    | some a, some b, some _ => some (Op.compromise a b (floatOfBits bits))
    | _, _, _ => none
  | ["j", h] => h.toNat?.map Op.json
  | ["o", h] => h.toNat?.map Op.observe
  | _ => none

def parseIds (s : String) : List Nat := (splitNonEmpty s ",").map natOfStr

def render (f : List String) : List String :=
  match f with
  | "hist" :: rest => "c08hist" :: rest
  | "conc" :: rest => "c08conc" :: rest
  | _ => f

def showObs : Obs → String
  | .table t => "T" ++ showTable t
  | .err => "err"
  | .panic => "panic"
  | .fault => "fault"

/-- implementation's step output, parsed (tables compared as values, not as text); anything unexpected is `fault` -/
def parseObs (s : String) : Obs :=
  if s == "err" then .err else if s == "panic" then .panic
  else if s.startsWith "T" then .table (parseTable (s.drop 1).toString) else .fault

/-- reported start table: `F…` (fresh in this process) or `R…` (snapshot restored) -/
def parseStart (s : String) : Option Table :=
  if s.startsWith "F" || s.startsWith "R" then some (parseTable (s.drop 1).toString) else none

def uniform1 (t : Table) : Bool := t.aminoAcids.all fun a => a.codons.all fun c => c.weight == 1

def genTableOf (id : Nat) : Table := (genDefaults.lookup id).getD zeroTable

/-- the reported default table is the regenerated one as a map (the amino-acid order is a Go map's) and has weight 1 everywhere -/
def isPristine (id : Nat) (t : Table) : Bool := uniform1 t && canonTable t == canonTable (genTableOf id)

def cmpFloat : Table → Table → Float → Outcome Table := compromise floatArith

def asciiStr (s : Str) : Bool := s.all fun c => c.val ≤ 127

/-- index of the first compromise step one of whose operands (in the value run) has an amino acid of total weight 0 -/
def firstNaN (defs : List (Nat × Table)) (hist : List (Op Float)) : Nat :=
  let rec go (st : ValueTables.VState) (i : Nat) : List (Op Float) → Nat
    | [] => i
    | op :: rest =>
      let bad := match op with
        | .compromise h1 h2 _ => match st.handles[h1]?, st.handles[h2]? with
          | some t1, some t2 => !(ValueTables.posTotals t1 && ValueTables.posTotals t2)
          | _, _ => false
        | _ => false
      if bad then i else go (ValueTables.vstep addTable cmpFloat defs st op) (i + 1) rest
  go { handles := [], trace := [] } 0 hist

def obsEq (relaxed : Bool) (x y : Obs) : Bool :=
  if !relaxed then x == y
  else match x, y with
    | .table a, .table b => ValueTables.codeOf a == ValueTables.codeOf b
    | a, b => a == b

/-- traces equal; from step `relaxFrom` on, tables are compared up to their code -/
def eqTrace (relaxFrom : Nat) (a b : List Obs) : Bool :=
  a.length == b.length && (a.zip b).zipIdx.all fun p => obsEq (p.2 ≥ relaxFrom) p.1.1 p.1.2

def firstDiff (relaxFrom : Nat) (a b : List Obs) : Nat :=
  ((a.zip b).zipIdx.takeWhile fun p => obsEq (p.2 ≥ relaxFrom) p.1.1 p.1.2).length

def kfId (ndefs : Nat) (brk : List Nat) : String :=
  match brk with
  | r :: _ => if r < ndefs then "C08-alias-default" else "C08-receiver-mutated"
  | [] => "none"

def judgeHist (ids : String) (toks : List String) (out : List String) : Verdict :=
  let idl := parseIds ids
  match toks.mapM parseTok with
  | none => { corr := false, judge := none, cls := "bad-case", detail := "bad token" }
  | some hist =>
    match out with
    | "ok" :: vals =>
      let starts := (vals.take idl.length).map parseStart
      let reported := (idl.zip starts).map fun p => (p.1, p.2.getD zeroTable)
      let impl := (vals.drop idl.length).map parseObs
      let shapeOk := vals.length == idl.length + hist.length && starts.all Option.isSome
      -- (a) pristine start, judged on what poly built (the harness only snapshots / restores)
      let cleanStart := shapeOk && reported.all fun p => isPristine p.1 p.2
      let relax := firstNaN reported hist
      -- correspondence: heap model from the reported state
      let heapTrace := runHeap cmpFloat reported hist
      let corr := shapeOk && eqTrace relax impl heapTrace
      -- (b) value semantics from the same tables
      let valTrace := ValueTables.runValue addTable cmpFloat reported hist
      let valOk := shapeOk && eqTrace relax impl valTrace
      let pass := cleanStart && valOk
      let lin := ValueTables.Linear reported hist
      let ascii := hist.all fun o => match o with | .reweight _ s => asciiStr s | _ => true
      let nrew := (hist.filter fun o => match o with | .reweight _ _ => true | _ => false).length
      let known := !pass && cleanStart && !lin && corr
      let cls := (if nrew == 0 then "triv:" else "") ++ "hist/"
        ++ (if lin then "linear" else "nonlinear") ++ (if ascii then "" else "/non-ascii")
        ++ (if known then "/kf:" ++ kfId reported.length (ValueTables.breaks reported hist) else "")
        ++ (if !cleanStart then "/start-not-pristine" else "")
        ++ (if relax < hist.length then "/nan" else "")
        ++ "/len" ++ toString hist.length
        ++ (if hist.any fun o => match o with | .reweight _ s => s.length % 3 != 0 | _ => false then "/frame" else "")
      let d := if corr && pass then "" else
        (if !cleanStart then "a reported default table is not the regenerated table with uniform weight 1; " else "") ++
        (if !corr then "heap model differs at step " ++ toString (firstDiff relax impl heapTrace) ++ ": " ++
            ((heapTrace[firstDiff relax impl heapTrace]?).map showObs |>.getD "-") ++ " " else "") ++
        (if !valOk then "value spec differs at step " ++ toString (firstDiff relax impl valTrace) ++ ": " ++
            ((valTrace[firstDiff relax impl valTrace]?).map showObs |>.getD "-") else "")
      { corr, judge := some pass, cls, detail := d }
    | st :: _ => { corr := false, judge := some false, cls := "hist/" ++ st, detail := "implementation did not complete the history" }
    | [] => { corr := false, judge := some false, cls := "hist/missing", detail := "no reply" }

/-- a thread: (id, strings to re-weight with; `none` = reader) -/
def parseThread (s : String) : Nat × Option (List Str) :=
  match s.splitOn ":" with
  | id :: rest =>
    let body := ":".intercalate rest
    if body.startsWith "@" then (natOfStr id, none) else (natOfStr id, some ((body.splitOn ",").map String.toList))
  | [] => (0, none)

/-- thread's chain: re-weight handle `h` with the first string, then always the previous result -/
def chainOps (h next : Nat) : List Str → List (Op Float) × Nat × Nat
  | [] => ([], h, next)
  | s :: rest => let r := chainOps next (next + 1) rest; (Op.reweight h s :: r.1, r.2.1, r.2.2)

/-- all chains one after the other; returns (ops, last handle of each thread) -/
def allChains : List ((Nat × Option (List Str)) × Nat) → Nat → List (Op Float) × List Nat
  | [], _ => ([], [])
  | (th, i) :: rest, next =>
    let r := chainOps i next (th.2.getD [])
    let q := allChains rest r.2.2
    (r.1 ++ q.1, r.2.1 :: q.2)

def judgeConc (threads : List String) (out : List String) : Verdict :=
  let ths := threads.map parseThread
  let n := ths.length
  let distinct := decide (ths.map (·.1)).Nodup
  if !distinct then
    -- control: two goroutines on the same id race by construction (known sharing); not in the property's domain
    { corr := true, judge := none, cls := "ctl:conc-same-id/" ++ (out.head?.getD "missing"), detail := "" }
  else
  match out with
  | "ok" :: vals =>
    let starts := (vals.take n).map parseStart
    let reported := ((ths.map (·.1)).zip starts).map fun p => (p.1, p.2.getD zeroTable)
    let finals := ((vals.drop n).take n).map parseObs
    let afters := (vals.drop (2 * n)).map parseObs
    let shapeOk := vals.length == 3 * n && starts.all Option.isSome
    -- heap model: the threads one after the other (Props/C08 `interleavings_agree`: every interleaving gives the same heap)
    let gets : List (Op Float) := ths.map fun th => Op.get th.1
    let chains := allChains ths.zipIdx n
    let full := gets ++ chains.1 ++ chains.2.map Op.observe ++ gets
    let tr := runHeap cmpFloat reported full
    let m := n + chains.1.length
    let modelFinals := (tr.drop m).take n
    let modelAfters := tr.drop (m + n)
    let corr := shapeOk && finals == modelFinals && afters == modelAfters
    -- value spec: a writer's result depends on its own last argument only; a reader always sees the pristine table
    let cleanStart := shapeOk && reported.all fun p => isPristine p.1 p.2
    let want := (ths.zip reported).map fun p =>
      Obs.table (match p.1.2 with
        | some ss => (match ss.getLast? with
          | some s => ValueTables.reweight p.2.2 s
          | none => p.2.2)
        | none => p.2.2)
    let pass := cleanStart && finals == want
    let readers := (ths.filter fun th => th.2.isNone).length
    { corr, judge := some pass, cls := "conc/threads" ++ toString n ++ "/readers" ++ toString readers ++ (if !cleanStart then "/start-not-pristine" else ""),
      detail := if corr && pass then "" else "model finals: " ++ " | ".intercalate (modelFinals.map showObs) }
  | st :: _ => { corr := false, judge := some false, cls := "conc/" ++ st, detail := "implementation did not complete (data race report / crash)" }
  | [] => { corr := false, judge := some false, cls := "conc/missing", detail := "no reply" }

def judge (f out : List String) : Verdict :=
  match f with
  | "hist" :: ids :: toks => judgeHist ids toks out
  | "conc" :: threads => judgeConc threads out
  | _ => { corr := false, judge := none, cls := "bad-case", detail := "bad case" }

def driver : PropDriver := { render, judge }
end PolyVerif.Driver.C08
