import PolyVerif.Model.CodonTables
import PolyVerif.Spec.ValueTables
/-
Driver of C08.  Abstract cases:

  hist <ids> <tok>…      a history; ids = "11,1,2" (the default tables it may request), tokens
                           g:<id> | w:<h>:<sequence> | a:<h1>:<h2> | c:<h1>:<h2>:<float64 bits, decimal> | j:<h> | o:<h>
                         handle k = result of step k.
  conc <id:s1,s2,…>…     one thread per field re-weights ITS default table with s1, s2, … in turn, concurrently.

The harness resets the named default tables to weight 1, REPORTS them, then runs the steps and shows the
result of every step.  The heap model starts from the reported tables (correspondence: must agree on
every history, linear or not); the value-semantics spec starts from the pristine tables and is the judge.
-/
namespace PolyVerif.Driver.C08
open PolyVerif PolyVerif.Codon PolyVerif.CodonTables
open PolyVerif.Spec (ValueTables.Linear ValueTables.runValue)

def floatOfBits (s : String) : Float := Float.ofBits (UInt64.ofNat (natOfStr s))

def parseTok (tok : String) : Option (Op Float) :=
  match tok.splitOn ":" with
  | ["g", id] => id.toNat?.map Op.get
  | "w" :: h :: rest => h.toNat?.map fun n => Op.reweight n (":".intercalate rest).toList
  | ["a", h1, h2] => match h1.toNat?, h2.toNat? with
    | some a, some b => some (Op.add a b)
    | _, _ => none
  | ["c", h1, h2, bits] => match h1.toNat?, h2.toNat?, bits.toNat? with
    | some a, some b, some _ => some (Op.compromise a b (floatOfBits bits))
    | _, _, _ => none
  | ["j", h] => h.toNat?.map Op.json
  | ["o", h] => h.toNat?.map Op.observe
  | _ => none

def parseIds (s : String) : List Nat := (splitNonEmpty s ",").map natOfStr

def render (f : List String) : List String :=
  match f with
  | "hist" :: rest => "c08hist" :: rest
  | "conc" :: rest => "c08conc" :: rest
  | _ => f

def showObs : Obs → String
  | .table t => "T" ++ showTable t
  | .err => "err"
  | .panic => "panic"
  | .fault => "fault"

/-- implementation's step output, parsed (tables compared as values, not as text) -/
def parseObs (s : String) : Obs :=
  if s == "err" then .err else if s == "panic" then .panic
  else if s.startsWith "T" then .table (parseTable (s.drop 1).toString) else .fault

def pristine (t : Table) : Table := Spec.ValueTables.mapWeights (fun _ _ _ => 1) t

def genTableOf (id : Nat) : Table := (genDefaults.lookup id).getD zeroTable

/-- the reported default table is the regenerated one (as a map: the amino-acid order is a Go map's) with weight 1 everywhere -/
def isPristine (id : Nat) (t : Table) : Bool := canonTable t == canonTable (genTableOf id)

def firstDiff (a b : List Obs) : Nat := ((a.zip b).takeWhile fun p => p.1 == p.2).length

def cmpFloat : Table → Table → Float → Outcome Table := compromise floatArith

def opTag : Op Float → String
  | .get _ => "g" | .reweight _ _ => "w" | .add _ _ => "a" | .compromise _ _ _ => "c" | .json _ => "j" | .observe _ => "o"

def judgeHist (ids : String) (toks : List String) (out : List String) : Verdict :=
  let idl := parseIds ids
  match toks.mapM parseTok with
  | none => { corr := false, judge := none, cls := "bad-case", detail := "bad token" }
  | some hist =>
    match out with
    | "ok" :: vals =>
      let reported := (idl.zip (vals.take idl.length)).map fun p => (p.1, parseTable p.2)
      let impl := (vals.drop idl.length).map parseObs
      let shapeOk := vals.length == idl.length + hist.length
      -- correspondence: heap model from the reported state
      let heapTrace := runHeap cmpFloat reported hist
      let corr := shapeOk && impl == heapTrace
      -- judge: value semantics from the pristine tables
      let clean := reported.map fun p => (p.1, pristine p.2)
      let cleanStart := reported.all fun p => p.2 == pristine p.2 && isPristine p.1 p.2
      let valTrace := ValueTables.runValue addTable cmpFloat clean hist
      let pass := shapeOk && cleanStart && impl == valTrace
      let lin := ValueTables.Linear clean hist
      let nrew := (hist.filter fun o => match o with | .reweight _ _ => true | _ => false).length
      let cls := (if nrew == 0 then "triv:" else "") ++ "hist/" ++ (if lin then "linear" else "nonlinear")
        ++ (if !lin || !cleanStart then "/kf:C08-alias-default" else "")
        ++ (if !cleanStart then "/dirty-start" else "")
        ++ "/len" ++ toString hist.length
        ++ (if hist.any fun o => match o with | .reweight _ s => s.length % 3 != 0 | _ => false then "/frame" else "")
      let d := if corr && pass then "" else
        (if !corr then "heap model differs at step " ++ toString (firstDiff impl heapTrace) ++ ": " ++
            ((heapTrace[firstDiff impl heapTrace]?).map showObs |>.getD "-") ++ " " else "") ++
        (if !pass then "value spec differs at step " ++ toString (firstDiff impl valTrace) ++ ": " ++
            ((valTrace[firstDiff impl valTrace]?).map showObs |>.getD "-") else "")
      { corr, judge := some pass, cls, detail := d }
    | st :: _ => { corr := false, judge := some false, cls := "hist/" ++ st, detail := "implementation did not complete the history" }
    | [] => { corr := false, judge := some false, cls := "hist/missing", detail := "no reply" }

def parseThread (s : String) : Nat × List Str :=
  match s.splitOn ":" with
  | id :: rest => (natOfStr id, ((":".intercalate rest).splitOn ",").map String.toList)
  | [] => (0, [])

/-- thread's chain: re-weight handle `h` with the first string, then always the previous result -/
def chainOps (h next : Nat) : List Str → List (Op Float) × Nat × Nat
  | [] => ([], h, next)
  | s :: rest => let r := chainOps next (next + 1) rest; (Op.reweight h s :: r.1, r.2.1, r.2.2)

/-- all chains one after the other; returns (ops, last handle of each thread) -/
def allChains : List ((Nat × List Str) × Nat) → Nat → List (Op Float) × List Nat
  | [], _ => ([], [])
  | (th, i) :: rest, next =>
    let r := chainOps i next th.2
    let q := allChains rest r.2.2
    (r.1 ++ q.1, r.2.1 :: q.2)

def judgeConc (threads : List String) (out : List String) : Verdict :=
  let ths := threads.map parseThread
  let n := ths.length
  let distinct := decide (ths.map (·.1)).Nodup
  if !distinct then
    -- control: same id in two threads is a data race by construction; not in the property's domain
    { corr := true, judge := none, cls := "ctl:conc-same-id/" ++ (out.head?.getD "missing"), detail := "" }
  else
  match out with
  | "ok" :: vals =>
    let reported := ((ths.map (·.1)).zip (vals.take n)).map fun p => (p.1, parseTable p.2)
    let finals := ((vals.drop n).take n).map parseObs
    let afters := (vals.drop (2 * n)).map parseObs
    let shapeOk := vals.length == 3 * n
    -- heap model: the threads one after the other (Props/C08 `disjoint_commute`: every interleaving gives the same heap)
    let hist : List (Op Float) := ths.flatMap fun th => [Op.get th.1]
    let k := ths.length
    -- handles 0..k-1 are the `get`s; then each thread's chain of re-weightings
    let chains := allChains ths.zipIdx k
    let full := hist ++ chains.1 ++ chains.2.map Op.observe ++ (ths.map fun th => Op.get th.1)
    let tr := runHeap cmpFloat reported full
    let m := k + chains.1.length
    let modelFinals := (tr.drop m).take n
    let modelAfters := tr.drop (m + n)
    let corr := shapeOk && finals == modelFinals && afters == modelAfters
    -- value spec: each thread's result depends on its own last argument only
    let cleanStart := reported.all fun p => p.2 == pristine p.2 && isPristine p.1 p.2
    let want := (ths.zip reported).map fun p =>
      Obs.table (match p.1.2.getLast? with
        | some s => Spec.ValueTables.reweight (pristine p.2.2) s
        | none => pristine p.2.2)
    let pass := shapeOk && cleanStart && finals == want
    { corr, judge := some pass, cls := "conc/threads" ++ toString n,
      detail := if corr && pass then "" else "model finals: " ++ " | ".intercalate (modelFinals.map showObs) }
  | st :: _ => { corr := false, judge := some false, cls := "conc/" ++ st, detail := "implementation did not complete (data race report / crash)" }
  | [] => { corr := false, judge := some false, cls := "conc/missing", detail := "no reply" }

def judge (f out : List String) : Verdict :=
  match f with
  | "hist" :: ids :: toks => judgeHist ids toks out
  | "conc" :: threads => judgeConc threads out
  | _ => { corr := false, judge := none, cls := "bad-case", detail := "bad case" }

def driver : PropDriver := { render, judge }
end PolyVerif.Driver.C08
