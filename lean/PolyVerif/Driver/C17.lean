import PolyVerif.Model.Barcodes
import PolyVerif.Spec.DeBruijn
import PolyVerif.Spec.Nucleotide
import PolyVerif.Spec.DeBruijnCert
import PolyVerif.Gen.DeBruijnCert9
import PolyVerif.Gen.DeBruijnCert10
import PolyVerif.Gen.DeBruijnCert11
/-
Driver for C17.  Cases:

  db  n                                         → request  debruijn n
  bc  length n nb ban_1..ban_nb nf f_1..f_nf    → request  barcodes …   (filters by name, see `namedFilter`)
  hist m k_1 <k_1 fields of a bc case> … k_m <…> → request  barcodeshist …  (m calls, in order, in ONE process)

The harness calls the barcode function first and fetches the sequence of that order afterwards.
The model's barcodes are computed with `barcodesOnFast`, the executable twin of the model's loop
(Props/C17 `barcodesOnFast_eq`: equal on every input).

`corr`  : the reply equals the model's (`deBruijn n`; `createBarcodesWith`), a panic equals a panic; for
          `db 9`, `db 10`, `db 11` the reply must ALSO equal the text of the extracted certificate tables
          (Gen/DeBruijnCert9, 10, 11 — the strings the kernel-checked theorems of Props/C17Cert* speak about).
`judge` : the property evaluated on the REAL output —
  db : `Spec.checkWith k n` (the verified checker, Props/C17 `windowsDistinct_sound`) on the returned string;
  bc : the returned de Bruijn string passes the checker, and the four laws hold of the returned
       barcodes: each is a piece of exactly the requested length of the returned de Bruijn string;
       no n-letter word occurs in two barcodes; none contains a ban or (independent spec of) its
       reverse complement; every filter accepts every barcode.
-/
namespace PolyVerif.Driver.C17
open PolyVerif PolyVerif.DeBruijn

/-- number of 4ᵏ passes for the compiled checker: masks of 4⁷ bits for orders 8..10, 4⁸ bits for order 11 -/
def passes (n : Nat) : Nat := min 3 (n - 7)

/-- model sequences of the orders the barcode cases use, computed once per process -/
def dbTable : Array (Res Str) := Array.ofFn (n := 9) fun i => deBruijn i.val

def modelDb (n : Nat) : Res Str := if h : n < dbTable.size then dbTable[n] else deBruijn n

/-- `check` of the model sequences (orders 0..8), once per process -/
def dbOkTable : Array Bool := dbTable.mapIdx fun i r => match r with | .ok s => Spec.checkWith 0 i s | _ => false

/-- the text the extracted certificate table of order 9 / 10 / 11 stands for (`Props.C17.generated9/10/11`) -/
def generatedSeq (n : Nat) : Option Str :=
  if n = 9 then some (Spec.seqStr Gen.DB9.chunkSymbols Gen.DB9.segs.flatten Gen.DB9.seqLength)
  else if n = 10 then some (Spec.seqStr Gen.DB10.chunkSymbols Gen.DB10.segs.flatten Gen.DB10.seqLength)
  else if n = 11 then some (Spec.seqStr Gen.DB11.chunkSymbols Gen.DB11.segs.flatten Gen.DB11.seqLength)
  else none

structure BcCase where
  length : Nat
  n : Nat
  bans : List String
  filters : List String

def parseBc (f : List String) : Option BcCase :=
  match f with
  | len :: n :: nb :: rest =>
    let nb := natOfStr nb
    let bans := rest.take nb
    match rest.drop nb with
    | nf :: rest2 =>
      let nf := natOfStr nf
      if bans.length = nb ∧ rest2.length = nf then some ⟨natOfStr len, natOfStr n, bans, rest2⟩ else none
    | [] => none
  | _ => none

/-! ### the laws, evaluated on real output (arrays: this code is only ever compiled) -/

/-- independent reverse complement (code-set semantics, Spec/Nucleotide) -/
def specRevComp (s : Str) : Str := s.reverse.map Spec.complCode

/-- `w` occurs in `s` as a contiguous piece -/
def occursIn (w s : Str) : Bool := (List.range (s.length + 1)).any fun i => w.isPrefixOf (s.drop i)

def codeAt (ds : Array Nat) (p n : Nat) : Nat := Id.run do
  let mut c := 0
  for i in [0:n] do c := c * 4 + ds[p + i]!
  return c

/-- law 1+2: every barcode has the requested length and equals `db[p : p+length]` for some `p` -/
def lawSubstrings (n len : Nat) (db : Array Char) (bs : List Str) : Bool := Id.run do
  let dd := db.map Spec.digitOf
  -- position of every n-letter word in db (+1; 0 = absent)
  let mut idx : Array Nat := Array.replicate (4 ^ n) 0
  if n ≤ db.size then
    for p in [0:db.size + 1 - n] do
      let c := codeAt dd p n
      if c < idx.size then idx := idx.set! c (p + 1)
  let mut ok := true
  for b in bs do
    let ba := b.toArray
    if ba.size ≠ len ∨ ba.any (fun c => Spec.digitOf c ≥ 4) ∨ len < n then ok := false
    else
      let c := codeAt (ba.map Spec.digitOf) 0 n
      let p1 := idx[c]!
      if p1 = 0 then ok := false
      else
        let p := p1 - 1
        if p + len > db.size then ok := false
        else
          for i in [0:len] do
            if db[p + i]! ≠ ba[i]! then ok := false
  return ok

/-- law 3: no n-letter word occurs in two different barcodes -/
def lawNoShared (n : Nat) (bs : List Str) : Bool := Id.run do
  let mut owner : Array Nat := Array.replicate (4 ^ n) 0
  let mut ok := true
  let mut k := 0
  for b in bs do
    k := k + 1
    let bd := b.toArray.map Spec.digitOf
    if n ≤ bd.size then
      for p in [0:bd.size + 1 - n] do
        let c := codeAt bd p n
        if c < owner.size then
          let o := owner[c]!
          if o ≠ 0 ∧ o ≠ k then ok := false
          owner := owner.set! c k
  return ok

/-- law 4: no barcode contains a ban or the reverse complement of one -/
def lawBanFree (bans : List Str) (bs : List Str) : Bool :=
  bs.all fun b => bans.all fun ban => !occursIn ban b && !occursIn (specRevComp ban) b

/-- law 5: every filter accepts every barcode -/
def lawFilters (filters : List (Str → Bool)) (bs : List Str) : Bool :=
  bs.all fun b => filters.all fun f => f b

/-! ### the code before the fix (class tag only: did the old, one-after-another checking differ?) -/

def oldShift (L : Nat) (p : Str → Bool) : Nat → Str → Nat → Nat → Nat → Option (Str × Nat × Nat × Nat)
  | 0, rest, s, e, bn => some (rest, s, e, bn)
  | fuel + 1, rest, s, e, bn =>
    if p (rest.take (e - s)) then
      if e + 1 > L then none else oldShift L p fuel rest.tail (s + 1) (e + 1) (bn + 1)
    else some (rest, s, e, bn)

def oldOne (db : Str) (L : Nat) (bans : List Str) (filters : List (Str → Bool)) (cur : Str) (curPos : Nat)
    (s e bn : Nat) : Option (Str × Nat × Nat × Nat) := do
  let mut st := (suffixAt db cur curPos s, s, e, bn)
  for ban in bans do
    st ← oldShift L (fun w => contains w ban) (L + 1) st.1 st.2.1 st.2.2.1 st.2.2.2
    st ← oldShift L (fun w => contains w (Transform.revComp ban)) (L + 1) st.1 st.2.1 st.2.2.1 st.2.2.2
  for f in filters do
    st ← oldShift L (fun w => !f w) (L + 1) st.1 st.2.1 st.2.2.1 st.2.2.2
  return st

def oldBarcodes (db : Str) (L : Nat) (len stride : Nat) (bans : List Str) (filters : List (Str → Bool)) :
    Nat → Nat → Str → Nat → List Str
  | 0, _, _, _ => []
  | fuel + 1, bn, cur, curPos =>
    if bn * stride + len < L then
      match oldOne db L bans filters cur curPos (bn * stride) (bn * stride + len) (bn + 1) with
      | some (rest, s, e, bn') => rest.take (e - s) :: oldBarcodes db L len stride bans filters fuel bn' rest s
      | none => []
    else []

/-! ### render / judge -/

def render (f : List String) : List String :=
  match f with
  | "db" :: rest => "debruijn" :: rest
  | "bc" :: rest => "barcodes" :: rest
  | "hist" :: rest => "barcodeshist" :: rest
  | _ => f

def status (out : List String) : String := out.headD "missing"

def joinStrs (bs : List Str) : String := ",".intercalate (bs.map String.ofList)

def isACGT (c : Char) : Bool := c = 'A' || c = 'C' || c = 'G' || c = 'T'

/-- the property's quantifier — orders 2..8, lengths n..60, 0..5 bans over A,C,G,T (upper case),
0..3 filters — with ONE deliberate extension: a ban may have any length ≥ 2, not only 2..8 (the laws
are proved for every ban list, and the repository's own examples ban words of 11 and 14 letters).
Everything else is compared with the model but not judged. -/
def inDomain (c : BcCase) : Bool :=
  decide (2 ≤ c.n ∧ c.n ≤ 8 ∧ c.n ≤ c.length ∧ c.length ≤ 60 ∧ c.bans.length ≤ 5 ∧ c.filters.length ≤ 3) &&
  c.bans.all (fun b => decide (2 ≤ b.length) && b.toList.all isACGT)

structure BcVerdict where
  corr : Bool
  inDom : Bool
  pass : Bool
  cls : String
  detail : String

/-- one barcode call: `reply` = the four reply fields (sequence, count, barcodes, entry-point flag), or `none`
when the call did not return -/
def judgeBc (c : BcCase) (reply : Option (List String)) (st : String) : BcVerdict :=
  let bans := c.bans.map String.toList
  let filters := c.filters.map namedFilter
  let n := c.n
  let mdb := modelDb n
  let m := mdb.bind fun db => barcodesOnFast db c.length n bans filters
  let mOut : Option (List String) := match mdb, m with
    | .ok db, .ok bs => some [String.ofList db, toString bs.length, joinStrs bs, "="]
    | _, _ => none
  let mSt := match mdb, m with
    | .ok _, .ok _ => "ok" | _, .fuel => "timeout" | _, _ => "panic"
  let corr := st == mSt && reply == mOut
  let (j, why) := match reply with
    | some [dbS, cnt, joined, _] =>
      let db := dbS.toList
      -- the list field is always read; the count field must agree with it (an in-domain barcode is never empty)
      let bs : List Str := if joined = "" then [] else (joined.splitOn ",").map String.toList
      let dbOk := if mdb == Res.ok db ∧ n < dbOkTable.size then dbOkTable[n]! else Spec.checkWith (passes n) n db
      let l0 := toString bs.length == cnt
      let l1 := lawSubstrings n c.length db.toArray bs
      let l3 := lawNoShared n bs
      let l4 := lawBanFree bans bs
      let l5 := lawFilters filters bs
      (dbOk && l0 && l1 && l3 && l4 && l5,
       (if dbOk then "" else "sequence-not-de-Bruijn ") ++ (if l0 then "" else "count ") ++
       (if l1 then "" else "not-a-piece-of-requested-length ") ++ (if l3 then "" else "shared-n-mer ") ++
       (if l4 then "" else "contains-ban-or-revcomp ") ++ (if l5 then "" else "filter-rejects "))
    | _ => (false, "reply is " ++ st)
  -- class: what the shifting logic did on this case (from the model)
  let cls := match mdb, m with
    | .ok db, .ok bs =>
      if c.length < n then "bc/short" else
      let stride := c.length + 1 - n
      let plain := match barcodesOnFast db c.length n [] [] with | .ok p => p | _ => []
      let old := oldBarcodes db db.length c.length stride bans filters (db.length + 1) 0 db 0
      let big := if n ≥ 7 then (if stride ≤ 17 then "/order7-8-short" else "/order7-8") else ""
      if bans.isEmpty ∧ filters.isEmpty then (if bs.length ≤ 1 then "triv:" else "") ++ "bc/plain" ++ big
      else if bs == plain then "bc/no-shift" ++ big
      else if bs != old then "bc/shift-readmit" ++ big   -- the pre-fix code would have answered differently
      else if bs.isEmpty then "bc/all-rejected" ++ big
      else "bc/shift" ++ big
    | _, .fuel => "bc/diverge"
    | _, _ => "bc/panic"
  { corr := corr, inDom := inDomain c, pass := j, cls := cls,
    detail := (if corr then "" else
      "model: " ++ (match m with | .ok bs => toString bs.length ++ " " ++ (joinStrs (bs.take 6)) | .panic => "panic" | .fuel => "fuel") ++
      " impl: " ++ (match reply with | some [_, cnt, joined, flag] => cnt ++ " " ++ String.ofList (joined.toList.take 200) ++ " " ++ flag | _ => st) ++ " ")
      ++ (if j then "" else "law: " ++ why) }

/-- split the fields of a `hist` case into its calls -/
def splitHist : Nat → List String → Option (List (List String))
  | 0, [] => some []
  | 0, _ => none
  | m + 1, k :: rest =>
    let k := natOfStr k
    if rest.length < k then none else
    (splitHist m (rest.drop k)).map fun tl => rest.take k :: tl
  | _ + 1, [] => none

def chunks4 : List String → List (List String)
  | a :: b :: c :: d :: rest => [a, b, c, d] :: chunks4 rest
  | _ => []

def judge (f out : List String) : Verdict :=
  match f with
  | ["db", ns] =>
    let n := natOfStr ns
    let m := modelDb n
    let mOut : List String := match m with
      | .ok s => ["ok", String.ofList s] | .panic => ["panic"] | .fuel => ["timeout"]
    let outN := if status out = "ok" then out else [status out]
    let inDom := 1 ≤ n ∧ n ≤ 11
    let j := match out with
      | ["ok", s] => Spec.checkWith (passes n) n s.toList
      | _ => false
    let tableOk := match generatedSeq n, out with
      | some g, ["ok", s] => s.toList == g
      | some _, _ => false
      | none, _ => true
    { corr := outN == mOut && tableOk, judge := if inDom then some j else none,
      cls := (if n = 0 then "triv:" else "") ++ "db/" ++ toString n,
      detail := if !tableOk then "the reply differs from the extracted certificate table Gen/DeBruijnCert" ++ toString n
        else if outN == mOut then "" else
        match m with
        | .ok s => "model: " ++ (String.ofList (s.take 80)) ++ (if s.length > 80 then "…(" ++ toString s.length ++ ")" else "")
        | .panic => "model: panic" | .fuel => "model: fuel" }
  | "bc" :: rest =>
    match parseBc rest with
    | none => { corr := false, judge := none, cls := "bad-case", detail := "bad case" }
    | some c =>
      let reply := match out with | "ok" :: r => some r | _ => none
      let v := judgeBc c reply (status out)
      { corr := v.corr, judge := if v.inDom then some v.pass else none, cls := v.cls, detail := v.detail }
  | "hist" :: ms :: rest =>
    match (splitHist (natOfStr ms) rest).bind (fun cs => cs.mapM parseBc) with
    | none => { corr := false, judge := none, cls := "bad-case", detail := "bad case" }
    | some cs =>
      let replies : List (Option (List String)) := match out with
        | "ok" :: r => if r.length = 4 * cs.length then (chunks4 r).map some else cs.map fun _ => none
        | _ => cs.map fun _ => none
      let vs := (cs.zip replies).map fun (c, r) => judgeBc c r (if r.isSome then "ok" else status out)
      { corr := vs.all (·.corr), judge := if vs.all (·.inDom) then some (vs.all (·.pass)) else none,
        cls := "hist/" ++ "-".intercalate (cs.map fun c => toString c.n),
        detail := " | ".intercalate ((vs.filter fun v => !v.corr || !v.pass).map (·.detail)) }
  | _ => { corr := false, judge := none, cls := "bad-case", detail := "bad case" }

def driver : PropDriver := { render, judge }
end PolyVerif.Driver.C17
