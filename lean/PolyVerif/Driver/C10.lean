import PolyVerif.Model.Digest
import PolyVerif.Spec.Digest
namespace PolyVerif.Driver.C10
open PolyVerif PolyVerif.Digest PolyVerif.DigestSpec

/-
Abstract cases (one case carries a whole relation; every sequence the real code sees is
produced here by the functions the theorems quantify over: `Spec.rotl`, `recase`):
  circ name site skip oh dir seq rots       : circular part, rotations `rots` = "all" | "k1,k2,…"
  lin  name site skip oh dir seq            : linear part
  case name site skip oh dir circ seq mask  : seq vs recase mask seq
`name` = a built-in enzyme (geometry taken from the REBASE-pinned spec table, the request then
also goes through CutWithEnzymeByName) or "" for a custom enzyme given by site/skip/oh
(any other name: custom enzyme + a ByName call that must be refused).
Request:  cut name site rcsite skip oh dir circ seq…
Reply:    ok (direct byname)…   one pair of fields per sequence, each `ok|fwd,seq,rev;…` | panic | err | -
-/

def b (s : String) : Bool := s == "true"

def recase (mask s : Str) : Str :=
  if mask.isEmpty then s else
  (s.zipIdx).map fun (c, i) => if mask[i % mask.length]! == 'l' then c.toLower else c.toUpper

def geometryOf (name site skip oh : String) : Geometry :=
  match builtin.lookup name with
  | some g => g
  | none => ⟨site.toList, natOfStr skip, natOfStr oh⟩

/-- the `clone.Enzyme` value handed to CutWithEnzyme for a geometry -/
def enzymeOf (name : String) (g : Geometry) : Enzyme :=
  ⟨name, g.site, rcSite g.site, g.skip, g.oh, g.site⟩

def encFragments (fs : List (Str × Str × Str)) : String :=
  "ok|" ++ ";".intercalate (fs.map fun (a, s, r) => String.ofList a ++ "," ++ String.ofList s ++ "," ++ String.ofList r)

def encOutcome : Outcome (List Fragment) → String
  | .ok fs => encFragments (fs.map fun f => (f.fwd, f.seq, f.rev))
  | .err => "err"
  | .panic => "panic"

def decFragments (s : String) : Option (List (Str × Str × Str)) :=
  if s == "ok|" then some [] else
  if !s.startsWith "ok|" then none else
  let body := (s.drop 3).toString
  (body.splitOn ";").mapM fun t =>
    match t.splitOn "," with
    | [a, m, r] => some (a.toList, m.toList, r.toList)
    | _ => none

structure Case where
  kind : String
  name : String
  g : Geometry
  dir : Bool
  circ : Bool
  seqs : List Str

def rotsOf (seq : Str) (rots : String) : List Nat :=
  if rots == "all" then List.range seq.length
  else if rots == "" then [0] else (rots.splitOn ",").map natOfStr

def parse (f : List String) : Option Case :=
  match f with
  | ["circ", name, site, skip, oh, dir, seq, rots] =>
    some ⟨"circ", name, geometryOf name site skip oh, b dir, true, (rotsOf seq.toList rots).map fun k => Spec.rotl k seq.toList⟩
  | ["lin", name, site, skip, oh, dir, seq] =>
    some ⟨"lin", name, geometryOf name site skip oh, b dir, false, [seq.toList]⟩
  | ["case", name, site, skip, oh, dir, circ, seq, mask] =>
    some ⟨"case", name, geometryOf name site skip oh, b dir, b circ, [seq.toList, recase mask.toList seq.toList]⟩
  | _ => none

def render (f : List String) : List String :=
  match parse f with
  | none => ["bad"]
  | some c =>
    ["cut", c.name, String.ofList c.g.site, String.ofList (rcSite c.g.site), toString c.g.skip, toString c.g.oh,
     boolStr c.dir, boolStr c.circ] ++ c.seqs.map String.ofList

def modelReply (c : Case) : List String :=
  "ok" :: c.seqs.flatMap fun s =>
    [encOutcome (cutWithEnzyme s c.circ c.dir (enzymeOf c.name c.g)),
     if c.name == "" then "-" else encOutcome (cutWithEnzymeByName s c.circ c.dir c.name)]

/-- pairs (direct, byname) of the reply -/
def pairsOf : List String → List (String × String)
  | a :: b :: r => (a, b) :: pairsOf r
  | _ => []

/-- `x` occurs as a contiguous substring of `u` -/
def isInfix (x u : Str) : Bool := (List.range (u.length + 1)).any fun i => x.isPrefixOf (u.drop i)

def judge (f out : List String) : Verdict :=
  match parse f with
  | none => { corr := false, judge := none, cls := "bad-case" }
  | some c =>
    let m := modelReply c
    let corr := out == m
    let s0 := c.seqs.headD []
    let u0 := s0.map Char.toUpper
    let isBuiltin := (builtin.lookup c.name).isSome
    let pairs := match out with | "ok" :: r => pairsOf r | _ => []
    let shapeOk := pairs.length == c.seqs.length
    -- the spec is evaluated through the array-backed reading function (`letterA_eq`: equal to `letter u0`)
    let arr := u0.toArray
    let w := letterA arr
    let n := arr.size
    let nsites := if c.circ then (sites w n c.g.site).length + (sites w n (rcSite c.g.site)).length
                  else (linSites w n c.g.site).length + (linSites w n (rcSite c.g.site)).length
    let expected := if c.circ then digestW c.g w n else digestLinW c.g w n
    let inDom := c.dir && (if c.circ then wfLayoutW c.g w n else wfLinearW c.g w n) && (c.name == "" || isBuiltin)
    let decoded := pairs.map fun (d, _) => decFragments d
    -- ByName must agree with the direct call for a built-in enzyme
    let byNameOk := pairs.all fun (d, n) => if isBuiltin then d == n else true
    let j : Bool :=
      shapeOk && byNameOk &&
      (match c.kind with
       | "case" =>
         -- letter case is irrelevant: identical answers, and the geometry clause on both
         (match decoded with
          | [some a, some b'] => a == b' && a.isPerm expected
          | _ => false)
       | "lin" =>
         (match decoded with
          | [some a] => a.isPerm expected && a.all fun (x, y, z) => isInfix (x ++ y ++ z) u0
          | _ => false)
       | _ =>
         -- every rotation yields the spec's multiset for the cyclic word (hence the same one)
         decoded.all fun d => match d with
           | some a => a.isPerm expected
           | none => false)
    let enz := if isBuiltin then c.name else if c.name == "" then "custom" else "unknown"
    let cls := (if nsites == 0 then "triv:" else "") ++ c.kind ++ (if c.kind == "case" then (if c.circ then "C" else "L") else "")
                ++ "/" ++ enz ++ (if c.dir then "" else "/nondir")
                ++ "/s" ++ toString nsites ++ "f" ++ toString expected.length
    { corr := corr, judge := if inDom then some j else none, cls := cls,
      detail := if corr && (j || !inDom) then "" else
        "model: " ++ lineOf m ++ " | spec: " ++ encFragments expected }

def driver : PropDriver := { render, judge }
end PolyVerif.Driver.C10
