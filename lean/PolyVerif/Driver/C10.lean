import PolyVerif.Model.Digest
import PolyVerif.Spec.Digest
namespace PolyVerif.Driver.C10
open PolyVerif PolyVerif.Digest PolyVerif.DigestSpec

/-
Abstract cases (one case carries a whole relation; every sequence the real code sees is
produced here by the functions the theorems quantify over: `Spec.rotl`, `recase`):
  circ name site skip oh dir seq rots       : circular part, rotations `rots` = "all" | "k1,k2,…"
  lin  name site skip oh dir seq            : linear part
  case name site skip oh dir circ seq mask  : seq vs recase mask seq
  hist name site skip oh seq [order]        : the SAME stored string through a fixed history of calls
                                              (circular/linear, directional or not) in one process; correspondence
                                              and judgement are decided PER STEP: only the steps whose call lies
                                              inside the quantifier count, the others are drift (`step-drift`)
`name` = a built-in enzyme (geometry taken from the REBASE-pinned spec table, the request then
also goes through CutWithEnzymeByName) or "" for a custom enzyme given by site/skip/oh
(any other name: custom enzyme + a ByName call that must be refused).
Request:  cut name site rcsite skip oh dir circ seq…   |   cuthist name site rcsite skip oh seq steps   (steps = cd,ld,cn,… : circular/linear, directional/non-directional)
Reply:    ok (direct byname)…   one pair of fields per sequence / call, each `ok|fwd,seq,rev;…` | panic | err | -
Correspondence compares each fragment list as a MULTISET (the property's observation); a reply that has
the model's fragments in another order is tagged `order-differs` in the class, not counted as a disagreement.
-/

def b (s : String) : Bool := s == "true"

def recase (mask s : Str) : Str :=
  if mask.isEmpty then s else
  (s.zipIdx).map fun (c, i) => if mask[i % mask.length]! == 'l' then c.toLower else c.toUpper

def geometryOf (name site skip oh : String) : Geometry :=
  match builtin.lookup name with
  | some g => g
  | none => ⟨site.toList, natOfStr skip, natOfStr oh⟩

/-- the `clone.Enzyme` value handed to CutWithEnzyme for a geometry -/
def enzymeOf (name : String) (g : Geometry) : Enzyme :=
  ⟨name, g.site, rcSite g.site, g.skip, g.oh, g.site⟩

def encFragments (fs : List (Str × Str × Str)) : String :=
  "ok|" ++ ";".intercalate (fs.map fun (a, s, r) => String.ofList a ++ "," ++ String.ofList s ++ "," ++ String.ofList r)

def encOutcome : Outcome (List Fragment) → String
  | .ok fs => encFragments (fs.map fun f => (f.fwd, f.seq, f.rev))
  | .err => "err"
  | .panic => "panic"

def decFragments (s : String) : Option (List (Str × Str × Str)) :=
  if s == "ok|" then some [] else
  if !s.startsWith "ok|" then none else
  let body := (s.drop 3).toString
  (body.splitOn ";").mapM fun t =>
    match t.splitOn "," with
    | [a, m, r] => some (a.toList, m.toList, r.toList)
    | _ => none

structure Case where
  kind : String
  name : String
  g : Geometry
  dir : Bool
  circ : Bool
  seqs : List Str
  steps : List (Bool × Bool) := []

def rotsOf (seq : Str) (rots : String) : Option (List Nat) :=
  if rots == "all" then some (List.range seq.length)
  else (rots.splitOn ",").mapM fun t => if t.isEmpty then none else t.toNat?

/-- the call histories of a `hist` case, (circular, directional) per step.  Order 0 starts with the
directional calls; order 1 STARTS with the non-directional ones, so that state leaking from a
non-directional call into a later directional call of the same stored string is exercised. -/
def history (order : String) : List (Bool × Bool) :=
  if order == "1" then
    [(true, false), (true, true), (false, false), (false, true), (true, true), (false, true), (true, false)]
  else
    [(true, true), (false, true), (true, true), (false, false), (false, true), (true, false), (true, true)]

def parse (f : List String) : Option Case :=
  match f with
  | ["circ", name, site, skip, oh, dir, seq, rots] =>
    (rotsOf seq.toList rots).map fun ks =>
      ⟨"circ", name, geometryOf name site skip oh, b dir, true, ks.map fun k => Spec.rotl k seq.toList, []⟩
  | ["hist", name, site, skip, oh, seq] =>
    some ⟨"hist", name, geometryOf name site skip oh, true, true, [seq.toList], history "0"⟩
  | ["hist", name, site, skip, oh, seq, order] =>
    some ⟨"hist", name, geometryOf name site skip oh, true, true, [seq.toList], history order⟩
  | ["lin", name, site, skip, oh, dir, seq] =>
    some ⟨"lin", name, geometryOf name site skip oh, b dir, false, [seq.toList], []⟩
  | ["case", name, site, skip, oh, dir, circ, seq, mask] =>
    some ⟨"case", name, geometryOf name site skip oh, b dir, b circ, [seq.toList, recase mask.toList seq.toList], []⟩
  | _ => none

def render (f : List String) : List String :=
  match parse f with
  | none => ["bad"]
  | some c =>
    if c.kind == "hist" then
      ["cuthist", c.name, String.ofList c.g.site, String.ofList (rcSite c.g.site), toString c.g.skip, toString c.g.oh]
        ++ c.seqs.map String.ofList ++ [",".intercalate (c.steps.map fun (ci, di) => (if ci then "c" else "l") ++ (if di then "d" else "n"))]
    else
    ["cut", c.name, String.ofList c.g.site, String.ofList (rcSite c.g.site), toString c.g.skip, toString c.g.oh,
     boolStr c.dir, boolStr c.circ] ++ c.seqs.map String.ofList

def modelReply (c : Case) : List String :=
  if c.kind == "hist" then
    "ok" :: c.steps.flatMap fun (circ, dir) =>
      [encOutcome (cutWithEnzyme (c.seqs.headD []) circ dir (enzymeOf c.name c.g)), "-"]
  else
  "ok" :: c.seqs.flatMap fun s =>
    [encOutcome (cutWithEnzyme s c.circ c.dir (enzymeOf c.name c.g)),
     if c.name == "" then "-" else encOutcome (cutWithEnzymeByName s c.circ c.dir c.name)]

/-- pairs (direct, byname) of the reply -/
def pairsOf : List String → List (String × String)
  | a :: b :: r => (a, b) :: pairsOf r
  | _ => []

/-- `x` occurs as a contiguous substring of `u` -/
def isInfix (x u : Str) : Bool := (List.range (u.length + 1)).any fun i => x.isPrefixOf (u.drop i)

/-- two reply fields agree: identical, or fragment lists that are equal as multisets -/
def sameField (a b : String) : Bool :=
  a == b || (match decFragments a, decFragments b with
    | some x, some y => x.isPerm y
    | _, _ => false)

def sameReply : List String → List String → Bool
  | [], [] => true
  | a :: as, b :: bs => sameField a b && sameReply as bs
  | _, _ => false

def judge (f out : List String) : Verdict :=
  match parse f with
  | none => { corr := false, judge := none, cls := "bad-case" }
  | some c =>
    let m := modelReply c
    let corrAll := sameReply out m
    let s0 := c.seqs.headD []
    let u0 := s0.map Char.toUpper
    let isBuiltin := (builtin.lookup c.name).isSome
    let isHist := c.kind == "hist"
    let pairs := match out with | "ok" :: r => pairsOf r | _ => []
    let modelPairs := match m with | "ok" :: r => pairsOf r | _ => []
    let shapeOk := pairs.length == (if isHist then c.steps.length else c.seqs.length)
    -- the spec is evaluated through the array-backed reading function (`letterA_eq`: equal to `letter u0`)
    let arr := u0.toArray
    let w := letterA arr
    let n := arr.size
    let nsites := if c.circ then (sites w n c.g.site).length + (sites w n (rcSite c.g.site)).length
                  else (linSites w n c.g.site).length + (linSites w n (rcSite c.g.site)).length
    let expC := digestW c.g w n
    let expL := digestLinW c.g w n
    -- coincident forward/reverse cuts of a blunt cutter: the statement leaves the tie open, so a reply may
    -- follow either resolution (`stretch` / `stretchAlt`; they agree on every other layout: tie_free_*)
    let coinC := !noCoincident c.g w n
    let coinL := !noCoincidentLin c.g w n
    let altC := if coinC then digestAltW c.g w n else expC
    let altL := if coinL then digestLinAltW c.g w n else expL
    let exp : Bool → List (Str × Str × Str) := fun circ => if circ then expC else expL
    let alt : Bool → List (Str × Str × Str) := fun circ => if circ then altC else altL
    let expected := exp c.circ
    let wf : Bool → Bool := fun circ => if circ then wfLayoutW c.g w n else wfLinearW c.g w n
    let accept : Bool → List (Str × Str × Str) → Bool := fun circ a => a.isPerm (exp circ) || a.isPerm (alt circ)
    -- the quantifier speaks of sequences of bases: a stored string with anything but letters (digits, blanks,
    -- punctuation) is outside it - kept as a correspondence probe, drift only
    let lettersOnly := c.seqs.all fun s => s.all Char.isAlpha
    -- a step of a history is inside the quantifier when it is directional and its topology's layout is;
    -- the other steps (non-directional, cuts too close …) are correspondence drift only
    let stepDom : Bool × Bool → Bool := fun (circ, dir) => dir && lettersOnly && wf circ
    let inDom := c.dir && lettersOnly && (c.name == "" || isBuiltin) &&
      (if isHist then c.steps.any stepDom else wf c.circ)
    -- correspondence of one reply field with the model's: equal as multisets, or (coincident cuts only) the other reading
    let fieldCorr : Bool → String → String → Bool := fun circ d md =>
      sameField d md || (wf circ && (match decFragments d with
        | some a => a.isPerm (alt circ)
        | none => false))
    let corr :=
      if isHist then
        shapeOk && ((pairs.zip modelPairs).zip c.steps).all fun (((d, _), (md, _)), h) => !stepDom h || fieldCorr h.1 d md
      else corrAll || (inDom && shapeOk && (pairs.zip modelPairs).all fun ((d, nm), (md, mn)) =>
        fieldCorr c.circ d md && (nm == mn || fieldCorr c.circ nm mn))
    let orderDiffers := corr && out != m && corrAll
    let stepDrift := isHist && corr && !corrAll
    let coincident := if c.circ then coinC else coinL
    let decoded := pairs.map fun (d, _) => decFragments d
    -- ByName must agree with the direct call for a built-in enzyme
    let byNameOk := pairs.all fun (d, n) => if isBuiltin && !isHist then sameField d n else true
    -- all replies (rotations of one plasmid) are the same multiset
    let allSame := match decoded with
      | some a :: rest => rest.all fun d => match d with | some b' => a.isPerm b' | none => false
      | _ => decoded.isEmpty
    let j : Bool :=
      shapeOk && byNameOk &&
      (match c.kind with
       | "case" =>
         -- letter case is irrelevant: identical answers, and the geometry clause on both
         (match decoded with
          | [some a, some b'] => a.isPerm b' && accept c.circ a
          | _ => false)
       | "lin" =>
         (match decoded with
          | [some a] => accept false a && a.all fun (x, y, z) => isInfix (x ++ y ++ z) u0
          | _ => false)
       | "hist" =>
         -- every directional call of the history returns the spec's multiset for its topology
         decoded.length == c.steps.length &&
         (decoded.zip c.steps).all fun (d, (circ, dir)) =>
           !stepDom (circ, dir) || (match d with
             | some a => accept circ a
             | none => false)
       | _ =>
         -- every rotation yields the spec's multiset for the cyclic word, and all rotations the SAME multiset
         allSame && decoded.all fun d => match d with
           | some a => accept true a
           | none => false)
    let tieAlt := inDom && j && decoded.any fun d => match d with
      | some a => !(a.isPerm expected) && !isHist
      | none => false
    let enz := if isBuiltin then c.name else if c.name == "" then "custom" else "unknown"
    let cls := (if nsites == 0 then "triv:" else "") ++ c.kind ++ (if c.kind == "case" then (if c.circ then "C" else "L") else "")
                ++ "/" ++ enz ++ (if c.dir then "" else "/nondir")
                ++ "/s" ++ toString nsites ++ "f" ++ toString expected.length
                ++ (if c.g.oh == 0 then "/blunt" else "") ++ (if coincident then "/coincident" else "")
                ++ (if lettersOnly then "" else "/nonletters") ++ (if tieAlt then "/tie-alt" else "")
                ++ (if orderDiffers then " order-differs" else "") ++ (if stepDrift then " step-drift" else "")
    { corr := corr, judge := if inDom then some j else none, cls := cls,
      detail := if corr && (j || !inDom) then "" else
        "model: " ++ lineOf m ++ " | spec: " ++ encFragments expected ++
          (if coincident then " | other tie reading: " ++ encFragments (alt c.circ) else "") }

def driver : PropDriver := { render, judge }
end PolyVerif.Driver.C10
