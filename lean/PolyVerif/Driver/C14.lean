import PolyVerif.Model.Gff
import PolyVerif.Spec.GffLayout
/-
Driver of C14.  Abstract cases:

  build  name version rstart rend locusName accession locusSeqLen seq nfeat
         { name source type start end score strand phase nattr { key value } }
     → request `gff_roundtrip …` (the real Build, Parse∘Build, GetSequence of every parsed
       feature, Write/Read through a file)
  buildx …   the same as `build`; Build's text is compared byte for byte (`build`: up to the position of
             the newlines inside the sequence, see `canonText`)
  layout version region first last defline seq nfeat
         { seqid source type first last score strand phase nattr { key value } }
         nbetween { n { line } } nafter { line } nfasta { n { line } } widths finalNewline
         npre { line } trailingSemi crlf
     → request `gff_parse <text>` where `<text> = Spec.GffLayout.layout d ℓ`
-/
namespace PolyVerif.Driver.C14
open PolyVerif PolyVerif.LineText PolyVerif.Gff PolyVerif.Spec.GffLayout

def str (s : Str) : String := String.ofList s

def intOfStr (s : String) : Int :=
  match s.toList with
  | '-' :: r => -((String.ofList r).toNat?.getD 0 : Nat)
  | _ => (s.toNat?.getD 0 : Nat)

def showInt (i : Int) : String := str (itoa i)

/-! ### decoding the case fields -/

def takePairs : Nat → List String → Option (List (Str × Str) × List String)
  | 0, r => some ([], r)
  | n + 1, k :: v :: r => (takePairs n r).map fun (ps, r') => ((k.toList, v.toList) :: ps, r')
  | _, _ => none

def takeFeats : Nat → List String → Option (List Feature × List String)
  | 0, r => some ([], r)
  | n + 1, nm :: so :: ty :: st :: en :: sc :: sd :: ph :: na :: r =>
    match takePairs (natOfStr na) r with
    | some (ps, r') =>
      (takeFeats n r').map fun (fs, r'') =>
        ({ name := nm.toList, source := so.toList, type := ty.toList, start := intOfStr st, stop := intOfStr en,
           score := sc.toList, strand := sd.toList, phase := ph.toList, attrs := ps } :: fs, r'')
    | none => none
  | _, _ => none

def takeStrs : Nat → List String → Option (List Str × List String)
  | 0, r => some ([], r)
  | n + 1, s :: r => (takeStrs n r).map fun (ss, r') => (s.toList :: ss, r')
  | _, _ => none

def decodeBuild : List String → Option Gff
  | name :: ver :: rs :: re :: ln :: acc :: lsl :: seq :: nf :: r =>
    match takeFeats (natOfStr nf) r with
    | some (fs, []) =>
      some { name := name.toList, gffVersion := ver.toList, regionStart := intOfStr rs, regionEnd := intOfStr re,
             locusName := ln.toList, accession := acc.toList, locusSeqLen := lsl.toList, seq := seq.toList, features := fs }
    | _ => none
  | _ => none

def natList (s : String) : List Nat :=
  if s.isEmpty then [] else (s.splitOn ",").map natOfStr

/-- widths in the compact form `w*k,w*k,…` (`w` repeated `k` times) -/
def widthList (s : String) : List Nat :=
  if s.isEmpty then [] else
  (s.splitOn ",").flatMap fun item =>
    match item.splitOn "*" with
    | [w, k] => List.replicate (natOfStr k) (natOfStr w)
    | _ => [natOfStr item]

def toFeatLine (f : Feature) : FeatLine :=
  { seqid := f.name, source := f.source, type := f.type, first := f.start, last := f.stop,
    score := f.score, strand := f.strand, phase := f.phase, attrs := f.attrs }

def takeGroups : Nat → List String → Option (List (List Str) × List String)
  | 0, r => some ([], r)
  | n + 1, k :: r =>
    match takeStrs (natOfStr k) r with
    | some (g, r') => (takeGroups n r').map fun (gs, r'') => (g :: gs, r'')
    | none => none
  | _, _ => none

def decodeLayout : List String → Option (GffDoc × Layout)
  | ver :: region :: rf :: rl :: defline :: seq :: nf :: r =>
    match takeFeats (natOfStr nf) r with
    | some (fs, nb :: r1) =>
      match takeGroups (natOfStr nb) r1 with
      | some (between, na :: r2) =>
        match takeStrs (natOfStr na) r2 with
        | some (after, nfb :: r3) =>
          match takeGroups (natOfStr nfb) r3 with
          | some (fastaBetween, widths :: fnl :: np :: r4) =>
            match takeStrs (natOfStr np) r4 with
            | some (pre, [semi, crlf]) =>
              some ({ version := ver.toList, region := region.toList, regionFirst := intOfStr rf, regionLast := intOfStr rl,
                      feats := fs.map toFeatLine, defline := defline.toList, seq := seq.toList },
                    { between := between, after := after, fastaBetween := fastaBetween, widths := widthList widths,
                      finalNewline := fnl == "true", preRegion := pre, trailingSemi := semi == "true", crlf := crlf == "true" })
            | _ => none
          | _ => none
        | _ => none
      | _ => none
    | _ => none
  | _ => none

/-! ### canonical rendering of a parse result (the harness prints the same fields) -/

def showFeat (parent : Str) (f : Feature) : List String :=
  [str f.name, str f.source, str f.type, showInt f.start, showInt f.stop, str f.score, str f.strand, str f.phase,
   toString f.attrs.length]
  ++ (sortedEntries [] f.attrs).flatMap (fun kv => [str kv.1, str kv.2])
  ++ (match getSeq parent f with | .ok s => ["ok", str s] | _ => ["panic", ""])

def showGff (g : Gff) : List String :=
  [str g.name, str g.gffVersion, showInt g.regionStart, showInt g.regionEnd, showInt g.size, str g.description,
   str g.seq, toString g.features.length] ++ g.features.flatMap (showFeat g.seq)

def showParse : Outcome Gff → List String
  | .ok g => "ok" :: showGff g
  | _ => ["panic"]

/-! ### reading the implementation's reply back -/

structure GotFeat where
  f : Feature
  gsOk : Bool
  gs : Str

def readFeats : Nat → List String → Option (List GotFeat × List String)
  | 0, r => some ([], r)
  | n + 1, nm :: so :: ty :: st :: en :: sc :: sd :: ph :: na :: r =>
    match takePairs (natOfStr na) r with
    | some (ps, gst :: gsv :: r') =>
      (readFeats n r').map fun (fs, r'') =>
        ({ f := { name := nm.toList, source := so.toList, type := ty.toList, start := intOfStr st, stop := intOfStr en,
                  score := sc.toList, strand := sd.toList, phase := ph.toList, attrs := ps },
           gsOk := gst == "ok", gs := gsv.toList } :: fs, r'')
    | _ => none
  | _, _ => none

structure Got where
  name : Str
  version : Str
  rstart : Int
  rend : Int
  seq : Str
  feats : List GotFeat

/-- status `ok` + fields + trailing `rw-…` flag -/
def readReply : List String → Option (Got × String)
  | "ok" :: name :: ver :: rs :: re :: _size :: _desc :: seq :: nf :: r =>
    match readFeats (natOfStr nf) r with
    | some (fs, [rw]) => some ({ name := name.toList, version := ver.toList, rstart := intOfStr rs, rend := intOfStr re,
                                 seq := seq.toList, feats := fs }, rw)
    | _ => none
  | _ => none

/-- equal as maps: same number of entries and every entry of `a` occurs in `b` -/
def sameMap (a b : List (Str × Str)) : Bool := a.length == b.length && a.all fun kv => b.contains kv

/-- the coordinate law on one parsed feature: GetSequence is bases `first..last` of the sequence
(judged when the interval lies inside the sequence; `first = last + 1` is the empty interval) -/
def coordOk (seq : Str) (first last : Int) (g : GotFeat) : Bool :=
  if 1 ≤ first ∧ first ≤ last + 1 ∧ last ≤ seq.length then
    g.gsOk && g.gs == bases seq first.toNat last.toNat
  else true

def all2 {α β : Type} (p : α → β → Bool) : List α → List β → Bool
  | [], [] => true
  | a :: as, b :: bs => p a b && all2 p as bs
  | _, _ => false

/-- the property on a Build round trip: every field that is set in `x` comes back unchanged -/
def preserved (x : Gff) (y : Got) : Bool :=
  (x.name.isEmpty || y.name == x.name)
  && (x.regionStart == 0 || y.rstart == x.regionStart)
  && (x.regionEnd == 0 || y.rend == x.regionEnd)
  && y.seq == x.seq
  && all2 (fun (f : Feature) (g : GotFeat) =>
        ((f.name.isEmpty && !x.locusName.isEmpty) || g.f.name == f.name)
        && (f.source.isEmpty || g.f.source == f.source)
        && (f.type.isEmpty || g.f.type == f.type)
        && g.f.score == f.score && g.f.strand == f.strand && g.f.phase == f.phase
        && g.f.start == f.start && g.f.stop == f.stop
        && sameMap f.attrs g.f.attrs
        && coordOk x.seq (f.start + 1) f.stop g) x.features y.feats

/-- the property on a laid-out document: the parse is what the document denotes -/
def denoted (d : GffDoc) (y : Got) : Bool :=
  y.name == d.region && y.version == d.version && y.rstart == d.regionFirst && y.rend == d.regionLast
  && y.seq == d.seq
  && all2 (fun (f : FeatLine) (g : GotFeat) =>
        g.f.name == f.seqid && g.f.source == f.source && g.f.type == f.type
        && g.f.score == f.score && g.f.strand == f.strand && g.f.phase == f.phase
        && g.f.start == f.first - 1 && g.f.stop == f.last
        && sameMap f.attrs g.f.attrs
        && coordOk d.seq f.first f.last g) d.feats y.feats

/-- Build's text up to the position of the newlines inside the sequence: the lines through the
FASTA definition line, then the sequence letters (`Props/C14.parse_buildWith` holds for every
line-break rule, so only this much of the text matters for the property) -/
def canonText (t : String) : String :=
  let ls := split '\n' t.toList
  let pre := ls.takeWhile (· != sFasta)
  let post := ls.dropWhile (· != sFasta)
  String.ofList (joinSep '\n' (pre ++ post.take 2) ++ '\n' :: (post.drop 2).flatten)

def canonReply : List String → List String
  | st :: text :: rest => st :: canonText text :: rest
  | o => o


/-! ### GetSequence of a feature whose span leaves the sequence is outside the quantifier -/

/-- the feature fields of a parse reply with the GetSequence status and value blanked for every feature
whose span `[start, end)` does not lie inside the sequence ("bases start..end of the file's sequence"
do not exist there: what GetSequence does — today a slice panic — is not constrained) -/
def maskFeats : Nat → Nat → List String → List String
  | 0, _, r => r
  | n + 1, len, nm :: so :: ty :: st :: en :: sc :: sd :: ph :: na :: r =>
    let k := 2 * natOfStr na
    let attrs := r.take k
    match r.drop k with
    | gst :: gsv :: r' =>
      let a := intOfStr st
      let b := intOfStr en
      let inside := decide (0 ≤ a ∧ a ≤ b ∧ b ≤ (len : Int))
      [nm, so, ty, st, en, sc, sd, ph, na] ++ attrs ++ (if inside then [gst, gsv] else ["-", "-"]) ++ maskFeats n len r'
    | rest => [nm, so, ty, st, en, sc, sd, ph, na] ++ attrs ++ rest
  | _, _, r => r

/-- a parse reply (`ok` name version rstart rend size desc seq nfeat features… flag) with out-of-sequence
GetSequence results blanked; anything else unchanged -/
def maskParse : List String → List String
  | "ok" :: name :: ver :: rs :: re :: size :: desc :: seq :: nf :: r =>
    ["ok", name, ver, rs, re, size, desc, seq, nf] ++ maskFeats (natOfStr nf) seq.length r
  | o => o

/-- a `gff_roundtrip` reply `ok text parse…`: the parse part masked -/
def maskBuildReply : List String → List String
  | st :: text :: rest => st :: text :: maskParse rest
  | o => o

def render (c : List String) : List String :=
  match c with
  | "build" :: r => "gff_roundtrip" :: r
  | "buildx" :: r => "gff_roundtrip" :: r
  | "layout" :: r =>
    match decodeLayout r with
    | some (d, ℓ) => ["gff_parse", str (layout d ℓ)]
    | none => ["bad"]
  | _ => ["bad"]

def lenClass (n : Nat) : String :=
  if n % 70 == 0 then "len%70=0" else if n % 70 == 1 then "len%70=1" else "len%70=other"

/-- the judge's domain for a Build round trip: the quantifier as worded (`wfBuildQ`: a seqid may begin
with `#`), and a blank inside GffVersion (a field the property does not speak about) does not take the
record out of the domain -/
def inBuildDomain (x : Gff) : Bool := wfBuildQ { x with gffVersion := x.gffVersion.filter (· != ' ') }

/-- a reply that says the library call did not come back normally: harness status `timeout`, `crash`,
`race`, `panic`, `err`, a missing reply, or a recovered panic of Parse (`ok … panic`) -/
def abnormal (out : List String) : Bool :=
  match out with
  | "ok" :: rest => rest.contains "panic"
  | _ => true

/-- verdict of the property on a case OUTSIDE the quantifier: nothing is demanded of the result, but a
call that hangs, crashes or panics where the model predicts a normal return is a failure all the same -/
def outsideVerdict (same : Bool) (out : List String) : Option Bool :=
  if abnormal out && !same then some false else none

def judgeBuild (exact : Bool) (r out : List String) : Verdict :=
    match decodeBuild r with
    | none => { corr := false, judge := none, cls := "bad-case", detail := "bad case" }
    | some x =>
      let text := build x
      let m := ["ok", str text] ++ showParse (parse text) ++ ["rw-same"]
      let inDom := inBuildDomain x
      let j := match out with
        | "ok" :: _ :: rest =>
          (match readReply rest with
           | some (y, rw) => preserved x y && rw == "rw-same"
           | none => false)
        | _ => false
      -- the known finding, exactly: everything but the '#'-seqid features is preserved (`Props/C14.parse_build_hash`)
      let jHash := match out with
        | "ok" :: _ :: rest =>
          (match readReply rest with
           | some (y, rw) => preserved (dropHash x) y && rw == "rw-same"
           | none => false)
        | _ => false
      let triv := x.features.isEmpty && x.seq.length < 70
      let reCls := if x.regionEnd == (x.seq.length : Int) then "re=len" else if x.regionEnd == 0 then "re=0"
                   else if x.regionEnd % 70 == 0 then "re=70k" else "re=other"
      let outM := maskBuildReply out
      let mM := maskBuildReply m
      let same0 := if exact then outM == mM else canonReply outM == canonReply mM
      -- a record of the known-finding class on which the property HOLDS of the reply (the finding has been repaired, e.g.
      -- by escaping the '#'): the model mirrors the loss, so a difference from it is drift there, not a DIFF
      let repaired := hashSeqid x && j && !same0
      let same := same0 || repaired
      { corr := same, judge := if inDom then some j else outsideVerdict same out,
        cls := (if triv then "triv:" else "") ++ (if exact then "buildx/" else "build/") ++ lenClass x.seq.length ++ "/" ++ reCls
               ++ (if x.features.any (fun f => f.attrs.isEmpty) then "/noattr" else "")
               -- the known finding is tagged only when the property holds of the record WITHOUT its '#'-seqid features:
               -- a second defect on such a record is a plain FAIL
               ++ (if hashSeqid x && !j && jHash then "/kf:C14-hash-seqid" else if hashSeqid x then "/hash-seqid" else "")
               ++ (if repaired then "/kf-repaired"
                   else if same && canonReply out != canonReply m then "/getseq-outside-drift" else if same && out != m then "/other-wrap" else ""),
        detail := if same && (j || !inDom) then "" else lineOf (m.drop 2) }

def judge (c out : List String) : Verdict :=
  match c with
  | "build" :: r => judgeBuild false r out
  | "buildx" :: r => judgeBuild true r out
  | "layout" :: r =>
    match decodeLayout r with
    | none => { corr := false, judge := none, cls := "bad-case", detail := "bad case" }
    | some (d, ℓ) =>
      let m := "ok" :: showParse (parse (layout d ℓ)) ++ ["rw-same"]
      let inDom := wfDoc d && wfLayout ℓ
      let j := match readReply (out.drop 1) with
        | some (y, rw) => denoted d y && rw == "rw-same"
        | none => false
      let triv := d.feats.isEmpty && d.seq.length < 70
      let same := (out.take 1 ++ maskParse (out.drop 1)) == (m.take 1 ++ maskParse (m.drop 1))
      { corr := same, judge := if inDom then some j else outsideVerdict same out,
        cls := (if triv then "triv:" else "") ++ "layout/" ++ lenClass d.seq.length
               ++ (if ℓ.trailingSemi then "/semi" else "") ++ (if ℓ.crlf then "/crlf" else "")
               ++ (if !ℓ.preRegion.isEmpty then "/pre" else "")
               ++ (if (ℓ.between.any (!·.isEmpty)) || !ℓ.fastaBetween.isEmpty then "/skips" else ""),
        detail := if same && (j || !inDom) then "" else lineOf m }
  | _ => { corr := false, judge := none, cls := "bad-case", detail := "bad case" }

def driver : PropDriver := { render, judge }
end PolyVerif.Driver.C14
